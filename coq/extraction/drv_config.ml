(* C20: run the extracted configuration model (Config.v interpreting the descriptors generated from
   config.rs / cli_config.rs) on the cases the Rust harness executed on the real from_file /
   Opt::from_iter / patch_with_options / verify; compare field by field (FAIL corr) and evaluate the
   property monitor `mon_fails` (extracted from Config.v) on the IMPLEMENTATION's observations
   (FAIL mon).  Case format: see harness/src/bin/cfg/main.rs. *)
open Model
open Driver_util

(* ---- text <-> OCaml strings (Model.text = ascii list; ascii = Ascii of 8 bools, low bit first) ---- *)
let ascii_of_char (c : char) : ascii =
  let n = Char.code c in
  let b i = (n lsr i) land 1 = 1 in
  Ascii (b 0, b 1, b 2, b 3, b 4, b 5, b 6, b 7)
let char_of_ascii (a : ascii) : char =
  match a with
  | Ascii (b0, b1, b2, b3, b4, b5, b6, b7) ->
      let v i b = if b then 1 lsl i else 0 in
      Char.chr (v 0 b0 + v 1 b1 + v 2 b2 + v 3 b3 + v 4 b4 + v 5 b5 + v 6 b6 + v 7 b7)
let text_of (s : String.t) : text = List.init (String.length s) (fun i -> ascii_of_char s.[i])
let str_of_text (t : text) : String.t =
  let b = Buffer.create 16 in List.iter (fun a -> Buffer.add_char b (char_of_ascii a)) t; Buffer.contents b

let val_of_tok (t : String.t) : cval =
  let k = String.sub t 0 2 and v = String.sub t 2 (String.length t - 2) in
  match k with
  | "s:" -> VStr (text_of v)
  | "n:" -> VNum (n_of_int (int_of_string v))
  | "b:" -> VBool (v = "1")
  | _ -> failwith ("bad value token " ^ t)
let tok_of_val (v : cval) : String.t =
  match v with
  | VStr s -> "s:" ^ str_of_text s
  | VNum n -> "n:" ^ string_of_int (int_of_n n)
  | VBool b -> if b then "b:1" else "b:0"

type stats = {
  mutable cases : int; mutable daemon_cases : int; mutable cli_cases : int;
  mutable corr_fail : int; mutable mon_fail : int;
  mutable ok : int; mutable e_noauth : int; mutable e_multi : int; mutable e_net : int;
  mutable clierr : int; mutable file_refused : int; mutable no_file : int;
  mutable both_sources : int; mutable port_defaulted : int; mutable exhaustive : int;
  distinct : (String.t, unit) Hashtbl.t; nontrivial : (String.t, unit) Hashtbl.t;
}
let st = { cases = 0; daemon_cases = 0; cli_cases = 0; corr_fail = 0; mon_fail = 0; ok = 0; e_noauth = 0;
           e_multi = 0; e_net = 0; clierr = 0; file_refused = 0; no_file = 0; both_sources = 0;
           port_defaulted = 0; exhaustive = 0; distinct = Hashtbl.create 4096; nontrivial = Hashtbl.create 4096 }

let docs = cfg_teosd_docs conf_template_entries

let has_prefix (p : String.t) (s : String.t) =
  String.length s >= String.length p && String.sub s 0 (String.length p) = p

(* the error classes of verify(): by the leading words of the message, as config.rs' own tests do *)
let class_of_msg (m : String.t) : String.t =
  if has_prefix "No valid bitcoind auth provided" m then "e_noauth"
  else if has_prefix "Multiple bitcoind auth provided" m then "e_multi"
  else if has_prefix "btc_network not recognized" m then "e_net"
  else "e_other"

let read_pairs r = read_list r (fun r -> let k = next r in let v = next r in (text_of k, val_of_tok v))

let handle (lineno : int) (line : String.t) (r : reader) : unit =
  let daemon = (next r = "D") in
  let f_tok = next r in assert (f_tok = "F");
  let mode = next_int r in
  let fentries = read_pairs r in
  let v_tok = next r in assert (v_tok = "V");
  let vals = read_pairs r in
  let g_tok = next r in assert (g_tok = "G");
  let flags = read_list r (fun r -> text_of (next r)) in
  let o_tok = next r in assert (o_tok = "OBS");
  let case_key =
    let rec find i = if i + 5 > String.length line then String.length line
      else if String.sub line i 5 = " OBS " then i else find (i + 1) in
    String.sub line 0 (find 0) in
  let file = if mode = 1 then Some fentries else None in
  let cl = cfg_mk_cli vals flags in
  let d = if daemon then teosd_descr else teoscli_descr in
  st.cases <- st.cases + 1;
  if daemon then st.daemon_cases <- st.daemon_cases + 1 else st.cli_cases <- st.cli_cases + 1;
  Hashtbl.replace st.distinct (Digest.string case_key) ();
  let failed_corr = ref false in
  let corr what model impl =
    if not !failed_corr then begin
      failed_corr := true; st.corr_fail <- st.corr_fail + 1;
      Printf.printf "FAIL corr line=%d %s model=[%s] impl=[%s] case=%s\n" lineno what model impl case_key
    end in
  let mon labels =
    st.mon_fail <- st.mon_fail + 1;
    Printf.printf "FAIL mon line=%d violated=%s case=%s\n" lineno (String.concat "," labels) case_key in
  if mode <> 1 then st.no_file <- st.no_file + 1
  else if cfg_file_seen d file = [] && fentries <> [] then st.file_refused <- st.file_refused + 1;
  if List.exists (fun (k, _) -> List.mem_assoc k vals || List.mem k flags) fentries then
    st.both_sources <- st.both_sources + 1;
  match peek r with
  | Some "P" ->
      ignore (next r);
      let m = match peek r with Some m -> m | None -> "?" in
      corr "panic" "no panic" m;
      mon ["panic:" ^ m]
  | Some "CLIERR" ->
      st.clierr <- st.clierr + 1;
      if cfg_cli_ok d cl then corr "command line refused by structopt" "accepted" "CLIERR"
  | _ ->
      let patched = read_pairs r in
      let model_ok = cfg_cli_ok d cl in
      if not model_ok then corr "command line" "refused (not a value an Opt can hold)" "accepted";
      let cmp_fields what (impl : (text * cval) list) model =
        let names = cfg_field_names d in
        List.iter (fun n ->
          if not (List.mem_assoc n impl) then corr (what ^ " field missing in impl: " ^ str_of_text n) "present" "absent") names;
        List.iter (fun (n, v) ->
          if not (List.mem n names) then corr (what ^ " unknown field in impl: " ^ str_of_text n) "absent" (tok_of_val v)
          else begin
            let mv = cfg_get model n in
            if mv <> v then corr (what ^ " " ^ str_of_text n) (tok_of_val mv) (tok_of_val v)
          end) impl in
      if daemon then begin
        let r_tok = next r in assert (r_tok = "R");
        let res = next r in
        let changed = read_pairs r in
        let final = changed @ List.filter (fun (k, _) -> not (List.mem_assoc k changed)) patched in
        (* correspondence *)
        let oc = cfg_run_daemon d teosd_vdescr file cl in
        if model_ok then begin
          cmp_fields "patched" patched (cfg_oc_patched oc);
          let mres = match cfg_oc_result oc with VOk -> "ok" | VErr m -> class_of_msg (str_of_text m) in
          if mres <> res then corr "verify" mres res;
          cmp_fields "final" final (cfg_oc_final oc)
        end;
        (match res with
         | "ok" -> st.ok <- st.ok + 1;
             if List.exists (fun (k, _) -> k = cfg_n_port) changed then st.port_defaulted <- st.port_defaulted + 1
         | "e_noauth" -> st.e_noauth <- st.e_noauth + 1
         | "e_multi" -> st.e_multi <- st.e_multi + 1
         | "e_net" -> st.e_net <- st.e_net + 1
         | _ -> ());
        (* the monitor on what the implementation did *)
        let impl_oc = cfg_mk_outcome patched (if res = "ok" then VOk else VErr (text_of res)) final in
        let bad = cfg_mon_fails d docs file cl impl_oc in
        if bad <> [] then mon (List.map str_of_text bad);
        if res = "e_other" then mon ["unknown_error_class"]
      end else begin
        let c = cfg_run_cli d file cl in
        if model_ok then cmp_fields "patched" patched c;
        let bad = cfg_mon_fails_cli d cfg_teoscli_docs file cl patched in
        if bad <> [] then mon (List.map str_of_text bad)
      end;
      if fentries <> [] || vals <> [] || flags <> [] then Hashtbl.replace st.nontrivial (Digest.string case_key) ()

let b2i b = if b then 1 else 0

let summary () =
  if st.cases > 0 then begin
    (* the premises of the theorems, re-evaluated on the extracted descriptors (diagnostic) *)
    let ((shape_ok, auth_ok), docs_ok) = cfg_verify_checks teosd_vdescr docs in
    Printf.printf "SUMMARY kind=CFG cases=%d daemon_cases=%d cli_cases=%d corr_fail=%d mon_fail=%d distinct=%d distinct_nontrivial=%d exhaustive_cases=%d both_sources=%d verify_ok=%d e_noauth=%d e_multi=%d e_net=%d port_defaulted=%d clierr=%d no_file=%d file_refused=%d conforms=%d conforms_cli=%d verify_shape=%d auth_table_ok=%d networks_documented=%d defaults_documented=%d\n"
      st.cases st.daemon_cases st.cli_cases st.corr_fail st.mon_fail (Hashtbl.length st.distinct)
      (Hashtbl.length st.nontrivial) st.exhaustive st.both_sources st.ok st.e_noauth st.e_multi st.e_net
      st.port_defaulted st.clierr st.no_file st.file_refused
      (b2i (cfg_conforms teosd_descr cfg_one_shot_names)) (b2i (cfg_conforms teoscli_descr []))
      (b2i shape_ok) (b2i auth_ok) (b2i docs_ok)
      (b2i (cfg_defaults_documented teosd_descr docs))
  end

let () =
  register "CFG" handle;
  register "CFGEXH" (fun _ _ r -> st.exhaustive <- st.exhaustive + next_int r);
  register_summary summary
