(* C15: every HTTP request gets a documented answer; bad ones change nothing.
   Runs the extracted model of the public HTTP API (Http.v over the tables generated from /repo) on the cases
   the Rust harness sent to the REAL router + tower, with the library-decided input classes the harness
   observed (method class, content-length as the server sees it, content-type class, serde's verdict on the
   body for each request type, the tonic code the real internal API returned), compares status / error
   code / forwarded?, and evaluates the property MONITOR on the implementation's observations alone:

     status      the status is 200, 4xx or 503                      catch-all    never error code 255
     error-body  documented endpoint + its method + acceptable content-length and not 200: a JSON ApiError
                 object whose code is one of the documented ones
     unchanged   not 200 => the sqlite dump hash is the same         panic        no panic anywhere in the process
     prompt      answered, within BOUND_MS                           label        the documented answer for this case
     doc-answer  the verdict of the internal API (tonic code) is answered with the documented status / code
     reply-200   a 200 of a POST endpoint is a JSON object with the documented fields

   The documented tables are the ones pinned in Http.v (the HDoc_ definitions), not the generated ones. *)
open Model
open Driver_util

let bound_ms = 10000

let n_tab = Array.init 256 n_of_int
exception Bad_token of string
let hexval c = match c with
  | '0'..'9' -> Char.code c - 48 | 'a'..'f' -> Char.code c - 87 | 'A'..'F' -> Char.code c - 55
  | _ -> raise (Bad_token "hex")
let ocaml_of_hex (t : string) : string =
  if t = "-" then "" else begin
    if String.length t mod 2 <> 0 then raise (Bad_token t);
    String.init (String.length t / 2) (fun i -> Char.chr (16 * hexval t.[2*i] + hexval t.[2*i+1]))
  end
let str_of_ocaml (s : string) : n list = List.init (String.length s) (fun i -> n_tab.(Char.code s.[i]))
let ocaml_of_str (l : n list) : string =
  let b = Buffer.create 32 in
  List.iter (fun x -> Buffer.add_char b (Char.chr ((int_of_n x) land 255))) l; Buffer.contents b

type stats = { mutable cases : int; mutable sock : int; mutable corr_fail : int; mutable mon_fail : int;
               mutable forwarded : int; mutable ok200 : int; mutable builds : int; mutable compared : int;
               nontrivial : (string, unit) Hashtbl.t; distinct : (string, unit) Hashtbl.t;
               hist : (string, int) Hashtbl.t; mutable printed : int }
let st = { cases = 0; sock = 0; corr_fail = 0; mon_fail = 0; forwarded = 0; ok200 = 0; builds = 0; compared = 0;
           nontrivial = Hashtbl.create 4096; distinct = Hashtbl.create 4096; hist = Hashtbl.create 256; printed = 0 }
let bump k = Hashtbl.replace st.hist k (1 + (try Hashtbl.find st.hist k with Not_found -> 0))

let clip s = if String.length s > 6000 then String.sub s 0 6000 ^ "..." else s
let case_part (line : string) : string =
  let re = Str.regexp_string " OBS" in
  (try String.sub line 0 (Str.search_forward re line 0) with Not_found -> line)

let max_print = 400
let fail_corr line what m i =
  st.corr_fail <- st.corr_fail + 1;
  if st.printed < max_print then begin
    st.printed <- st.printed + 1;
    Printf.printf "FAIL corr what=%s model=%s impl=%s case=%s\n" what m i (clip (case_part line))
  end
let fail_mon line what detail =
  st.mon_fail <- st.mon_fail + 1;
  if st.printed < max_print then begin
    st.printed <- st.printed + 1;
    Printf.printf "FAIL mon what=%s detail=%s case=%s\n" what detail (clip (case_part line))
  end

let field_of_id = function
  | 0 -> FUserId | 1 -> FAppointment | 2 -> FAppLocator | 3 -> FAppBlob | 4 -> FAppDelay | 5 -> FSignature | _ -> FLocator

(* "0:33,5:104" -> [(FUserId, 33); ..] *)
let parse_lens (t : string) : (hfield * z) list =
  if t = "-" then [] else
    List.map (fun p -> match String.split_on_char ':' p with
        | [f; l] -> (field_of_id (int_of_string f), z_of_int (int_of_string l))
        | _ -> raise (Bad_token t)) (String.split_on_char ',' t)

let parse_class (t : string) : hbody =
  if t = "" then raise (Bad_token "class")
  else match t.[0] with
    | 'E' -> BodyErr (str_of_ocaml (ocaml_of_hex (String.sub t 1 (String.length t - 1))))
    | 'K' -> BodyOk (parse_lens (String.sub t 1 (String.length t - 1)))
    | _ -> raise (Bad_token t)

let method_class = function "GET" -> MGet | "POST" -> MPost | _ -> MOther

(* the documented reply fields of the POST endpoints (README of the API; the wire format itself is C16's) *)
let doc_reply_keys = [
  ("register", ["available_slots"; "subscription_expiry"; "subscription_signature"; "subscription_start"; "user_id"]);
  ("add_appointment", ["available_slots"; "locator"; "signature"; "start_block"; "subscription_expiry"]);
  ("get_appointment", ["appointment"; "status"]);
  ("get_subscription_info", ["available_slots"; "locators"; "subscription_expiry"]);
]

let cond_holds (fs : (hfield * z) list) (f : hfield) (c : hcond) : bool =
  let get f = try Some (int_of_z (List.assoc f fs)) with Not_found -> None in
  match c with
  | CkPresent -> get f <> None
  | CkNonEmpty -> (match get f with Some l -> l <> 0 | None -> false)
  | CkSize n -> (match get f with Some l -> l = int_of_z n | None -> false)

let handle (_lineno : int) (line : string) (r : reader) : unit =
  st.cases <- st.cases + 1;
  try
    let scen = next r in
    let label = next r in
    let kind = next r in
    let meth = next r in
    let target = ocaml_of_hex (next r) in
    let _ct = next r in
    let _lm = next r in
    let _body = next r in
    let obs = next r in
    if obs <> "OBS" then raise (Bad_token "OBS");
    (match peek r with Some "BADSCEN" -> raise (Bad_token "unknown scenario") | _ -> ());
    let status = next_int r in
    let code = next_int r in
    let is_json = next_int r = 1 in
    let errobj = next_int r = 1 in
    let keys = next r in
    let _blen = next_int r in
    let changed = next_int r = 1 in
    let panic = next_int r = 1 in
    let panic_loc = next r in
    let ms = next_int r in
    let fwd = next r in
    let tonic = next_int r in
    let lens = next r in
    let clen = next_int r in
    let ctc = next_int r in
    let classes = ref [] in
    while not (at_end r) do
      let d = next r in
      if d <> "D" then raise (Bad_token d);
      let name = next r in
      let c = next r in
      classes := (name, parse_class c) :: !classes
    done;
    bump ("kind_" ^ kind); bump ("status_" ^ string_of_int status); bump ("code_" ^ string_of_int code);
    bump ("scenario_" ^ scen); bump ("label_" ^ (if label = "" then "?" else String.make 1 label.[0]));
    if fwd <> "-" then (st.forwarded <- st.forwarded + 1; bump ("tonic_" ^ string_of_int tonic));
    if status = 200 then st.ok200 <- st.ok200 + 1;
    let key = Digest.string (case_part line) in
    Hashtbl.replace st.distinct key ();
    (* ---------------- the model on the same case ---------------- *)
    let bodies = List.map (fun rt ->
        let name = ocaml_of_str rt.rt_name in
        try List.assoc name !classes with Not_found -> BodyErr []) http_routes in
    let rq = { rq_method = method_class meth; rq_target = str_of_ocaml target;
               rq_clen = (if clen < 0 then None else Some (z_of_int clen));
               rq_ctype = (match ctc with 0 -> CtAbsent | 1 -> CtJson | _ -> CtOther);
               rq_bodies = bodies } in
    let g = if fwd = "-" then GOk else if tonic = 0 then GOk else if tonic > 0 then GErr (z_of_int tonic) else GAbort (z_of_int 2) in
    let rep = http_respond rq g in
    let m_status = int_of_z rep.rp_status in
    let m_code = match rep.rp_code with Some c -> int_of_z c | None -> -1 in
    let m_fwd = rep.rp_forwarded in
    if status < 0 then fail_corr line "no-answer" (string_of_int m_status) (string_of_int status)
    else begin
      st.compared <- st.compared + 1;
      if m_status <> status then fail_corr line "status" (string_of_int m_status) (string_of_int status)
      else if m_code <> code then fail_corr line "error-code" (string_of_int m_code) (string_of_int code)
      else if m_fwd <> (fwd <> "-") then fail_corr line "forwarded" (string_of_bool m_fwd) fwd
      else if m_code >= 0 && not (errobj && is_json) && meth <> "HEAD" then fail_corr line "json-error-body" "json" "not-json"
      else if m_code < 0 && status <> 200 && errobj then fail_corr line "json-error-body" "plain" "json"
    end;
    (* what reached the internal API satisfies what its unwrap()s need (model: C15_validated_before_unwrap) *)
    if fwd <> "-" then begin
      let idx = int_of_string fwd in
      let names = [| "register"; "add_appointment"; "get_appointment"; "get_subscription_info" |] in
      let fs = parse_lens lens in
      List.iter (fun rt ->
          if idx >= 0 && idx < 4 && ocaml_of_str rt.rt_name = names.(idx) then
            match rt.rt_internal with
            | Some ia ->
              List.iter (fun (f, c) -> if not (cond_holds fs f c) then fail_corr line "forwarded-unvalidated" "validated" lens) ia.ia_requires
            | None -> ()) http_routes
    end;
    (* ---------------- the monitor, on the implementation's observations ---------------- *)
    let seg = http_first_segment (str_of_ocaml target) in
    let doc = http_doc_endpoint seg in
    let addressed_ok = match doc with
      | Some (m, Some cap) -> m = method_class meth && clen >= 0 && clen <= int_of_z cap
      | _ -> false in
    if addressed_ok then Hashtbl.replace st.nontrivial key ();
    if status < 0 then fail_mon line "prompt" (if status = -2 then "timeout" else "no-answer")
    else begin
      if not (http_status_ok (z_of_int status)) then fail_mon line "status" (string_of_int status);
      if code = 255 then fail_mon line "catch-all" (string_of_int status);
      if addressed_ok && status <> 200 && meth <> "HEAD" then begin
        if not (errobj && is_json) then fail_mon line "error-body" (Printf.sprintf "%d-not-json" status)
        else if not (http_code_documented (z_of_int code)) then fail_mon line "error-body" (Printf.sprintf "code-%d" code)
      end;
      if status <> 200 && changed then fail_mon line "unchanged" (string_of_int status);
      if ms > bound_ms then fail_mon line "prompt" (Printf.sprintf "%dms" ms);
      (* the documented answer to the tower's verdict *)
      if fwd <> "-" then begin
        if tonic = 0 && status <> 200 then fail_mon line "doc-answer" (Printf.sprintf "ok-answered-%d" status)
        else if tonic > 0 then
          match http_doc_answer (z_of_int tonic) with
          | Some (s, e) -> if int_of_z s <> status || int_of_z e <> code then
              fail_mon line "doc-answer" (Printf.sprintf "tonic-%d-answered-%d/%d" tonic status code)
          | None -> ()
      end;
      (* a 200 of a POST endpoint is the documented JSON reply *)
      (match doc with
       | Some (MPost, _) when status = 200 && meth = "POST" ->
         let want = try List.assoc (ocaml_of_str seg) doc_reply_keys with Not_found -> [] in
         let have = if keys = "-" then [] else String.split_on_char ',' keys in
         if not is_json || List.exists (fun k -> not (List.mem k have)) want then fail_mon line "reply-200" keys
       | _ -> ());
      (* the label: what the documentation says about this very request *)
      (match label.[0] with
       | 'V' -> if status <> 200 then fail_mon line "label" (Printf.sprintf "valid-answered-%d/%d" status code)
       | 'E' ->
         (match String.split_on_char ':' (String.sub label 1 (String.length label - 1)) with
          | [s; c] -> if int_of_string s <> status || int_of_string c <> code then
              fail_mon line "label" (Printf.sprintf "expected-%s/%s-answered-%d/%d" s c status code)
          | _ -> raise (Bad_token label))
       | 'I' ->
         let c = int_of_string (String.sub label 1 (String.length label - 1)) in
         if status = 200 then fail_mon line "label" "invalid-answered-200"
         else if c <> 0 && c <> code then fail_mon line "label" (Printf.sprintf "expected-code-%d-answered-%d/%d" c status code)
       | _ -> ())
    end;
    if panic then fail_mon line "panic" panic_loc
  with
  | Bad_token m | Failure m | Invalid_argument m -> fail_corr line ("unparsable:" ^ m) "" ""
  | Not_found -> fail_corr line "unparsable" "" ""

let handle_sock (_lineno : int) (line : string) (r : reader) : unit =
  st.cases <- st.cases + 1; st.sock <- st.sock + 1;
  try
    let _scen = next r in
    let kind = next r in
    let _bytes = next r in
    if next r <> "OBS" then raise (Bad_token "OBS");
    let status = next_int r in
    let changed = next_int r = 1 in
    let panic = next_int r = 1 in
    let panic_loc = next r in
    let ms = next_int r in
    let _fwd = next_int r in
    let ping = next_int r in
    bump ("kind_" ^ kind); bump ("status_" ^ string_of_int status);
    Hashtbl.replace st.distinct (Digest.string (case_part line)) ();
    (* not an HTTP request (or an incomplete one): no answer is due; if there is one it is a documented status *)
    if status = -2 then fail_mon line "prompt" "timeout";
    if status >= 0 && not (http_status_ok (z_of_int status)) then fail_mon line "status" (string_of_int status);
    if status <> 200 && changed then fail_mon line "unchanged" (string_of_int status);
    if ms > bound_ms then fail_mon line "prompt" (Printf.sprintf "%dms" ms);
    if ping <> 200 then fail_mon line "prompt" (Printf.sprintf "ping-afterwards-%d" ping);
    if panic then fail_mon line "panic" panic_loc
  with
  | Bad_token m | Failure m | Invalid_argument m -> fail_corr line ("unparsable:" ^ m) "" ""

let summary () =
  if st.cases > 0 then begin
    let h = Hashtbl.fold (fun k v acc -> (k, v) :: acc) st.hist [] |> List.sort compare in
    Printf.printf "SUMMARY kind=HTTP cases=%d sock=%d compared=%d corr_fail=%d mon_fail=%d forwarded=%d ok200=%d distinct=%d distinct_nontrivial=%d tower_builds=%d %s\n"
      st.cases st.sock st.compared st.corr_fail st.mon_fail st.forwarded st.ok200 (Hashtbl.length st.distinct)
      (Hashtbl.length st.nontrivial) st.builds
      (String.concat " " (List.map (fun (k, v) -> Printf.sprintf "h:%s=%d" k v) h))
  end

let () =
  register "HTTP" handle;
  register "SOCK" handle_sock;
  register "HTTPINFO" (fun _ _ r -> ignore (next r); st.builds <- st.builds + next_int r);
  register_summary summary
