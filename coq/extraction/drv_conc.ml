(* C10, controlled schedules (kinds KH / KR / KE / KX, written by harness/src/bin/conc):
   KH = a case: configuration, pre-state operations, the threads' operations, the node script, the
        observation of the pre-state;
   KR Q = the same operations run one after the other on the real tower (every order);
   KR S = one controlled run on the real tower: the word (one thread index per lock acquisition), the
        replies, the per-thread lock traces, the RPCs, the tables and the gatekeeper memory, flags;
   KE = end of the case and the number of schedules the harness enumerated.
   For every run the extracted model's `run_coarse` replays the same word from the model's pre-state:
   replies, lock traces, RPC multiset, tables and memory must agree (FAIL corr), and the set of words
   within the preemption bound must be the one the model enumerates.  The property monitor is
   evaluated on the IMPLEMENTATION's observations (FAIL mon):
     serial     final state (tables + gatekeeper memory) is the final state of one of the sequential
                orders, as executed on the real tower
     unwatched  an appointment accepted in this run whose locator is in a block connected in this run
                has a tracker, or its row is gone, or the node said -27 for its penalty
     ledger     per user: balance + slots held = the same before the run + grants - forfeits of
                appointments accepted in this run and dropped
     orphan     every appointment has its user row, every tracker its appointment row
     panic      no thread panicked, no mutex poisoned (the tower still answers), no deadlock
     linear     among the sequential orders that end in the run's final state one gives the run's replies (readers aside)
     reply      what a get_appointment / get_subscription_info request is told is what it is told in one of the
                sequential orders (the other replies are tied to the final state by serial / ledger) *)
open Model
open Driver_util

let log_enabled = true

(* ---------------- parsing ---------------- *)
let expect r s = let t = next r in if t <> s then failwith (Printf.sprintf "expected %s got %s at %d" s t r.pos)
let signer_of i = if i >= 0 then Some (n_of_int i) else None
let blob_of key pay len = { b_key = n_of_int key; b_pay = (if pay >= 0 then Some (n_of_int pay) else None); b_len = n_of_int len }
let getraw_of = function 0 -> G_in_mempool | 1 -> G_confirmed | 2 -> G_not_found | _ -> G_other
let send_of c = if c = 0 then A_ok else A_code (z_of_int c)

type aop = { op : op; kind : string; text : string }

let parse_op (r : reader) : aop =
  let start = r.pos in
  let tag = next r in
  let op =
    match tag with
    | "R" -> let u = next_int r in ORegister (n_of_int u)
    | "A" ->
        let signer = next_int r in let loc = next_int r in
        let key = next_int r in let pay = next_int r in let len = next_int r in
        let delay = next_int r in let sid = next_int r in
        OAdd (signer_of signer, n_of_int loc, blob_of key pay len, n_of_int delay, n_of_int (max 0 sid))
    | "G" -> let signer = next_int r in let loc = next_int r in OGet (signer_of signer, n_of_int loc)
    | "S" -> let signer = next_int r in OGetSub (signer_of signer)
    | "C" -> let h = next_int r in let txs = read_list r next_int in OConnect (n_of_int h, List.map n_of_int txs)
    | "D" -> ODisconnect
    | t -> failwith ("unknown op " ^ t) in
  let kind = (match tag with "R" -> "reg" | "A" -> "add" | "G" -> "get" | "S" -> "getsub" | "C" -> "connect" | "D" -> "disconnect" | x -> x) in
  { op; kind; text = String.concat " " (Array.to_list (Array.sub r.toks start (r.pos - start))) }

let parse_script r = read_list r (fun r -> let t = next_int r in let g = next_int r in let s = next_int r in
                                            (n_of_int t, (getraw_of g, send_of s)))

type iobs = { users : int list list; apps : int list list; trks : int list list; mem : int list list }
let parse_state (r : reader) : iobs =
  let rows k = let n = next_int r in List.init n (fun _ -> List.init k (fun _ -> next_int r)) in
  let users = rows 4 in let apps = rows 8 in let trks = rows 6 in let mem = rows 3 in
  { users; apps; trks; mem }

let opt_pay = function Some p -> int_of_n p | None -> -1
let iobs_of_model (t : tower) : iobs =
  let i = int_of_n in
  let o = observe t in
  { users = List.sort compare (List.map (fun (u, ui) -> [i u; i ui.u_slots; i ui.u_start; i ui.u_expiry]) o.o_users);
    apps = List.sort compare (List.map (fun a -> [i a.a_loc; i a.a_user; i a.a_blob.b_key; opt_pay a.a_blob.b_pay; i a.a_blob.b_len;
                                                   i a.a_delay; i a.a_sig; i a.a_start]) o.o_apps);
    trks = List.sort compare (List.map (fun k -> [i k.t_loc; i k.t_user; i k.t_dispute; i k.t_penalty; i k.t_height;
                                                   (if k.t_conf then 1 else 0)]) o.o_trks);
    mem = List.sort compare (List.map (fun (u, (s, e)) -> [i u; i s; i e]) o.o_mem) }
let show_rows rows = String.concat "/" (List.map (fun r -> String.concat "," (List.map string_of_int r)) rows)
let show_obs o = Printf.sprintf "U:%s A:%s T:%s M:%s" (show_rows o.users) (show_rows o.apps) (show_rows o.trks) (show_rows o.mem)

let model_apps (o : iobs) =
  List.map (function [l; u; k; p; len; d; sg; stt] ->
              { a_loc = n_of_int l; a_user = n_of_int u; a_blob = blob_of k p len; a_delay = n_of_int d; a_sig = n_of_int sg; a_start = n_of_int stt }
            | _ -> assert false) o.apps
let model_trks (o : iobs) =
  List.map (function [l; u; d; p; h; c] ->
              { t_loc = n_of_int (max 0 l); t_user = n_of_int (max 0 u); t_dispute = n_of_int (max 0 d); t_penalty = n_of_int (max 0 p);
                t_height = n_of_int h; t_conf = (c <> 0) }
            | _ -> assert false) o.trks
let model_users (o : iobs) : (n * uinfo) list =
  List.map (function [u; s; stt; e] -> (n_of_int u, { u_slots = n_of_int s; u_start = n_of_int stt; u_expiry = n_of_int e }) | _ -> assert false) o.users

let result_tokens (x : out) : string list =
  let i n = string_of_int (int_of_n n) in
  match x with
  | ORegisterRes (RegOk (s, st, e)) -> ["RO"; i s; i st; i e; "1"]
  | ORegisterRes RegMaxSlots -> ["RM"]
  | OAddRes (AddOk (start, sg, slots, e)) -> ["AO"; i start; i sg; i slots; i e]
  | OAddRes AddAuthOrSlots -> ["AA"]
  | OAddRes (AddExpired e) -> ["AE"; i e]
  | OAddRes AddTriggered -> ["AT"]
  | OGetRes (GetApp (l, b, d)) -> ["GA"; i l; i b.b_key; string_of_int (opt_pay b.b_pay); i b.b_len; i d; "1"]
  | OGetRes (GetTrk (d, p)) -> ["GT"; i d; i p; "1"; "2"]
  | OGetRes GetNotFound -> ["GN"]
  | OGetRes GetAuth -> ["GU"]
  | OGetRes (GetExpired e) -> ["GE"; i e]
  | OSubRes (SubOk (sl, e, locs)) ->
      let ls = List.sort compare (List.map int_of_n locs) in
      ["SO"; i sl; i e; string_of_int (List.length ls)] @ List.map string_of_int ls
  | OSubRes SubAuth -> ["SU"]
  | OSubRes (SubExpired e) -> ["SE"; i e]
  | OBlockRes -> ["B"]
  | OAbort _ -> ["X"]

let site_name (s : site) : string =
  match s with
  | S_gk_new_user_expiry_overflow -> "S_gk_new_user_expiry_overflow" | S_gk_store_user_unwrap -> "S_gk_store_user_unwrap"
  | S_gk_outdated_overflow -> "S_gk_outdated_overflow"
  | S_gk_refund_row_unwrap -> "S_gk_refund_row_unwrap" | S_gk_refund_user_unwrap -> "S_gk_refund_user_unwrap"
  | S_gk_refund_overflow -> "S_gk_refund_overflow" | S_gk_disconnect_underflow -> "S_gk_disconnect_underflow"
  | S_w_store_update_unwrap -> "S_w_store_update_unwrap"
  | S_w_store_triggered_unwrap -> "S_w_store_triggered_unwrap"
  | S_w_cache_update -> "S_w_cache_update" | S_w_disconnect_underflow -> "S_w_disconnect_underflow"
  | S_r_get_height_unwrap -> "S_r_get_height_unwrap" | S_r_index_update -> "S_r_index_update"
  | S_r_confirm_update_unwrap -> "S_r_confirm_update_unwrap" | S_r_confirmations_underflow -> "S_r_confirmations_underflow"
  | S_r_missed_log_underflow -> "S_r_missed_log_underflow" | S_r_reorg_load_tracker_unwrap -> "S_r_reorg_load_tracker_unwrap"
  | S_r_reorg_update_unwrap -> "S_r_reorg_update_unwrap" | S_r_reorg_unreachable -> "S_r_reorg_unreachable"
  | S_r_stale_underflow -> "S_r_stale_underflow" | S_r_stale_load_tracker_unwrap -> "S_r_stale_load_tracker_unwrap"
  | S_r_stale_update_unwrap -> "S_r_stale_update_unwrap"

(* ---------------- the current case ---------------- *)
type case = {
  name : string; cfg : config; h0 : int; bound : int; c_slots_i : int;
  pre : aop list; threads : aop list list; script : (n * (getraw_ans * send_ans)) list; script_i : (int * int * int) list;
  st0 : iobs; t0 : tower option;             (* model pre-state (None: the model aborted in the pre-state) *)
  progs : out prog list;
  mutable seqs : (string * iobs) list;       (* sequential outcomes on the real tower: replies, state *)
  mutable seqreps : string list list list;   (* ... and the replies thread by thread *)
  mutable seqsends : int list list;          (* ... and the transactions handed to the node (sorted, without repetitions) *)
  words : (string, unit) Hashtbl.t;
  mutable runs : int;
}

let cur : case option ref = ref None

let cases = ref 0 and runs = ref 0 and seq_runs = ref 0 and corr_fail = ref 0 and mon_fail = ref 0
let acquisitions = ref 0 and max_word = ref 0 and impl_panics = ref 0
let distinct : (string, unit) Hashtbl.t = Hashtbl.create 4096
let monk : (string, int) Hashtbl.t = Hashtbl.create 16
let bump tbl k = Hashtbl.replace tbl k (1 + (try Hashtbl.find tbl k with Not_found -> 0))
let per_case : string list ref = ref []

let corr_seen : (string, unit) Hashtbl.t = Hashtbl.create 16
let corr lineno c field m i word =
  incr corr_fail;
  let k = c.name ^ "/" ^ field in
  if not (Hashtbl.mem corr_seen k) then begin
    Hashtbl.replace corr_seen k ();
    Printf.printf "FAIL corr line=%d case=%s field=%s model=[%s] impl=[%s] word=%s\n" lineno c.name field m i word
  end

let mon_seen : (string, unit) Hashtbl.t = Hashtbl.create 16
(* one line per (case, check, class): the first word that shows it *)
let mon lineno c check cls detail word =
  incr mon_fail; bump monk (check ^ ":" ^ cls);
  let k = c.name ^ "/" ^ check ^ "/" ^ cls in
  if not (Hashtbl.mem mon_seen k) then begin
    Hashtbl.replace mon_seen k ();
    let ops = String.concat "+" (List.sort compare (List.map (fun th -> String.concat ">" (List.map (fun a -> a.kind) th)) c.threads)) in
    Printf.printf "FAIL mon prop=C10 line=%d check=%s class=%s ops=%s case=%s detail=%s word=%s\n" lineno check cls ops c.name detail word
  end

let last_blocks h0 = List.init 100 (fun k -> (n_of_int (1000 + h0 - k), []))

let handle_ch (lineno : int) (r : reader) : unit =
  let name = next r in
  let slots = next_int r in let duration = next_int r in let delta = next_int r in
  let h0 = next_int r in let bound = next_int r in
  let cfg = { c_slots = n_of_int slots; c_duration = n_of_int duration; c_delta = n_of_int delta } in
  expect r "PRE";
  let pre_with = read_list r (fun r -> let o = parse_op r in let s = parse_script r in (o, s)) in
  expect r "THR";
  let threads = read_list r (fun r -> read_list r parse_op) in
  expect r "SCR";
  let spos = r.pos in
  let script = parse_script r in
  let script_i = (let rr = { toks = r.toks; pos = spos } in read_list rr (fun r -> let t = next_int r in let g = next_int r in let s = next_int r in (t, g, s))) in
  expect r "ST0";
  let st0 = parse_state r in
  (* model pre-state *)
  let t0 = (match init cfg (n_of_int h0) (last_blocks h0) with
            | None -> None
            | Some t ->
                List.fold_left (fun acc (o, sc) ->
                  match acc with
                  | None -> None
                  | Some t -> (match Model.step log_enabled t o.op sc with (_, OAbort _) -> None | (t1, _) -> Some t1))
                  (Some t) pre_with) in
  let t0 = (match t0 with Some t -> Some (set_rpc_log t []) | None -> None) in
  let progs = (match t0 with
               | Some t -> List.map (fun th -> prog_of_thread log_enabled script t (List.map (fun a -> a.op) th)) threads
               | None -> []) in
  let c = { name; cfg; h0; bound; c_slots_i = slots; pre = List.map fst pre_with; threads; script; script_i; st0; t0; progs;
            seqs = []; seqreps = []; seqsends = []; words = Hashtbl.create 256; runs = 0 } in
  incr cases;
  (match t0 with
   | None -> corr lineno c "pre-state" "model aborted" "ok" "-"
   | Some t -> let mo = iobs_of_model t in if mo <> st0 then corr lineno c "pre-state" (show_obs mo) (show_obs st0) "-");
  cur := Some c

(* ---------------- model runs ---------------- *)
let thread_tokens (th : cthread) : string list =
  match thread_result th with
  | Some (TOut (OAbort _)) -> ["X"]
  | Some (TPoisoned _) -> ["XP"]
  | Some (TOut o) -> result_tokens o
  | None -> ["?"]

let root_sites (c : Model.conf) : string list =
  List.sort compare (List.concat (List.map (fun th -> match thread_result th with
     | Some (TOut (OAbort s)) -> [site_name s] | _ -> []) c.cf_threads))

(* the operations one after the other: thread perm(0) to its end, then perm(1), ... *)
let run_sequential (t0 : tower) (progs : out prog list) (perm : int list) : Model.conf =
  let c = ref (init_config t0 progs) in
  List.iter (fun i ->
    let continue = ref true in
    while !continue do
      match step_thread !c (nat_of_int i) with
      | Some c' -> c := c'
      | None -> continue := false
    done) perm;
  !c

let enumerate (c0 : Model.conf) (bound : int) : (string, unit) Hashtbl.t =
  let words = Hashtbl.create 256 in
  let rec go c last pre word =
    let en = List.map int_of_nat (enabled c) in
    if en = [] then Hashtbl.replace words (String.concat " " (List.rev_map string_of_int word)) ()
    else
      List.iter (fun i ->
        let p = (match last with Some l when l <> i && List.mem l en -> 1 | _ -> 0) in
        if pre + p <= bound then
          match coarse_step c (nat_of_int i) with
          | Some c' -> go c' (Some i) (pre + p) (i :: word)
          | None -> ()) en in
  go c0 None 0 [];
  words

(* ---------------- observations of one run ---------------- *)
type run = { kind : string; word : int list; reps : string list list; traces : int list list; rpcs : (int * int) list;
             st : iobs; deadlock : string; alive : bool; uwait : bool; nondet : bool }

let parse_run (r : reader) : run =
  let kind = next r in
  let word = read_list r next_int in
  expect r "REP";
  let reps = read_list r (fun r -> read_list r next) in
  expect r "TR";
  let traces = read_list r (fun r -> read_list r next_int) in
  expect r "RPC";
  let rpcs = read_list r (fun r -> let k = next_int r in let t = next_int r in (k, t)) in
  expect r "ST";
  let st = parse_state r in
  expect r "FL";
  let deadlock = next r in let alive = next_int r = 1 in let uwait = next_int r = 1 in let nondet = next_int r = 1 in
  { kind; word; reps; traces; rpcs; st; deadlock; alive; uwait; nondet }

let word_s w = String.concat " " (List.map string_of_int w)
let reps_s reps = String.concat " | " (List.map (String.concat " ") reps)
(* replies as compared with the model: the panic location is dropped *)
let norm_rep = function ("X" :: _) -> ["X"] | ("XP" :: _) -> ["XP"] | l -> l

(* which columns differ from a sequential outcome *)
let diff_class (a : iobs) (b : iobs) : string list =
  let keyset rows k = List.sort compare (List.map (fun r -> List.filteri (fun i _ -> i < k) r) rows) in
  let cols name k names (ra : int list list) (rb : int list list) =
    if keyset ra k <> keyset rb k then [name ^ ".rows"]
    else
      List.concat (List.mapi (fun ci cn ->
        if List.exists2 (fun x y -> List.nth x (k + ci) <> List.nth y (k + ci)) (List.sort compare ra) (List.sort compare rb)
        then [name ^ "." ^ cn] else []) names) in
  cols "users" 1 ["slots"; "start"; "expiry"] a.users b.users
  @ cols "apps" 2 ["blob"; "blob"; "blob"; "delay"; "sig"; "start"] a.apps b.apps
  @ cols "trks" 2 ["dispute"; "penalty"; "height"; "confirmed"] a.trks b.trks
  @ cols "mem" 1 ["slots"; "expiry"] a.mem b.mem

let uniq l = List.sort_uniq compare l
let sends_of (rpcs : (int * int) list) : int list = uniq (List.concat (List.map (fun (k, t) -> if k = 1 then [t] else []) rpcs))

let monitors (lineno : int) (c : case) (x : run) (roots : string list) : unit =
  let w = word_s x.word in
  (* sends (C02): every transaction handed to the node in this run is the penalty of an appointment version the tower has taken on -
     in the pre-state, or by a submission of this run that is ANSWERED with a receipt - or the dispute of one, re-announced after a reorg; a request answered as refused (e.g. because
     its owner was removed meanwhile) has not put anything on the wire on the way *)
  (let pens ops = List.concat (List.map (fun (a : aop) -> match a.op with OAdd (_, loc, { b_pay = Some t; _ }, _, _) -> [int_of_n t; int_of_n loc] | _ -> []) ops) in
   let taken = pens c.pre @ List.concat (List.map2 (fun th rep -> match rep with ("AO" :: _) -> pens th | _ -> []) c.threads x.reps) in
   let extra = List.filter (fun t -> not (List.mem t taken)) (sends_of x.rpcs) in
   if extra <> [] then
     mon lineno c "sends" "sent-for-a-submission-that-was-not-acknowledged"
       (Printf.sprintf "replies=[%s],sent=[%s],penalties-and-disputes-of-acknowledged-submissions=[%s]" (reps_s x.reps)
          (String.concat " " (List.map string_of_int (sends_of x.rpcs))) (String.concat " " (List.map string_of_int (uniq taken)))) w);
  let panicked = List.exists (function ("X" :: _) | ("XP" :: _) | ("K" :: _) -> true | _ -> false) x.reps in
  (* panic: nothing panicked, nothing poisoned, no deadlock *)
  if panicked || not x.alive || x.deadlock <> "-" then begin
    incr impl_panics;
    let locs = List.concat (List.map (function ["X"; l] -> [l] | _ -> []) x.reps) in
    let detail = Printf.sprintf "replies=[%s],alive=%b,deadlock=%s,at=%s" (String.concat ";" (List.map (String.concat ":") x.reps)) x.alive x.deadlock
                   (String.concat "," locs) in
    (* one finding per root cause: the model's label of the unwrap / arithmetic site when the model aborts there too *)
    let classes = if x.deadlock <> "-" then ["deadlock"] else if roots <> [] then roots
                  else if locs <> [] then locs else ["poisoned"] in
    List.iter (fun cls -> mon lineno c "panic" cls detail w) classes
  end;
  (* orphan records *)
  let apps = model_apps x.st and trks = model_trks x.st and users = model_users x.st in
  let unknown_trk = List.exists (function (l :: _) -> l < 0 | _ -> false) x.st.trks in
  if int_of_nat (orphans users apps trks) > 0 || unknown_trk then
    mon lineno c "orphan" "fk" (show_obs x.st) w;
  if not panicked && x.deadlock = "-" then begin
    (* reply: what a reader (get_appointment / get_subscription_info) is told is what it is told in a sequential order *)
    List.iteri (fun i th ->
      match th with
      | [{ op = (OGet (Some u, loc)); _ }] when c.seqreps <> [] ->
          let r = norm_rep (List.nth x.reps i) in
          if not (List.exists (fun sr -> List.nth sr i = r) c.seqreps) then begin
            let same_uuid_add = List.exists (function [{ op = OAdd (Some u', loc', _, _, _); _ }] -> u' = u && loc' = loc | _ -> false) c.threads in
            let purged = List.exists (function (u0 :: _) -> u0 = int_of_n u | _ -> false) c.st0.users
                         && not (List.exists (function (u0 :: _) -> u0 = int_of_n u | _ -> false) x.st.users) in
            let cls = (match r with
                       | "GA" :: _ when same_uuid_add -> "get:appointment-visible-before-its-trigger-is-handled"
                       | ["GN"] when purged -> "get:not-found-after-its-owner-was-purged"
                       | ("GT" | "GN") :: _ when List.exists (fun sr -> match List.nth sr i with "GE" :: _ -> true | _ -> false) c.seqreps
                                                 && List.exists (fun sr -> match List.nth sr i with "GA" :: _ -> true | _ -> false) c.seqreps ->
                           "get:expiry-test-before-the-block-tables-after-it"
                       | _ -> "get:reply-of-no-sequential-order") in
            mon lineno c "reply" cls (Printf.sprintf "thread=%d,reply=[%s],sequential=[%s]" i (String.concat " " r)
                                        (String.concat " || " (List.map (fun sr -> String.concat " " (List.nth sr i)) c.seqreps))) w
          end
      | [{ op = (OGetSub (Some u)); _ }] when c.seqreps <> [] ->
          let r = norm_rep (List.nth x.reps i) in
          if not (List.exists (fun sr -> List.nth sr i = r) c.seqreps) then
            let purged = List.exists (function (u0 :: _) -> u0 = int_of_n u | _ -> false) c.st0.users
                         && not (List.exists (function (u0 :: _) -> u0 = int_of_n u | _ -> false) x.st.users) in
            let same_user_add = List.exists (function [{ op = OAdd (Some u', _, _, _, _); _ }] -> u' = u | _ -> false) c.threads in
            mon lineno c "reply" (match r with "SO" :: _ when purged -> "getsub:locators-read-after-its-owner-was-purged"
                                             | "SO" :: _ when same_user_add -> "getsub:charged-before-the-appointment-is-stored"
                                             | _ -> "getsub:reply-of-no-sequential-order")
              (Printf.sprintf "thread=%d,reply=[%s],sequential=[%s]" i (String.concat " " r)
                 (String.concat " || " (List.map (fun sr -> String.concat " " (List.nth sr i)) c.seqreps))) w
      | _ -> ()) c.threads;
    (* linear: among the sequential orders that end in this state, one gives these replies (readers aside: `reply`) *)
    (let is_reader th = (match th with [{ op = (OGet _ | OGetSub _); _ }] -> true | _ -> false) in
     let writers_only reps = List.filteri (fun i _ -> not (is_reader (List.nth c.threads i))) reps in
     let mine = writers_only (List.map norm_rep x.reps) in
     let same_state = List.filteri (fun k _ -> snd (List.nth c.seqs k) = x.st) c.seqreps in
     if c.seqreps <> [] && same_state <> [] && not (List.exists (fun sr -> writers_only sr = mine) same_state) then
       let ops = String.concat "+" (List.sort compare (List.map (fun th -> String.concat ">" (List.map (fun (a : aop) -> a.kind) th)) c.threads)) in
       let tags = String.concat "," (List.map (function (t :: _) -> t | [] -> "-") mine) in
       mon lineno c "linear" (ops ^ ":" ^ tags)
         (Printf.sprintf "replies=[%s],orders-with-this-state=[%s]" (reps_s x.reps)
            (String.concat " || " (List.map (fun sr -> reps_s sr) same_state))) w);
    (* serial: the final state is the final state of a sequential order *)
    if not (List.exists (fun (_, s) -> s = x.st) c.seqs) then begin
      (* columns that hold a height read from one of the AtomicU32 heights (or the carrier's copy); the expiry of a
         subscription created in this run is such a height plus the configured duration *)
      let stamps d = ["apps.start"; "trks.height"; "users.start"] @ (if List.mem "users.start" d then ["users.expiry"; "mem.expiry"] else []) in
      let rest d = List.filter (fun f -> not (List.mem f (stamps d))) d in
      let weight d = 100 * List.length (rest d) + List.length d in
      let best = List.fold_left (fun acc (_, s) ->
        let d = uniq (diff_class x.st s) in
        match acc with Some b when (weight b, b) <= (weight d, d) -> acc | _ -> Some d) None c.seqs in
      let same_uuid_adds =
        let adds = List.concat (List.map (function [{ op = OAdd (Some u, loc, _, _, _); _ }] -> [(loc, u)] | _ -> []) c.threads) in
        List.length (uniq adds) < List.length adds in
      let cls = (match best with
                 | None -> "no-sequential-run"
                 | Some d ->
                     (match rest d with
                      | [] -> "height-stamps-only"
                      | r -> String.concat "," r ^
                             (if same_uuid_adds && List.for_all (fun f -> f = "mem.slots" || f = "users.slots") r then ":same-appointment-twice" else ""))) in
      mon lineno c "serial" cls (Printf.sprintf "state=[%s],replies=[%s],sequential=[%s]" (show_obs x.st) (reps_s x.reps)
                                  (String.concat " || " (List.map (fun (_, s) -> show_obs s) c.seqs))) w
    end;
    (* accepted adds of this run, blocks connected in this run *)
    let accepted = List.concat (List.map2 (fun th rep ->
      match th, rep with
      | [{ op = OAdd (Some u, loc, b, _, _); _ }], ("AO" :: _) -> [(loc, u, b)]
      | _ -> []) c.threads x.reps) in
    let processed = List.concat (List.map (fun th -> List.concat (List.map (fun a -> match a.op with OConnect (_, txs) -> txs | _ -> []) th)) c.threads) in
    (* unwatched *)
    List.iter (fun (loc, u, _) ->
      if List.mem loc processed && List.mem (loc, u) (unwatched apps trks processed) then begin
        (* excused only by the node's 'already in chain' for the stored version's penalty *)
        let row = List.find (fun a -> a.a_loc = loc && a.a_user = u) apps in
        let excused = (match decrypt row.a_blob loc with
                       | Some p -> List.exists (fun (t, _, s) -> n_of_int t = p && s = -27) c.script_i
                       | None -> false) in
        if not excused then
          mon lineno c "unwatched" "stored-and-unwatched" (Printf.sprintf "uuid=(%d,%d),%s" (int_of_n loc) (int_of_n u) (show_obs x.st)) w
      end) accepted;
    (* ledger *)
    let users0 = model_users c.st0 and apps0 = model_apps c.st0 in
    let uids = uniq (List.map fst users0 @ List.map fst users) in
    List.iter (fun u ->
      let start_of us = (match List.assoc_opt u us with Some ui -> Some ui.u_start | None -> None) in
      (* a user purged in this run (gone, or registered afresh: another subscription start) is outside the ledger *)
      let still = List.mem_assoc u users && (start_of users0 = None || start_of users0 = start_of users) in
      if still then begin
        let regs = List.length (List.filter (fun (th, rep) -> match th, rep with
                      | [{ op = ORegister u'; _ }], ("RO" :: _) -> u' = u | _ -> false) (List.combine c.threads x.reps)) in
        let before = int_of_n (ledger users0 apps0 u) and after = int_of_n (ledger users apps u) in
        (* an accepted appointment that is gone at the end was dropped without refund: any accepted version's size *)
        let mine = List.filter (fun (_, u', _) -> u' = u) accepted in
        let gone = uniq (List.filter (fun (loc, _) -> not (List.exists (fun a -> a.a_loc = loc && a.a_user = u) apps))
                           (List.map (fun (loc, u', _) -> (loc, u')) mine)) in
        let forfeit_options = List.fold_left (fun acc (loc, _) ->
          let sizes = uniq (List.map (fun (_, _, b) -> int_of_n (slots_of b.b_len)) (List.filter (fun (l, _, _) -> l = loc) mine)) in
          List.concat (List.map (fun a -> List.map (fun s -> a + s) sizes) acc)) [0] gone in
        let expected = List.map (fun f -> before + regs * c.c_slots_i - f) forfeit_options in
        if not (List.mem after expected) then begin
          let same_uuid = List.exists (fun (loc, _, _) -> List.length (List.filter (fun (l, _, _) -> l = loc) mine) >= 2) mine in
          let cls = if same_uuid && after < List.fold_left min max_int expected then "same-appointment-submitted-concurrently"
                    else if after < List.fold_left min max_int expected then "slots-lost" else "slots-created" in
          mon lineno c "ledger" cls (Printf.sprintf "user=%d,before=%d,after=%d,expected=%s,replies=[%s]" (int_of_n u) before after
                                       (String.concat "/" (List.map string_of_int expected)) (reps_s x.reps)) w
        end
      end) uids
  end

let handle_cr (lineno : int) (r : reader) : unit =
  match !cur with
  | None -> failwith "KR without KH"
  | Some c ->
      let x = parse_run r in
      let w = word_s x.word in
      if x.kind = "Q" then begin
        incr seq_runs;
        c.seqs <- c.seqs @ [(reps_s (List.map norm_rep x.reps), x.st)];
        c.seqreps <- c.seqreps @ [List.map norm_rep x.reps];
        c.seqsends <- c.seqsends @ [sends_of x.rpcs];
        (* the sequential orders on the model *)
        (match c.t0 with
         | None -> ()
         | Some t0 ->
             let mc = run_sequential t0 c.progs x.word in
             let mreps = List.map thread_tokens mc.cf_threads in
             if mreps <> List.map norm_rep x.reps then corr lineno c "seq-replies" (reps_s mreps) (reps_s x.reps) w;
             let mo = iobs_of_model mc.cf_tower in
             if mo <> x.st then corr lineno c "seq-state" (show_obs mo) (show_obs x.st) w);
        (* a sequential order that panics is a defect of its own *)
        if List.exists (function ("X" :: _) | ("XP" :: _) -> true | _ -> false) x.reps || not x.alive then
          mon lineno c "panic" "sequential" (reps_s x.reps) ("Q " ^ w)
      end else begin
        incr runs; c.runs <- c.runs + 1;
        acquisitions := !acquisitions + List.length x.word;
        if List.length x.word > !max_word then max_word := List.length x.word;
        Hashtbl.replace c.words w ();
        Hashtbl.replace distinct (c.name ^ "/" ^ w) ();
        if x.uwait then corr lineno c "flags" "no condvar wait" "a thread waited on the reachability condvar" w;
        if x.nondet then corr lineno c "flags" "deterministic replay" "the choice prefix was not enabled on replay" w;
        let roots = ref [] in
        (match c.t0 with
         | None -> ()
         | Some t0 ->
             (match run_coarse (start_config t0 c.progs) (List.map nat_of_int x.word) with
              | None -> corr lineno c "word" "the word is not a schedule of the thread programs" "executed" w
              | Some mc ->
                  roots := root_sites mc;
                  let mtr = List.map (fun th -> List.map int_of_n (thread_trace th)) mc.cf_threads in
                  if mtr <> x.traces then
                    corr lineno c "lock-trace" (String.concat " | " (List.map (fun t -> String.concat " " (List.map string_of_int t)) mtr))
                      (String.concat " | " (List.map (fun t -> String.concat " " (List.map string_of_int t)) x.traces)) w;
                  let mreps = List.map thread_tokens mc.cf_threads in
                  if mreps <> List.map norm_rep x.reps then corr lineno c "replies" (reps_s mreps) (reps_s x.reps) w;
                  let mdead = deadlocked mc in
                  if mdead <> (x.deadlock <> "-") then corr lineno c "deadlock" (string_of_bool mdead) x.deadlock w;
                  if not mdead then begin
                    if not (all_finished mc) then corr lineno c "finished" "threads still running at the end of the word" "all ended" w;
                    let mo = iobs_of_model mc.cf_tower in
                    (* get_user takes users then db: with either poisoned the memory cannot be read any more *)
                    let mo = if List.exists (fun l -> let l = int_of_n l in l = 4 || l = 5) mc.cf_poisoned then { mo with mem = [] } else mo in
                    if mo <> x.st then corr lineno c "state" (show_obs mo) (show_obs x.st) w;
                    let mr = List.sort compare (List.map (fun (k, tx) -> ((match k with K_send -> 1 | K_getraw -> 0), int_of_n tx)) (rpcs_of mc.cf_tower)) in
                    if mr <> x.rpcs then
                      corr lineno c "rpc" (String.concat " " (List.map (fun (k, t) -> Printf.sprintf "%d:%d" k t) mr))
                        (String.concat " " (List.map (fun (k, t) -> Printf.sprintf "%d:%d" k t) x.rpcs)) w;
                    let mpoison = mc.cf_poisoned <> [] in
                    if mpoison = x.alive then corr lineno c "poison" (string_of_bool mpoison) (string_of_bool (not x.alive)) w
                  end));
        monitors lineno c x !roots
      end

let handle_ce (lineno : int) (r : reader) : unit =
  match !cur with
  | None -> ()
  | Some c ->
      let _name = next r in let n = next_int r in let mode = next r in
      let model_n = (match c.t0, mode with
        | Some t0, "all" ->
            let words = enumerate (start_config t0 c.progs) c.bound in
            let mn = Hashtbl.length words in
            if mn <> n || Hashtbl.fold (fun w () acc -> acc || not (Hashtbl.mem c.words w)) words false then
              corr lineno c "schedules" (Printf.sprintf "%d schedules within %d preemptions" mn c.bound)
                (Printf.sprintf "%d explored on the real tower" n)
                (Hashtbl.fold (fun w () acc -> if acc = "-" && not (Hashtbl.mem c.words w) then w else acc) words "-");
            mn
        | _ -> -1) in
      per_case := Printf.sprintf "%s:threads=%d:bound=%d:schedules=%d:model=%d" c.name (List.length c.threads) c.bound n model_n :: !per_case;
      cur := None

let summary () =
  if !cases > 0 then begin
    List.iter (fun s -> Printf.printf "CCASE %s\n" s) (List.rev !per_case);
    Printf.printf "SUMMARY kind=CC cases=%d runs=%d seq_runs=%d acquisitions=%d max_word=%d corr_fail=%d mon_fail=%d impl_failures=%d distinct_nontrivial=%d mon=%s\n"
      !cases !runs !seq_runs !acquisitions !max_word !corr_fail !mon_fail !impl_panics (Hashtbl.length distinct)
      (let l = List.sort compare (Hashtbl.fold (fun k v acc -> Printf.sprintf "%s=%d" k v :: acc) monk []) in
       if l = [] then "-" else String.concat ";" l)
  end

let guard f lineno line r =
  try f lineno r with
  | Failure msg -> (incr corr_fail; Printf.printf "FAIL parse line=%d %s\n" lineno msg)
  | Invalid_argument msg -> (incr corr_fail; Printf.printf "FAIL parse line=%d invalid argument %s\n" lineno msg)
  | Not_found -> (incr corr_fail; Printf.printf "FAIL parse line=%d not found\n" lineno)

let () =
  register "KH" (guard handle_ch);
  register "KR" (guard handle_cr);
  register "KE" (guard handle_ce);
  register "KX" (fun lineno line _ -> incr corr_fail; Printf.printf "FAIL corr line=%d harness could not run the case: %s\n" lineno line);
  register_summary summary
