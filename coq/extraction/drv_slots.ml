(* C07 (slot formula): evaluate the extracted Flocq binary32 model of compute_appointment_slots
   (Slots.v) on the points the Rust harness ran the real function on (harness/src/bin/slots).
     SLCONST d                 the real ENCRYPTED_BLOB_MAX_SIZE; must equal the extracted BLOB_SLOT
     SL n OBS v                v = real function at (n, ENCRYPTED_BLOB_MAX_SIZE); -1 = panic
     SLD n d OBS v             other divisors: correspondence only
     SLWRONG n v exact         points of the exhaustive Rust sweep with v <> exact
     SLSWEEP upto evaluated wrong wrong_le_2p24 first last panics
   correspondence (FAIL corr): model value = implementation value, on every SL / SLD line.
   monitor (FAIL mon), on the IMPLEMENTATION's value only, for 0 <= n <= 2^24:
     class=formula    v <> ceil(n / d) computed here in native integers (n >= 1), or v not in
                      {0, 1} for n = 0
     class=zero-blob  n = 0 and v = 0: the clause "never less than one slot" fails for the empty blob
   A usize may need 64 bits: numbers are parsed as unsigned 64-bit integers.
   The extracted model costs about 10 microseconds per evaluation: every point is evaluated in
   both tiers. *)
open Model
open Driver_util

let u64_of_string (s : string) : int64 = Int64.of_string ("0u" ^ s)

let rec pos_of_u64 (x : int64) : positive =
  if Int64.equal x 1L then XH
  else
    let rest = pos_of_u64 (Int64.shift_right_logical x 1) in
    if Int64.equal (Int64.logand x 1L) 0L then XO rest else XI rest

let z_of_u64 (x : int64) : z = if Int64.equal x 0L then Z0 else Zpos (pos_of_u64 x)
let n_of_u64 (x : int64) : n = if Int64.equal x 0L then N0 else Npos (pos_of_u64 x)

let two24 = 16777216L
let in_exact_range (x : int64) = Int64.compare x 0L >= 0 && Int64.compare x two24 <= 0

type stats = {
  mutable cases : int; mutable corr_fail : int; mutable mon_fail : int; mutable mon_zero : int;
  mutable in_range : int; mutable above : int; mutable sld : int; mutable thm_fail : int;
  mutable model_evals : int; mutable saturated : int; mutable model_wrong_agree : int;
  mutable const_ : int; mutable sweep : int array; nontrivial : (string, unit) Hashtbl.t;
}
let st = { cases = 0; corr_fail = 0; mon_fail = 0; mon_zero = 0; in_range = 0; above = 0; sld = 0;
           thm_fail = 0; model_evals = 0; saturated = 0; model_wrong_agree = 0; const_ = -1;
           sweep = [||]; nontrivial = Hashtbl.create 4096 }

(* at most max_fail_lines FAIL lines of each kind (corr / mon) are printed; the counts are exact *)
let max_fail_lines = 25
let printed_corr = ref 0
let printed_mon = ref 0
let fail_to (c : int ref) fmt =
  Printf.ksprintf (fun s -> incr c; if !c <= max_fail_lines then print_endline s) fmt
let fail_corr fmt = fail_to printed_corr fmt
let fail_mon fmt = fail_to printed_mon fmt

let model (nn : int64) (d : int64) : int =
  st.model_evals <- st.model_evals + 1;
  int_of_n (compute_appointment_slots_f32 (z_of_u64 nn) (z_of_u64 d))

let model_const () : int64 = Int64.of_int (int_of_n bLOB_SLOT)

let handle_const (lineno : int) (_ : string) (r : reader) : unit =
  let d = next_int r in
  st.const_ <- d;
  if Int64.of_int d <> model_const () then begin
    st.corr_fail <- st.corr_fail + 1;
    fail_corr "FAIL corr line=%d ENCRYPTED_BLOB_MAX_SIZE impl=%d model=%Ld (generated constant out of date)"
      lineno d (model_const ())
  end

let handle_sl (lineno : int) (_ : string) (r : reader) : unit =
  let ns = next r in
  let nn = u64_of_string ns in
  let obs = next r in
  assert (obs = "OBS");
  let v = next_int r in
  st.cases <- st.cases + 1;
  let d = if st.const_ >= 0 then Int64.of_int st.const_ else model_const () in
  let key = "SL " ^ ns in
  if v >= 1 then Hashtbl.replace st.nontrivial key ();
  if v = 4294967295 then st.saturated <- st.saturated + 1;
  (* correspondence *)
  let m = model nn (model_const ()) in
  if m <> v then begin
    st.corr_fail <- st.corr_fail + 1;
    fail_corr "FAIL corr line=%d n=%s d=%Ld model=%d impl=%d case=%s" lineno ns d m v key
  end;
  if in_exact_range nn then begin
    st.in_range <- st.in_range + 1;
    (* the theorem, re-evaluated on the extracted code: model = Tower.slots_of *)
    if m <> int_of_n (slots_of (n_of_u64 nn)) then begin
      st.thm_fail <- st.thm_fail + 1;
      fail_corr "FAIL corr line=%d n=%s extracted model=%d differs from Tower.slots_of=%d (C07_slots_exact)"
        lineno ns m (int_of_n (slots_of (n_of_u64 nn)))
    end;
    (* monitor, on the implementation's value, closed form in native integers *)
    let n = Int64.to_int nn and di = Int64.to_int d in
    if di <= 0 then begin
      st.mon_fail <- st.mon_fail + 1;
      fail_mon "FAIL mon line=%d class=formula n=%d d=%d slot size is not positive case=%s" lineno n di key
    end else begin
      let exact = (n + di - 1) / di in
      if n = 0 then begin
        if v = 0 then begin
          st.mon_zero <- st.mon_zero + 1;
          fail_mon "FAIL mon line=%d class=zero-blob n=0 d=%d impl=0 (less than one slot) case=%s" lineno di key
        end else if v <> 1 then begin
          st.mon_fail <- st.mon_fail + 1;
          fail_mon "FAIL mon line=%d class=formula n=0 d=%d exact=0 impl=%d case=%s" lineno di v key
        end
      end else if v <> exact || v < 1 then begin
        st.mon_fail <- st.mon_fail + 1;
        fail_mon "FAIL mon line=%d class=formula n=%d d=%d exact=%d impl=%d case=%s" lineno n di exact v key
      end
    end
  end else st.above <- st.above + 1

let handle_sld (lineno : int) (_ : string) (r : reader) : unit =
  let ns = next r in
  let ds = next r in
  let obs = next r in
  assert (obs = "OBS");
  let v = next_int r in
  st.sld <- st.sld + 1;
  let key = "SLD " ^ ns ^ " " ^ ds in
  if v >= 1 then Hashtbl.replace st.nontrivial key ();
  let m = model (u64_of_string ns) (u64_of_string ds) in
  if m <> v then begin
    st.corr_fail <- st.corr_fail + 1;
    fail_corr "FAIL corr line=%d n=%s d=%s model=%d impl=%d case=%s" lineno ns ds m v key
  end

(* the sweep's wrong points: the model must be wrong in the same way *)
let handle_wrong (lineno : int) (_ : string) (r : reader) : unit =
  let ns = next r in
  let v = next_int r in
  let m = model (u64_of_string ns) (model_const ()) in
  if m = v then st.model_wrong_agree <- st.model_wrong_agree + 1
  else begin
    st.corr_fail <- st.corr_fail + 1;
    fail_corr "FAIL corr line=%d sweep: n=%s impl=%d model=%d case=SL %s" lineno ns v m ns
  end

let handle_sweep (_ : int) (_ : string) (r : reader) : unit =
  st.sweep <- Array.init 7 (fun _ -> next_int r)

let summary () =
  if st.cases + st.sld > 0 then begin
    let sw i = if Array.length st.sweep = 7 then st.sweep.(i) else -1 in
    Printf.printf
      "SUMMARY kind=SL cases=%d sld_cases=%d corr_fail=%d mon_fail=%d mon_zero_blob=%d thm_fail=%d distinct_nontrivial=%d in_range=%d above_range=%d saturated=%d model_evals=%d blob_max=%d sweep_upto=%d sweep_evaluated=%d sweep_wrong=%d sweep_wrong_le_2p24=%d sweep_first_wrong=%d sweep_last_wrong=%d sweep_panics=%d sweep_wrong_model_agrees=%d fail_lines_suppressed=%d\n"
      st.cases st.sld st.corr_fail st.mon_fail st.mon_zero st.thm_fail (Hashtbl.length st.nontrivial)
      st.in_range st.above st.saturated st.model_evals st.const_ (sw 0) (sw 1) (sw 2) (sw 3) (sw 4) (sw 5) (sw 6)
      st.model_wrong_agree (max 0 (!printed_corr - max_fail_lines) + max 0 (!printed_mon - max_fail_lines))
  end

let () =
  register "SLCONST" handle_const;
  register "SL" handle_sl;
  register "SLD" handle_sld;
  register "SLWRONG" handle_wrong;
  register "SLSWEEP" handle_sweep;
  register_summary summary
