#!/bin/sh
# Extract the models and build the OCaml driver into /verif/.build/ocaml (full rebuild, seconds).
set -e
HERE="$(cd "$(dirname "$0")" && pwd)"
OUT="${1:-/verif/.build/ocaml}"
mkdir -p "$OUT"
cp "$HERE"/Extract.v "$HERE"/*.ml "$OUT"/
cd "$OUT"
rm -f model.ml model.mli
coqc -Q "$HERE/../theories" TeosModel Extract.v >/dev/null
ocamlfind ocamlopt -O3 -w -a -package str model.mli model.ml driver_util.ml drv_*.ml driver.ml -o driver 2>/dev/null \
 || ocamlfind ocamlopt -w -a model.mli model.ml driver_util.ml drv_*.ml driver.ml -o driver
