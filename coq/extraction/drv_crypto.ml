(* C17: run the extracted CONCRETE Gallina instance (SHA-256 / ChaCha20 / Poly1305 AEAD, consensus
   codec, zbase32) byte for byte on the cases the Rust harness executed on the real
   cryptography::{encrypt,decrypt,sign,verify,recover_pk}, Locator::new and
   consensus::{serialize,deserialize}; evaluate the property monitor on the IMPLEMENTATION's
   observations.  Line formats: see harness/src/bin/crypto/main.rs. *)
open Model
open Driver_util

type stats = {
  mutable ctx : int; mutable cmut : int; mutable cdes : int; mutable csig : int; mutable csigmut : int;
  mutable corr_fail : int; mutable mon_fail : int;
  mutable flips : int; mutable truncs : int; mutable others : int;
  mutable tamper_cases : int; mutable aliases : int; mutable malleated : int; mutable malleated_ok : int;
  mutable bytes_compared : int; mutable sig_undecodable : int;
  nontrivial : (string, unit) Hashtbl.t;
}
let st = { ctx = 0; cmut = 0; cdes = 0; csig = 0; csigmut = 0; corr_fail = 0; mon_fail = 0;
           flips = 0; truncs = 0; others = 0; tamper_cases = 0; aliases = 0; malleated = 0;
           malleated_ok = 0; bytes_compared = 0; sig_undecodable = 0; nontrivial = Hashtbl.create 4096 }

(* ---- bytes <-> hex tokens ---- *)
let byte_tab : n array = Array.init 256 n_of_int
let hexval c =
  match c with
  | '0'..'9' -> Char.code c - 48
  | 'a'..'f' -> Char.code c - 87
  | 'A'..'F' -> Char.code c - 55
  | _ -> failwith "bad hex"
let bytes_of_hex (s : string) : n list =
  if s = "-" then [] else begin
    let len = String.length s / 2 in
    let rec go i acc =
      if i < 0 then acc
      else go (i - 1) (byte_tab.(16 * hexval s.[2 * i] + hexval s.[2 * i + 1]) :: acc) in
    go (len - 1) []
  end
let hex_of_bytes (l : n list) : string =
  if l = [] then "-" else begin
    let b = Buffer.create 256 in
    List.iter (fun x -> Buffer.add_string b (Printf.sprintf "%02x" (int_of_n x land 255))) l;
    Buffer.contents b
  end

(* decimal token of any size -> N / Z *)
let n_of_dec (s : string) : n =
  (* Horner in N via small OCaml ints is not enough for u64: go through Int64-free arithmetic *)
  let ten = n_of_int 10 in
  let acc = ref N0 in
  String.iter (fun c -> acc := N.add (N.mul !acc ten) (n_of_int (Char.code c - 48))) s;
  !acc
let z_of_dec (s : string) : z =
  if String.length s > 0 && s.[0] = '-' then
    (match n_of_dec (String.sub s 1 (String.length s - 1)) with N0 -> Z0 | Npos p -> Zneg p)
  else (match n_of_dec s with N0 -> Z0 | Npos p -> Zpos p)

let derr_class = function
  | EIo -> "io"
  | ENonMinimalVarInt -> "nonminimal"
  | EUnsupportedSegwitFlag x -> "flag:" ^ string_of_int (int_of_n x)
  | ENoWitnesses -> "nowit"
  | ETrailing -> "trailing"
  | EOversized -> "oversized"

let case_of (line : string) : string =
  (* the case without the observations *)
  let rec find i =
    if i + 4 > String.length line then String.length line
    else if String.sub line i 4 = " OBS" then i else find (i + 1) in
  String.sub line 0 (find 0)

let short s = if String.length s > 160 then String.sub s 0 160 ^ "..." else s

let corr_fail lineno line what model impl =
  st.corr_fail <- st.corr_fail + 1;
  Printf.printf "FAIL corr line=%d what=%s model=%s impl=%s case=%s\n" lineno what (short model) (short impl) (case_of line)

let mon_fail lineno line what =
  st.mon_fail <- st.mon_fail + 1;
  Printf.printf "FAIL mon line=%d what=%s case=%s\n" lineno what (case_of line)

let note_case line = Hashtbl.replace st.nontrivial (Digest.string (case_of line)) ()

let cmp lineno line what (model : string) (impl : string) =
  st.bytes_compared <- st.bytes_compared + String.length model / 2;
  if model <> impl then corr_fail lineno line what model impl

(* ---- CTX ---- *)
let read_tx (r : reader) : btx =
  let version = z_of_dec (next r) in
  let lock = n_of_dec (next r) in
  let ins = read_list r (fun r ->
    let txid = bytes_of_hex (next r) in
    let vout = n_of_dec (next r) in
    let script = bytes_of_hex (next r) in
    let seq = n_of_dec (next r) in
    let wit = read_list r (fun r -> bytes_of_hex (next r)) in
    { txi_txid = txid; txi_vout = vout; txi_script = script; txi_seq = seq; txi_witness = wit }) in
  let outs = read_list r (fun r ->
    let value = n_of_dec (next r) in
    let script = bytes_of_hex (next r) in
    { txo_value = value; txo_script = script }) in
  { btx_version = version; btx_in = ins; btx_out = outs; btx_lock = lock }

let handle_ctx lineno line (r : reader) =
  st.ctx <- st.ctx + 1;
  let _id = next r in
  let t = read_tx r in
  let key_hex = next r in
  let key = bytes_of_hex key_hex in
  if next r <> "OBS" then failwith "CTX: OBS expected";
  let ser_i = next r in
  let deser_i = next r in
  let ct_i = next r in
  let dec_i = next r in
  let loc_i = next r in
  let nflip = next_int r in let nflip_rej = next_int r in
  let ntrunc = next_int r in let ntrunc_rej = next_int r in
  let nother = next_int r in let nother_rej = next_int r in
  (* the model, byte for byte *)
  if not (c17_tx_wf t) then corr_fail lineno line "tx_wf" "false" "generated";
  let ser_m = c17_tx_encode t in
  cmp lineno line "serialize" (hex_of_bytes ser_m) ser_i;
  let deser_m = match c17_tx_deserialize ser_m with
    | Inl t' -> if t' = t then "ok" else "diff"
    | Inr e -> "err:" ^ derr_class e in
  cmp lineno line "deserialize" deser_m deser_i;
  let ct_m = c17_encrypt t key in
  cmp lineno line "encrypt" (hex_of_bytes ct_m) ct_i;
  let dec_m = match c17_decrypt_r ct_m key with
    | DecOk t' -> if t' = t then "ok" else "diff:" ^ hex_of_bytes (c17_tx_encode t')
    | DecAead -> "aead"
    | DecEncode e -> "encode:" ^ derr_class e in
  cmp lineno line "decrypt" dec_m dec_i;
  cmp lineno line "locator" (hex_of_bytes (c17_locator key)) loc_i;
  (* the monitor, on what the implementation did *)
  if deser_i <> "ok" then mon_fail lineno line ("deserialize(serialize(t))=" ^ short deser_i);
  if dec_i <> "ok" then mon_fail lineno line ("decrypt(encrypt(t,k),k)=" ^ short dec_i);
  if loc_i = "panic" || not (c17_mon_locator key (bytes_of_hex loc_i)) then
    mon_fail lineno line ("locator=" ^ loc_i ^ " is not the first 16 bytes of the id");
  if nflip_rej <> nflip then mon_fail lineno line (Printf.sprintf "bitflips accepted=%d of %d" (nflip - nflip_rej) nflip);
  if ntrunc_rej <> ntrunc then mon_fail lineno line (Printf.sprintf "truncations accepted=%d of %d" (ntrunc - ntrunc_rej) ntrunc);
  if nother_rej <> nother then mon_fail lineno line (Printf.sprintf "other ids accepted=%d of %d" (nother - nother_rej) nother);
  st.flips <- st.flips + nflip; st.truncs <- st.truncs + ntrunc; st.others <- st.others + nother;
  if t.btx_in <> [] || t.btx_out <> [] then note_case line

(* ---- CMUT ---- *)
let handle_cmut lineno line (r : reader) =
  st.cmut <- st.cmut + 1;
  let kind = next r in
  let _id = next r in let _param = next r in
  let key = bytes_of_hex (next r) in
  let blob = bytes_of_hex (next r) in
  if next r <> "OBS" then failwith "CMUT: OBS expected";
  let obs = next r in
  let model = match c17_decrypt_r blob key with
    | DecOk t ->
        let canon = c17_encrypt t key = blob in
        "ok:" ^ hex_of_bytes (c17_tx_encode t) ^ ":" ^ (if canon then "1" else "0")
    | DecAead -> "aead"
    | DecEncode e -> "encode:" ^ derr_class e in
  cmp lineno line ("decrypt[" ^ kind ^ "]") model obs;
  let is_ok = String.length obs >= 3 && String.sub obs 0 3 = "ok:" in
  let tampering = List.mem kind ["flip"; "trunc"; "extend"; "otherkey"] in
  if tampering then st.tamper_cases <- st.tamper_cases + 1;
  if obs = "panic" then mon_fail lineno line "decrypt panicked"
  else if tampering && is_ok then mon_fail lineno line ("tampered blob accepted [" ^ kind ^ "]")
  else if is_ok && obs.[String.length obs - 1] <> '1' then
    mon_fail lineno line ("decrypt accepted a blob that is not encrypt(result, id) [" ^ kind ^ "]")
  else if kind = "pvalid" && not is_ok then mon_fail lineno line "decrypt rejected a correctly sealed transaction";
  note_case line

(* ---- CDES ---- *)
let handle_cdes lineno line (r : reader) =
  st.cdes <- st.cdes + 1;
  let kind = next r in
  let bytes = bytes_of_hex (next r) in
  if next r <> "OBS" then failwith "CDES: OBS expected";
  let obs = next r in
  let model = match c17_tx_deserialize bytes with
    | Inl t -> "ok:" ^ hex_of_bytes (c17_tx_encode t)
    | Inr e -> "err:" ^ derr_class e in
  cmp lineno line ("deserialize[" ^ kind ^ "]") model obs;
  let is_ok = String.length obs >= 3 && String.sub obs 0 3 = "ok:" in
  if obs = "panic" then mon_fail lineno line "deserialize panicked"
  else if kind = "trailing" && is_ok then mon_fail lineno line "trailing bytes after a transaction accepted";
  note_case line

(* ---- CSIG ---- *)
let handle_csig lineno line (r : reader) =
  st.csig <- st.csig + 1;
  let msg = bytes_of_hex (next r) in
  let _sk = next r in
  let pk = next r in
  let digest = next r in
  let rid = next_int r in
  let compact = bytes_of_hex (next r) in
  let _otherpk = next r in
  if next r <> "OBS" then failwith "CSIG: OBS expected";
  let sig_i = next r in
  let rec_i = next r in
  let ver_i = next r in
  let ver_other = next r in
  cmp lineno line "ln_digest" (hex_of_bytes (c17_ln_digest msg)) digest;
  cmp lineno line "sign" (hex_of_bytes (c17_sig_encode (n_of_int rid) compact)) sig_i;
  (match (if sig_i = "panic" then None else c17_sig_decode (bytes_of_hex sig_i)) with
   | Some (rid', compact') ->
       if int_of_n rid' <> rid || compact' <> compact then corr_fail lineno line "sig_decode" "differs" sig_i
   | None -> corr_fail lineno line "sig_decode" "None" sig_i);
  if rec_i <> pk then mon_fail lineno line ("recovered key " ^ rec_i ^ " is not the signer");
  if ver_i <> "1" then mon_fail lineno line "verify(msg, sign(msg, sk), pk) is false";
  if ver_other <> "0" then mon_fail lineno line "the signature verifies for another public key";
  note_case line

(* ---- CSIGMUT ---- *)
let handle_csigmut lineno line (r : reader) =
  st.csigmut <- st.csigmut + 1;
  let kind = next r in
  let _param = next r in
  let pk = next r in
  let msg = bytes_of_hex (next r) in
  let sg = bytes_of_hex (next r) in
  let omsg = bytes_of_hex (next r) in
  let osig = bytes_of_hex (next r) in
  if next r <> "OBS" then failwith "CSIGMUT: OBS expected";
  let rec_i = next r in
  let ver_i = next r in
  let verifies = ver_i = "1" in
  let decoded = c17_sig_decode sg in
  let alias = msg = omsg && c17_sig_same_value osig sg in
  (* correspondence: what the model can predict without secp256k1 *)
  (match decoded with
   | None ->
       st.sig_undecodable <- st.sig_undecodable + 1;
       if rec_i <> "err" then corr_fail lineno line "recover_pk[undecodable text]" "err" rec_i
   | Some _ -> ());
  if alias && (not verifies || rec_i <> pk) then corr_fail lineno line "recover_pk[same value, other spelling]" pk rec_i;
  if verifies <> (rec_i = pk) then corr_fail lineno line "verify = (recover_pk = pk)" (if rec_i = pk then "1" else "0") ver_i;
  if rec_i = "panic" || ver_i = "panic" then mon_fail lineno line "recover_pk / verify panicked"
  else if kind = "malleate" then begin
    (* informational: (r, n-s, rid^1) is outside the single-bit / truncation quantifier *)
    st.malleated <- st.malleated + 1;
    if verifies then st.malleated_ok <- st.malleated_ok + 1
  end else begin
    if alias then st.aliases <- st.aliases + 1;
    (* "accepted for the signer" = verify says so OR recover_pk yields the signer's key (the tower authenticates by recovery) *)
    if not (c17_mon_sig_mutation omsg msg osig sg (verifies || rec_i = pk)) then
      mon_fail lineno line ("altered message/signature verifies for the signer [" ^ kind ^ "]")
  end;
  note_case line

let guard name h lineno line r =
  try h lineno line r
  with e ->
    st.corr_fail <- st.corr_fail + 1;
    Printf.printf "FAIL corr line=%d what=driver-exception:%s:%s case=%s\n" lineno name (Printexc.to_string e) (short (case_of line))

let summary () =
  let total = st.ctx + st.cmut + st.cdes + st.csig + st.csigmut in
  if total > 0 then
    Printf.printf "SUMMARY kind=CR cases=%d ctx=%d cmut=%d cdes=%d csig=%d csigmut=%d corr_fail=%d mon_fail=%d distinct_nontrivial=%d tamper_cases_modelled=%d flips_swept=%d truncs_swept=%d otherids_swept=%d sig_text_aliases_accepted=%d sig_undecodable=%d malleated=%d malleated_accepted=%d model_bytes_compared=%d\n"
      total st.ctx st.cmut st.cdes st.csig st.csigmut st.corr_fail st.mon_fail (Hashtbl.length st.nontrivial)
      st.tamper_cases st.flips st.truncs st.others st.aliases st.sig_undecodable st.malleated st.malleated_ok st.bytes_compared

let () =
  register "CTX" (guard "CTX" handle_ctx);
  register "CMUT" (guard "CMUT" handle_cmut);
  register "CDES" (guard "CDES" handle_cdes);
  register "CSIG" (guard "CSIG" handle_csig);
  register "CSIGMUT" (guard "CSIGMUT" handle_csigmut);
  register "CPANIC" (fun lineno line _ ->
    st.corr_fail <- st.corr_fail + 1;
    Printf.printf "FAIL corr line=%d what=harness-level-panic case=%s\n" lineno (short line));
  register_summary summary
