(* driver.ml — reads the case files written by the Rust harnesses (one case per line, the
   implementation's observations included), runs the extracted Coq model and the property
   monitors on each, prints one FAIL line per disagreement and a SUMMARY line per kind. *)
open Driver_util

let () =
  let file = Sys.argv.(1) in
  let ic = open_in file in
  let lineno = ref 0 in
  let seen_ti = ref false in
  (try
     while true do
       let line = input_line ic in
       incr lineno;
       let r = reader_of_line line in
       match peek r with
       | None -> ()
       | Some "TI" -> ignore (next r); seen_ti := true; Drv_txindex.handle !lineno line r
       | Some "TIEXH" -> ignore (next r); Drv_txindex.st.Drv_txindex.exhaustive <- next_int r
       | Some "TIPANIC" ->
           Drv_txindex.st.Drv_txindex.corr_fail <- Drv_txindex.st.Drv_txindex.corr_fail + 1;
           Printf.printf "FAIL corr line=%d harness-level panic: %s\n" !lineno line
       | Some other -> Printf.printf "FAIL parse line=%d unknown kind %s\n" !lineno other
     done
   with End_of_file -> ());
  close_in ic;
  if !seen_ti then Drv_txindex.summary ()
