(* driver.ml — reads a case file written by a Rust harness (one case per line, the
   implementation's observations included), hands each line to the handler registered for its
   first token (drv_*.ml: they run the extracted Coq model and the property monitors), which
   print one FAIL line per disagreement; then prints one SUMMARY line per kind. *)
open Driver_util

let () =
  let file = Sys.argv.(1) in
  let ic = if file = "-" then stdin else open_in file in
  let lineno = ref 0 in
  (try
     while true do
       let line = input_line ic in
       incr lineno;
       let r = reader_of_line line in
       match peek r with
       | None -> ()
       | Some kind ->
           (match Hashtbl.find_opt handlers kind with
            | Some h -> ignore (next r); h !lineno line r
            | None -> Printf.printf "FAIL parse line=%d unknown kind %s\n" !lineno kind)
     done
   with End_of_file -> ());
  if file <> "-" then close_in ic;
  List.iter (fun f -> f ()) !summaries
