(* conversions between OCaml ints and the extracted Coq numbers *)
open Model

let rec pos_of_int (n : int) : positive =
  if n <= 1 then XH
  else if n land 1 = 0 then XO (pos_of_int (n lsr 1))
  else XI (pos_of_int (n lsr 1))

let rec int_of_pos (p : positive) : int =
  match p with
  | XH -> 1
  | XO q -> 2 * int_of_pos q
  | XI q -> 2 * int_of_pos q + 1

let n_of_int (i : int) : n = if i <= 0 then N0 else Npos (pos_of_int i)
let int_of_n (x : n) : int = match x with N0 -> 0 | Npos p -> int_of_pos p
let z_of_int (i : int) : z =
  if i = 0 then Z0 else if i > 0 then Zpos (pos_of_int i) else Zneg (pos_of_int (-i))
let int_of_z (x : z) : int =
  match x with Z0 -> 0 | Zpos p -> int_of_pos p | Zneg p -> - (int_of_pos p)

let rec nat_of_int (n : int) : nat = if n <= 0 then O else S (nat_of_int (n - 1))
let rec int_of_nat (n : nat) : int = match n with O -> 0 | S m -> 1 + int_of_nat m

(* token reader over one line *)
type reader = { toks : string array; mutable pos : int }
let reader_of_line (l : string) : reader =
  let ts = String.split_on_char ' ' l |> List.filter (fun s -> s <> "") in
  { toks = Array.of_list ts; pos = 0 }
let peek r = if r.pos < Array.length r.toks then Some r.toks.(r.pos) else None
let next r = let t = r.toks.(r.pos) in r.pos <- r.pos + 1; t
let next_int r = int_of_string (next r)
let at_end r = r.pos >= Array.length r.toks
let read_list r f = let n = next_int r in List.init n (fun _ -> f r)

(* registry of case kinds: each drv_*.ml registers the first token(s) it handles *)
let handlers : (string, int -> string -> reader -> unit) Hashtbl.t = Hashtbl.create 16
let summaries : (unit -> unit) list ref = ref []
let register (kind : string) (h : int -> string -> reader -> unit) = Hashtbl.replace handlers kind h
let register_summary (f : unit -> unit) = summaries := !summaries @ [f]
