(* C19: run the extracted TxIndex model and the window specification on the cases the Rust
   harness executed on the real TxIndex; compare observation by observation. *)
open Model
open Driver_util

type stats = {
  mutable cases : int; mutable steps : int; mutable valid_cases : int;
  mutable corr_fail : int; mutable mon_fail : int; mutable aborts : int;
  mutable nontrivial : (string, unit) Hashtbl.t; mutable exhaustive : int;
  mutable reorg_cases : int; mutable invalid_cases : int;
}
let st = { cases = 0; steps = 0; valid_cases = 0; corr_fail = 0; mon_fail = 0; aborts = 0;
           nontrivial = Hashtbl.create 1024; exhaustive = 0; reorg_cases = 0; invalid_cases = 0 }

let opt_int f = function Some v -> f v | None -> -1

let handle (lineno : int) (line : string) (r : reader) : unit =
  (* r is positioned after the TI token *)
  let variant = next_int r in
  let n = next_int r in
  let height = next_int r in
  let mk_block h ks =
    { ib_hash = n_of_int h;
      ib_data = List.map (fun k -> (n_of_int k, n_of_int (if variant = 0 then h else k))) ks } in
  let init = read_list r (fun r -> let h = next_int r in let ks = read_list r next_int in mk_block h ks) in
  let ops = read_list r (fun r ->
    let tag = next_int r in
    if tag = 1 then (let h = next_int r in let ks = read_list r next_int in TConnect (mk_block h ks))
    else TDisconnect (n_of_int (next_int r))) in
  let qkeys = read_list r next_int in
  let qhashes = read_list r next_int in
  let obs_tok = next r in
  assert (obs_tok = "OBS");
  let nq = List.length qkeys + List.length qhashes in
  let read_obs () =
    match peek r with
    | Some "P" -> ignore (next r); None
    | _ -> Some (List.init nq (fun _ -> next_int r)) in
  let model_obs t =
    List.map (fun k -> opt_int int_of_n (ti_get t (n_of_int k))) qkeys @
    List.map (fun h -> opt_int int_of_z (ti_get_height t (n_of_int h))) qhashes in
  let spec_obs w =
    List.map (fun k -> opt_int int_of_n (w_get w (n_of_int k))) qkeys @
    List.map (fun h -> opt_int int_of_z (w_get_height w (n_of_int h))) qhashes in
  let show l = String.concat " " (List.map string_of_int l) in
  let ops_key = (* the case without its observations *)
    match String.index_opt line 'O' with Some i -> String.sub line 0 i | None -> line in
  st.cases <- st.cases + 1;
  let nn = nat_of_int n in
  let failed_corr = ref false and failed_mon = ref false in
  let corr_fail step exp got =
    if not !failed_corr then begin
      failed_corr := true; st.corr_fail <- st.corr_fail + 1;
      Printf.printf "FAIL corr line=%d step=%d model=[%s] impl=[%s] case=%s\n" lineno step exp got ops_key
    end in
  let mon_fail step exp got =
    if not !failed_mon then begin
      failed_mon := true; st.mon_fail <- st.mon_fail + 1;
      Printf.printf "FAIL mon line=%d step=%d spec=[%s] impl=[%s] case=%s\n" lineno step exp got ops_key
    end in
  (* the window the index was built from: init is oldest first *)
  let w0 = { w_blocks = init; w_tip = z_of_int height } in
  let t0 = ti_new (List.rev init) (z_of_int height) in
  let nontriv = ref false and has_disc = ref false in
  let rec go step t w valid ops =
    (* observation of the current state *)
    let impl = read_obs () in
    (match t, impl with
     | Some t, Some io ->
         let mo = model_obs t in
         if mo <> io then corr_fail step (show mo) (show io);
         if valid then begin
           let so = spec_obs w in
           if so <> io then mon_fail step (show so) (show io);
           if List.exists (fun x -> x >= 0) io then nontriv := true
         end
     | None, None -> st.aborts <- st.aborts + 1
     | Some _, None -> corr_fail step "ok" "P(abort)"; if valid then mon_fail step "no abort" "P(abort)"
     | None, Some _ -> corr_fail step "abort" "ok");
    match t, impl, ops with
    | Some t, Some _, o :: rest ->
        st.steps <- st.steps + 1;
        let valid' = valid && valid_opb w o in
        (match o with TDisconnect _ -> has_disc := true | _ -> ());
        go (step + 1) (ti_step t o) (w_step nn w o) valid' rest
    | _, _, [] -> valid
    | _ -> valid in
  let valid_all = go 0 t0 w0 (valid_windowb w0) ops in
  if valid_all then st.valid_cases <- st.valid_cases + 1 else st.invalid_cases <- st.invalid_cases + 1;
  if !has_disc then st.reorg_cases <- st.reorg_cases + 1;
  if !nontriv && !has_disc then Hashtbl.replace st.nontrivial (Digest.string ops_key) ()

let summary () =
  if st.cases > 0 then Printf.printf "SUMMARY kind=TI cases=%d steps=%d valid_cases=%d invalid_cases=%d reorg_cases=%d aborts_agreed=%d corr_fail=%d mon_fail=%d distinct_nontrivial=%d exhaustive_cases=%d\n"
    st.cases st.steps st.valid_cases st.invalid_cases st.reorg_cases st.aborts st.corr_fail st.mon_fail
    (Hashtbl.length st.nontrivial) st.exhaustive

let () =
  register "TI" handle;
  register "TIEXH" (fun _ _ r -> st.exhaustive <- next_int r);
  register "TIPANIC" (fun lineno line _ ->
    st.corr_fail <- st.corr_fail + 1;
    Printf.printf "FAIL corr line=%d harness-level panic: %s\n" lineno line);
  register_summary summary
