(* Tower histories (kind TW): run the extracted sequential tower model on the operations the Rust
   harness executed on the real tower, compare every observation (reply, RPCs, the three tables,
   gatekeeper memory), and evaluate the extracted property monitors (TowerMon.mon_step) on the
   IMPLEMENTATION's observations. *)
open Model
open Driver_util

type stats = {
  mutable cases : int; mutable steps : int; mutable corr_fail : int; mutable mon_fail : int;
  mutable aborts_impl : int; distinct : (string, unit) Hashtbl.t;
  opk : (string, int) Hashtbl.t; resk : (string, int) Hashtbl.t; monk : (int, int) Hashtbl.t;
  mutable rpcs : int; mutable breaches : int; mutable reorg_cases : int;
}
let st = { cases = 0; steps = 0; corr_fail = 0; mon_fail = 0; aborts_impl = 0;
           distinct = Hashtbl.create 1024; opk = Hashtbl.create 16; resk = Hashtbl.create 32;
           monk = Hashtbl.create 16; rpcs = 0; breaches = 0; reorg_cases = 0 }
let all_edges : (int * int, unit) Hashtbl.t = Hashtbl.create 32
let bump tbl k = Hashtbl.replace tbl k (1 + (try Hashtbl.find tbl k with Not_found -> 0))

let log_enabled = true   (* the harness installs a logger at level Info, as teosd does *)

let expect r s = let t = next r in if t <> s then failwith (Printf.sprintf "expected %s got %s at %d" s t r.pos)

let signer_of i = if i >= 0 then Some (n_of_int i) else None
let blob_of key pay len = { b_key = n_of_int key; b_pay = (if pay >= 0 then Some (n_of_int pay) else None); b_len = n_of_int len }

let getraw_of = function 0 -> G_in_mempool | 1 -> G_confirmed | 2 -> G_not_found | _ -> G_other
let send_of c = if c = 0 then A_ok else A_code (z_of_int c)

(* returns (op with sig placeholder, start/end token positions of the op+script) *)
let parse_op (r : reader) : (int -> op) * (n * (getraw_ans * send_ans)) list * string =
  let start = r.pos in
  let tag = next r in
  let mk =
    match tag with
    | "R" -> let u = next_int r in (fun _ -> ORegister (n_of_int u))
    | "A" ->
        let signer = next_int r in let _cls = next_int r in let loc = next_int r in
        let key = next_int r in let pay = next_int r in let len = next_int r in
        let delay = next_int r in let _salt = next_int r in
        (fun sg -> OAdd (signer_of signer, n_of_int loc, blob_of key pay len, n_of_int delay, n_of_int sg))
    | "G" -> let signer = next_int r in let _ = next_int r in let loc = next_int r in
             (fun _ -> OGet (signer_of signer, n_of_int loc))
    | "S" -> let signer = next_int r in let _ = next_int r in (fun _ -> OGetSub (signer_of signer))
    | "C" -> let h = next_int r in let txs = read_list r next_int in
             (fun _ -> OConnect (n_of_int h, List.map n_of_int txs))
    | "D" -> (fun _ -> ODisconnect)
    | t -> failwith ("unknown op " ^ t) in
  let script = read_list r (fun r -> let t = next_int r in let g = next_int r in let s = next_int r in
                                     (n_of_int t, (getraw_of g, send_of s))) in
  let text = String.concat " " (Array.to_list (Array.sub r.toks start (r.pos - start))) in
  (mk, script, text)

(* tokens up to the next "|" or ";" *)
let read_until_bar (r : reader) : string list =
  let rec go acc = match peek r with
    | Some "|" | Some ";" | None -> List.rev acc
    | Some _ -> go (next r :: acc) in
  go []

let opt_pay = function Some p -> int_of_n p | None -> -1

let result_tokens (x : out) : string list =
  let i n = string_of_int (int_of_n n) in
  match x with
  | ORegisterRes (RegOk (s, st, e)) -> ["RO"; i s; i st; i e; "1"]
  | ORegisterRes RegMaxSlots -> ["RM"]
  | OAddRes (AddOk (start, sg, slots, e)) -> ["AO"; i start; i sg; i slots; i e]
  | OAddRes AddAuthOrSlots -> ["AA"]
  | OAddRes (AddExpired e) -> ["AE"; i e]
  | OAddRes AddTriggered -> ["AT"]
  | OGetRes (GetApp (l, b, d)) -> ["GA"; i l; i b.b_key; string_of_int (opt_pay b.b_pay); i b.b_len; i d; "1"]
  | OGetRes (GetTrk (d, p)) -> ["GT"; i d; i p; "1"; "2"]
  | OGetRes GetNotFound -> ["GN"]
  | OGetRes GetAuth -> ["GU"]
  | OGetRes (GetExpired e) -> ["GE"; i e]
  | OSubRes (SubOk (s, e, locs)) ->
      let l = List.sort compare (List.map int_of_n locs) in
      ["SO"; i s; i e; string_of_int (List.length l)] @ List.map string_of_int l
  | OSubRes SubAuth -> ["SU"]
  | OSubRes (SubExpired e) -> ["SE"; i e]
  | OBlockRes -> ["B"]
  | OAbort _ -> ["X"]

(* the implementation's reply as a model `out` (for the monitors) *)
let out_of_tokens (ts : string list) : out option =
  let n s = n_of_int (int_of_string s) in
  match ts with
  | ["RO"; s; stt; e; _] -> Some (ORegisterRes (RegOk (n s, n stt, n e)))
  | ["RM"] -> Some (ORegisterRes RegMaxSlots)
  | ["AO"; start; sg; slots; e] -> Some (OAddRes (AddOk (n start, n (if int_of_string sg < 0 then "0" else sg), n slots, n e)))
  | ["AA"] -> Some (OAddRes AddAuthOrSlots)
  | ["AE"; e] -> Some (OAddRes (AddExpired (n e)))
  | ["AT"] -> Some (OAddRes AddTriggered)
  | ["GA"; l; k; p; len; d; _] -> Some (OGetRes (GetApp (n l, blob_of (int_of_string k) (int_of_string p) (int_of_string len), n d)))
  | ["GT"; d; p; _; _] -> Some (OGetRes (GetTrk (n d, n p)))
  | ["GN"] -> Some (OGetRes GetNotFound)
  | ["GU"] -> Some (OGetRes GetAuth)
  | ["GE"; e] -> Some (OGetRes (GetExpired (n e)))
  | "SO" :: s :: e :: _ :: locs -> Some (OSubRes (SubOk (n s, n e, List.map n locs)))
  | ["SU"] -> Some (OSubRes SubAuth)
  | ["SE"; e] -> Some (OSubRes (SubExpired (n e)))
  | ["B"] -> Some OBlockRes
  | "X" :: _ -> Some (OAbort S_r_get_height_unwrap)   (* a panic: the site is not compared *)
  | _ -> None

type iobs = { users : int list list; apps : int list list; trks : int list list; mem : int list list }

let parse_state (r : reader) : iobs =
  let rows k = let n = next_int r in List.init n (fun _ -> List.init k (fun _ -> next_int r)) in
  let users = rows 4 in let apps = rows 8 in let trks = rows 6 in let mem = rows 3 in
  { users; apps; trks; mem }

let obs_of_iobs (o : iobs) : obs =
  let n = n_of_int in
  { o_users = List.map (function [u; s; stt; e] -> (n u, { u_slots = n s; u_start = n stt; u_expiry = n e }) | _ -> assert false) o.users;
    o_apps = List.map (function [l; u; k; p; len; d; sg; stt] ->
                         { a_loc = n l; a_user = n u; a_blob = blob_of k p len; a_delay = n d; a_sig = n sg; a_start = n stt }
                       | _ -> assert false) o.apps;
    o_trks = List.map (function [l; u; d; p; h; c] ->
                         { t_loc = n l; t_user = n u; t_dispute = n d; t_penalty = n p; t_height = n h; t_conf = (c <> 0) }
                       | _ -> assert false) o.trks;
    o_mem = List.map (function [u; s; e] -> (n u, (n s, n e)) | _ -> assert false) o.mem }

let iobs_of_model (t : tower) : iobs =
  let i = int_of_n in
  let o = observe t in
  { users = List.sort compare (List.map (fun (u, ui) -> [i u; i ui.u_slots; i ui.u_start; i ui.u_expiry]) o.o_users);
    apps = List.sort compare (List.map (fun a -> [i a.a_loc; i a.a_user; i a.a_blob.b_key; opt_pay a.a_blob.b_pay; i a.a_blob.b_len;
                                                   i a.a_delay; i a.a_sig; i a.a_start]) o.o_apps);
    trks = List.sort compare (List.map (fun k -> [i k.t_loc; i k.t_user; i k.t_dispute; i k.t_penalty; i k.t_height;
                                                   (if k.t_conf then 1 else 0)]) o.o_trks);
    mem = List.sort compare (List.map (fun (u, (s, e)) -> [i u; i s; i e]) o.o_mem) }

let show_rows rows = String.concat "/" (List.map (fun r -> String.concat "," (List.map string_of_int r)) rows)

let handle (lineno : int) (_line : string) (r : reader) : unit =
  let slots = next_int r in let duration = next_int r in let delta = next_int r in
  let h0 = next_int r in let nsteps = next_int r in
  let cfg = { c_slots = n_of_int slots; c_duration = n_of_int duration; c_delta = n_of_int delta } in
  let header = Printf.sprintf "TW %d %d %d %d" slots duration delta h0 in
  (* the initial chain: h0+1 blocks without universe transactions; newest first, hashes 1000+height *)
  let last_blocks = List.init 100 (fun k -> (n_of_int (1000 + h0 - k), [])) in
  let t0 = match init cfg (n_of_int h0) last_blocks with Some t -> t | None -> failwith "model init failed" in
  st.cases <- st.cases + 1;
  let ops_text = Buffer.create 256 in
  let nops = ref 0 in
  let case_prefix () = Printf.sprintf "%s %d %s" header !nops (Buffer.contents ops_text) in
  let corr_failed = ref false in
  let corr_fail step field m i =
    if not !corr_failed then begin
      corr_failed := true; st.corr_fail <- st.corr_fail + 1;
      Printf.printf "FAIL corr line=%d step=%d field=%s model=[%s] impl=[%s] case=%s\n" lineno step field m i (case_prefix ())
    end in
  let mon_seen = Hashtbl.create 4 in
  let mon_fail step code detail =
    if not (Hashtbl.mem mon_seen code) then begin
      Hashtbl.replace mon_seen code (); st.mon_fail <- st.mon_fail + 1; bump st.monk code;
      Printf.printf "FAIL mon prop=C%02d line=%d step=%d detail=%s case=%s\n" code lineno step detail (case_prefix ())
    end in
  let t = ref t0 in
  let model_alive = ref true in
  let m = ref (m_init (n_of_int h0)) in
  let pre = ref (obs_of_iobs { users = []; apps = []; trks = []; mem = [] }) in
  let had_disc = ref false and had_breach = ref false in
  (try
    for stepi = 0 to nsteps - 1 do let step = stepi in
      if at_end r then raise Exit;
      let (mk, script, text) = parse_op r in
      expect r "|";
      let res_toks = read_until_bar r in
      expect r "|";
      let nr = next_int r in
      let rpcs = List.init nr (fun _ -> let k = next_int r in let tx = next_int r in (k, tx)) in
      st.rpcs <- st.rpcs + nr;
      expect r "|";
      (* lock-order pairs (held, requested) hook H3 observed in this step *)
      let ne = next_int r in
      let edges = List.init ne (fun _ -> let a = next_int r in let b = next_int r in (a, b)) in
      expect r "|";
      incr nops; Buffer.add_string ops_text text; Buffer.add_string ops_text " | ; ";
      st.steps <- st.steps + 1;
      bump st.opk (String.sub text 0 1);
      bump st.resk (match res_toks with t :: _ -> t | [] -> "?");
      (* the signature id the request carried: the one the implementation reports for its receipt / row *)
      let sg = match res_toks with ["AO"; _; sg; _; _] -> max 0 (int_of_string sg) | _ -> 0 in
      let o = mk sg in
      (match o with ODisconnect -> had_disc := true | _ -> ());
      let aborted = (match res_toks with "X" :: _ -> true | _ -> false) in
      let kind = (match o with ORegister _ -> 0 | OAdd _ -> 1 | OGet _ -> 2 | OGetSub _ -> 3 | OConnect _ -> 4 | ODisconnect -> 5) in
      List.iter (fun (a, b) ->
        Hashtbl.replace all_edges (a, b) ();
        if not (edge_allowed (n_of_int kind) (n_of_int a) (n_of_int b)) then
          corr_fail step "locks" (Printf.sprintf "op-kind %d allows no pair %d->%d" kind a b) (Printf.sprintf "%d->%d" a b)) edges;
      (* --- model --- *)
      if !model_alive then begin
        let (t1, x) = Model.step log_enabled !t o script in
        let mt = result_tokens x in
        let it = (match res_toks with "X" :: _ -> ["X"] | l -> l) in
        if mt <> it then corr_fail step "result" (String.concat " " mt) (String.concat " " res_toks);
        let mr = List.sort compare (List.map (fun (k, tx) -> ((match k with K_send -> 1 | K_getraw -> 0), int_of_n tx)) (rpcs_of t1)) in
        if mr <> rpcs && not aborted then
          corr_fail step "rpc" (String.concat " " (List.map (fun (k, x) -> Printf.sprintf "%d:%d" k x) mr))
            (String.concat " " (List.map (fun (k, x) -> Printf.sprintf "%d:%d" k x) rpcs));
        t := t1;
        (match x with OAbort _ -> model_alive := false | _ -> ())
      end;
      if aborted then begin
        st.aborts_impl <- st.aborts_impl + 1;
        expect r "alive";
        let alive = next_int r in
        expect r ";";
        let loc = (match res_toks with _ :: l :: _ -> l | _ -> "?") in
        mon_fail step 11 (Printf.sprintf "abort@%s,alive=%d" loc alive);
        raise Exit
      end;
      let io = parse_state r in
      expect r ";";
      if !model_alive then begin
        let mo = iobs_of_model !t in
        if mo.users <> io.users then corr_fail step "users" (show_rows mo.users) (show_rows io.users);
        if mo.apps <> io.apps then corr_fail step "apps" (show_rows mo.apps) (show_rows io.apps);
        if mo.trks <> io.trks then corr_fail step "trks" (show_rows mo.trks) (show_rows io.trks);
        if mo.mem <> io.mem then corr_fail step "mem" (show_rows mo.mem) (show_rows io.mem)
      end;
      (* --- monitors on the implementation's observations --- *)
      let post = obs_of_iobs io in
      (match res_toks with
       | ["RO"; _; _; _; "0"] -> mon_fail step 8 "registration-receipt-does-not-verify"
       | ["AO"; _; "-1"; _; _] -> mon_fail step 8 "appointment-receipt-does-not-verify"
       | ["GA"; _; _; _; _; _; s] when s <> "1" -> mon_fail step 1 "status-not-being-watched"
       | ["GT"; _; _; raw; s] when s <> "2" || raw <> "1" -> mon_fail step 1 "tracker-reply-inconsistent"
       | _ -> ());
      (match out_of_tokens res_toks with
       | Some x ->
           let rp = List.map (fun (k, tx) -> ((if k = 1 then K_send else K_getraw), n_of_int tx)) rpcs in
           let (fails, m') = mon_step cfg !m !pre o script x rp post in
           (* a conservation failure while some user's granted total exceeds u32::MAX is the recorded class
              "balance above u32::MAX wraps" (outside the envelope of the C07 theorems): code 107 *)
           let above_u32 =
             List.exists (fun (_, (g, _)) -> int_of_n g > 4294967295) m'.m_ledger in
           List.iter (fun c ->
             let c = int_of_n c in
             mon_fail step (if c = 7 && above_u32 then 107 else c) "monitor") fails;
           (match o with OConnect (_, txs) -> if List.exists (fun a -> List.exists (fun tx -> tx = a.a_loc) txs) (!pre).o_apps then had_breach := true | _ -> ());
           m := m'
       | None -> corr_fail step "result" "?" (String.concat " " res_toks));
      pre := post
    done
  with Exit -> ());
  if !had_disc then st.reorg_cases <- st.reorg_cases + 1;
  if !had_breach then st.breaches <- st.breaches + 1;
  if !had_breach || !had_disc then Hashtbl.replace st.distinct (Digest.string (Buffer.contents ops_text)) ()

let summary () =
  if st.cases > 0 then begin
    let el = Hashtbl.fold (fun (a, b) () acc -> (n_of_int a, n_of_int b) :: acc) all_edges [] in
    let edges_s = String.concat "," (List.sort compare (Hashtbl.fold (fun (a, b) () acc -> Printf.sprintf "%d>%d" a b :: acc) all_edges [])) in
    if not (acyclic el) then begin
      st.mon_fail <- st.mon_fail + 1; bump st.monk 11;
      Printf.printf "FAIL mon prop=C11 line=0 step=0 detail=lock-order-cycle:%s case=-\n" edges_s
    end;
    Printf.printf "LOCKEDGES %s\n" edges_s;
    let tbl t = String.concat "," (List.sort compare (Hashtbl.fold (fun k v acc -> Printf.sprintf "%s:%d" k v :: acc) t [])) in
    let tbli t = String.concat "," (List.sort compare (Hashtbl.fold (fun k v acc -> Printf.sprintf "C%02d:%d" k v :: acc) t [])) in
    Printf.printf "SUMMARY kind=TW cases=%d steps=%d rpcs=%d corr_fail=%d mon_fail=%d aborts_impl=%d distinct_nontrivial=%d breach_cases=%d reorg_cases=%d ops=%s results=%s mon=%s\n"
      st.cases st.steps st.rpcs st.corr_fail st.mon_fail st.aborts_impl (Hashtbl.length st.distinct) st.breaches st.reorg_cases
      (tbl st.opk) (tbl st.resk) (tbli st.monk)
  end

let () =
  register "TW" (fun lineno line r ->
    try handle lineno line r
    with Failure msg -> (st.corr_fail <- st.corr_fail + 1; Printf.printf "FAIL parse line=%d %s\n" lineno msg));
  register_summary summary
