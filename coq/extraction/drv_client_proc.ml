(* C05 / C14 / C13: the tie between ClientFlow.v (extracted) and the REAL plugin process driven by
   harness/src/bin/client_proc (lines `CP ...`).

   The plugin is timing driven (a retry manager polling once per second, retry tasks sleeping in an
   exponential back-off), so WHEN its internal steps happen is not scripted.  The driver therefore checks
   TRACE INCLUSION: it keeps the SET of model states that explain what has been observed so far
   (on-the-fly subset construction).  A scenario step applies the corresponding model operation to every
   candidate (kept only where the model's result code is the observed one), then closes the set under the
   model's internal operations (FManagerTick, FRetrierRun of one attempt with "back-off goes on" /
   "max elapsed time exhausted", a pending un-awaited notification).  Every request a candidate emits towards
   a tower that is up must be the NEXT entry of that tower's observed request log (endpoint, locator) and
   receives the reply class the fake tower logged for it; requests to a tower that is down get "connection
   refused".  At the QUIESCENT points (SETTLE / WAKE steps that settled, and the end) only the candidates
   that have consumed every tower's log and whose canonical observation — listtowers, gettowerinfo of every
   tower, the raw rows of the seven tables — EQUALS the implementation's survive.  No survivor = the model
   cannot explain the implementation: `FAIL corr`.  A KILL keeps, per candidate, every durable state
   `crash_states` lists for the operations in flight.

   The property monitors (ClientMon.mon_c05 / mon_c14 / mon_c13, defined in Coq) are evaluated on the
   IMPLEMENTATION's observations only: `FAIL mon prop=Cxx check=<code> ...`. *)
open Model
open Driver_util

type lent = { e_t : int; e_ep : int; e_l : int; e_cls : int; e_ms : int; e_v1 : int; e_v2 : int; e_v3 : int }
type tio = TITimeout | TIUnknown_ | TIPresent of int list
type iobs = { alive : bool; now : int; lt_ok : bool; lt : int list list; ti : tio list; raw : int list list list; log : lent list;
              samples : int; moves : int; both : int; van : (int * int * int * string) list }
type istep = { k : int; a : int; b : int; res : int; dur : int; o : iobs }

type stats = { mutable cases : int; mutable steps : int; mutable compares : int; mutable corr_fail : int; mutable mon_fail : int;
               mutable kills : int; mutable settle_caps : int; mutable max_cands : int; mutable requests : int;
               mutable lat_n : int; mutable lat_sum : int; mutable lat_max : int; mutable not_alive : int;
               fam : (int, int) Hashtbl.t; acls : (int, int) Hashtbl.t; rcls : (int, int) Hashtbl.t;
               kinds : (int, int) Hashtbl.t; nontrivial : (string, unit) Hashtbl.t; monc : (int, int) Hashtbl.t;
               mutable cap_hits : int; mutable samples : int; mutable moves : int; mutable both : int; mutable vanish : int }
let st = { cases = 0; steps = 0; compares = 0; corr_fail = 0; mon_fail = 0; kills = 0; settle_caps = 0; max_cands = 0;
           requests = 0; lat_n = 0; lat_sum = 0; lat_max = 0; not_alive = 0; fam = Hashtbl.create 16; acls = Hashtbl.create 16;
           rcls = Hashtbl.create 16; kinds = Hashtbl.create 16; nontrivial = Hashtbl.create 256; monc = Hashtbl.create 16;
           cap_hits = 0; samples = 0; moves = 0; both = 0; vanish = 0 }
let bump h k = Hashtbl.replace h k (1 + (try Hashtbl.find h k with Not_found -> 0))

let arities = [| 3; 3; 2; 2; 5; 5; 3 |]
let expect r s = let t = next r in if t <> s then failwith (Printf.sprintf "expected %s got %s" s t)

(* ---------- parsing ---------- *)
let parse_obs r nt : iobs =
  let alive = next_int r = 1 in
  let now = next_int r in
  expect r "LT";
  let lt_ok = next_int r = 1 in
  let n = next_int r in
  let lt = List.init n (fun _ ->
    let h = List.init 5 (fun _ -> next_int r) in
    let p = read_list r next_int in
    let i = read_list r next_int in
    h @ [List.length p] @ p @ [List.length i] @ i) in
  expect r "TI";
  let nti = next_int r in
  let ti = List.init nti (fun _ ->
    let _t = next_int r in
    match next_int r with
    | 2 -> TITimeout
    | 0 -> TIUnknown_
    | _ ->
      let status = next_int r in
      let nrec = next_int r in
      let recs = List.init (2 * nrec) (fun _ -> next_int r) in
      let p = read_list r next_int in
      let i = read_list r next_int in
      let pf = next_int r in
      let proof = if pf = 1 then let l = next_int r in let rc = next_int r in [1; l; rc] else [0] in
      TIPresent ([status; nrec] @ recs @ [List.length p] @ p @ [List.length i] @ i @ proof)) in
  ignore nt;
  expect r "RAW";
  let raw = List.init 7 (fun i ->
    let nrows = next_int r in
    List.init nrows (fun _ -> List.init arities.(i) (fun _ -> next_int r))) in
  expect r "LOG";
  let log = read_list r (fun r ->
    let e_t = next_int r in let e_ep = next_int r in let e_l = next_int r in let e_cls = next_int r in
    let e_ms = next_int r in let e_v1 = next_int r in let e_v2 = next_int r in let e_v3 = next_int r in
    { e_t; e_ep; e_l; e_cls; e_ms; e_v1; e_v2; e_v3 }) in
  expect r "VAN";
  let samples = next_int r in let moves = next_int r in let both = next_int r in
  let van = read_list r (fun r -> let t = next_int r in let l = next_int r in let ms = next_int r in let state = next r in (t, l, ms, state)) in
  { alive; now; lt_ok; lt; ti; raw; log; samples; moves; both; van }

(* ---------- model state -> canonical observation ---------- *)
let ints l = List.map int_of_n l
let sorted_ints l = List.sort compare (ints l)
let status_int s = int_of_n (tower_status_code s)

let model_lt (s : fstate) : (bool * int list list) =
  match f_listtowers s with
  | None -> (false, [])
  | Some m ->
    let rows = List.map (fun (t, su) ->
      let p = sorted_ints su.su_pending and i = sorted_ints su.su_invalid in
      [int_of_n t; status_int su.su_status; int_of_n su.su_slots; int_of_n su.su_start; int_of_n su.su_expiry]
      @ [List.length p] @ p @ [List.length i] @ i) m in
    (true, List.sort compare rows)

let model_ti (s : fstate) (t : int) : tio =
  match f_gettowerinfo s (n_of_int t) with
  | TIUnknown -> TIUnknown_
  | TIAbort _ -> TITimeout
  | TIInfo i ->
    let recs = List.sort compare (List.map (fun (l, sg) -> (int_of_n l, if int_of_n sg > 0 then 1 else 0)) i.ti_receipts) in
    let locs rows = List.sort compare (List.map (fun r -> match r with l :: _ -> int_of_n l | [] -> -1) rows) in
    let p = locs i.ti_pending and iv = locs i.ti_invalid in
    let proof = match i.ti_proof with None -> [0] | Some pr -> [1; int_of_n pr.pi_locator; int_of_n pr.pi_recovered] in
    TIPresent ([status_int i.ti_status; List.length recs] @ List.concat (List.map (fun (a, b) -> [a; b]) recs)
               @ [List.length p] @ p @ [List.length iv] @ iv @ proof)

let model_raw (s : fstate) : int list list list =
  let d = s.f_c.c_db in
  List.init 7 (fun i -> List.sort compare (List.map ints (tbl d (nat_of_int i))))

let show_rows rows = String.concat ";" (List.map (fun r -> String.concat " " (List.map string_of_int r)) rows)
let show_raw raw = String.concat " | " (List.mapi (fun i rows -> Printf.sprintf "T%d:%s" i (show_rows rows)) raw)
let show_ti = function TITimeout -> "timeout" | TIUnknown_ -> "unknown" | TIPresent l -> String.concat " " (List.map string_of_int l)

(* first differing component *)
let diff_state (s : fstate) (o : iobs) (nt : int) : (string * string * string) option =
  let (mok, mlt) = model_lt s in
  if mok <> o.lt_ok then Some ("alive", string_of_bool mok, string_of_bool o.lt_ok)
  else if model_raw s <> o.raw then Some ("raw-rows", show_raw (model_raw s), show_raw o.raw)
  else if mlt <> o.lt then Some ("listtowers", show_rows mlt, show_rows o.lt)
  else
    let mti = List.init nt (fun t -> model_ti s t) in
    if mti <> o.ti then Some ("gettowerinfo", String.concat " / " (List.map show_ti mti), String.concat " / " (List.map show_ti o.ti))
    else None

(* ---------- reply classes ---------- *)
let areply_of (e : lent) : areply =
  match e.e_cls with
  | 0 -> AAccept (n_of_int e.e_v1) | 1 -> AWrongKey | 2 -> ABadSig | 3 -> ASubErr | 4 -> AApiErr
  | 9 -> AUnexpected | _ -> ADeserErr
let rreply_of (e : lent) : rreply =
  match e.e_cls with
  | 0 | 2 | 5 | 6 -> RReceipt (n_of_int e.e_v1, n_of_int e.e_v2, n_of_int e.e_v3, true)
  | 1 | 7 -> RReceipt (n_of_int e.e_v1, n_of_int e.e_v2, n_of_int e.e_v3, false)   (* signed by another key / for another user *)
  | 4 -> RApiErr
  | _ -> RDeserErr

(* ---------- candidates ---------- *)
type cand = { s : fstate; pos : int array; inflight : int option; site : string (* the abort site the model went through, "-" if none *) }

let scrub (s : fstate) : fstate = { s with f_log = []; f_dbs = [] }
let same_cand a b = a.pos = b.pos && a.inflight = b.inflight && a.site = b.site && a.s = b.s
let add_cand (acc : cand list ref) (c : cand) : bool =
  if List.exists (same_cand c) !acc then false else (acc := c :: !acc; true)

let cap = 4000

type ctx = { nt : int; up : bool array; seglog : lent array array (* per tower, current segment *) }

(* match the requests an operation emitted against the towers' logs; returns the new positions, or None *)
let consume (cx : ctx) ?(down_override = -1) (pos : int array) (emitted : req list) : int array option =
  let pos = Array.copy pos in
  let ok = ref true in
  List.iter (fun rq ->
    if !ok then begin
      let (t, ep, l) = match rq with ReqRegister t -> (int_of_n t, 0, -1) | ReqAdd (t, l) -> (int_of_n t, 1, int_of_n l) in
      if t >= 0 && t < cx.nt && cx.up.(t) && t <> down_override then begin
        let lg = cx.seglog.(t) in
        if pos.(t) < Array.length lg && lg.(pos.(t)).e_ep = ep && (ep = 0 || lg.(pos.(t)).e_l = l)
        then pos.(t) <- pos.(t) + 1 else ok := false
      end
    end) emitted;
  if !ok then Some pos else None

(* how many of the emitted requests match (a prefix): used for operations cut by a KILL *)
let consume_prefixes (cx : ctx) (pos : int array) (emitted : req list) : int array list =
  let rec go pos acc = function
    | [] -> List.rev acc
    | rq :: rest ->
      (match consume cx pos [rq] with
       | Some p -> go p (p :: acc) rest
       | None -> List.rev acc) in
  pos :: go pos [] emitted

let upcoming (cx : ctx) (pos : int array) (t : int) : lent list =
  if t < 0 || t >= cx.nt || not cx.up.(t) then []
  else let lg = cx.seglog.(t) in List.init (max 0 (Array.length lg - pos.(t))) (fun i -> lg.(pos.(t) + i))

let attempt_for (cx : ctx) (pos : int array) (t : int) (more : bool) : attempt =
  let es = upcoming cx pos t in
  let (reg, rest) = match es with e :: r when e.e_ep = 0 -> (rreply_of e, r) | _ -> (RConnErr, es) in
  let adds = List.filter (fun e -> e.e_ep = 1) rest in
  (* a tower that is up answers from its log; one that is down refuses every connection *)
  { at_reg = reg; at_adds = List.map areply_of adds; at_order = List.map (fun e -> n_of_int e.e_l) adds; at_more = more }

let rev_replies (cx : ctx) (c : cand) (l : int) : (n * areply) list =
  List.concat (List.init cx.nt (fun t ->
    match upcoming cx c.pos t with
    | e :: _ when e.e_ep = 1 && e.e_l = l -> [(n_of_int t, areply_of e)]
    | _ -> []))

let csite_name = function
  | Site_poisoned -> "poisoned"
  | Site_add_update_tower_load_unwrap -> "add_update_tower_load_unwrap"
  | Site_store_tower_record_unwrap -> "store_tower_record_unwrap"
  | Site_store_appointment_receipt_unwrap -> "store_appointment_receipt_unwrap"
  | Site_store_pending_appointment_unwrap -> "store_pending_appointment_unwrap"
  | Site_store_invalid_appointment_unwrap -> "store_invalid_appointment_unwrap"
  | Site_store_misbehaving_proof_unwrap -> "store_misbehaving_proof_unwrap"
  | Site_load_misbehaving_proof_unwrap -> "load_misbehaving_proof_unwrap"
  | Site_abandon_remove_tower_unwrap -> "abandon_remove_tower_unwrap"
  | Site_retrier_load_appointment_unwrap -> "retrier_load_appointment_unwrap"
  | Site_retrier_start_status_unwrap -> "retrier_start_status_unwrap"
  | Site_send_appointment_recover_unwrap -> "send_appointment_recover_unwrap"
let fsite_name = function SClient s -> csite_name s | Site_gettowerinfo_status_unwrap -> "gettowerinfo_status_unwrap"
let site_of_out (o : fout) : string option =
  match o with
  | OPanic (SClient Site_poisoned) | ORun (OutAbort (SClient Site_poisoned)) -> None
  | OPanic s -> Some (fsite_name s)
  | ORun (OutAbort s) -> Some (fsite_name s)
  | _ -> None

let apply_op (cx : ctx) ?(down_override = -1) (c : cand) (o : fop) : (cand * fout) option =
  let (s', out) = fstep (scrub c.s) o in
  match consume cx ~down_override c.pos s'.f_log with
  | Some pos ->
    let site = match site_of_out out with Some x when c.site = "-" -> x | _ -> c.site in
    Some ({ c with s = scrub s'; pos; site }, out)
  | None -> None

let idle_towers (s : fstate) : n list =
  List.filter_map (fun (t, r) -> match r.r_status with RIdle -> Some t | _ -> None) s.f_mgr

(* closure under the internal operations *)
let closure (cx : ctx) (allow_wake : bool) (start : cand list) : cand list * bool =
  let acc = ref [] in
  let queue = Queue.create () in
  List.iter (fun c -> if add_cand acc c then Queue.add c queue) start;
  let capped = ref false in
  while not (Queue.is_empty queue) && not !capped do
    let c = Queue.pop queue in
    let push c' = if add_cand acc c' then Queue.add c' queue in
    let try_op o = match apply_op cx c o with Some (c', _) -> push c' | None -> () in
    if not c.s.f_mgr_dead then begin
      try_op (FManagerTick []);
      if allow_wake then (match idle_towers c.s with [] -> () | ts -> try_op (FManagerTick ts))
    end;
    List.iter (fun t ->
      List.iter (fun more -> try_op (FRetrierRun (t, [attempt_for cx c.pos (int_of_n t) more]))) [true; false])
      (List.sort_uniq compare c.s.f_tasks);
    (match c.inflight with
     | Some l ->
       (match apply_op cx { c with inflight = None } (FRevocation (n_of_int l, [], rev_replies cx c l)) with
        | Some (c', _) -> push c' | None -> ())
     | None -> ());
    if List.length !acc > cap then capped := true
  done;
  (!acc, !capped)

let out_code (o : fout) : int = match o with OOk -> 0 | OErr _ -> 1 | OPanic _ -> 2 | _ -> 0

(* the durable states (and log positions) a KILL can leave behind for one candidate *)
let kill_cand (cx : ctx) (c : cand) : cand list =
  let base = [ { s = scrub (restart_with c.s c.s.f_c.c_db); pos = c.pos; inflight = None; site = "-" } ] in
  let partial (o : fop) : cand list =
    let s0 = scrub c.s in
    let (s', _) = fstep s0 o in
    let dbs = crash_states o s0 in
    (* the requests made before the kill: any per-tower prefix of the emitted ones *)
    let per_tower = List.init cx.nt (fun t ->
      consume_prefixes cx c.pos (List.filter (fun rq -> (match rq with ReqRegister x -> int_of_n x | ReqAdd (x, _) -> int_of_n x) = t) s'.f_log)) in
    let poss = List.fold_left (fun acc (t, opts) ->
      List.concat (List.map (fun (p : int array) -> List.map (fun (q : int array) -> let r = Array.copy p in r.(t) <- q.(t); r) opts) acc))
      [Array.copy c.pos] (List.mapi (fun t o -> (t, o)) per_tower) in
    List.concat (List.map (fun d -> List.map (fun p -> { s = scrub (restart_with c.s d); pos = p; inflight = None; site = "-" }) poss) dbs) in
  let tasks = List.sort_uniq compare c.s.f_tasks in
  let from_tasks = List.concat (List.map (fun t ->
    List.concat (List.map (fun more -> partial (FRetrierRun (t, [attempt_for cx c.pos (int_of_n t) more]))) [true; false])) tasks) in
  let rec perms = function
    | [] -> [[]]
    | l -> List.concat (List.map (fun x -> List.map (fun p -> x :: p) (perms (List.filter (fun y -> y <> x) l))) l) in
  let from_rev = match c.inflight with
    | Some l -> List.concat (List.map (fun order ->
        partial (FRevocation (n_of_int l, List.map n_of_int order, rev_replies cx c l))) (perms (List.init cx.nt (fun t -> t))))
    | None -> [] in
  base @ from_tasks @ from_rev

(* ---------- implementation observation -> ClientMon.scen ---------- *)
let status_of_int = function
  | 0 -> Reachable | 1 -> TemporaryUnreachable | 2 -> Unreachable | 3 -> SubscriptionError | _ -> Misbehaving

let nn i = n_of_int (max 0 i)
let mon_obs (o : iobs) : cobs =
  let lt = List.filter_map (fun row ->
    match row with
    | t :: stt :: slots :: start :: expiry :: rest when t >= 0 ->
      let np = List.hd rest in
      let p = List.filteri (fun i _ -> i >= 1 && i <= np) rest in
      let rest2 = List.filteri (fun i _ -> i > np) rest in
      let ni = (match rest2 with x :: _ -> x | [] -> 0) in
      let iv = List.filteri (fun i _ -> i >= 1 && i <= ni) rest2 in
      Some (nn t, { su_addr = nn t; su_slots = nn slots; su_start = nn start; su_expiry = nn expiry;
                    su_status = status_of_int stt; su_pending = List.map nn p; su_invalid = List.map nn iv })
    | _ -> None) o.lt in
  { ob_alive = o.alive && o.lt_ok; ob_ms = nn o.now; ob_lt = lt;
    ob_db = List.map (fun rows -> List.map (fun r -> List.map nn r) rows) o.raw @ [[]];
    ob_log = List.map (fun e -> { le_t = nn e.e_t; le_ep = nn e.e_ep; le_l = nn e.e_l; le_cls = nn e.e_cls; le_ms = nn e.e_ms;
                                  le_v1 = nn e.e_v1; le_v2 = nn e.e_v2; le_v3 = nn e.e_v3 }) o.log;
    ob_van = List.map (fun (t, l, ms, _) -> ((nn t, nn l), nn ms)) o.van }

let has_undecodable (o : iobs) : bool =
  List.exists (fun rows -> List.exists (List.exists (fun x -> x = -2)) rows) o.raw
  || List.exists (fun row -> match row with t :: _ -> t = -2 | [] -> false) o.lt
  || List.exists (fun e -> e.e_ep = 1 && e.e_l = -2) o.log

(* ---------- one scenario ---------- *)
let handle (lineno : int) (_line : string) (r : reader) : unit =
  let id = next_int r in
  let family = next_int r in
  let nt = next_int r in
  let o0 = next_int r in let o1 = next_int r in let o2 = next_int r in
  let nsteps = next_int r in
  let steps = Array.init nsteps (fun _ ->
    expect r "S";
    let k = next_int r in let a = next_int r in let b = next_int r in
    expect r "RES";
    let res = next_int r in let dur = next_int r in
    expect r "OBS";
    let o = parse_obs r nt in
    { k; a; b; res; dur; o }) in
  ignore id;
  st.cases <- st.cases + 1;
  st.steps <- st.steps + nsteps;
  bump st.fam family;
  (* the case, as `client_proc replay` reads it (the harness adds the leading START itself) *)
  let case_key =
    let body = Array.to_list (Array.sub steps 1 (nsteps - 1)) in
    Printf.sprintf "CPCASE %d %d %d %d %d %d %s" family nt o0 o1 o2 (List.length body)
      (String.concat " " (List.map (fun s -> Printf.sprintf "%d %d %d" s.k s.a s.b) body)) in
  Hashtbl.replace st.nontrivial (Digest.string case_key) ();
  Array.iter (fun s ->
    bump st.kinds s.k;
    if s.k = 9 then st.kills <- st.kills + 1;
    st.samples <- st.samples + s.o.samples; st.moves <- st.moves + s.o.moves; st.both <- st.both + s.o.both;
    st.vanish <- st.vanish + List.length s.o.van;
    if (s.k = 5 || s.k = 12) && s.res = 2 then st.settle_caps <- st.settle_caps + 1;
    List.iter (fun e -> st.requests <- st.requests + 1;
                if e.e_ep = 1 then bump st.acls e.e_cls else if e.e_ep = 0 then bump st.rcls e.e_cls) s.o.log) steps;
  let undec = Array.exists (fun s -> has_undecodable s.o) steps in
  let failed_corr = ref false in
  let corr_fail step what m i =
    if not !failed_corr then begin
      failed_corr := true; st.corr_fail <- st.corr_fail + 1;
      Printf.printf "FAIL corr line=%d family=%d step=%d what=%s model=[%s] impl=[%s] case=%s\n" lineno family step what m i case_key
    end in
  let final_site = ref "-" in
  let report_monitors () =
    let sc = { sc_nt = nn nt; sc_max_retry = nn o0; sc_auto = nn o1; sc_interval = nn o2;
               sc_steps = Array.to_list (Array.map (fun s ->
                 { ss_kind = nn s.k; ss_a = nn s.a; ss_b = nn s.b; ss_res = nn s.res; ss_dur = nn s.dur; ss_obs = mon_obs s.o }) steps) } in
    let seen = Hashtbl.create 8 in
    let report prop vs =
      List.iter (fun (((code, step), t), l) ->
        let code = int_of_n code in
        if not (Hashtbl.mem seen code) then begin
          Hashtbl.replace seen code ();
          st.mon_fail <- st.mon_fail + 1; bump st.monc code;
          let site =
            if code = 503 then
              (* the sample itself: when, and what the sampler read *)
              let found = ref "sample" in
              Array.iter (fun s -> List.iter (fun (t', l', ms, state) ->
                if !found = "sample" && t' = int_of_n t && l' = int_of_n l then found := Printf.sprintf "sample@%dms:%s" ms state) s.o.van) steps;
              !found
            else !final_site in
          Printf.printf "FAIL mon line=%d prop=%s check=%d family=%d step=%d t=%d l=%d site=%s case=%s\n" lineno prop code family
            (int_of_n step) (int_of_n t) (int_of_n l) site case_key
        end) vs in
    report "C05" (mon_c05 sc);
    report "C14" (mon_c14 sc);
    report "C13" (mon_c13 sc) in
  if undec then corr_fail (-1) "undecodable-value-in-observation" "" "";
  (* ----- latency of delivery after a recovery (evidence only) ----- *)
  (let waiting = Array.make nt (-1) in
   Array.iter (fun s ->
     let pending_of t = List.exists (fun row -> match row with t' :: stt :: _ :: _ :: _ :: np :: _ -> t' = t && (np > 0 || stt <> 0) | _ -> false) s.o.lt in
     if (s.k = 3 && s.b = 1) || (s.k = 2 && s.b = 0) then (if s.a < nt && pending_of s.a then waiting.(s.a) <- s.o.now);
     if s.k = 9 || s.k = 8 then Array.fill waiting 0 nt (-1);
     for t = 0 to nt - 1 do
       if waiting.(t) >= 0 && s.o.lt_ok && not (pending_of t) then begin
         let d = s.o.now - waiting.(t) in
         st.lat_n <- st.lat_n + 1; st.lat_sum <- st.lat_sum + d; if d > st.lat_max then st.lat_max <- d;
         waiting.(t) <- -1
       end
     done) steps);
  (* ----- correspondence: trace inclusion ----- *)
  if not undec then begin
    let quiescent i = (steps.(i).k = 5 || steps.(i).k = 12) && steps.(i).res = 0 in
    (* segment logs *)
    let seg_end i = let j = ref i in while !j < nsteps - 1 && not (quiescent !j) do incr j done; !j in
    let build_seglog from upto =
      Array.init nt (fun t ->
        let acc = ref [] in
        for i = from to upto do
          List.iter (fun e -> if e.e_t = t && e.e_ep <> 2 then acc := e :: !acc) steps.(i).o.log
        done;
        Array.of_list (List.rev !acc)) in
    let up = Array.make nt true in
    let running = ref false in
    let cands = ref [ { s = scrub f_init; pos = Array.make nt 0; inflight = None; site = "-" } ] in
    let seg_from = ref 0 in
    let cx = ref { nt; up; seglog = build_seglog 0 (seg_end 0) } in
    (try
      for i = 0 to nsteps - 1 do
        if !failed_corr then raise Exit;
        let stp = steps.(i) in
        if i = !seg_from then begin
          cx := { nt; up; seglog = build_seglog i (seg_end i) };
          cands := List.map (fun c -> { c with pos = Array.make nt 0 }) !cands
        end;
        let allow_wake = stp.o.now >= 1000 * o1 in
        (* the visible operation *)
        let visible (mk : cand -> fop) ?(down_override = -1) () =
          if !running && stp.res <> 3 then begin
            let next = ref [] in
            List.iter (fun c ->
              match apply_op !cx ~down_override c (mk c) with
              | Some (c', out) -> if out_code out = stp.res then ignore (add_cand next c')
              | None -> ()) !cands;
            if !next = [] then
              corr_fail i (Printf.sprintf "result-of-step(kind=%d)" stp.k)
                (String.concat "," (List.sort_uniq compare (List.map (fun c ->
                   match apply_op !cx ~down_override c (mk c) with Some (_, out) -> string_of_int (out_code out) | None -> "log-mismatch") !cands)))
                (string_of_int stp.res);
            cands := !next
          end in
        (match stp.k with
         | 10 -> (* START *)
           if not !running then begin
             running := stp.res = 0;
             if stp.res <> 0 then corr_fail i "start-failed" "0" (string_of_int stp.res)
           end
         | 9 -> (* KILL *)
           if !running then begin
             running := false;
             let next = ref [] in
             List.iter (fun c -> List.iter (fun c' -> ignore (add_cand next c')) (kill_cand !cx c)) !cands;
             cands := !next
           end
         | 1 -> (* REG t cls *)
           let t = stp.a in
           let down_override = if stp.b = 20 then t else -1 in
           visible ~down_override (fun c ->
             let rp = if down_override = t then RConnErr else
                 match upcoming !cx c.pos t with e :: _ when e.e_ep = 0 -> rreply_of e | _ -> RConnErr in
             FRegister (n_of_int t, rp)) ()
         | 3 -> if stp.a < nt then up.(stp.a) <- (stp.b = 1)
         | 4 -> visible (fun c -> FRevocation (n_of_int stp.a, [], rev_replies !cx c stp.a)) ()
         | 11 -> if !running then cands := List.map (fun c -> { c with inflight = Some stp.a }) !cands
         | 7 -> visible (fun _ -> FManualRetry (n_of_int stp.a)) ()
         | 8 -> visible (fun _ -> FAbandon (n_of_int stp.a)) ()
         | _ -> ());
        if !running && not !failed_corr then begin
          let (cl, capped) = closure !cx allow_wake !cands in
          if capped then (st.cap_hits <- st.cap_hits + 1; corr_fail i "candidate-set-exceeds-cap" "" "");
          cands := cl
        end;
        if List.length !cands > st.max_cands then st.max_cands <- List.length !cands;
        if quiescent i && not !failed_corr then begin
          st.compares <- st.compares + 1;
          if not (stp.o.alive && stp.o.lt_ok) then st.not_alive <- st.not_alive + 1;
          let complete c = c.inflight = None && (let ok = ref true in Array.iteri (fun t p -> if p <> Array.length !cx.seglog.(t) then ok := false) c.pos; !ok) in
          let done_ = List.filter complete !cands in
          let surv = List.filter (fun c -> diff_state c.s stp.o nt = None) done_ in
          if surv = [] then begin
            match done_, !cands with
            | c :: _, _ ->
              (* report the candidate that differs latest in the comparison order *)
              let rank c = match diff_state c.s stp.o nt with
                | Some ("alive", _, _) -> 0 | Some ("raw-rows", _, _) -> 1 | Some ("listtowers", _, _) -> 2 | Some _ -> 3 | None -> 4 in
              let best = List.fold_left (fun b x -> if rank x > rank b then x else b) c done_ in
              (match diff_state best.s stp.o nt with
               | Some (w, m, im) -> corr_fail i w m im
               | None -> ())
            | [], c :: _ ->
              corr_fail i "request-log"
                (String.concat "," (Array.to_list (Array.map string_of_int c.pos)))
                (String.concat "," (Array.to_list (Array.map (fun a -> string_of_int (Array.length a)) !cx.seglog)))
            | [], [] -> corr_fail i "no-candidate" "" ""
          end;
          cands := surv;
          seg_from := i + 1
        end
      done
    with Exit -> ()
       | Failure m -> corr_fail (-1) ("driver-failure:" ^ m) "" "");
    (match List.sort_uniq compare (List.map (fun c -> c.site) !cands) with
     | [] -> ()
     | l -> final_site := String.concat "|" l)
  end;
  (* ----- monitors, on the implementation's observations ----- *)
  if not undec then report_monitors ()

let show_hist h = String.concat "," (List.map (fun (k, v) -> Printf.sprintf "%d:%d" k v) (List.sort compare (Hashtbl.fold (fun k v a -> (k, v) :: a) h [])))

let summary () =
  if st.cases > 0 then
    Printf.printf "SUMMARY kind=CP cases=%d steps=%d settle_compares=%d corr_fail=%d mon_fail=%d distinct_nontrivial=%d kills=%d settle_caps=%d max_candidates=%d cap_hits=%d requests=%d not_alive_compares=%d latency_n=%d latency_avg_ms=%d latency_max_ms=%d families=%s add_classes=%s reg_classes=%s step_kinds=%s mon_codes=%s db_samples=%d moves_sampled=%d moves_seen_with_both_records=%d vanished_samples=%d\n"
      st.cases st.steps st.compares st.corr_fail st.mon_fail (Hashtbl.length st.nontrivial) st.kills st.settle_caps st.max_cands
      st.cap_hits st.requests st.not_alive st.lat_n (if st.lat_n > 0 then st.lat_sum / st.lat_n else 0) st.lat_max
      (show_hist st.fam) (show_hist st.acls) (show_hist st.rcls) (show_hist st.kinds) (show_hist st.monc)
      st.samples st.moves st.both st.vanish

let () =
  register "CP" handle;
  register "CPPANIC" (fun lineno _ _ -> st.corr_fail <- st.corr_fail + 1; Printf.printf "FAIL corr line=%d what=harness-panic\n" lineno);
  register_summary summary
