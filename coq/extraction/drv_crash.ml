(* C03 (kinds CRTR / CRREF / CRMINUS / CR): crash at every crash point, restart, catch up, finish; compare
   with the uninterrupted run (and, for a request lost in the crash, with the run without that
   request).  The integrity predicate and the balance are the extracted Coq definitions
   (Crash.db_inv_b, Crash.balance).
   CRTR: the tie between the model's durable traces and the code: the micro steps (statement kinds,
   RPCs, reply) the real code went through in every operation of the uninterrupted run must be the
   extracted CrashOps.op_segs of the model on the same operation and state (a Par segment: up to the
   order of its groups), and the model's tables after the operation the implementation's.  CR: the
   database as the kill left it must be CrashOps.crash_at k of the operation the crash point lies in. *)
open Model
open Driver_util

type tables = { users : int list list; apps : int list list; trks : int list list }

let parse_tables (toks : string list) : tables * string list =
  let rec take n l acc = if n = 0 then (List.rev acc, l) else match l with x :: r -> take (n - 1) r (x :: acc) | [] -> failwith "short tables" in
  let rows k l = match l with
    | n :: r -> let n = int_of_string n in
        let rec go i l acc = if i = 0 then (List.rev acc, l) else let (row, l') = take k l [] in go (i - 1) l' (List.map int_of_string row :: acc) in
        go n r []
    | [] -> failwith "short tables" in
  let (users, l) = rows 4 toks in let (apps, l) = rows 8 l in let (trks, l) = rows 6 l in
  let (_mem, l) = rows 3 l in
  ({ users; apps; trks }, l)

let db_of (t : tables) =
  let n = n_of_int in
  { d_users = List.map (function [u; s; st; e] -> (n u, { u_slots = n s; u_start = n st; u_expiry = n e }) | _ -> assert false) t.users;
    d_apps = List.map (function [l; u; k; p; len; d; sg; st] ->
        { a_loc = n l; a_user = n u; a_blob = { b_key = n k; b_pay = (if p >= 0 then Some (n p) else None); b_len = n len };
          a_delay = n d; a_sig = n sg; a_start = n st } | _ -> assert false) t.apps;
    d_trks = List.map (function [l; u; d; p; h; c] ->
        { t_loc = n l; t_user = n u; t_dispute = n d; t_penalty = n p; t_height = n h; t_conf = (c <> 0) } | _ -> assert false) t.trks }

(* split "… FINAL <tables> SENDS n tx…" *)
let split_at (key : string) (l : string list) : string list * string list =
  let rec go acc = function
    | [] -> (List.rev acc, [])
    | x :: r when x = key -> (List.rev acc, r)
    | x :: r -> go (x :: acc) r in
  go [] l

type refrun = { kinds : string array; costs : (int * (int * int * int)) list; final : tables; sends : int list }
let refs : (int, refrun) Hashtbl.t = Hashtbl.create 16
let minus : (int * int, tables * int list) Hashtbl.t = Hashtbl.create 64
(* the same two runs with the poll a restart makes at once (when blocks were pending at that step) *)
let refp : (int * int, tables * int list) Hashtbl.t = Hashtbl.create 64
let minusp : (int * int, tables * int list) Hashtbl.t = Hashtbl.create 64
(* family "the chain moves while the tower is down": keyed (history, crash point): the uninterrupted run over the
   chain that crash run ended with (and the same without the request that was in flight) *)
let refx : (int * int, tables * int list) Hashtbl.t = Hashtbl.create 64
let minusx : (int * int, tables * int list) Hashtbl.t = Hashtbl.create 64
let down_cases = ref 0

let cases = ref 0 and mon_fail = ref 0 and crash_points = ref 0
let mem_cmp = ref 0
let corr_fail = ref 0 and tr_ops = ref 0 and tr_stmts = ref 0 and crashdb_cmp = ref 0 and crashdb_skip = ref 0
let tr_kinds : (string, int) Hashtbl.t = Hashtbl.create 32

(* ---------------- the model run along the uninterrupted history (CRTR) ---------------- *)
let log_enabled = true

type oprec = { first : int; nlab : int; before : tower option; mop : op option; msc : (n * (getraw_ans * send_ans)) list;
               par : (int * int) list; text : string }
let hist_ops : (int, oprec list) Hashtbl.t = Hashtbl.create 16

let tok_of_kind = function
  | SInsUser _ -> "IU" | SUpdUser _ -> "UU" | SUpdSlots _ -> "UU" | SDelUsers _ -> "DU"
  | SInsApp _ -> "IA" | SUpdApp _ -> "UA" | SDelApps _ -> "DA" | SInsTrk _ -> "IT" | SUpdTrk _ -> "UT"
  | STxn _ -> "T?"
let tok_of_stmt = function
  | STxn l -> "T[" ^ String.concat "+" (List.map tok_of_kind l) ^ "]"
  | s -> tok_of_kind s
let tok_of_micro = function
  | MStmt s -> tok_of_stmt s
  | MRpc r -> (match r.r_kind with K_getraw -> "RG" | K_send -> "RS")
  | MAck -> "ACK"

let rec strip_prefix (p : string list) (l : string list) : string list option =
  match p, l with
  | [], _ -> Some l
  | x :: p', y :: l' when x = y -> strip_prefix p' l'
  | _ -> None

(* the implementation's token list against the model's segments; the groups of a Par in any order *)
let rec match_segs (segs : string list list list) (impl : string list) : bool =
  match segs with
  | [] -> impl = []
  | [g] :: rest -> (match strip_prefix g impl with Some r -> match_segs rest r | None -> false)
  | gs :: rest -> match_par (List.filter (fun g -> g <> []) gs) impl rest
and match_par gs impl rest =
  if gs = [] then match_segs rest impl
  else
    let rec try_each pre = function
      | [] -> false
      | g :: post ->
          (match strip_prefix g impl with
           | Some r when match_par (List.rev_append pre post) r rest -> true
           | _ -> try_each (g :: pre) post) in
    try_each [] gs

let segs_tokens (segs : seg list) : string list list list =
  List.map (function Seq l -> [List.map tok_of_micro l] | Par gs -> List.map (List.map tok_of_micro) gs) segs
let show_segs (s : string list list list) =
  String.concat " " (List.map (fun gs -> match gs with
    | [g] -> String.concat "," g
    | _ -> "{" ^ String.concat " | " (List.map (String.concat ",") gs) ^ "}") s)

let rows_users d = List.sort compare (List.map (fun (u, ui) -> [int_of_n u; int_of_n ui.u_slots; int_of_n ui.u_start; int_of_n ui.u_expiry]) d.d_users)
let rows_apps d = List.sort compare (List.map (fun a -> [int_of_n a.a_loc; int_of_n a.a_user; int_of_n a.a_blob.b_key;
    (match a.a_blob.b_pay with Some p -> int_of_n p | None -> -1); int_of_n a.a_blob.b_len; int_of_n a.a_delay; int_of_n a.a_start]) d.d_apps)
let rows_trks d = List.sort compare (List.map (fun k -> [int_of_n k.t_loc; int_of_n k.t_user; int_of_n k.t_dispute; int_of_n k.t_penalty;
    int_of_n k.t_height; (if k.t_conf then 1 else 0)]) d.d_trks)
let show_rows rows = String.concat "/" (List.map (fun r -> String.concat "," (List.map string_of_int r)) rows)
let labels : (string, int) Hashtbl.t = Hashtbl.create 8
let distinct : (string, unit) Hashtbl.t = Hashtbl.create 256
let bump t k = Hashtbl.replace t k (1 + (try Hashtbl.find t k with Not_found -> 0))

let sends_of l = match l with _n :: r -> List.sort compare (List.map int_of_string r) | [] -> []
let rec multiset_incl a b = (* a ⊆ b, both sorted *)
  match a, b with
  | [], _ -> true
  | _, [] -> false
  | x :: ra, y :: rb -> if x = y then multiset_incl ra rb else if x > y then multiset_incl a rb else false

(* trackers compared up to the stamp of unconfirmed ones (InMempoolSince h: h is when the node was last given it) *)
let norm_trks (t : int list list) = List.sort compare (List.map (function [l; u; d; p; h; c] -> if c = 0 then [l; u; d; p; 0; 0] else [l; u; d; p; h; c] | r -> r) t)
(* the signature id is an artefact of the harness's numbering *)
let norm_apps (a : int list list) = List.sort compare (List.map (function [l; u; k; p; len; d; _sg; st] -> [l; u; k; p; len; d; st] | r -> r) a)

let corr lineno what detail =
  incr corr_fail;
  Printf.printf "FAIL corr prop=C03 line=%d what=%s %s\n" lineno what detail

let norm_apps_nosig (a : int list list) = List.sort compare (List.map (function [l; u; k; p; len; d; _sg; st] -> [l; u; k; p; len; d; st] | r -> r) a)

(* model tables against dumped tables; returns the first differing table *)
let diff_tables d (t : tables) : (string * string * string) option =
  if rows_users d <> List.sort compare t.users then Some ("users", show_rows (rows_users d), show_rows (List.sort compare t.users))
  else if rows_apps d <> norm_apps_nosig t.apps then Some ("appointments", show_rows (rows_apps d), show_rows (norm_apps_nosig t.apps))
  else if rows_trks d <> List.sort compare t.trks then Some ("trackers", show_rows (rows_trks d), show_rows (List.sort compare t.trks))
  else None

let handle_tr lineno _line (r : reader) =
  let h = next_int r in
  let slots = next_int r in let duration = next_int r in let delta = next_int r in let h0 = next_int r in let nops = next_int r in
  let expect s = let t = next r in if t <> s then failwith (Printf.sprintf "CRTR: expected %s got %s at %d" s t r.pos) in
  expect ";";
  let cfg = { c_slots = n_of_int slots; c_duration = n_of_int duration; c_delta = n_of_int delta } in
  let last_blocks = List.init 100 (fun k -> (n_of_int (1000 + h0 - k), [])) in
  let t = ref (init cfg (n_of_int h0) last_blocks) in
  let recs = ref [] in
  for _i = 1 to nops do
    expect "OP";
    let stepi = next_int r in let first = next_int r in let nlab = next_int r in
    let tag = next r in
    let sgpos = ref 0 in
    let mk : (int -> op) option =
      (match tag with
       | "R" -> let u = next_int r in Some (fun _ -> ORegister (n_of_int u))
       | "A" -> let signer = next_int r in let _cls = next_int r in let loc = next_int r in
                let key = next_int r in let pay = next_int r in let len = next_int r in let delay = next_int r in let _salt = next_int r in
                Some (fun sg -> OAdd ((if signer >= 0 then Some (n_of_int signer) else None), n_of_int loc,
                                      { b_key = n_of_int key; b_pay = (if pay >= 0 then Some (n_of_int pay) else None); b_len = n_of_int len },
                                      n_of_int delay, n_of_int sg))
       | "G" -> let signer = next_int r in let _ = next_int r in let loc = next_int r in
                Some (fun _ -> OGet ((if signer >= 0 then Some (n_of_int signer) else None), n_of_int loc))
       | "S" -> let signer = next_int r in let _ = next_int r in Some (fun _ -> OGetSub (if signer >= 0 then Some (n_of_int signer) else None))
       | "C" -> let hash = next_int r in let txs = read_list r next_int in Some (fun _ -> OConnect (n_of_int hash, List.map n_of_int txs))
       | "D" -> Some (fun _ -> ODisconnect)
       | _ -> None) in
    ignore sgpos;
    expect "SC";
    let script = read_list r (fun r -> let tx = next_int r in let g = next_int r in let s = next_int r in
      (n_of_int tx, ((match g with 0 -> G_in_mempool | 1 -> G_confirmed | 2 -> G_not_found | _ -> G_other), (if s = 0 then A_ok else A_code (z_of_int s))))) in
    expect "SG";
    let sg = next_int r in
    expect "TR";
    let impl = read_list r next in
    expect "DB";
    let has_db = next_int r = 1 in
    let dump = if has_db then begin
        let rest = Array.to_list (Array.sub r.toks r.pos (Array.length r.toks - r.pos)) in
        let (tb, rest') = parse_tables rest in
        r.pos <- Array.length r.toks - List.length rest'; Some tb end else None in
    expect ";";
    incr tr_ops;
    List.iter (fun k -> bump tr_kinds k; if k <> "ACK" && k <> "RG" && k <> "RS" then incr tr_stmts) impl;
    let text = Printf.sprintf "hist=%d step=%d op=%s" h stepi tag in
    (match tag, mk, !t with
     | "P", _, _ ->
         if impl <> ["LKB"] then corr lineno "micro-steps" (Printf.sprintf "%s model=[LKB] impl=[%s]" text (String.concat "," impl));
         recs := { first; nlab; before = !t; mop = None; msc = []; par = []; text } :: !recs;
         (match dump, !t with
          | Some tb, Some tm -> (match diff_tables (Model.db_of tm) tb with
              | Some (f, m, i) -> corr lineno "tables" (Printf.sprintf "%s table=%s model=[%s] impl=[%s]" text f m i); t := None
              | None -> ())
          | _ -> ())
     | _, None, _ ->
         corr lineno "micro-steps" (Printf.sprintf "%s durable-steps-outside-any-operation impl=[%s]" text (String.concat "," impl));
         t := None
     | _, Some mk, None -> recs := { first; nlab; before = None; mop = Some (mk sg); msc = script; par = []; text } :: !recs
     | _, Some mk, Some tm ->
         let o = mk sg in
         let segs = segs_tokens (op_segs log_enabled tm o script) in
         (* micro-index ranges of the segments whose groups the code may run in another order: a kill strictly
            inside one leaves a database the model's order does not predict *)
         let par =
           let pos = ref 0 in
           List.fold_left (fun acc gs ->
             let len = List.fold_left (fun a g -> a + List.length g) 0 gs in
             let start = !pos in pos := !pos + len;
             if List.length (List.filter (fun g -> g <> []) gs) > 1 then (start, start + len) :: acc else acc) [] segs in
         if not (match_segs segs impl) then
           corr lineno "micro-steps" (Printf.sprintf "%s model=[%s] impl=[%s]" text (show_segs segs) (String.concat "," impl));
         recs := { first; nlab; before = Some tm; mop = Some o; msc = script; par; text } :: !recs;
         let (t1, x) = step log_enabled tm o script in
         (match x with
          | OAbort _ -> corr lineno "abort" (Printf.sprintf "%s the model aborts" text); t := None
          | _ ->
              t := Some t1;
              (match dump with
               | Some tb -> (match diff_tables (Model.db_of t1) tb with
                   | Some (f, m, i) -> corr lineno "tables" (Printf.sprintf "%s table=%s model=[%s] impl=[%s]" text f m i); t := None
                   | None -> ())
               | None -> ())))
  done;
  Hashtbl.replace hist_ops h (List.rev !recs)

let fail kind lineno case detail =
  incr mon_fail;
  Printf.printf "FAIL mon prop=C03 line=%d detail=%s:%s case=%s\n" lineno kind detail case

let handle_ref lineno _line (r : reader) =
  let h = next_int r in let _n = next_int r in let np = next_int r in
  crash_points := !crash_points + np;
  let rest = Array.to_list (Array.sub r.toks r.pos (Array.length r.toks - r.pos)) in
  let (_, after_kinds) = split_at "KINDS" rest in
  let kinds = (match after_kinds with k :: _ -> Array.of_list (String.split_on_char ',' k) | [] -> [||]) in
  let (_, after_costs) = split_at "COSTS" rest in
  let costs = (match after_costs with "-" :: _ -> [] | c :: _ ->
      List.map (fun kv -> match String.split_on_char ':' kv with
          | [a; b; l; u] -> (int_of_string a, (int_of_string b, int_of_string l, int_of_string u)) | _ -> (0, (0, -1, -1))) (String.split_on_char ',' c)
    | [] -> []) in
  let (_, after_final) = split_at "FINAL" rest in
  let (ft, after_sends) = split_at "SENDS" after_final in
  let (final, _) = parse_tables ft in
  Hashtbl.replace refs h { kinds; costs; final; sends = sends_of after_sends };
  if not (db_inv_b (db_of final)) then fail "dangling-records" lineno (Printf.sprintf "CRREF %d" h) "uninterrupted-run"

let handle_variant tbl _lineno _line (r : reader) =
  let h = next_int r in let i = next_int r in
  let rest = Array.to_list (Array.sub r.toks r.pos (Array.length r.toks - r.pos)) in
  let (_, after_final) = split_at "FINAL" rest in
  let (ft, after_sends) = split_at "SENDS" after_final in
  let (final, _) = parse_tables ft in
  Hashtbl.replace tbl (h, i) (final, sends_of after_sends)
let handle_minus = handle_variant minus

let handle_cr lineno _line (r : reader) =
  let h = next_int r in let c = next_int r in let label = next r in let step = next_int r in
  incr cases; bump labels label;
  let case = Printf.sprintf "CR %d %d %s %d" h c label step in
  Hashtbl.replace distinct case ();
  let rest = Array.to_list (Array.sub r.toks r.pos (Array.length r.toks - r.pos)) in
  let rf = Hashtbl.find refs h in
  let xref = Hashtbl.find_opt refx (h, c) in
  let rf = (match xref with Some (f, sd) -> incr down_cases; { rf with final = f; sends = sd } | None -> rf) in
  (* the database as the kill left it = the model's crash_at of the operation the crash point lies in *)
  (match split_at "CRASHDB" rest with
   | (_, []) -> ()
   | (_, after) ->
       let (tb, _) = parse_tables after in
       if not (db_inv_b (db_of tb)) then fail "dangling-records" lineno case "at-the-kill";
       let ops = (try Hashtbl.find hist_ops h with Not_found -> []) in
       (match List.find_opt (fun o -> o.first <= c && c < o.first + o.nlab) ops with
        | None -> incr crashdb_skip
        | Some o ->
            let off = c - o.first in
            let k = if off mod 2 = 0 then off / 2 else (off + 1) / 2 in
            (match o.before, o.mop with
             | Some tm, None ->
                 incr crashdb_cmp;
                 (match diff_tables (Model.db_of tm) tb with
                  | Some (f, m, i) -> corr lineno "crash-db" (Printf.sprintf "%s %s k=%d table=%s model=[%s] impl=[%s]" case o.text k f m i)
                  | None -> ())
             | Some tm, Some mo when not (List.exists (fun (a, b) -> a < k && k < b) o.par) ->
                 incr crashdb_cmp;
                 (match diff_tables (crash_at log_enabled (nat_of_int k) tm mo o.msc) tb with
                  | Some (f, m, i) -> corr lineno "crash-db" (Printf.sprintf "%s %s k=%d table=%s model=[%s] impl=[%s]" case o.text k f m i)
                  | None -> ())
             | _ -> incr crashdb_skip)));
  (* restart *)
  List.iter (fun t ->
    if t = "restart=0" then fail "restart-failed" lineno case "bootstrap-panicked-or-tower-id-changed";
    if String.length t >= 9 && String.sub t 0 9 = "catchup=X" then fail "restart-failed" lineno case "catch-up-poll-panicked") rest;
  (* recovered tables: no dangling records; the memory of the restarted gatekeeper (the read made right after the
     restart, tokens mem<u>=SO_<slots>_<expiry>_...) is the users table (CrashReach.restart_loads_users) *)
  let rec recs l = match split_at "REC" l with
    | (_, []) -> ()
    | (before, after) -> let (t, rest') = parse_tables after in
        if not (db_inv_b (db_of t)) then fail "dangling-records" lineno case "after-restart";
        List.iter (fun tok ->
          if String.length tok > 5 && String.sub tok 0 3 = "mem" then
            (match String.split_on_char '=' tok with
             | [k; v] ->
                 (match String.split_on_char '_' v with
                  | "SO" :: s :: e :: _ ->
                      let u = int_of_string (String.sub k 3 (String.length k - 3)) in
                      incr mem_cmp;
                      (match List.find_opt (fun r -> List.hd r = u) t.users with
                       | Some [_; ds; _; de] ->
                           if int_of_string s <> ds || int_of_string e <> de then
                             fail "restart-memory-differs-from-users-table" lineno case
                               (Printf.sprintf "user=%d,memory=(slots=%s,expiry=%s),table=(slots=%d,expiry=%d)" u s e ds de)
                       | _ -> fail "restart-memory-differs-from-users-table" lineno case (Printf.sprintf "user=%d,memory=(slots=%s,expiry=%s),table=no-row" u s e))
                  | _ -> ())
             | _ -> ())) before;
        recs rest' in
  recs (fst (split_at "FINAL" rest));
  let (_, after_final) = split_at "FINAL" rest in
  let (ft, after_sends) = split_at "SENDS" after_final in
  let (final, _) = parse_tables ft in
  let sends = sends_of after_sends in
  if not (db_inv_b (db_of final)) then fail "dangling-records" lineno case "final";
  let kind = if step >= 0 && step < Array.length rf.kinds then rf.kinds.(step) else "p" in
  let same_as (t : tables) = norm_apps final.apps = norm_apps t.apps && norm_trks final.trks = norm_trks t.trks in
  let users_same (t : tables) = List.sort compare final.users = List.sort compare t.users in
  if kind = "a" || kind = "r" then begin
    (* a request lost in the crash: the outcome is the run with it or the run without it, and the
       requester pays at most the slots of that request *)
    let (mfinal, _msends) = (try Hashtbl.find minus (h, step) with Not_found -> (rf.final, rf.sends)) in
    (* blocks mined and not yet polled when the request arrived: the restart polls them at once, so the two
       runs to compare with are the ones that poll right after this step *)
    let (rfinal, mfinal) =
      (match xref, Hashtbl.find_opt minusx (h, c) with
       | Some _, Some (b, _) -> (rf.final, b)
       | Some _, None -> (rf.final, mfinal)
       | None, _ ->
      (match Hashtbl.find_opt refp (h, step), Hashtbl.find_opt minusp (h, step) with
       | Some (a, _), Some (b, _) -> (a, b)
       | _ -> (rf.final, mfinal))) in
    let rf = { rf with final = rfinal } in
    let (cost, rloc, ruser) = (try List.assoc step rf.costs with Not_found -> (0, -1, -1)) in
    (* the record of the in-flight request itself may be absent, stored or responded to (no receipt was
       returned for it); everything else must be as in one of the two runs *)
    let not_inflight = function l :: u :: _ -> not (l = rloc && u = ruser) | _ -> true in
    let fa (t : tables) = List.filter not_inflight (norm_apps t.apps) and ft (t : tables) = List.filter not_inflight (norm_trks t.trks) in
    let apps_ok = fa final = fa rf.final || fa final = fa mfinal in
    let trks_ok = ft final = ft rf.final || ft final = ft mfinal in
    if not (apps_ok && trks_ok) then fail "acknowledged-work-differs" lineno case "tables-match-neither-run";
    let others (t : tables) = List.sort compare (List.filter (fun r -> List.hd r <> ruser) t.users) in
    if not (others final = others rf.final || others final = others mfinal) then
      fail "acknowledged-work-differs" lineno case "another-users-record-differs";
    let dfin = db_of final and dfull = db_of rf.final and dminus = db_of mfinal in
    let ids = List.sort_uniq compare (List.map List.hd (final.users @ rf.final.users @ mfinal.users)) in
    List.iter (fun u ->
      let b d = int_of_n (balance d (n_of_int u)) in
      let has (t : tables) = List.exists (fun r -> List.hd r = u) t.users in
      if has final then begin
        let hi = max (if has rf.final then b dfull else 0) (if has mfinal then b dminus else 0) in
        let lo = min (if has rf.final then b dfull else max_int) (if has mfinal then b dminus else max_int) in
        if b dfin > hi then fail (if kind = "a" then "crash-granted-slots-interrupted-update" else "crash-granted-slots") lineno case (Printf.sprintf "user=%d,balance=%d,max-of-runs=%d" u (b dfin) hi);
        if lo <> max_int && b dfin + cost < lo then fail "crash-cost-more-than-request" lineno case (Printf.sprintf "user=%d,balance=%d,min-of-runs=%d,request=%d" u (b dfin) lo cost)
      end) ids
  end else begin
    (* a crash while processing blocks (or between steps): after catching up everything is as in the
       uninterrupted run, and nothing given to the node there is missing here *)
    let partial = List.mem "partial=1" rest in
    let k = if partial then "replay-differs-after-partial-poll" else "replay-differs" in
    (* the chain moved while the tower was down: how often a penalty is re-submitted depends on how often its dispute
       is seen (replays, reorgs); omission = never submitted *)
    let sends_ok = if xref <> None then multiset_incl (List.sort_uniq compare rf.sends) (List.sort_uniq compare sends)
                   else multiset_incl rf.sends sends in
    if not (same_as rf.final && users_same rf.final) then begin
      (* the one difference with a class of its own: everything is as in the uninterrupted run except that trackers of
         that run were never created here, their appointments still being held (watched, not dropped) *)
      let key = function l :: u :: _ -> (l, u) | _ -> (-1, -1) in
      let mine = norm_trks final.trks and theirs = norm_trks rf.final.trks in
      let missing = List.filter (fun t -> not (List.mem t mine)) theirs in
      let extra = List.filter (fun t -> not (List.mem t theirs)) mine in
      let held = List.map key final.apps in
      if xref <> None && norm_apps final.apps = norm_apps rf.final.apps && users_same rf.final && extra = [] && missing <> []
         && List.for_all (fun t -> List.mem (key t) held) missing
      then fail "tracker-never-created-penalty-confirmed-while-down" lineno case
             (Printf.sprintf "appointments-kept-without-tracker=%s" (String.concat "+" (List.map (fun t -> let (l, u) = key t in Printf.sprintf "%d.%d" l u) missing)))
      else if same_as rf.final then
        (* appointments and trackers are as in the uninterrupted run: only a subscription (balance, start, expiry or
           the presence of a user) differs - the reload / slot accounting of C07 and C09 *)
        fail k lineno case "final-users-differ-from-uninterrupted-run"
      else fail k lineno case "final-tables-differ-from-uninterrupted-run"
    end
    else if not sends_ok then fail k lineno case "a-submission-of-the-uninterrupted-run-is-missing"
  end

let summary () =
  if !cases > 0 then
    Printf.printf "SUMMARY kind=CR cases=%d histories=%d crash_points_in_histories=%d mon_fail=%d corr_fail=%d distinct_nontrivial=%d trace_ops=%d trace_durable_steps=%d crashdb_compared=%d crashdb_skipped=%d down_cases=%d restart_memory_compared=%d labels=%s micro_kinds=%s\n"
      !cases (Hashtbl.length refs) !crash_points !mon_fail !corr_fail (Hashtbl.length distinct) !tr_ops !tr_stmts !crashdb_cmp !crashdb_skip !down_cases !mem_cmp
      (String.concat "," (List.sort compare (Hashtbl.fold (fun k v acc -> Printf.sprintf "%s:%d" k v :: acc) labels [])))
      (String.concat "," (List.sort compare (Hashtbl.fold (fun k v acc -> Printf.sprintf "%s:%d" k v :: acc) tr_kinds [])))

let () =
  register "CRTR" (fun lineno line r -> try handle_tr lineno line r with Failure m -> corr lineno "parse" m);
  register "CRREF" handle_ref; register "CRMINUS" handle_minus; register "CR" handle_cr;
  register "CRREFP" (handle_variant refp); register "CRMINUSP" (handle_variant minusp);
  register "CRREFX" (handle_variant refx); register "CRMINUSX" (handle_variant minusx); register_summary summary
