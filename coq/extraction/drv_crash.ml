(* C03 (kinds CRREF / CRMINUS / CR): crash at every crash point, restart, catch up, finish; compare
   with the uninterrupted run (and, for a request lost in the crash, with the run without that
   request).  The integrity predicate and the balance are the extracted Coq definitions
   (Crash.db_inv_b, Crash.balance). *)
open Model
open Driver_util

type tables = { users : int list list; apps : int list list; trks : int list list }

let parse_tables (toks : string list) : tables * string list =
  let rec take n l acc = if n = 0 then (List.rev acc, l) else match l with x :: r -> take (n - 1) r (x :: acc) | [] -> failwith "short tables" in
  let rows k l = match l with
    | n :: r -> let n = int_of_string n in
        let rec go i l acc = if i = 0 then (List.rev acc, l) else let (row, l') = take k l [] in go (i - 1) l' (List.map int_of_string row :: acc) in
        go n r []
    | [] -> failwith "short tables" in
  let (users, l) = rows 4 toks in let (apps, l) = rows 8 l in let (trks, l) = rows 6 l in
  let (_mem, l) = rows 3 l in
  ({ users; apps; trks }, l)

let db_of (t : tables) =
  let n = n_of_int in
  { d_users = List.map (function [u; s; st; e] -> (n u, { u_slots = n s; u_start = n st; u_expiry = n e }) | _ -> assert false) t.users;
    d_apps = List.map (function [l; u; k; p; len; d; sg; st] ->
        { a_loc = n l; a_user = n u; a_blob = { b_key = n k; b_pay = (if p >= 0 then Some (n p) else None); b_len = n len };
          a_delay = n d; a_sig = n sg; a_start = n st } | _ -> assert false) t.apps;
    d_trks = List.map (function [l; u; d; p; h; c] ->
        { t_loc = n l; t_user = n u; t_dispute = n d; t_penalty = n p; t_height = n h; t_conf = (c <> 0) } | _ -> assert false) t.trks }

(* split "… FINAL <tables> SENDS n tx…" *)
let split_at (key : string) (l : string list) : string list * string list =
  let rec go acc = function
    | [] -> (List.rev acc, [])
    | x :: r when x = key -> (List.rev acc, r)
    | x :: r -> go (x :: acc) r in
  go [] l

type refrun = { kinds : string array; costs : (int * (int * int * int)) list; final : tables; sends : int list }
let refs : (int, refrun) Hashtbl.t = Hashtbl.create 16
let minus : (int * int, tables * int list) Hashtbl.t = Hashtbl.create 64

let cases = ref 0 and mon_fail = ref 0 and crash_points = ref 0
let labels : (string, int) Hashtbl.t = Hashtbl.create 8
let distinct : (string, unit) Hashtbl.t = Hashtbl.create 256
let bump t k = Hashtbl.replace t k (1 + (try Hashtbl.find t k with Not_found -> 0))

let sends_of l = match l with _n :: r -> List.sort compare (List.map int_of_string r) | [] -> []
let rec multiset_incl a b = (* a ⊆ b, both sorted *)
  match a, b with
  | [], _ -> true
  | _, [] -> false
  | x :: ra, y :: rb -> if x = y then multiset_incl ra rb else if x > y then multiset_incl a rb else false

(* trackers compared up to the stamp of unconfirmed ones (InMempoolSince h: h is when the node was last given it) *)
let norm_trks (t : int list list) = List.sort compare (List.map (function [l; u; d; p; h; c] -> if c = 0 then [l; u; d; p; 0; 0] else [l; u; d; p; h; c] | r -> r) t)
(* the signature id is an artefact of the harness's numbering *)
let norm_apps (a : int list list) = List.sort compare (List.map (function [l; u; k; p; len; d; _sg; st] -> [l; u; k; p; len; d; st] | r -> r) a)

let fail kind lineno case detail =
  incr mon_fail;
  Printf.printf "FAIL mon prop=C03 line=%d detail=%s:%s case=%s\n" lineno kind detail case

let handle_ref lineno _line (r : reader) =
  let h = next_int r in let _n = next_int r in let np = next_int r in
  crash_points := !crash_points + np;
  let rest = Array.to_list (Array.sub r.toks r.pos (Array.length r.toks - r.pos)) in
  let (_, after_kinds) = split_at "KINDS" rest in
  let kinds = (match after_kinds with k :: _ -> Array.of_list (String.split_on_char ',' k) | [] -> [||]) in
  let (_, after_costs) = split_at "COSTS" rest in
  let costs = (match after_costs with "-" :: _ -> [] | c :: _ ->
      List.map (fun kv -> match String.split_on_char ':' kv with
          | [a; b; l; u] -> (int_of_string a, (int_of_string b, int_of_string l, int_of_string u)) | _ -> (0, (0, -1, -1))) (String.split_on_char ',' c)
    | [] -> []) in
  let (_, after_final) = split_at "FINAL" rest in
  let (ft, after_sends) = split_at "SENDS" after_final in
  let (final, _) = parse_tables ft in
  Hashtbl.replace refs h { kinds; costs; final; sends = sends_of after_sends };
  if not (db_inv_b (db_of final)) then fail "dangling-records" lineno (Printf.sprintf "CRREF %d" h) "uninterrupted-run"

let handle_minus _lineno _line (r : reader) =
  let h = next_int r in let i = next_int r in
  let rest = Array.to_list (Array.sub r.toks r.pos (Array.length r.toks - r.pos)) in
  let (_, after_final) = split_at "FINAL" rest in
  let (ft, after_sends) = split_at "SENDS" after_final in
  let (final, _) = parse_tables ft in
  Hashtbl.replace minus (h, i) (final, sends_of after_sends)

let handle_cr lineno _line (r : reader) =
  let h = next_int r in let c = next_int r in let label = next r in let step = next_int r in
  incr cases; bump labels label;
  let case = Printf.sprintf "CR %d %d %s %d" h c label step in
  Hashtbl.replace distinct case ();
  let rest = Array.to_list (Array.sub r.toks r.pos (Array.length r.toks - r.pos)) in
  let rf = Hashtbl.find refs h in
  (* restart *)
  List.iter (fun t ->
    if t = "restart=0" then fail "restart-failed" lineno case "bootstrap-panicked-or-tower-id-changed";
    if String.length t >= 9 && String.sub t 0 9 = "catchup=X" then fail "restart-failed" lineno case "catch-up-poll-panicked") rest;
  (* recovered tables: no dangling records *)
  let rec recs l = match split_at "REC" l with
    | (_, []) -> ()
    | (_, after) -> let (t, rest') = parse_tables after in
        if not (db_inv_b (db_of t)) then fail "dangling-records" lineno case "after-restart";
        recs rest' in
  recs (fst (split_at "FINAL" rest));
  let (_, after_final) = split_at "FINAL" rest in
  let (ft, after_sends) = split_at "SENDS" after_final in
  let (final, _) = parse_tables ft in
  let sends = sends_of after_sends in
  if not (db_inv_b (db_of final)) then fail "dangling-records" lineno case "final";
  let kind = if step >= 0 && step < Array.length rf.kinds then rf.kinds.(step) else "p" in
  let same_as (t : tables) = norm_apps final.apps = norm_apps t.apps && norm_trks final.trks = norm_trks t.trks in
  let users_same (t : tables) = List.sort compare final.users = List.sort compare t.users in
  if kind = "a" || kind = "r" then begin
    (* a request lost in the crash: the outcome is the run with it or the run without it, and the
       requester pays at most the slots of that request *)
    let (mfinal, _msends) = (try Hashtbl.find minus (h, step) with Not_found -> (rf.final, rf.sends)) in
    let (cost, rloc, ruser) = (try List.assoc step rf.costs with Not_found -> (0, -1, -1)) in
    (* the record of the in-flight request itself may be absent, stored or responded to (no receipt was
       returned for it); everything else must be as in one of the two runs *)
    let not_inflight = function l :: u :: _ -> not (l = rloc && u = ruser) | _ -> true in
    let fa (t : tables) = List.filter not_inflight (norm_apps t.apps) and ft (t : tables) = List.filter not_inflight (norm_trks t.trks) in
    let apps_ok = fa final = fa rf.final || fa final = fa mfinal in
    let trks_ok = ft final = ft rf.final || ft final = ft mfinal in
    if not (apps_ok && trks_ok) then fail "acknowledged-work-differs" lineno case "tables-match-neither-run";
    let others (t : tables) = List.sort compare (List.filter (fun r -> List.hd r <> ruser) t.users) in
    if not (others final = others rf.final || others final = others mfinal) then
      fail "acknowledged-work-differs" lineno case "another-users-record-differs";
    let dfin = db_of final and dfull = db_of rf.final and dminus = db_of mfinal in
    let ids = List.sort_uniq compare (List.map List.hd (final.users @ rf.final.users @ mfinal.users)) in
    List.iter (fun u ->
      let b d = int_of_n (balance d (n_of_int u)) in
      let has (t : tables) = List.exists (fun r -> List.hd r = u) t.users in
      if has final then begin
        let hi = max (if has rf.final then b dfull else 0) (if has mfinal then b dminus else 0) in
        let lo = min (if has rf.final then b dfull else max_int) (if has mfinal then b dminus else max_int) in
        if b dfin > hi then fail (if kind = "a" then "crash-granted-slots-interrupted-update" else "crash-granted-slots") lineno case (Printf.sprintf "user=%d,balance=%d,max-of-runs=%d" u (b dfin) hi);
        if lo <> max_int && b dfin + cost < lo then fail "crash-cost-more-than-request" lineno case (Printf.sprintf "user=%d,balance=%d,min-of-runs=%d,request=%d" u (b dfin) lo cost)
      end) ids
  end else begin
    (* a crash while processing blocks (or between steps): after catching up everything is as in the
       uninterrupted run, and nothing given to the node there is missing here *)
    let partial = List.mem "partial=1" rest in
    let k = if partial then "replay-differs-after-partial-poll" else "replay-differs" in
    if not (same_as rf.final && users_same rf.final) then fail k lineno case "final-tables-differ-from-uninterrupted-run"
    else if not (multiset_incl rf.sends sends) then fail k lineno case "a-submission-of-the-uninterrupted-run-is-missing"
  end

let summary () =
  if !cases > 0 then
    Printf.printf "SUMMARY kind=CR cases=%d histories=%d crash_points_in_histories=%d mon_fail=%d corr_fail=0 distinct_nontrivial=%d labels=%s\n"
      !cases (Hashtbl.length refs) !crash_points !mon_fail (Hashtbl.length distinct)
      (String.concat "," (List.sort compare (Hashtbl.fold (fun k v acc -> Printf.sprintf "%s:%d" k v :: acc) labels [])))

let () =
  register "CRREF" handle_ref; register "CRMINUS" handle_minus; register "CR" handle_cr; register_summary summary
