(* C12 scenarios (kind OT): compare the observed outcome of every outage scenario with the
   prediction of the reachability-protocol model (Reach.predict) and evaluate the property: the
   tower recovers by itself, refuses work while it knows the node is down, and ends in the state
   of the fault-free twin. *)
open Model
open Driver_util

let cases = ref 0 and hits = ref 0 and corr_fail = ref 0 and mon_fail = ref 0 and probes = ref 0
let distinct : (string, unit) Hashtbl.t = Hashtbl.create 64
let twin_state : (string, string) Hashtbl.t = Hashtbl.create 16
let classes : (string, int) Hashtbl.t = Hashtbl.create 8
let bump k = Hashtbl.replace classes k (1 + (try Hashtbl.find classes k with Not_found -> 0))

let handle (lineno : int) (line : string) (r : reader) : unit =
  let t = next_int r in let n = next_int r in let k = next_int r in let extra = next_int r in
  incr cases;
  let kv = Hashtbl.create 16 in
  Array.iter (fun tok -> match String.index_opt tok '=' with
    | Some i when not (String.length tok > 6 && String.sub tok 0 6 = "state=") ->
        Hashtbl.replace kv (String.sub tok 0 i) (String.sub tok (i + 1) (String.length tok - i - 1))
    | _ -> ()) r.toks;
  let state = (match Str.search_forward (Str.regexp_string "state=[") line 0 with
               | i -> String.sub line i (String.length line - i)
               | exception Not_found -> "") in
  let get k = try Hashtbl.find kv k with Not_found -> "" in
  let key = Printf.sprintf "%d/%d/%d" t k extra in
  let case = Printf.sprintf "OT %d %d %d %d" t n k extra in
  if n < 0 then Hashtbl.replace twin_state key state
  else begin
    let hit = get "hit" = "1" in
    if hit && t <> 4 then begin
      incr hits;
      Hashtbl.replace distinct case ();
      let waiter = get "waiter" in
      let ms = get "monitor_stuck" = "1" and as_ = get "api_stuck" = "1" in
      let observed = if ms && as_ then "both_stuck" else if ms then "monitor_stuck" else if as_ then "api_stuck" else "recovered" in
      let predicted = (match predict (waiter = "mon") (extra = 1) with
                       | O_recovered -> "recovered" | O_monitor_stuck -> "monitor_stuck" | O_both_stuck -> "both_stuck") in
      bump (Printf.sprintf "%s-path:%s" waiter observed);
      if observed <> predicted then begin
        incr corr_fail;
        Printf.printf "FAIL corr line=%d field=outcome model=[%s] impl=[%s] case=%s\n" lineno predicted observed case
      end;
      (* the property: recovers by itself *)
      if observed <> "recovered" then begin
        incr mon_fail;
        let kind = if waiter = "mon" then "outage-on-block-path" else if extra = 1 then "outage-request-path-block-arrives" else "outage-not-recovered" in
        Printf.printf "FAIL mon prop=C12 line=%d detail=%s case=%s\n" lineno kind case
      end
    end;
    (* refuses new work while it knows the node is down *)
    (match String.split_on_char '/' (get "probes") with
     | [a; b] -> probes := !probes + int_of_string b;
         if a <> b then begin incr mon_fail; Printf.printf "FAIL mon prop=C12 line=%d detail=accepted-work-while-known-down:%s case=%s\n" lineno (get "probes") case end
     | _ -> ());
    (* nothing dropped: same final state as the fault-free twin *)
    (match Hashtbl.find_opt twin_state key with
     | Some tw when tw <> state ->
         incr mon_fail; Printf.printf "FAIL mon prop=C12 line=%d detail=final-state-differs-from-fault-free-run case=%s\n" lineno case
     | _ -> ());
    if get "tip" <> get "lkb" then begin
      incr mon_fail; Printf.printf "FAIL mon prop=C12 line=%d detail=blocks-left-unprocessed:lkb=%s,tip=%s case=%s\n" lineno (get "lkb") (get "tip") case
    end
  end

let summary () =
  if !cases > 0 then
    Printf.printf "SUMMARY kind=OT cases=%d outage_hit=%d corr_fail=%d mon_fail=%d probes=%d distinct_nontrivial=%d classes=%s\n"
      !cases !hits !corr_fail !mon_fail !probes (Hashtbl.length distinct)
      (String.concat "," (List.sort compare (Hashtbl.fold (fun k v acc -> Printf.sprintf "%s:%d" k v :: acc) classes [])))

let () = register "OT" handle; register_summary summary
