(* C12 scenarios (kind OT).  For every outage scenario:
   - the observed outcome class is compared with the prediction of the abstract protocol model (Reach.predict);
   - the scenario is REPLAYED on the extracted thread-level model (ConcReach: ConcTower's thread programs, the
     Carrier's wait-and-retry recursion, the chain monitor's poll) under the same oracle (the n-th request after
     the marked point and every later one hit a transport error until the node is back; the j-th block download
     fails) and the same schedule class (each step runs its thread until it returns or blocks; woken threads run
     on), and compared with what hook H3 and the simulated node saw: per thread, the SEQUENCE of requests put on
     the wire (kind, transaction, answered / transport error) from the marked point on, and the locks kept at
     each condition-variable wait; and which threads are stuck at the end;
   - the property monitors are evaluated on the IMPLEMENTATION's observations: Coq's `retry_ok` on every
     thread's wire log ("after a transport error the next request of that thread is the same call"), the tower
     recovers by itself, refuses work while it knows the node is down, ends in the state of the fault-free twin. *)
open Model
open Driver_util

let cases = ref 0 and hits = ref 0 and corr_fail = ref 0 and mon_fail = ref 0 and probes = ref 0
let blocks_checked = ref 0 and refused_adds = ref 0
let replayed = ref 0 and wire_checked = ref 0 and wire_errors = ref 0 and waits_compared = ref 0
let distinct : (string, unit) Hashtbl.t = Hashtbl.create 64
let twin_state : (string, string) Hashtbl.t = Hashtbl.create 16
let classes : (string, int) Hashtbl.t = Hashtbl.create 8
let bump k = Hashtbl.replace classes k (1 + (try Hashtbl.find classes k with Not_found -> 0))

let log_enabled = true
let big = nat_of_int 6000
let split c s = if s = "" then [] else String.split_on_char c s

(* ---- the implementation's traces ---- *)
type wire = { role : string; kind : int; tx : int; answered : bool }
let parse_wire (s : string) : wire list =
  List.map (fun it -> match split ':' it with
    | [r; k; t; a] -> { role = r; kind = int_of_string k; tx = int_of_string t; answered = (a = "K") }
    | _ -> failwith ("bad wire item " ^ it)) (split '/' s)
(* per role, the waits with the locks kept (sorted ids) *)
let parse_waits (s : string) : (string * int list) list =
  List.concat (List.map (fun it -> match split ':' it with
    | [r; "W"; h] -> [(r, List.sort compare (List.map int_of_string (split '+' h)))]
    | _ -> []) (split '/' s))

let roles_of (l : (string * 'a) list) : string list = List.sort_uniq compare (List.map fst l)
let of_role r l = List.map snd (List.filter (fun (r', _) -> r' = r) l)

(* transactions renamed by first appearance: what is compared is the pattern of repetitions *)
let canon (l : (int * int * bool) list) : (int * int * bool) list =
  let tbl = Hashtbl.create 8 in
  List.map (fun (k, t, a) ->
    let c = (match Hashtbl.find_opt tbl t with Some c -> c | None -> let c = Hashtbl.length tbl in Hashtbl.replace tbl t c; c) in
    (k, c, a)) l
let show_seq l = String.concat "," (List.map (fun (k, t, a) -> Printf.sprintf "%s%d%s" (if k = 0 then "g" else "s") t (if a then "" else "!")) l)
let show_waits l = String.concat "," (List.map (fun h -> String.concat "+" (List.map string_of_int h)) l)

(* Coq's monitor on a thread's wire log *)
let retry_monitor (l : wire list) : bool =
  let obs = List.map (fun w ->
    Some (((if w.kind = 0 then K_getraw else K_send), n_of_int (if w.tx < 0 then 999999 else w.tx)),
          (if w.answered then CallVerdict IrrevocablyResolved else CallErr))) l in
  retry_ok obs

(* ---- the scenario on the model ---- *)
type item = IOp of op | IMine of int list | IPoll | IArm of int | IUp | IFail of int | IOther
let parse_item (s : string) : item =
  let sg x = if int_of_string x < 0 then None else Some (n_of_int (int_of_string x)) in
  match split ':' s with
  | ["R"; u] -> IOp (ORegister (n_of_int (int_of_string u)))
  | ["A"; u; loc; key; pay; len; delay] ->
      let p = int_of_string pay in
      IOp (OAdd (sg u, n_of_int (int_of_string loc),
                 { b_key = n_of_int (int_of_string key); b_pay = (if p < 0 then None else Some (n_of_int p)); b_len = n_of_int (int_of_string len) },
                 n_of_int (int_of_string delay), n_of_int 1))
  | ["G"; u; loc] -> IOp (OGet (sg u, n_of_int (int_of_string loc)))
  | ["S"; u] -> IOp (OGetSub (sg u))
  | "M" :: txs -> IMine (List.map int_of_string (List.filter (fun x -> x <> "") txs))
  | ["P"] -> IPoll
  | ["O"; n] -> IArm (int_of_string n)
  | ["U"] -> IUp
  | ["F"; j] -> IFail (int_of_string j)
  | _ -> IOther

let rec perms = function
  | [] -> [[]]
  | l -> List.concat (List.map (fun x -> List.map (fun p -> x :: p) (perms (List.filter (fun y -> y <> x) l))) l)
(* a block with several watched transactions: the tower walks a HashMap, any order is the tower's *)
let rec variants (items : item list) : item list list =
  match items with
  | [] -> [[]]
  | IMine txs :: r when List.length txs >= 2 && List.length txs <= 3 ->
      List.concat (List.map (fun p -> List.map (fun v -> IMine p :: v) (variants r)) (perms txs))
  | x :: r -> List.map (fun v -> x :: v) (variants r)

type model_obs = { m_wire : (string * (int * int * bool)) list; m_waits : (string * int list) list; m_deliv : int list;
                   m_mon_stuck : bool; m_api_stuck : bool; m_note : string }

let count_errs (c : rconf) = List.length (List.filter (fun (_, e) -> match e with EvRpc (_, _, CallErr) -> true | _ -> false) c.rc_log)

let replay (items : item list) : model_obs option =
  let cfg = { c_slots = n_of_int 50; c_duration = n_of_int 400; c_delta = n_of_int 10 } in
  let h0 = 120 in
  let last_blocks = List.init 100 (fun k -> (n_of_int (1000 + h0 - k), [])) in
  match init cfg (n_of_int h0) last_blocks with
  | None -> None
  | Some t0 ->
    let rec split_at acc = function
      | [] -> (List.rev acc, [])
      | ((IArm _ | IFail _) :: _) as tail -> (List.rev acc, tail)
      | x :: r -> split_at (x :: acc) r in
    let (prefix, tail) = split_at [] items in
    if tail = [] || List.mem IOther items then None else begin
      (* the prefix, sequentially (Tower.step) *)
      let t = ref t0 and pending = ref [] and height = ref h0 and next_hash = ref 3000 and napi = ref 0 and ok = ref true in
      List.iter (fun it -> match it with
        | IOp o -> incr napi; (match Model.step log_enabled !t o [] with (_, OAbort _) -> ok := false | (t1, _) -> t := t1)
        | IMine txs -> incr next_hash; pending := !pending @ [(n_of_int !next_hash, List.map n_of_int txs)]
        | IPoll ->
            List.iter (fun (h, txs) -> incr height;
              match Model.step log_enabled !t (OConnect (h, txs)) [] with (_, OAbort _) -> ok := false | (t1, _) -> t := t1) !pending;
            pending := []
        | _ -> ()) prefix;
      if not !ok then None else begin
        let ops = List.concat (List.map (function IOp o -> [o] | _ -> []) tail) in
        let specs = TMonitor (nat_of_int 40) :: List.map (fun o -> TApi o) ops in
        let progs = List.map (thread_p log_enabled [] (nat_of_int 6) (nat_of_int 12)) specs in
        let c = ref (rinit (set_rpc_log !t []) true progs !pending (n_of_int !height) [] []) in
        let started = ref 0 and errs = ref 0 in
        let nthreads = List.length progs in
        let thread i = List.nth !c.rc_threads i in
        let settle () =
          (* woken threads and a monitor inside a poll run on *)
          for _round = 1 to 4 do
            for i = 1 to !started do c := run_thread big !c (nat_of_int i) done;
            let m = thread 0 in
            if not (at_poll_start m) && not (rfinished m) then begin
              (* run_until_poll = run_poll minus its first step; a blocked first step changes nothing *)
              let rec go k = if k > 0 then (let m = thread 0 in
                if not (at_poll_start m) then (match rstep !c O with Some c' -> c := c'; go (k - 1) | None -> ())) in
              go 6000
            end
          done;
          let e = count_errs !c in
          if e > !errs then begin errs := e; c := { !c with rc_fetch_or = List.init 3000 (fun _ -> F_transient) } end in
        List.iter (fun it ->
          (match it with
           | IOp _ -> incr started; if !started < nthreads then c := run_thread big !c (nat_of_int !started)
           | IMine txs -> incr next_hash; c := { !c with rc_pending = !c.rc_pending @ [(n_of_int !next_hash, List.map n_of_int txs)] }
           | IPoll -> if at_poll_start (thread 0) then c := run_poll big !c O
           | IArm n -> c := { !c with rc_rpc_or = List.init n (fun _ -> false) @ List.init 3000 (fun _ -> true) }
           | IFail j -> c := { !c with rc_fetch_or = List.init j (fun _ -> F_ok) @ [F_block_fails] }
           | IUp -> c := { !c with rc_rpc_or = []; rc_fetch_or = [] }
           | IOther -> ());
          settle ()) tail;
        let role i = if i = 0 then "m" else Printf.sprintf "a%d" (!napi + i - 1) in
        let wire = List.concat (List.init nthreads (fun i ->
          List.concat (List.map (function
            | Some ((k, tx), a) -> [(role i, ((match k with K_getraw -> 0 | K_send -> 1), int_of_n tx, (match a with CallErr -> false | CallVerdict _ -> true)))]
            | None -> []) (calls_of (nat_of_int i) !c.rc_log)))) in
        let waits = List.concat (List.init nthreads (fun i ->
          List.map (fun h -> (role i, List.sort compare (List.map int_of_n h))) (waits_of (nat_of_int i) !c.rc_log))) in
        let m = thread 0 in
        let api_stuck = List.exists (fun i -> i >= 1 && i <= !started && not (rfinished (thread i))) (List.init nthreads (fun i -> i)) in
        Some { m_wire = wire; m_waits = waits; m_deliv = List.map int_of_n (delivered_heights !c.rc_log); m_mon_stuck = (not (at_poll_start m) && not (rfinished m)); m_api_stuck = api_stuck;
               m_note = "" }
      end
    end

let handle (lineno : int) (line : string) (r : reader) : unit =
  let t = next_int r in let n = next_int r in let k = next_int r in let extra = next_int r in
  incr cases;
  let kv = Hashtbl.create 16 in
  Array.iter (fun tok -> match String.index_opt tok '=' with
    | Some i when not (String.length tok > 6 && String.sub tok 0 6 = "state=") ->
        Hashtbl.replace kv (String.sub tok 0 i) (String.sub tok (i + 1) (String.length tok - i - 1))
    | _ -> ()) r.toks;
  let state = (match Str.search_forward (Str.regexp_string "state=[") line 0 with
               | i -> String.sub line i (String.length line - i)
               | exception Not_found -> "") in
  let get k = try Hashtbl.find kv k with Not_found -> "" in
  let key = Printf.sprintf "%d/%d/%d" t k extra in
  let case = Printf.sprintf "OT %d %d %d %d" t n k extra in
  (* the monitor of "the same call is retried" on the implementation's wire log, thread by thread *)
  let wire = (try parse_wire (get "wire") with _ -> []) in
  List.iter (fun role ->
    let mine = List.filter (fun w -> w.role = role) wire in
    incr wire_checked;
    wire_errors := !wire_errors + List.length (List.filter (fun w -> not w.answered) mine);
    if not (retry_monitor mine) then begin
      incr mon_fail;
      Printf.printf "FAIL mon prop=C12 line=%d detail=retry-is-not-the-same-call:thread=%s,wire=%s case=%s\n" lineno role
        (show_seq (List.map (fun w -> (w.kind, w.tx, w.answered)) mine)) case
    end) (List.sort_uniq compare (List.map (fun w -> w.role) wire));
  (* the monitor of "every block is handed to the listeners exactly once, in order" on the blocks the real chain
     monitor handed to the real listeners (not for the reorg scenario, which disconnects) *)
  let deliv = List.map int_of_string (split ',' (get "deliv")) in
  if t <> 2 && not (consecutive (n_of_int 120) (List.map n_of_int deliv)) then begin
    incr mon_fail;
    Printf.printf "FAIL mon prop=C12 line=%d detail=block-handed-to-the-listeners-twice-or-skipped:%s case=%s\n" lineno (get "deliv") case
  end;
  blocks_checked := !blocks_checked + List.length deliv;
  (* the monitor of "answers Unavailable and changes nothing": an add_appointment that was answered `unavailable`
     (and is the scenario's only submission of that appointment) has left neither a row nor a tracker *)
  (let mdl = Array.of_list (split '/' (get "mdl")) in
   let ints = (match Str.search_forward (Str.regexp "state=\\[\\([^]]*\\)\\]") line 0 with
               | _ -> List.filter_map int_of_string_opt (split ' ' (Str.matched_group 1 line))
               | exception Not_found -> []) in
   let rec drop k l = if k <= 0 then l else (match l with [] -> [] | _ :: r -> drop (k - 1) r) in
   let rows w l = (match l with [] -> ([], []) | n :: r ->
                     let rec go k l acc = if k = 0 then (List.rev acc, l) else go (k - 1) (drop w l) ((match l with a :: b :: _ -> (a, b) | _ -> (-1, -1)) :: acc) in
                     go n r []) in
   let (_, after_users) = rows 4 ints in
   let (apps, after_apps) = rows 8 after_users in
   let (trks, _) = rows 6 after_apps in
   Array.iter (fun tok ->
     let re = Str.regexp "\\(late:\\)?api\\([0-9]+\\):A\\?unavailable" in
     if Str.string_match re tok 0 then begin
       let idx = int_of_string (Str.matched_group 2 tok) in
       if idx < Array.length mdl then
         match split ':' mdl.(idx) with
         | ["A"; u; loc; _; _; _; _] ->
             let same = List.length (List.filter (fun it -> match split ':' it with ["A"; u'; loc'; _; _; _; _] -> u' = u && loc' = loc | _ -> false) (Array.to_list mdl)) in
             let key = (int_of_string loc, int_of_string u) in
             incr refused_adds;
             if same = 1 && (List.mem key apps || List.mem key trks) then begin
               incr mon_fail;
               Printf.printf "FAIL mon prop=C12 line=%d detail=answered-unavailable-but-the-work-was-taken:locator=%s,user=%s case=%s\n" lineno loc u case
             end
         | _ -> ()
     end) r.toks);
  if n < 0 then Hashtbl.replace twin_state key state
  else begin
    let hit = get "hit" = "1" in
    let ms = get "monitor_stuck" = "1" and as_ = get "api_stuck" = "1" in
    (* replay on the thread-level model *)
    if t <> 2 && get "mdl" <> "" then begin
      let items = List.map parse_item (split '/' (get "mdl")) in
      let wmark = (try int_of_string (get "wmark") with _ -> -1) in
      let tail_wire = List.filteri (fun i _ -> i >= wmark) wire in
      let impl_wire = List.map (fun w -> (w.role, (w.kind, w.tx, w.answered))) tail_wire in
      let impl_waits = parse_waits (get "sync") in
      let diffs = List.map (fun v ->
        match replay v with
        | None -> Some ("replay", "model could not run the scenario", "-")
        | Some mo ->
            let roles = List.sort_uniq compare (roles_of impl_wire @ roles_of mo.m_wire) in
            let d = ref None in
            List.iter (fun role ->
              let a = canon (of_role role mo.m_wire) and b = canon (of_role role impl_wire) in
              if !d = None && a <> b then d := Some ("rpc-sequence:" ^ role, show_seq a, show_seq b)) roles;
            let wroles = List.sort_uniq compare (roles_of impl_waits @ roles_of mo.m_waits) in
            List.iter (fun role ->
              let a = of_role role mo.m_waits and b = of_role role impl_waits in
              if !d = None && a <> b then d := Some ("locks-held-at-wait:" ^ role, show_waits a, show_waits b)) wroles;
            let dmark = (try int_of_string (get "dmark") with _ -> -1) in
            let impl_deliv = List.filteri (fun i _ -> i >= dmark) deliv in
            if !d = None && ms = false && as_ = false && mo.m_deliv <> impl_deliv then
              d := Some ("delivered-blocks", String.concat "," (List.map string_of_int mo.m_deliv), String.concat "," (List.map string_of_int impl_deliv));
            if !d = None && (mo.m_mon_stuck <> ms || mo.m_api_stuck <> as_) then
              d := Some ("stuck-threads", Printf.sprintf "mon=%b,api=%b" mo.m_mon_stuck mo.m_api_stuck, Printf.sprintf "mon=%b,api=%b" ms as_);
            !d) (variants items) in
      incr replayed;
      waits_compared := !waits_compared + List.length impl_waits;
      if not (List.mem None diffs) then begin
        match List.hd diffs with
        | Some (f, m, i) ->
            incr corr_fail;
            Printf.printf "FAIL corr line=%d field=%s model=[%s] impl=[%s] case=%s\n" lineno f m i case
        | None -> ()
      end
    end;
    if hit && t <> 4 then begin
      incr hits;
      Hashtbl.replace distinct case ();
      let waiter = get "waiter" in
      let observed = if ms && as_ then "both_stuck" else if ms then "monitor_stuck" else if as_ then "api_stuck" else "recovered" in
      let predicted = (match predict (waiter = "mon") (extra = 1) with
                       | O_recovered -> "recovered" | O_monitor_stuck -> "monitor_stuck" | O_both_stuck -> "both_stuck") in
      bump (Printf.sprintf "%s-path:%s" waiter observed);
      if observed <> predicted then begin
        incr corr_fail;
        Printf.printf "FAIL corr line=%d field=outcome model=[%s] impl=[%s] case=%s\n" lineno predicted observed case
      end;
      (* the property: recovers by itself *)
      if observed <> "recovered" then begin
        incr mon_fail;
        let kind = if waiter = "mon" then "outage-on-block-path" else if extra = 1 then "outage-request-path-block-arrives" else "outage-not-recovered" in
        Printf.printf "FAIL mon prop=C12 line=%d detail=%s case=%s\n" lineno kind case
      end
    end;
    (* refuses new work while it knows the node is down *)
    (match String.split_on_char '/' (get "probes") with
     | [a; b] -> probes := !probes + int_of_string b;
         if a <> b then begin incr mon_fail; Printf.printf "FAIL mon prop=C12 line=%d detail=accepted-work-while-known-down:%s case=%s\n" lineno (get "probes") case end
     | _ -> ());
    (* nothing dropped: same final state as the fault-free twin *)
    (match Hashtbl.find_opt twin_state key with
     | Some tw when tw <> state ->
         incr mon_fail; Printf.printf "FAIL mon prop=C12 line=%d detail=final-state-differs-from-fault-free-run case=%s\n" lineno case
     | _ -> ());
    if get "tip" <> get "lkb" then begin
      incr mon_fail; Printf.printf "FAIL mon prop=C12 line=%d detail=blocks-left-unprocessed:lkb=%s,tip=%s case=%s\n" lineno (get "lkb") (get "tip") case
    end
  end

let summary () =
  if !cases > 0 then
    Printf.printf "SUMMARY kind=OT cases=%d outage_hit=%d corr_fail=%d mon_fail=%d probes=%d distinct_nontrivial=%d replayed=%d wire_logs=%d wire_errors=%d waits=%d blocks=%d classes=%s\n"
      !cases !hits !corr_fail !mon_fail !probes (Hashtbl.length distinct) !replayed !wire_checked !wire_errors !waits_compared !blocks_checked
      (String.concat "," (List.sort compare (Hashtbl.fold (fun k v acc -> Printf.sprintf "%s:%d" k v :: acc) classes [])))

let () = register "OT" handle; register_summary summary
