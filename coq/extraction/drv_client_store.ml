(* C18: run the extracted model of the plugin's store (Client.v: WTClient + DBM over Db.v and the
   generated schema) on the cases the Rust harness executed on the real WTClient/DBM; compare
   every observation; evaluate the C18 monitors (Client.mon_state / mon_reload / mon_abandon /
   mon_release, defined in Coq) on the IMPLEMENTATION's observed states. *)
open Model
open Driver_util

type summ = { s_t : int; s_addr : int; s_slots : int; s_start : int; s_expiry : int; s_status : int;
              s_pend : int list; s_inv : int list }
type tinfo =
  | TNone
  | TAbort
  | TSome of int list   (* flattened canonical tokens *)
type obs = { o_poisoned : int; o_mem : summ list; o_lt : summ list; o_userstable : int; o_rl : summ list;
             o_sent : (int * int list) list; o_ti : tinfo list; o_raw : int list list list }

type stats = { mutable cases : int; mutable steps : int; mutable observations : int; mutable corr_fail : int;
               mutable mon_fail : int; mutable aborts : int; mutable held_cases : int; mutable unheld_cases : int;
               mutable exhaustive : int; mutable reloads : int; nontrivial : (string, unit) Hashtbl.t;
               mutable abandons : int; mutable releases : int; mutable undecodable : int }
let st = { cases = 0; steps = 0; observations = 0; corr_fail = 0; mon_fail = 0; aborts = 0; held_cases = 0;
           unheld_cases = 0; exhaustive = 0; reloads = 0; nontrivial = Hashtbl.create 4096; abandons = 0;
           releases = 0; undecodable = 0 }

let arities = [| 3; 3; 2; 2; 5; 5; 3; 2 |]

(* ---------- parsing ---------- *)
let status_of_int = function
  | 0 -> Reachable | 1 -> TemporaryUnreachable | 2 -> Unreachable | 3 -> SubscriptionError | _ -> Misbehaving

let parse_op r : sop * int * (int * int) option =
  (* returns the op, its tag, and (t,l) when it releases a pending row *)
  let n () = n_of_int (next_int r) in
  let tag = next_int r in
  match tag with
  | 1 -> let t = n () in let a = n () in let s = n () in let b = n () in let e = n () in let g = n () in
    (SRegister (t, a, s, b, e, g), tag, None)
  | 2 -> let t = n () in let l = n () in let s = n () in let b = n () in let u = n () in let g = n () in
    (SReceipt (t, l, s, b, u, g), tag, None)
  | 3 -> let t = n () in let l = n () in let b = n () in let d = n () in (SPending (t, l, b, d), tag, None)
  | 4 -> let t = next_int r in let l = next_int r in (SRemovePending (n_of_int t, n_of_int l), tag, Some (t, l))
  | 5 -> let t = n () in let l = n () in let b = n () in let d = n () in (SInvalid (t, l, b, d), tag, None)
  | 6 -> let t = next_int r in let l = next_int r in let s = n () in let b = n () in let u = n () in let g = n () in
    (SMoveAccepted (n_of_int t, n_of_int l, s, b, u, g), tag, Some (t, l))
  | 7 -> let t = next_int r in let l = next_int r in let b = n () in let d = n () in
    (SMoveInvalid (n_of_int t, n_of_int l, b, d), tag, Some (t, l))
  | 8 -> let t = n () in let l = n () in let b = n () in let u = n () in let g = n () in let rc = n () in
    (SMisbehaving (t, l, b, u, g, rc), tag, None)
  | 9 -> let t = next_int r in (SAbandon (n_of_int t), tag, Some (t, -1))
  | 10 -> let t = n () in let s = next_int r in (SSetStatus (t, status_of_int s), tag, None)
  | 11 -> (SReload, tag, None)
  | _ -> failwith "bad op tag"

let expect r s = let t = next r in if t <> s then failwith (Printf.sprintf "expected %s got %s" s t)

let parse_summs r : summ list =
  read_list r (fun r ->
    let s_t = next_int r in let s_addr = next_int r in let s_slots = next_int r in let s_start = next_int r in
    let s_expiry = next_int r in let s_status = next_int r in
    let s_pend = read_list r next_int in let s_inv = read_list r next_int in
    { s_t; s_addr; s_slots; s_start; s_expiry; s_status; s_pend; s_inv })

let parse_obs r nt : obs =
  expect r "F";
  let o_poisoned = next_int r in
  expect r "MEM"; let o_mem = parse_summs r in
  expect r "LT"; let o_lt = parse_summs r in
  expect r "RL"; let o_userstable = next_int r in let o_rl = parse_summs r in
  let o_sent = read_list r (fun r -> let t = next_int r in let ls = read_list r next_int in (t, ls)) in
  let o_ti = List.init nt (fun _ ->
    expect r "TI"; ignore (next_int r);
    match next_int r with
    | 0 -> TNone
    | 9 -> TAbort
    | _ ->
      let buf = ref [] in
      let push x = buf := x :: !buf in
      for _ = 1 to 5 do push (next_int r) done;
      let nr = next_int r in push nr; for _ = 1 to 2 * nr do push (next_int r) done;
      for _ = 1 to 2 do let k = next_int r in push k; for _ = 1 to 3 * k do push (next_int r) done done;
      let pf = next_int r in push pf; if pf = 1 then for _ = 1 to 5 do push (next_int r) done;
      for _ = 1 to 2 do let k = next_int r in push k; for _ = 1 to k do push (next_int r) done done;
      TSome (List.rev !buf)) in
  expect r "RAW";
  let o_raw = List.init 8 (fun i ->
    let ti = next_int r in assert (ti = i);
    let nrows = next_int r in
    List.init nrows (fun _ -> List.init arities.(i) (fun _ -> next_int r))) in
  { o_poisoned; o_mem; o_lt; o_userstable; o_rl; o_sent; o_ti; o_raw }

(* ---------- model state -> observation ---------- *)
let ints l = List.map int_of_n l
let summs_of (m : summary amap) : summ list =
  List.map (fun (t, s) ->
    { s_t = int_of_n t; s_addr = int_of_n s.su_addr; s_slots = int_of_n s.su_slots; s_start = int_of_n s.su_start;
      s_expiry = int_of_n s.su_expiry; s_status = int_of_n (tower_status_code s.su_status);
      s_pend = List.sort compare (ints s.su_pending); s_inv = List.sort compare (ints s.su_invalid) }) m
  |> List.sort (fun a b -> compare a.s_t b.s_t)

let tinfo_of (d : db) (t : int) : tinfo =
  match load_tower_record d (n_of_int t) with
  | LNone -> TNone
  | LAbort _ -> TAbort
  | LSome i ->
    let triples rows = List.sort compare (List.map (fun r -> let ((a, b), c) = body_triple r in [int_of_n a; int_of_n b; int_of_n c]) rows) in
    let recs = List.sort compare (List.map (fun (l, s) -> [int_of_n l; int_of_n s]) i.ti_receipts) in
    let pl = List.sort compare (ints (pending_locators d (n_of_int t))) in
    let il = List.sort compare (ints (invalid_locators d (n_of_int t))) in
    TSome ([int_of_n i.ti_addr; int_of_n i.ti_slots; int_of_n i.ti_start; int_of_n i.ti_expiry;
            int_of_n (tower_status_code i.ti_status); List.length recs] @ List.concat recs
           @ [List.length i.ti_pending] @ List.concat (triples i.ti_pending)
           @ [List.length i.ti_invalid] @ List.concat (triples i.ti_invalid)
           @ (match i.ti_proof with
              | None -> [0]
              | Some p -> [1; int_of_n p.pi_locator; int_of_n p.pi_start_block; int_of_n p.pi_user_sig;
                           int_of_n p.pi_tower_sig; int_of_n p.pi_recovered])
           @ [List.length pl] @ pl @ [List.length il] @ il)

let obs_of_model (c : client) nt : obs =
  let d = c.c_db in
  let rl = wt_reload c in
  { o_poisoned = (if c.c_poisoned then 1 else 0);
    o_mem = summs_of c.c_towers; o_lt = summs_of (load_towers d); o_userstable = 1; o_rl = summs_of rl.c_towers;
    o_sent = List.sort compare (List.map (fun (t, ls) -> (int_of_n t, List.sort compare (ints ls))) (reload_retries rl));
    o_ti = List.init nt (fun t -> tinfo_of d t);
    o_raw = List.init 8 (fun i -> List.sort compare (List.map ints (tbl d (nat_of_int i)))) }

(* ---------- implementation observation -> model-level state (for the monitors) ---------- *)
let summary_of_summ (s : summ) : summary =
  { su_addr = n_of_int s.s_addr; su_slots = n_of_int s.s_slots; su_start = n_of_int s.s_start;
    su_expiry = n_of_int s.s_expiry; su_status = status_of_int s.s_status;
    su_pending = List.map n_of_int s.s_pend; su_invalid = List.map n_of_int s.s_inv }
let amap_of_summs (l : summ list) : summary amap = List.map (fun s -> (n_of_int s.s_t, summary_of_summ s)) l
let client_of_obs (o : obs) : client =
  { c_db = List.map (fun rows -> List.map (fun r -> List.map n_of_int r) rows) o.o_raw;
    c_towers = amap_of_summs o.o_mem; c_retriers = []; c_poisoned = (o.o_poisoned = 1) }

let has_negative (o : obs) : bool =
  let neg x = x < 0 in
  let sneg s = neg s.s_t || neg s.s_addr || List.exists neg s.s_pend || List.exists neg s.s_inv in
  List.exists sneg o.o_mem || List.exists sneg o.o_lt || List.exists sneg o.o_rl
  || List.exists (fun rows -> List.exists (List.exists neg) rows) o.o_raw
  || List.exists (function TSome l -> List.exists neg l | _ -> false) o.o_ti

let show_ints l = String.concat " " (List.map string_of_int l)
let show_summ s = Printf.sprintf "(%d a%d s%d %d-%d st%d p[%s] i[%s])" s.s_t s.s_addr s.s_slots s.s_start s.s_expiry
    s.s_status (show_ints s.s_pend) (show_ints s.s_inv)
let show_summs l = String.concat "" (List.map show_summ l)
let show_raw raw = String.concat " | " (List.mapi (fun i rows -> Printf.sprintf "T%d:%s" i
    (String.concat ";" (List.map show_ints rows))) raw)
let show_ti = function TNone -> "none" | TAbort -> "abort" | TSome l -> show_ints l

(* first differing component between the model's and the implementation's observation *)
let diff_obs (m : obs) (i : obs) : (string * string * string) option =
  if m.o_poisoned <> i.o_poisoned then Some ("poisoned", string_of_int m.o_poisoned, string_of_int i.o_poisoned)
  else if m.o_raw <> i.o_raw then Some ("raw-rows", show_raw m.o_raw, show_raw i.o_raw)
  else if m.o_mem <> i.o_mem then Some ("towers(memory)", show_summs m.o_mem, show_summs i.o_mem)
  else if m.o_lt <> i.o_lt then Some ("load_towers", show_summs m.o_lt, show_summs i.o_lt)
  else if m.o_rl <> i.o_rl then Some ("reloaded-towers", show_summs m.o_rl, show_summs i.o_rl)
  else if m.o_sent <> i.o_sent then Some ("reload-retries",
      String.concat ";" (List.map (fun (t, l) -> Printf.sprintf "%d:[%s]" t (show_ints l)) m.o_sent),
      String.concat ";" (List.map (fun (t, l) -> Printf.sprintf "%d:[%s]" t (show_ints l)) i.o_sent))
  else if i.o_userstable <> 1 then Some ("user-key-after-restart", "1", string_of_int i.o_userstable)
  else if m.o_ti <> i.o_ti then Some ("load_tower_record",
      String.concat " / " (List.map show_ti m.o_ti), String.concat " / " (List.map show_ti i.o_ti))
  else None

let res_code (r : cres) : int =
  match r with
  | ROk -> 0 | RSubErrExpiry -> 1 | RSubErrSlots -> 2 | RNotFound -> 3 | RUnknownTower -> 4
  | RAbort Site_poisoned -> 8 | RAbort _ -> 9

let site_name = function
  | Site_poisoned -> "poisoned"
  | Site_add_update_tower_load_unwrap -> "add_update_tower_load_unwrap"
  | Site_store_tower_record_unwrap -> "store_tower_record_unwrap"
  | Site_store_appointment_receipt_unwrap -> "store_appointment_receipt_unwrap"
  | Site_store_pending_appointment_unwrap -> "store_pending_appointment_unwrap"
  | Site_store_invalid_appointment_unwrap -> "store_invalid_appointment_unwrap"
  | Site_store_misbehaving_proof_unwrap -> "store_misbehaving_proof_unwrap"
  | Site_load_misbehaving_proof_unwrap -> "load_misbehaving_proof_unwrap"
  | Site_abandon_remove_tower_unwrap -> "abandon_remove_tower_unwrap"
  | Site_retrier_load_appointment_unwrap -> "retrier_load_appointment_unwrap"
  | Site_retrier_start_status_unwrap -> "retrier_start_status_unwrap"
  | Site_send_appointment_recover_unwrap -> "send_appointment_recover_unwrap"

let op_name = function
  | 1 -> "register" | 2 -> "receipt" | 3 -> "pending" | 4 -> "remove_pending" | 5 -> "invalid"
  | 6 -> "move_accepted" | 7 -> "move_invalid" | 8 -> "misbehaving" | 9 -> "abandon" | 10 -> "set_status"
  | 11 -> "reload" | _ -> "?"

let handle (lineno : int) (line : string) (r : reader) : unit =
  let mode = next_int r in
  let nt = next_int r in
  let _nl = next_int r in
  let nops = next_int r in
  let ops = List.init nops (fun _ -> parse_op r) in
  expect r "OBS";
  let case_key = match String.index_opt line 'O' with Some i -> String.sub line 0 i | None -> line in
  st.cases <- st.cases + 1;
  let failed_corr = ref false in
  let mon_seen = Hashtbl.create 4 in
  let corr_fail step what m i =
    if not !failed_corr then begin
      failed_corr := true; st.corr_fail <- st.corr_fail + 1;
      Printf.printf "FAIL corr line=%d step=%d what=%s model=[%s] impl=[%s] case=%s\n" lineno step what m i case_key
    end in
  let mon_fail ?(site = "-") step check opname =
    let k = check ^ "/" ^ opname ^ "/" ^ site in
    if not (Hashtbl.mem mon_seen k) then begin
      Hashtbl.replace mon_seen k (); st.mon_fail <- st.mon_fail + 1;
      Printf.printf "FAIL mon line=%d step=%d check=%s op=%s site=%s case=%s\n" lineno step check opname site case_key
    end in
  let check_name = function
    | 1 -> "mem-ne-disk" | 2 -> "dangling-foreign-key" | 3 -> "duplicate-primary-key" | 4 -> "orphan-body"
    | 5 -> "reload-differs" | 6 -> "reload-status-rule" | 7 -> "abandon-left-rows" | 8 -> "abandon-touched-others"
    | 9 -> "release-wrong-rows" | 10 -> "release-body-refcount" | _ -> "?" in
  (* state monitors on one observed implementation state *)
  let mon_obs ?orphan_op step opname (o : obs) (held : bool) (prev_orphan : bool) =
    st.observations <- st.observations + 1;
    if has_negative o then begin
      st.undecodable <- st.undecodable + 1;
      corr_fail step "undecodable-value-in-observation" "" ""
    end else begin
      let c = client_of_obs o in
      let fails = List.map int_of_n (mon_state c) in
      List.iter (fun f ->
        (* memory = disk is stated for held sequences; an orphan body is reported where it appears *)
        if (f = 1 && not held) || (f = 4 && prev_orphan) then ()
        else mon_fail step (check_name f) (match f, orphan_op with 4, Some o -> o | _ -> opname)) fails;
      if held then List.iter (fun f -> mon_fail step (check_name (int_of_n f)) opname) (mon_reload c (amap_of_summs o.o_rl));
      st.reloads <- st.reloads + 1
    end in
  let has_orphan (o : obs) = List.mem 4 (List.map int_of_n (mon_state (client_of_obs o))) in
  let nontriv = ref false in
  let first_orphan_op = ref None in
  let read_full () = parse_obs r nt in
  (* mode 0: initial observation *)
  let c0 = wt_new in
  let prev_obs = ref None in
  if mode = 0 then begin
    expect r "R"; ignore (next_int r);
    let io = read_full () in
    (match diff_obs (obs_of_model c0 nt) io with Some (w, m, i) -> corr_fail 0 w m i | None -> ());
    mon_obs 0 "init" io true false;
    prev_obs := Some io
  end;
  let rec go step (c : client) (held : bool) ops =
    match ops with
    | [] -> held
    | (o, tag, rel) :: rest ->
      let last = rest = [] in
      (* optional observation before the last op (mode 1) *)
      (match peek r with
       | Some "B" -> ignore (next r); let io = read_full () in
         (match diff_obs (obs_of_model c nt) io with Some (w, m, i) -> corr_fail step ("before:" ^ w) m i | None -> ());
         prev_obs := Some io
       | _ -> ());
      expect r "R";
      let ires = next_int r in
      st.steps <- st.steps + 1;
      let held_now = held && (c.c_poisoned || held_op c o) in
      let (c', mres) = sstep c o in
      let mcode = res_code mres in
      if mcode <> ires then corr_fail (step + 1) "result" (string_of_int mcode) (string_of_int ires);
      if ires = 9 then begin
        st.aborts <- st.aborts + 1;
        (* C18: no operation aborts *)
        mon_fail ~site:(match mres with RAbort s -> site_name s | _ -> "not-predicted-by-the-model") (step + 1) "abort" (op_name tag)
      end;
      if ires = 0 && (tag = 2 || tag = 3 || (tag >= 5 && tag <= 9)) then nontriv := true;
      (* the operation at which the model first has an unreferenced body: used to NAME the operation an
         orphan observed on the implementation is attributed to when the state before the last
         operation was not observed (mode 1; every prefix is a case of its own there) *)
      let m_orph c = List.mem 4 (List.map int_of_n (mon_state c)) in
      if !first_orphan_op = None && (not (m_orph c)) && m_orph c' then first_orphan_op := Some (op_name tag);
      if mode = 0 || last then begin
        let io = read_full () in
        (match diff_obs (obs_of_model c' nt) io with Some (w, m, i) -> corr_fail (step + 1) w m i | None -> ());
        let prev_orphan = match !prev_obs with Some p -> (not (has_negative p)) && has_orphan p | None -> false in
        let attributed = match !prev_obs, !first_orphan_op with
          | None, Some o -> o
          | _ -> op_name tag in
        mon_obs ~orphan_op:attributed (step + 1) (op_name tag) io held_now prev_orphan;
        (* transition monitors, on the implementation's two observations *)
        (match !prev_obs, rel with
         | Some p, Some (t, l) when ires = 0 && held_now && not (has_negative p) && not (has_negative io) ->
           let cp = client_of_obs p and cn = client_of_obs io in
           if tag = 9 then begin
             st.abandons <- st.abandons + 1;
             List.iter (fun f -> mon_fail (step + 1) (check_name (int_of_n f)) (op_name tag)) (mon_abandon cp cn (n_of_int t))
           end else if is_pending_row cp.c_db (n_of_int t) (n_of_int l) then begin
             st.releases <- st.releases + 1;
             List.iter (fun f -> mon_fail (step + 1) (check_name (int_of_n f)) (op_name tag)) (mon_release cp cn (n_of_int t) (n_of_int l))
           end
         | _ -> ());
        prev_obs := Some io
      end;
      go (step + 1) c' held_now rest in
  let held =
    try go 0 c0 true ops
    with Failure m | Invalid_argument m -> corr_fail (-1) ("unparsable-observation:" ^ m) "" ""; false
       | Not_found -> corr_fail (-1) "unparsable-observation" "" ""; false in
  if mode = 1 && ops = [] then begin
    expect r "R"; ignore (next_int r);
    let io = read_full () in
    (match diff_obs (obs_of_model c0 nt) io with Some (w, m, i) -> corr_fail 0 w m i | None -> ());
    mon_obs 0 "init" io true false
  end;
  if held then st.held_cases <- st.held_cases + 1 else st.unheld_cases <- st.unheld_cases + 1;
  if !nontriv then Hashtbl.replace st.nontrivial (Digest.string case_key) ()

let summary () =
  if st.cases > 0 then
    Printf.printf "SUMMARY kind=CS cases=%d steps=%d observations=%d held_cases=%d unheld_cases=%d aborts_agreed=%d reloads=%d abandons_checked=%d releases_checked=%d corr_fail=%d mon_fail=%d distinct_nontrivial=%d exhaustive_cases=%d undecodable=%d\n"
      st.cases st.steps st.observations st.held_cases st.unheld_cases st.aborts st.reloads st.abandons st.releases
      st.corr_fail st.mon_fail (Hashtbl.length st.nontrivial) st.exhaustive st.undecodable

let () =
  register "CS" handle;
  register "CSEXH" (fun _ _ r -> st.exhaustive <- next_int r);
  register_summary summary
