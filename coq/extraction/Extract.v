(* Extract.v — extraction of the executable models to OCaml for the correspondence checks.
   Only ExtrOcamlBasic is used: bool/option/unit/list/prod/sumbool/sumor map to OCaml's own
   types; nat, positive, N and Z stay the inductive types of Coq. *)
From TeosModel Require Import Base TxIndex.
Require Import ExtrOcamlBasic.
Extraction Language OCaml.
Extraction Blacklist String List Int.

Extraction "model.ml"
  N.of_nat N.to_nat Z.of_N Z.to_N Z.of_nat N.eqb Z.eqb N.add N.mul
  ti_new ti_step ti_run ti_get ti_get_height
  w_step w_get w_get_height valid_opb valid_windowb.
