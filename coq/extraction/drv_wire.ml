(* C16: the wire format.  Runs the extracted model (Wire.v / WireApi.v instantiated with the tables
   generated from /repo) against what the Rust harness observed on the REAL halves (warp router +
   recording internal API, plugin client code, bytes taken from the wire), and evaluates the
   property monitor on the implementation's observations.

     FAIL corr ..  the model (following the code's generated tables) and the implementation disagree
     FAIL mon  ..  the implementation's own observations contradict the property:
                   m1 far side parsed exactly what was sent        m2 client parsed exactly what the tower emitted
                   m3 re-serialising what was parsed is the identity m4 what travels is the documented format
                   (what=error-reply-undecoded marks the known finding: error replies to the endpoints whose
                    reply the client decodes without ApiResponse<T>)

   JSON text -> value uses the small parser below (trusted; values are compared, not whitespace);
   value -> text is the model's json_print and is compared byte for byte. *)
open Model
open Driver_util

(* ------------------------------------------------------------------------------------------ *)
(* bytes / strings                                                                            *)
(* ------------------------------------------------------------------------------------------ *)
let n_tab = Array.init 256 n_of_int
let str_of_ocaml (s : string) : n list = List.init (String.length s) (fun i -> n_tab.(Char.code s.[i]))
let ocaml_of_str (l : n list) : string =
  let b = Buffer.create 64 in
  List.iter (fun x -> let i = int_of_n x in Buffer.add_char b (Char.chr (i land 255))) l; Buffer.contents b

exception Bad_token of string
let hexval c = match c with
  | '0'..'9' -> Char.code c - 48 | 'a'..'f' -> Char.code c - 87 | 'A'..'F' -> Char.code c - 55
  | _ -> raise (Bad_token "hex")
let ocaml_of_hex (t : string) : string =
  if t = "-" then "" else begin
    if String.length t mod 2 <> 0 then raise (Bad_token t);
    String.init (String.length t / 2) (fun i -> Char.chr (16 * hexval t.[2*i] + hexval t.[2*i+1]))
  end
let bytes_tok (t : string) : n list = str_of_ocaml (ocaml_of_hex t)
let hex_of_ocaml (s : string) : string =
  if s = "" then "-" else String.concat "" (List.init (String.length s) (fun i -> Printf.sprintf "%02x" (Char.code s.[i])))
let show_bytes (l : n list) : string = hex_of_ocaml (ocaml_of_str l)
let clip s = if String.length s > 300 then String.sub s 0 300 ^ "..." else s

(* ------------------------------------------------------------------------------------------ *)
(* JSON text -> value                                                                         *)
(* ------------------------------------------------------------------------------------------ *)
exception Json_error
exception Json_unsupported   (* fractions / exponents / integers beyond 62 bits: outside the model's value type *)

let parse_json (s : string) : w_json option =
  let n = String.length s in
  let pos = ref 0 in
  let peek () = if !pos < n then Some s.[!pos] else None in
  let adv () = incr pos in
  let rec ws () = match peek () with Some (' ' | '\t' | '\n' | '\r') -> adv (); ws () | _ -> () in
  let expect_lit l = let k = String.length l in
    if !pos + k <= n && String.sub s !pos k = l then pos := !pos + k else raise Json_error in
  let hex4 () =
    if !pos + 4 > n then raise Json_error;
    let v = ref 0 in
    for i = 0 to 3 do v := !v * 16 + (try hexval s.[!pos + i] with Bad_token _ -> raise Json_error) done;
    pos := !pos + 4; !v in
  let add_utf8 b cp =
    if cp < 0x80 then Buffer.add_char b (Char.chr cp)
    else if cp < 0x800 then (Buffer.add_char b (Char.chr (0xC0 lor (cp lsr 6))); Buffer.add_char b (Char.chr (0x80 lor (cp land 0x3F))))
    else if cp < 0x10000 then (Buffer.add_char b (Char.chr (0xE0 lor (cp lsr 12)));
                               Buffer.add_char b (Char.chr (0x80 lor ((cp lsr 6) land 0x3F)));
                               Buffer.add_char b (Char.chr (0x80 lor (cp land 0x3F))))
    else (Buffer.add_char b (Char.chr (0xF0 lor (cp lsr 18)));
          Buffer.add_char b (Char.chr (0x80 lor ((cp lsr 12) land 0x3F)));
          Buffer.add_char b (Char.chr (0x80 lor ((cp lsr 6) land 0x3F)));
          Buffer.add_char b (Char.chr (0x80 lor (cp land 0x3F)))) in
  let parse_string () =
    (* at the opening quote *)
    adv ();
    let b = Buffer.create 32 in
    let rec go () =
      match peek () with
      | None -> raise Json_error
      | Some '"' -> adv ()
      | Some '\\' ->
          adv ();
          (match peek () with
           | Some '"' -> Buffer.add_char b '"'; adv ()
           | Some '\\' -> Buffer.add_char b '\\'; adv ()
           | Some '/' -> Buffer.add_char b '/'; adv ()
           | Some 'b' -> Buffer.add_char b '\b'; adv ()
           | Some 'f' -> Buffer.add_char b '\012'; adv ()
           | Some 'n' -> Buffer.add_char b '\n'; adv ()
           | Some 'r' -> Buffer.add_char b '\r'; adv ()
           | Some 't' -> Buffer.add_char b '\t'; adv ()
           | Some 'u' ->
               adv ();
               let c1 = hex4 () in
               if c1 >= 0xD800 && c1 <= 0xDBFF then begin
                 if !pos + 2 <= n && s.[!pos] = '\\' && s.[!pos + 1] = 'u' then begin
                   pos := !pos + 2;
                   let c2 = hex4 () in
                   if c2 >= 0xDC00 && c2 <= 0xDFFF then add_utf8 b (0x10000 + ((c1 - 0xD800) lsl 10) + (c2 - 0xDC00))
                   else raise Json_error
                 end else raise Json_error
               end else if c1 >= 0xDC00 && c1 <= 0xDFFF then raise Json_error
               else add_utf8 b c1
           | _ -> raise Json_error);
          go ()
      | Some c when Char.code c < 0x20 -> raise Json_error
      | Some c -> Buffer.add_char b c; adv (); go () in
    go (); Buffer.contents b in
  let rec value depth =
    if depth > 120 then raise Json_error;
    ws ();
    match peek () with
    | None -> raise Json_error
    | Some 'n' -> expect_lit "null"; JNull
    | Some 't' -> expect_lit "true"; JBool true
    | Some 'f' -> expect_lit "false"; JBool false
    | Some '"' -> let x = parse_string () in JStr (str_of_ocaml x)
    | Some '[' ->
        adv (); ws ();
        if peek () = Some ']' then (adv (); JArr [])
        else begin
          let items = ref [] in
          let rec go () =
            let v = value (depth + 1) in
            items := v :: !items; ws ();
            match peek () with
            | Some ',' -> adv (); go ()
            | Some ']' -> adv ()
            | _ -> raise Json_error in
          go (); JArr (List.rev !items)
        end
    | Some '{' ->
        adv (); ws ();
        if peek () = Some '}' then (adv (); JObj [])
        else begin
          let items = ref [] in
          let rec go () =
            ws ();
            if peek () <> Some '"' then raise Json_error;
            let k = parse_string () in
            ws ();
            if peek () <> Some ':' then raise Json_error;
            adv ();
            let v = value (depth + 1) in
            items := (str_of_ocaml k, v) :: !items; ws ();
            match peek () with
            | Some ',' -> adv (); go ()
            | Some '}' -> adv ()
            | _ -> raise Json_error in
          go (); JObj (List.rev !items)
        end
    | Some ('-' | '0'..'9') ->
        let start = !pos in
        if peek () = Some '-' then adv ();
        (match peek () with
         | Some '0' -> adv (); (match peek () with Some '0'..'9' -> raise Json_error | _ -> ())
         | Some '1'..'9' -> let rec d () = match peek () with Some '0'..'9' -> adv (); d () | _ -> () in d ()
         | _ -> raise Json_error);
        (match peek () with Some ('.' | 'e' | 'E') -> raise Json_unsupported | _ -> ());
        let txt = String.sub s start (!pos - start) in
        if String.length txt > 18 then raise Json_unsupported;
        if txt = "-0" then raise Json_unsupported;
        JNum (z_of_int (int_of_string txt))
    | _ -> raise Json_error in
  try
    let v = value 0 in
    ws ();
    if !pos <> n then None else Some v
  with Json_error -> None

(* ------------------------------------------------------------------------------------------ *)
(* printing values (diagnostics)                                                              *)
(* ------------------------------------------------------------------------------------------ *)
let rec show_json (j : w_json) : string =
  match j with
  | JNull -> "null" | JBool b -> string_of_bool b | JNum z -> string_of_int (int_of_z z)
  | JStr s -> Printf.sprintf "%S" (ocaml_of_str s)
  | JArr l -> "[" ^ String.concat "," (List.map show_json l) ^ "]"
  | JObj l -> "{" ^ String.concat "," (List.map (fun (k, v) -> Printf.sprintf "%S:%s" (ocaml_of_str k) (show_json v)) l) ^ "}"
let show_json_opt = function None -> "<not JSON>" | Some j -> show_json j

let rec show_val (v : w_val) : string =
  match v with
  | WVBytes b -> show_bytes b
  | WVVec l -> "[" ^ String.concat " " (List.map show_bytes l) ^ "]"
  | WVNum z -> string_of_int (int_of_z z)
  | WVStr s -> "s:" ^ show_bytes s
  | WVNone -> "N"
  | WVSome m -> "S(" ^ show_mval m ^ ")"
and show_mval (m : w_mval) : string =
  match m with
  | WMVStruct vs -> "{" ^ show_vals vs ^ "}"
  | WMVOneofNone -> "oneof:N"
  | WMVOneof (i, m) -> Printf.sprintf "oneof:V%d(%s)" (int_of_nat i) (show_mval m)
and show_vals (vs : w_vals) : string =
  match vs with WVNil -> "" | WVCons (v, WVNil) -> show_val v | WVCons (v, r) -> show_val v ^ " " ^ show_vals r
let show_mval_opt = function None -> "<error>" | Some m -> show_mval m

(* ------------------------------------------------------------------------------------------ *)
(* tokens -> message values, following the generated shape                                    *)
(* ------------------------------------------------------------------------------------------ *)
let rec nth_msgs (ms : w_msgs) (i : int) : w_msg =
  match ms with WMNil -> raise (Bad_token "variant") | WMCons (m, r) -> if i = 0 then m else nth_msgs r (i - 1)

let rec read_msg (m : w_msg) (r : reader) : w_mval =
  match m with
  | WMStruct fs -> let vs = read_fields fs r in WMVStruct vs
  | WMFlatOneof ms ->
      (match next r with
       | "N" -> WMVOneofNone
       | t when String.length t >= 2 && t.[0] = 'V' ->
           let i = int_of_string (String.sub t 1 (String.length t - 1)) in
           let mv = read_msg (nth_msgs ms i) r in
           WMVOneof (nat_of_int i, mv)
       | t -> raise (Bad_token t))
and read_fields (fs : w_fields) (r : reader) : w_vals =
  match fs with
  | WFNil -> WVNil
  | WFCons (_, k, rest) -> let v = read_kind k r in let vr = read_fields rest r in WVCons (v, vr)
and read_kind (k : w_kind) (r : reader) : w_val =
  match k with
  | KHex | KHexBE | KBytesArr -> WVBytes (bytes_tok (next r))
  | KVecHex -> let c = next_int r in
      let rec go i acc = if i = 0 then List.rev acc else let b = bytes_tok (next r) in go (i - 1) (b :: acc) in
      WVVec (go c [])
  | KStatus | KU32 | KU8 -> WVNum (z_of_int (next_int r))
  | KStr -> WVStr (bytes_tok (next r))
  | KOptMsg m ->
      (match next r with
       | "N" -> WVNone
       | "S" -> let mv = read_msg m r in WVSome mv
       | t -> raise (Bad_token t))

(* ------------------------------------------------------------------------------------------ *)
(* tables                                                                                     *)
(* ------------------------------------------------------------------------------------------ *)
let ep_names = [| "register"; "add_appointment"; "get_appointment"; "get_subscription_info" |]
let ep_index name =
  let rec go i = if i >= 4 then raise (Bad_token name) else if ep_names.(i) = name then i else go (i + 1) in go 0
let endpoint_by_path (i : int) : w_endpoint_spec =
  let want = str_of_ocaml ("/" ^ ep_names.(i)) in
  match List.filter (fun e -> w_ep_path e = want) wire_endpoints with
  | e :: _ -> e
  | [] -> failwith ("generated table has no endpoint /" ^ ep_names.(i))
let msg_by_name (name : string) : w_msg =
  match List.assoc_opt (str_of_ocaml name) wire_messages with
  | Some m -> m
  | None -> failwith ("generated table has no message " ^ name)

(* the documented shapes, by proto name *)
let doc_ep (i : int) : w_msg * w_msg * z =
  let want = str_of_ocaml ("/" ^ ep_names.(i)) in
  match List.filter (fun (((p, _), _), _) -> p = want) wire_doc_endpoints with
  | (((_, q), p), c) :: _ -> (q, p, c)
  | [] -> failwith "documented table"
let doc_msg_by_name (name : string) : w_msg option =
  let req i = let (q, _, _) = doc_ep i in q and resp i = let (_, p, _) = doc_ep i in p in
  let first_opt m = match m with WMStruct (WFCons (_, KOptMsg x, _)) -> Some x | _ -> None in
  match name with
  | "RegisterRequest" -> Some (req 0) | "RegisterResponse" -> Some (resp 0)
  | "AddAppointmentRequest" -> Some (req 1) | "AddAppointmentResponse" -> Some (resp 1)
  | "GetAppointmentRequest" -> Some (req 2) | "GetAppointmentResponse" -> Some (resp 2)
  | "GetSubscriptionInfoRequest" -> Some (req 3) | "GetSubscriptionInfoResponse" -> Some (resp 3)
  | "Appointment" -> first_opt (req 1)
  | "AppointmentData" -> first_opt (resp 2)
  | "Tracker" -> (match first_opt (resp 2) with Some (WMFlatOneof (WMCons (_, WMCons (t, _)))) -> Some t | _ -> None)
  | _ -> None

(* ------------------------------------------------------------------------------------------ *)
(* statistics and reporting                                                                   *)
(* ------------------------------------------------------------------------------------------ *)
type stats = {
  mutable cases : int; mutable corr_fail : int; mutable mon_fail : int; mutable known : int;
  mutable http : int; mutable http_full : int; mutable http_rejected : int; mutable http_too_large : int;
  mutable http_fn : int; mutable raw : int; mutable pure : int; mutable skipped : int;
  mutable err_replies : int; mutable ok_replies : int;
  distinct : (string, unit) Hashtbl.t; printed : (string, int) Hashtbl.t;
}
let st = { cases = 0; corr_fail = 0; mon_fail = 0; known = 0; http = 0; http_full = 0; http_rejected = 0;
           http_too_large = 0; http_fn = 0; raw = 0; pure = 0; skipped = 0; err_replies = 0; ok_replies = 0;
           distinct = Hashtbl.create 4096; printed = Hashtbl.create 16 }

let case_part (line : string) : string =
  (* everything before " OBS" *)
  let rec find i = if i + 4 > String.length line then None
    else if String.sub line i 4 = " OBS" then Some i else find (i + 1) in
  match find 0 with Some i -> String.sub line 0 i | None -> line

let report w_kind lineno what detail line =
  let key = w_kind ^ what in
  let c = try Hashtbl.find st.printed key with Not_found -> 0 in
  Hashtbl.replace st.printed key (c + 1);
  if c < 25 then Printf.printf "FAIL %s line=%d what=%s %s case=%s\n" w_kind lineno what detail (case_part line)

let corr lineno line what detail = st.corr_fail <- st.corr_fail + 1; report "corr" lineno what detail line
let mon lineno line what detail =
  if what = "error-reply-undecoded" then st.known <- st.known + 1 else st.mon_fail <- st.mon_fail + 1;
  report "mon" lineno what detail line
let nontrivial line = Hashtbl.replace st.distinct (Digest.string (case_part line)) ()

let expect_tok r t = let x = next r in if x <> t then raise (Bad_token (x ^ " (expected " ^ t ^ ")"))

(* independent spellings used by the monitor *)
let lower_hex (s : string) = String.concat "" (List.init (String.length s) (fun i -> Printf.sprintf "%02x" (Char.code s.[i])))
let rev_string s = let n = String.length s in String.init n (fun i -> s.[n - 1 - i])
let is_hex_text s = String.length s mod 2 = 0 && (try String.iter (fun c -> ignore (hexval c)) s; true with Bad_token _ -> false)

(* ------------------------------------------------------------------------------------------ *)
(* pure cases                                                                                 *)
(* ------------------------------------------------------------------------------------------ *)
let handle_hexe lineno line r =
  st.pure <- st.pure + 1;
  let raw = ocaml_of_hex (next r) in
  let b = str_of_ocaml raw in
  expect_tok r "OBS";
  let enc = ocaml_of_hex (next r) in let viaserde = ocaml_of_hex (next r) in let be = ocaml_of_hex (next r) in
  let m_enc = ocaml_of_str (wire_hex_encode b) and m_be = ocaml_of_str (wire_behex_encode b) in
  if m_enc <> enc then corr lineno line "hex-encode" (Printf.sprintf "model=%s impl=%s" m_enc enc);
  if m_enc <> viaserde then corr lineno line "hex-serde" (Printf.sprintf "model=%s impl=%s" m_enc viaserde);
  if m_be <> be then corr lineno line "serde_be" (Printf.sprintf "model=%s impl=%s" m_be be);
  if enc <> lower_hex raw || viaserde <> lower_hex raw then mon lineno line "m4-hex-lower-case" (Printf.sprintf "impl=%s" enc);
  if be <> lower_hex (rev_string raw) then mon lineno line "m4-txid-byte-reversed" (Printf.sprintf "impl=%s want=%s" be (lower_hex (rev_string raw)));
  nontrivial line

let handle_hexd lineno line r =
  st.pure <- st.pure + 1;
  let txt = ocaml_of_hex (next r) in
  expect_tok r "OBS";
  let read_res () = match next r with "OK" -> Some (ocaml_of_hex (next r)) | _ -> None in
  let d1 = read_res () in let d2 = read_res () in
  let show = function None -> "ERR" | Some s -> hex_of_ocaml s in
  let m1 = Option.map ocaml_of_str (wire_hex_decode (str_of_ocaml txt)) in
  let m2 = Option.map ocaml_of_str (wire_behex_decode (str_of_ocaml txt)) in
  if m1 <> d1 then corr lineno line "hex-decode" (Printf.sprintf "model=%s impl=%s" (show m1) (show d1));
  if m2 <> d2 then corr lineno line "serde_be-decode" (Printf.sprintf "model=%s impl=%s" (show m2) (show d2));
  (* accepted exactly when it is hex text of either case, and then it means what encoding spells *)
  (match d1 with
   | Some b -> if not (is_hex_text txt) || lower_hex b <> String.lowercase_ascii txt then mon lineno line "m3-hex-decode" (show d1)
   | None -> if is_hex_text txt then mon lineno line "m3-hex-decode-rejects-hex" txt);
  (match d2 with
   | Some b -> if lower_hex (rev_string b) <> String.lowercase_ascii txt then mon lineno line "m3-serde_be-decode" (show d2)
   | None -> if is_hex_text txt then mon lineno line "m3-serde_be-rejects-hex" txt);
  if d1 <> None then nontrivial line

let handle_vec lineno line r =
  st.pure <- st.pure + 1;
  let which = next r in
  let (model, doc) =
    match which with
    | "A" -> let l = bytes_tok (next r) in let b = bytes_tok (next r) in let t = n_of_int (next_int r) in
        (wire_appointment_to_vec l b t, wire_doc_appointment_to_vec l b t)
    | "R" -> let u = bytes_tok (next r) in let a = n_of_int (next_int r) in let s = n_of_int (next_int r) in
        let e = n_of_int (next_int r) in
        (wire_registration_receipt_to_vec u a s e, wire_doc_registration_receipt_to_vec u a s e)
    | "P" -> let s = bytes_tok (next r) in let b = n_of_int (next_int r) in
        (wire_appointment_receipt_to_vec s b, wire_doc_appointment_receipt_to_vec s b)
    | t -> raise (Bad_token t) in
  expect_tok r "OBS";
  let impl = bytes_tok (next r) in
  if model <> impl then corr lineno line ("to_vec-" ^ which) (Printf.sprintf "model=%s impl=%s" (show_bytes model) (show_bytes impl));
  if doc <> impl then mon lineno line ("m4-signed-w_layout-" ^ which) (Printf.sprintf "documented=%s impl=%s" (show_bytes doc) (show_bytes impl));
  nontrivial line

let handle_sign lineno line r =
  st.pure <- st.pure + 1;
  ignore (next r);
  let l = bytes_tok (next r) in
  expect_tok r "OBS";
  let c = bytes_tok (next r) in let t = bytes_tok (next r) in
  if wire_get_appointment_msg_client l <> c then corr lineno line "sign-w_msg-client" (show_bytes c);
  if wire_get_appointment_msg_tower l <> t then corr lineno line "sign-w_msg-tower" (show_bytes t);
  if c <> t then mon lineno line "m1-signed-message-differs" (Printf.sprintf "client=%s tower=%s" (show_bytes c) (show_bytes t));
  if c <> wire_doc_get_appointment_msg l then mon lineno line "m4-signed-message" (show_bytes c);
  nontrivial line

let json_of_hex_tok (t : string) : string * w_json option =
  let s = ocaml_of_hex t in (s, parse_json s)

let handle_ser lineno line r =
  st.pure <- st.pure + 1;
  let name = next r in
  let m = msg_by_name name in
  let v = read_msg m r in
  expect_tok r "OBS";
  match next r with
  | "ERR" -> corr lineno line "serialise-failed" name
  | t ->
      let (text, jv) = json_of_hex_tok t in
      let mj = wire_enc m v in
      let mtext = ocaml_of_str (wire_print mj) in
      if jv <> Some mj then corr lineno line "ser-value" (Printf.sprintf "model=%s impl=%s" (clip (show_json mj)) (clip (show_json_opt jv)))
      else if mtext <> text then corr lineno line "ser-text" (Printf.sprintf "model=%s impl=%s" (clip mtext) (clip text));
      let back = match next r with "BACK" -> Some (read_msg m r) | _ -> None in
      let mback = wire_dec m mj in
      if mback <> back then corr lineno line "ser-back" (Printf.sprintf "model=%s impl=%s" (clip (show_mval_opt mback)) (clip (show_mval_opt back)));
      (* a message of the documented API: the status is one of the three documented discriminants *)
      let typed = (match doc_msg_by_name name with Some dm -> wire_doc_typed dm v | None -> wire_typed m v) in
      if typed then begin
        if back <> Some v then mon lineno line "m3-reserialise-identity" (Printf.sprintf "sent=%s back=%s" (clip (show_mval v)) (clip (show_mval_opt back)));
        (match doc_msg_by_name name with
         | Some dm -> let dj = wire_doc_enc dm v in
             if jv <> Some dj then mon lineno line "m4-documented-format" (Printf.sprintf "documented=%s impl=%s" (clip (show_json dj)) (clip (show_json_opt jv)))
         | None -> ());
        nontrivial line
      end

let handle_parse lineno line r =
  st.pure <- st.pure + 1;
  let name = next r in
  let m = msg_by_name name in
  let text = ocaml_of_hex (next r) in
  expect_tok r "OBS";
  match (try Some (parse_json text) with Json_unsupported -> None) with
  | None -> st.skipped <- st.skipped + 1
  | Some jv ->
      let impl = match next r with "OK" -> Some (read_msg m r) | _ -> None in
      let model = match jv with Some j -> wire_dec m j | None -> None in
      if model <> impl then corr lineno line "parse" (Printf.sprintf "model=%s impl=%s w_json=%s" (clip (show_mval_opt model)) (clip (show_mval_opt impl)) (clip (show_json_opt jv)));
      if impl <> None then nontrivial line

(* what the client made of a reply *)
type cgot = GR of w_mval | GE of n list * int | GD | GOther of string | GSig
let read_cgot (resp : w_msg) (r : reader) : cgot * string option * (n list * int * n list) option =
  expect_tok r "CGOT";
  match next r with
  | "R" ->
      let v = read_msg resp r in
      expect_tok r "RESER";
      let reser = next r in
      let rcpt = if peek r = Some "RCPT" then begin
          ignore (next r);
          let us = bytes_tok (next r) in let sb = next_int r in let sg = bytes_tok (next r) in Some (us, sb, sg)
        end else None in
      (GR v, (if reser = "-" then None else Some (ocaml_of_hex reser)), rcpt)
  | "E" -> let m = bytes_tok (next r) in let c = next_int r in (GE (m, c), None, None)
  | "D" -> (GD, None, None)
  | "S" -> ignore (next r); (GSig, None, None)
  | t -> (GOther t, None, None)
let show_cgot = function
  | GR v -> "Response " ^ clip (show_mval v) | GE (m, c) -> Printf.sprintf "Error(%S,%d)" (ocaml_of_str m) c
  | GD -> "DeserializeError" | GOther t -> t | GSig -> "SignatureError"
let cgot_of_creply (c : w_creply) : cgot =
  match c with
  | WCResponse v -> GR v
  | WCError (WMVStruct (WVCons (WVStr m, WVCons (WVNum c, WVNil)))) -> GE (m, int_of_z c)
  | WCError _ -> GOther "error-shape"
  | WCDeserializeError -> GD

let handle_cli lineno line r =
  st.pure <- st.pure + 1;
  let i = ep_index (next r) in
  let e = endpoint_by_path i in
  let text = ocaml_of_hex (next r) in
  expect_tok r "OBS";
  match (try Some (parse_json text) with Json_unsupported -> None) with
  | None -> st.skipped <- st.skipped + 1
  | Some jv ->
      let (impl, _, _) = read_cgot (w_ep_resp e) r in
      let model = match jv with Some j -> cgot_of_creply (wire_client_decode e j) | None -> GD in
      if model <> impl then corr lineno line "client-decode" (Printf.sprintf "model=%s impl=%s w_json=%s" (show_cgot model) (show_cgot impl) (clip (show_json_opt jv)));
      (match impl with GR _ | GE _ -> nontrivial line | _ -> ())

(* ------------------------------------------------------------------------------------------ *)
(* the exchange through the real halves                                                       *)
(* ------------------------------------------------------------------------------------------ *)
type tgot = TN | TS of w_mval * string | TMany
let read_tgot (req : w_msg) (r : reader) : tgot =
  expect_tok r "TGOT";
  match next r with
  | "N" -> TN
  | "S" -> let v = read_msg req r in expect_tok r "TRESER"; let t = next r in TS (v, ocaml_of_hex t)
  | _ -> ignore (next r); TMany

(* can the client build this request?  (UserId = 33-byte key, Locator = 16 bytes, an encrypted penalty and a signature are never empty) *)
let emittable (i : int) (req : w_mval) : bool =
  let len l = List.length l in
  match i, req with
  | 0, WMVStruct (WVCons (WVBytes u, WVNil)) -> len u = 33
  | 1, WMVStruct (WVCons (WVSome (WMVStruct (WVCons (WVBytes l, WVCons (WVBytes b, _)))), WVCons (WVStr s, WVNil))) ->
      len l = 16 && b <> [] && s <> []
  | 2, WMVStruct (WVCons (WVBytes l, WVCons (WVStr s, WVNil))) -> len l = 16 && s <> []
  | 3, WMVStruct (WVCons (WVStr s, WVNil)) -> s <> []
  | _ -> false

let doc_error_of_json (j : w_json option) : (n list * int) option =
  match j with
  | Some (JObj [(k1, JStr m); (k2, JNum c)]) when k1 = str_of_ocaml "error" && k2 = str_of_ocaml "error_code"
                                                   && int_of_z c >= 0 && int_of_z c <= 255 -> Some (m, int_of_z c)
  | _ -> None

let check_tower lineno line e len jv (tg : tgot) (status : string) (rep_json : w_json option) : unit =
  let model = wire_tower_http e (z_of_int len) jv in
  let bad what = corr lineno line "tower-http" what in
  match model, tg with
  | WTForward v, TS (v', _) -> if v <> v' then bad (Printf.sprintf "model forwards %s, internal API received %s" (clip (show_mval v)) (clip (show_mval v')))
  | WTForward v, _ -> bad (Printf.sprintf "model forwards %s, internal API received nothing (HTTP %s)" (clip (show_mval v)) status)
  | WTReject c, TN ->
      (match doc_error_of_json rep_json with
       | Some (_, c') when c' = int_of_z c && status = "400" -> ()
       | _ -> bad (Printf.sprintf "model rejects with code %d, tower answered HTTP %s %s" (int_of_z c) status (clip (show_json_opt rep_json))))
  | WTBadBody, TN -> if status <> "400" then bad (Printf.sprintf "model: body error, tower answered HTTP %s" status)
  | WTTooLarge, TN -> if status <> "413" then bad (Printf.sprintf "model: over the cap, tower answered HTTP %s" status)
  | _, TS (v', _) -> bad (Printf.sprintf "model does not forward, internal API received %s" (clip (show_mval v')))
  | _, TMany -> bad "internal API called more than once"

let handle_http lineno line r =
  st.http <- st.http + 1;
  let i = ep_index (next r) in
  let e = endpoint_by_path i in
  let fn_mode = match next r with "post" -> false | "fn" -> ignore (next r); true | t -> raise (Bad_token t) in
  if fn_mode then st.http_fn <- st.http_fn + 1;
  let req = read_msg (w_ep_req e) r in
  expect_tok r "REPLY";
  let script = match next r with
    | "OK" -> let v = read_msg (w_ep_resp e) r in `Ok v
    | "ERR" -> let c = next_int r in let m = bytes_tok (next r) in `Err (c, m)
    | t -> raise (Bad_token t) in
  expect_tok r "OBS";
  if peek r = Some "PANIC" then begin
    corr lineno line "panic" "the exchange panicked";
    mon lineno line "m2-client-panicked" "the client code panicked on this exchange"
  end else begin
  expect_tok r "REQBODY";
  let reqbody_tok = next r in
  let tg = read_tgot (w_ep_req e) r in
  expect_tok r "HTTP";
  let status = next r in
  expect_tok r "REPBODY";
  let repbody_tok = next r in
  let (cg, reser, rcpt) = read_cgot (w_ep_resp e) r in
  if reqbody_tok = "?" || repbody_tok = "?" then corr lineno line "framing" "could not take the bodies from the wire"
  else begin
    let reqtext = ocaml_of_hex reqbody_tok and reptext = ocaml_of_hex repbody_tok in
    let reqj = parse_json reqtext and repj = parse_json reptext in
    (* ---- model vs wire: the request ---- *)
    let mreq = wire_enc (w_ep_req e) req in
    if reqj <> Some mreq then corr lineno line "request-value" (Printf.sprintf "model=%s wire=%s" (clip (show_json mreq)) (clip (show_json_opt reqj)))
    else if ocaml_of_str (wire_print mreq) <> reqtext then corr lineno line "request-text" (Printf.sprintf "model=%s wire=%s" (clip (ocaml_of_str (wire_print mreq))) (clip reqtext));
    (* ---- model vs tower ---- *)
    check_tower lineno line e (String.length reqtext) reqj tg status repj;
    let forwarded = (match tg with TS _ -> true | _ -> false) in
    (* ---- model vs wire: the reply ---- *)
    if forwarded then begin
      match script with
      | `Ok resp ->
          st.ok_replies <- st.ok_replies + 1;
          let mj = wire_enc (w_ep_resp e) resp in
          if status <> "200" then corr lineno line "reply-status" (Printf.sprintf "model=200 wire=%s" status);
          if repj <> Some mj then corr lineno line "reply-value" (Printf.sprintf "model=%s wire=%s" (clip (show_json mj)) (clip (show_json_opt repj)))
          else if ocaml_of_str (wire_print mj) <> reptext then corr lineno line "reply-text" (Printf.sprintf "model=%s wire=%s" (clip (ocaml_of_str (wire_print mj))) (clip reptext))
      | `Err (c, m) ->
          st.err_replies <- st.err_replies + 1;
          let (http, mj) = wire_tower_error_reply (z_of_int c) m in
          if string_of_int (int_of_z http) <> status then corr lineno line "error-status" (Printf.sprintf "model=%d wire=%s" (int_of_z http) status);
          if repj <> Some mj then corr lineno line "error-value" (Printf.sprintf "model=%s wire=%s" (clip (show_json mj)) (clip (show_json_opt repj)))
    end;
    (* ---- model vs client ---- *)
    let mcg = match repj with Some j -> cgot_of_creply (wire_client_decode e j) | None -> GD in
    let cg_cmp, mcg_cmp =
      if fn_mode && i = 0 then
        (* register() keeps its own user id and drops the reply's: compare the other four fields *)
        let strip = function GR (WMVStruct (WVCons (_, rest))) -> GR (WMVStruct rest) | x -> x in (strip cg, strip mcg)
      else (cg, mcg) in
    if cg <> GSig && cg_cmp <> mcg_cmp then corr lineno line "client" (Printf.sprintf "model=%s impl=%s" (show_cgot mcg) (show_cgot cg));
    (* ================= monitor: the implementation's observations only ================= *)
    let (doc_req, doc_resp, doc_cap) = doc_ep i in
    (* m1: the far side parsed exactly what was sent *)
    (match tg with
     | TS (v', _) -> if v' <> req then mon lineno line "m1-tower-parsed-other-values" (Printf.sprintf "sent=%s received=%s" (clip (show_mval req)) (clip (show_mval v')))
     | TN -> if emittable i req && String.length reqtext <= int_of_z doc_cap then
               mon lineno line "m1-request-not-accepted" (Printf.sprintf "HTTP %s %s" status (clip reptext))
     | TMany -> mon lineno line "m1-request-delivered-twice" "");
    (* m4: what travels is the documented format *)
    let dj = wire_doc_enc doc_req req in
    if reqj <> Some dj then mon lineno line "m4-request-format" (Printf.sprintf "documented=%s wire=%s" (clip (show_json dj)) (clip (show_json_opt reqj)));
    (* m3: tower side re-serialisation *)
    (match tg with
     | TS (_, treser) -> if parse_json treser <> reqj then mon lineno line "m3-tower-reserialise" (clip treser)
     | _ -> ());
    if forwarded then begin
      match script with
      | `Ok resp ->
          let typed = wire_doc_typed doc_resp resp in
          if typed then begin
            let dj = wire_doc_enc doc_resp resp in
            if repj <> Some dj then mon lineno line "m4-reply-format" (Printf.sprintf "documented=%s wire=%s" (clip (show_json dj)) (clip (show_json_opt repj)));
            (* m2: the client parsed exactly what the tower emitted *)
            (match cg with
             | GSig -> ()   (* reply parsed, signer is not the expected tower: C14's business *)
             | GR got ->
                 let same = if fn_mode && i = 0 then
                     (match got, resp with WMVStruct (WVCons (_, a)), WMVStruct (WVCons (_, b)) -> a = b | _ -> false)
                   else got = resp in
                 if not same then mon lineno line "m2-client-parsed-other-values" (Printf.sprintf "tower=%s client=%s" (clip (show_mval resp)) (clip (show_mval got)));
                 (match rcpt, req, resp with
                  | Some (us, sb, sg), WMVStruct (WVCons (_, WVCons (WVStr usig, WVNil))),
                    WMVStruct (WVCons (_, WVCons (WVNum start, WVCons (WVStr tsig, _)))) ->
                      if us <> usig || sb <> int_of_z start || sg <> tsig then mon lineno line "m2-receipt-differs" ""
                  | _ -> ());
                 (match reser with
                  | Some t -> if parse_json t <> repj then mon lineno line "m3-client-reserialise" (clip t)
                  | None -> ());
                 st.http_full <- st.http_full + 1; nontrivial line
             | other -> mon lineno line "m2-client-lost-reply" (Printf.sprintf "tower=%s client=%s" (clip (show_mval resp)) (show_cgot other)))
          end
      | `Err (_, m) ->
          (match doc_error_of_json repj with
           | None -> mon lineno line "m4-error-format" (clip (show_json_opt repj))
           | Some (wm, wc) ->
               if wm <> m then mon lineno line "m4-error-message" (Printf.sprintf "internal API said %S, wire says %S" (ocaml_of_str m) (ocaml_of_str wm));
               (match cg with
                | GE (cm, cc) when cm = wm && cc = wc -> st.http_full <- st.http_full + 1; nontrivial line
                | GD when not (w_ep_client_wrapped e) ->
                    mon lineno line "error-reply-undecoded"
                      (Printf.sprintf "endpoint=%s tower={error:%S,error_code:%d} client=DeserializeError" ep_names.(i) (ocaml_of_str wm) wc)
                | other -> mon lineno line "m2-client-parsed-other-error" (Printf.sprintf "tower=(%S,%d) client=%s" (ocaml_of_str wm) wc (show_cgot other))))
    end else begin
      (match tg with TN -> if status = "413" then st.http_too_large <- st.http_too_large + 1 else st.http_rejected <- st.http_rejected + 1 | _ -> ());
      (* the tower refused the request itself: its error object must reach the client too *)
      match doc_error_of_json repj with
      | Some (wm, wc) ->
          (match cg with
           | GE (cm, cc) when cm = wm && cc = wc -> ()
           | GD when not (w_ep_client_wrapped e) ->
               mon lineno line "error-reply-undecoded"
                 (Printf.sprintf "endpoint=%s tower={error:%S,error_code:%d} client=DeserializeError" ep_names.(i) (ocaml_of_str wm) wc)
           | other -> mon lineno line "m2-client-parsed-other-error" (Printf.sprintf "tower=(%S,%d) client=%s" (ocaml_of_str wm) wc (show_cgot other)))
      | None -> ()   (* 413: plain text, carries no values *)
    end
  end
  end

let handle_raw lineno line r =
  st.raw <- st.raw + 1;
  let i = ep_index (next r) in
  let e = endpoint_by_path i in
  let text = ocaml_of_hex (next r) in
  expect_tok r "OBS";
  if peek r = Some "PANIC" then corr lineno line "panic" "raw exchange panicked"
  else begin
    let tg = read_tgot (w_ep_req e) r in
    expect_tok r "HTTP";
    let status = next r in
    expect_tok r "REPBODY";
    let rep = next r in
    match (try Some (parse_json text) with Json_unsupported -> None) with
    | None -> st.skipped <- st.skipped + 1
    | Some jv ->
        let repj = if rep = "?" then None else parse_json (ocaml_of_hex rep) in
        check_tower lineno line e (String.length text) jv tg status repj;
        (match tg with TS _ -> nontrivial line | _ -> ())
  end

let guarded (h : int -> string -> reader -> unit) (lineno : int) (line : string) (r : reader) : unit =
  st.cases <- st.cases + 1;
  try h lineno line r with
  | Bad_token t -> corr lineno line "case-line" ("cannot read token " ^ t)
  | Invalid_argument m | Failure m -> corr lineno line "case-line" m
  | Not_found -> corr lineno line "case-line" "not found"

let summary () =
  if st.cases > 0 then
    Printf.printf "SUMMARY kind=WIRE cases=%d corr_fail=%d mon_fail=%d known_error_reply_undecoded=%d distinct_nontrivial=%d http=%d http_full_exchanges=%d http_fn_mode=%d http_ok_replies=%d http_error_replies=%d http_rejected=%d http_too_large=%d raw=%d pure=%d skipped=%d\n"
      st.cases st.corr_fail st.mon_fail st.known (Hashtbl.length st.distinct) st.http st.http_full st.http_fn st.ok_replies
      st.err_replies st.http_rejected st.http_too_large st.raw st.pure st.skipped

let () =
  register "WHEXE" (guarded handle_hexe);
  register "WHEXD" (guarded handle_hexd);
  register "WVEC" (guarded handle_vec);
  register "WSIGN" (guarded handle_sign);
  register "WSER" (guarded handle_ser);
  register "WPARSE" (guarded handle_parse);
  register "WCLI" (guarded handle_cli);
  register "WHTTP" (guarded handle_http);
  register "WRAW" (guarded handle_raw);
  register_summary summary
