(* ConcReachWitness.v — kernel-evaluated executions of the thread-level reachability protocol: the two
   recorded findings are reachable, the recovery the property promises happens when it can, a multi-block
   poll keeps its partial progress.  (Definitions of the witnesses and `vm_compute` lemmas.) *)
From TeosModel Require Import Base TxIndex Tower ConcTower ConcLin ConcReach.

(* user 1 holds appointment 7 (penalty 107) at height 120 *)
Definition wr_app : tower := fst (run true w_reg [(OAdd (Some 1) 7 w_blob 20 1, [])]).
(* two registered users, the dispute 7 already in the locator cache (height 121) *)
Definition wr_cached : tower := fst (run true w_reg [(OConnect 2001 [7], [])]).

Definition wr_fuel : nat := 3.
Definition wr_pfuel : nat := 6.
Definition wr_conf t polls ops pending h ro fo : rconf :=
  rinit t true (map (thread_p true [] wr_fuel wr_pfuel) (TMonitor polls :: map TApi ops)) pending h ro fo.

(* 1. block path: the block with the dispute arrives, the node goes away at the first request of the poll;
      afterwards a request arrives *)
Definition wr_block_path : rconf := wr_conf wr_app 2 [OGetSub (Some 1)] [(2001, [7])] 120 [true] [].
Definition wr_block_sched : list nat := repeat 0%nat 200.

Lemma wr_block_path_stuck :
  let c := rrun_config wr_block_path wr_block_sched in
  stuck_waiting c 0 = true /\
  calls_of 0 (rc_log c) = [Some (K_getraw, 107, CallErr)] /\
  waits_of 0 (rc_log c) = [[L_txindex; L_carrier]] /\
  delivered (rc_log c) = [2001] /\
  (* the request that comes now is refused, whatever is scheduled *)
  let c2 := rrun_config c (repeat 1%nat 10 ++ repeat 0%nat 10) in
  map rresult (rc_threads c2) = [None; Some (RDone RUnavailable)] /\ rc_tower c2 = rc_tower c.
Proof. vm_compute. repeat split; reflexivity. Qed.

Lemma wr_block_path_reached :
  stuck_waiting (rrun_config wr_block_path wr_block_sched) 0 = true /\
  waits_of 0 (rc_log (rrun_config wr_block_path wr_block_sched)) = [[L_txindex; L_carrier]].
Proof. vm_compute. split; reflexivity. Qed.

Lemma wr_unavailable :
  let c := rrun_config wr_block_path wr_block_sched in
  let c2 := rrun_config c (repeat 1%nat 10 ++ repeat 0%nat 10) in
  map rresult (rc_threads c2) = [None; Some (RDone RUnavailable)] /\ rc_tower c2 = rc_tower c.
Proof. vm_compute. split; reflexivity. Qed.

(* 2. request path: a late appointment is answered on an API thread, the node goes away at its first request;
      a block is mined before the next successful poll *)
Definition wr_add_op : op := OAdd (Some 1) 7 w_blob 20 1.
Definition wr_request_block : rconf := wr_conf wr_cached 1 [wr_add_op] [(2002, [])] 121 [true] [].
Definition wr_request_sched : list nat := repeat 1%nat 300 ++ repeat 0%nat 300.

Lemma wr_request_path_stuck :
  let c := rrun_config wr_request_block wr_request_sched in
  stuck_on_lock c 0 1 L_cache = true /\
  calls_of 1 (rc_log c) = [Some (K_getraw, 107, CallErr)] /\
  waits_of 1 (rc_log c) = [[L_txindex; L_carrier; L_cache]] /\
  delivered (rc_log c) = [2002].
Proof. vm_compute. repeat split; reflexivity. Qed.

Lemma wr_request_path_reached :
  stuck_on_lock (rrun_config wr_request_block wr_request_sched) 0 1 L_cache = true /\
  waits_of 1 (rc_log (rrun_config wr_request_block wr_request_sched)) = [[L_txindex; L_carrier; L_cache]].
Proof. vm_compute. split; reflexivity. Qed.

(* 3. request path, no block: the poll wakes the thread, the same request is made again, the answer and the
      final state are those of the run without the outage *)
Definition wr_request_quiet (polls : nat) (ro : list bool) : rconf := wr_conf wr_cached polls [wr_add_op] [] 121 ro [].
Definition wr_recover_sched : list nat := repeat 1%nat 300 ++ repeat 0%nat 50 ++ repeat 1%nat 300.

Lemma wr_request_path_recovers :
  let c := rrun_config (wr_request_quiet 1 [true]) wr_recover_sched in
  let c_ff := rrun_config (wr_request_quiet 1 []) wr_recover_sched in
  map rresult (rc_threads c) = map rresult (rc_threads c_ff) /\
  forallb rfinished (rc_threads c) = true /\
  rc_tower c = rc_tower c_ff /\ rc_flag c = true /\
  calls_of 1 (rc_log c) =
    [Some (K_getraw, 107, CallErr); Some (K_getraw, 107, CallVerdict (InMempoolSince 0)); Some (K_send, 107, CallVerdict (InMempoolSince 121))] /\
  find_trk (db_trks (rc_tower c)) (7, 1) <> None.
Proof. vm_compute. repeat split; try reflexivity. discriminate. Qed.

(* two consecutive transport errors: the same request three times *)
Lemma wr_two_errors :
  let c := rrun_config (wr_request_quiet 2 [true; true])
                       (repeat 1%nat 300 ++ repeat 0%nat 5 ++ repeat 1%nat 300 ++ repeat 0%nat 5 ++ repeat 1%nat 300) in
  map (fun x => match x with Some (k, tx, CallErr) => Some (k, tx, true) | Some (k, tx, _) => Some (k, tx, false) | None => None end)
      (calls_of 1 (rc_log c)) =
    [Some (K_getraw, 107, true); Some (K_getraw, 107, true); Some (K_getraw, 107, false); Some (K_send, 107, false)] /\
  retry_ok (calls_of 1 (rc_log c)) = true.
Proof. vm_compute. split; reflexivity. Qed.

(* the retry fuel: more consecutive errors than the model's fuel is reported as such, never as an answer *)
Lemma wr_fuel_exhaustion_is_reported :
  let c := rrun_config (wr_request_quiet 6 [true; true; true; true; true; true])
                       (flat_map (fun _ => repeat 1%nat 300 ++ repeat 0%nat 5) (seq 0 6)) in
  map rresult (rc_threads c) = [Some (RDone (RO OBlockRes)); Some RExhaust].
Proof. vm_compute. reflexivity. Qed.

(* 4. a 4-block poll whose third download fails: two blocks are processed, SpvClient keeps the tip it reached and
      the poll still returns Ok with the announced tip (which the chain monitor persists: the window of F4);
      the next poll delivers the other two; nothing twice, nothing skipped *)
Definition wr_multi (polls : nat) : rconf :=
  wr_conf wr_app polls [] [(2001, []); (2002, [7]); (2003, []); (2004, [])] 120 [] [F_ok; F_ok; F_block_fails].

Lemma wr_partial_poll :
  let c1 := rrun_config (wr_multi 1) (repeat 0%nat 400) in
  let c2 := rrun_config (wr_multi 2) (repeat 0%nat 400) in
  delivered (rc_log c1) = [2001; 2002] /\ rc_flag c1 = true /\ rc_lkb c1 = 124%N /\ rc_height c1 = 122%N /\
  delivered (rc_log c2) = [2001; 2002; 2003; 2004] /\ rc_flag c2 = true /\ rc_lkb c2 = 124%N /\ rc_pending c2 = [] /\
  find_trk (db_trks (rc_tower c2)) (7, 1) <> None.
Proof. vm_compute. repeat split; try reflexivity. discriminate. Qed.
