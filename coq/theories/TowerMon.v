(* TowerMon.v — the properties as executable monitors over OBSERVED traces of the tower:
   what the API answered, which RPCs reached the node, the three tables and the gatekeeper's
   memory after every step.  The same functions are evaluated (extracted) on the traces of the
   real implementation and are the subject of the theorems about the model's own traces.
   A monitor demands no more than the property states.  Definitions only. *)
From TeosModel Require Import Base TxIndex Tower.
From TeosModel.Gen Require Consts.

Record obs := mk_obs {
  o_users : list (N * uinfo);          (* table users *)
  o_apps : list app;                   (* table appointments *)
  o_trks : list trk;                   (* table trackers *)
  o_mem : list (N * (N * N))           (* gatekeeper memory through get_user: u, slots, expiry *)
}.

Definition observe (t : tower) : obs :=
  mk_obs (db_users t) (db_apps t) (db_trks t)
         (map (fun r => (fst r, (u_slots (snd r), u_expiry (snd r)))) (gk_users t)).

(* ghost state the monitors carry along a trace *)
Record mstate := mk_mstate {
  m_height : N;
  m_chain : list (N * list N);              (* blocks connected since bootstrap, newest first: height, txs *)
  m_ledger : list (N * (N * N));            (* user -> (granted, forfeited) *)
  m_last : list ((N * N) * (blob * N));     (* uuid -> last accepted (blob, to_self_delay) *)
  m_disc : list N;                          (* heights disconnected since the last connection *)
  m_memo : list (N * bool);                 (* transactions given to the node since the last connection was
                                               completed (the carrier answers from its memo until then):
                                               tx -> (node's verdict: true accepted / false rejected); a
                                               transaction answered `already in chain` is listed in m_memo27 *)
  m_memo27 : list N;
  m_deficit : N;                            (* blocks missing from the 6-block cache: disconnections not yet
                                               made up for by connections *)
  m_owed : list ((N * N) * blob)            (* uuid -> blob of every appointment the tower acknowledged (AddOk) and
                                               that has not come to one of the ends the property names since:
                                               responded, dropped as undecryptable / rejected when its dispute was
                                               seen, replaced by its owner, owner purged.  Kept from the replies
                                               alone, NOT from the tables: an accepted appointment the tower lost
                                               for any other reason is still owed an answer *)
}.

Definition m_init (h0 : N) : mstate := mk_mstate h0 [] [] [] [] [] [] 0 [].

(* ---------- small helpers ---------- *)
Definition blob_eqb (a b : blob) : bool :=
  N.eqb (b_key a) (b_key b) && N.eqb (b_len a) (b_len b) &&
  match b_pay a, b_pay b with
  | Some x, Some y => N.eqb x y
  | None, None => true
  | _, _ => false
  end.

Definition uinfo_eqb (a b : uinfo) : bool :=
  N.eqb (u_slots a) (u_slots b) && N.eqb (u_start a) (u_start b) && N.eqb (u_expiry a) (u_expiry b).

Definition app_eqb (a b : app) : bool :=
  uuid_eqb (app_uuid a) (app_uuid b) && blob_eqb (a_blob a) (a_blob b) && N.eqb (a_delay a) (a_delay b)
  && N.eqb (a_sig a) (a_sig b) && N.eqb (a_start a) (a_start b).

Definition trk_eqb (a b : trk) : bool :=
  uuid_eqb (trk_uuid a) (trk_uuid b) && N.eqb (t_dispute a) (t_dispute b) && N.eqb (t_penalty a) (t_penalty b)
  && N.eqb (t_height a) (t_height b) && Bool.eqb (t_conf a) (t_conf b).

Definition user_row (o : obs) (u : N) : option uinfo := aget (o_users o) u.
Definition has_user (o : obs) (u : N) : bool := amem (o_users o) u.
Definition apps_of (o : obs) (u : N) : list app := filter (fun a => N.eqb (a_user a) u) (o_apps o).
Definition held (o : obs) (u : N) : N := fold_right (fun a s => slots_of (b_len (a_blob a)) + s) 0 (apps_of o u).

(* list inclusion / equality up to order, by a boolean equality *)
Definition incl_by {A} (eqb : A -> A -> bool) (l1 l2 : list A) : bool := forallb (fun x => existsb (eqb x) l2) l1.
Definition same_by {A} (eqb : A -> A -> bool) (l1 l2 : list A) : bool :=
  incl_by eqb l1 l2 && incl_by eqb l2 l1 && Nat.eqb (length l1) (length l2).

Definition urow_eqb (a b : N * uinfo) : bool := N.eqb (fst a) (fst b) && uinfo_eqb (snd a) (snd b).

(* the transactions of the blocks of the active chain with height > lo *)
Definition chain_txs_above (m : mstate) (lo : Z) : list N :=
  flat_map (fun b => if Z.ltb lo (Z.of_N (fst b)) then snd b else []) (m_chain m).

Definition sent (rpcs : list (rpc_kind * N)) (x : N) : bool :=
  existsb (fun r => match fst r with K_send => N.eqb (snd r) x | K_getraw => false end) rpcs.
Definition queried (rpcs : list (rpc_kind * N)) (x : N) : bool :=
  existsb (fun r => match fst r with K_getraw => N.eqb (snd r) x | K_send => false end) rpcs.

Inductive verdict := V_accepted | V_rejected | V_neither.
Definition CACHE_SIZE : Z := Consts.WATCHER_CACHE_TO - Consts.WATCHER_CACHE_FROM.

(* what the node said about tx x in this step, as far as acceptance goes; in_index = x is in a
   block of the last 100 of the active chain (then the node is not even asked) *)
Definition send_verdict (sc : script) (x : N) : verdict :=
  match snd (script_get sc x) with
  | A_ok => V_accepted
  | A_code c => if Z.eqb c Consts.RPC_VERIFY_ALREADY_IN_CHAIN then V_neither else V_rejected
  end.

(* the verdict the tower works with when it submits x in this step: the carrier answers from its
   memo of the current block period before asking the node again *)
Definition eff_send_verdict (m : mstate) (sc : script) (x : N) : verdict :=
  match aget (m_memo m) x with
  | Some true => V_accepted
  | Some false => V_rejected
  | None => if memN x (m_memo27 m) then V_neither else send_verdict sc x
  end.
Definition in_memo (m : mstate) (x : N) : bool := amem (m_memo m) x || memN x (m_memo27 m).

Definition penalty_verdict (m : mstate) (h : N) (sc : script) (p : N) : verdict :=
  if memN p (chain_txs_above m (Z.of_N h - Consts.RESPONDER_INDEX_SIZE)) then V_accepted
  else match fst (script_get sc p) with
       | G_in_mempool => V_accepted
       | _ => eff_send_verdict m sc p
       end.

(* a tracker completes in the block of height h: confirmed exactly IRREVOCABLY_RESOLVED blocks
   below and not re-confirmed by this very block *)
Definition completing (h : N) (txs : list N) (k : trk) : bool :=
  t_conf k && Z.eqb (Z.of_N h - Z.of_N (t_height k)) Consts.IRREVOCABLY_RESOLVED && negb (memN (t_penalty k) txs).

(* failure codes = property numbers *)
Definition chk (b : bool) (code : N) : list N := if b then [] else [code].

(* ---------- C09: subscription heights ---------- *)
Definition mon_C09 (c : config) (m : mstate) (pre : obs) (o : op) (x : out) (post : obs) : list N :=
  let h := m_height m in
  let gate (signer : option N) (expired_reply : option N) (passed : bool) : bool :=
    match signer with
    | Some u => match user_row pre u with
                | Some ui =>
                    if N.ltb h (u_expiry ui) then passed
                    else match expired_reply with Some e => N.eqb e (u_expiry ui) | None => false end
                | None => true
                end
    | None => true
    end in
  match o, x with
  | ORegister u, ORegisterRes (RegOk s st e) =>
      chk (match user_row pre u with
           | None => N.eqb st h && N.eqb e (h + c_duration c) && N.eqb s (c_slots c)
           | Some ui => N.eqb st (u_start ui) && N.eqb e (N.min U32MAX (u_expiry ui + c_duration c))
                        && N.eqb s (u_slots ui + c_slots c)
           end) 9
  | ORegister u, ORegisterRes RegMaxSlots =>
      chk (match user_row pre u with Some ui => N.ltb U32MAX (u_slots ui + c_slots c) | None => false end) 9
  | OAdd signer _ _ _ _, OAddRes r =>
      chk (gate signer (match r with AddExpired e => Some e | _ => None end)
                (match r with AddExpired _ => false | _ => true end)) 9
  | OGet signer _, OGetRes r =>
      chk (gate signer (match r with GetExpired e => Some e | _ => None end)
                (match r with GetExpired _ => false | _ => true end)) 9
  | OGetSub signer, OSubRes r =>
      chk (gate signer (match r with SubExpired e => Some e | _ => None end)
                (match r with SubExpired _ => false | _ => true end)) 9
  | OConnect _ _, OBlockRes =>
      (* purged exactly when the new height reaches expiry + grace *)
      chk (forallb (fun r => Bool.eqb (negb (has_user post (fst r)))
                                       (N.leb (u_expiry (snd r) + c_delta c) (h + 1))) (o_users pre)) 9
  | _, _ => []
  end ++
  (* no other operation removes a user *)
  match o with
  | OConnect _ _ => []
  | _ => chk (forallb (fun r => has_user post (fst r)) (o_users pre)) 9
  end.

(* ---------- C07: slot accounting ---------- *)
Definition ledger_get (m : mstate) (u : N) : N * N := match aget (m_ledger m) u with Some x => x | None => (0, 0) end.
Definition ledger_put (l : list (N * (N * N))) (u : N) (x : N * N) := (u, x) :: aremove l u.

(* ghost ledger after the step, from the observations alone *)
Definition ledger_step (c : config) (m : mstate) (pre : obs) (o : op) (x : out) (post : obs) : list (N * (N * N)) :=
  let l := m_ledger m in
  match o, x with
  | ORegister u, ORegisterRes (RegOk _ _ _) =>
      if has_user pre u then let '(g, f) := ledger_get m u in ledger_put l u (g + c_slots c, f)
      else ledger_put l u (c_slots c, 0)
  | OAdd (Some u) loc b _ _, OAddRes (AddOk _ _ _ _) =>
      (* the submitted version is not held afterwards: it was dropped (invalid or rejected) *)
      if existsb (fun a => uuid_eqb (app_uuid a) (loc, u) && blob_eqb (a_blob a) b) (o_apps post) then l
      else let '(g, f) := ledger_get m u in ledger_put l u (g, f + slots_of (b_len b))
  | OConnect _ txs, OBlockRes =>
      let h := m_height m + 1 in
      (* rows that disappear without completing are forfeited *)
      fold_left (fun l' a =>
                   if existsb (fun a' => uuid_eqb (app_uuid a') (app_uuid a)) (o_apps post) then l'
                   else match find_trk (o_trks pre) (app_uuid a) with
                        | Some k => if completing h txs k then l'
                                    else let '(g, f) := match aget l' (a_user a) with Some y => y | None => (0, 0) end in
                                         ledger_put l' (a_user a) (g, f + slots_of (b_len (a_blob a)))
                        | None => let '(g, f) := match aget l' (a_user a) with Some y => y | None => (0, 0) end in
                                  ledger_put l' (a_user a) (g, f + slots_of (b_len (a_blob a)))
                        end) (o_apps pre) l
  | _, _ => l
  end.

Definition mon_C07 (c : config) (m : mstate) (pre : obs) (o : op) (x : out) (post : obs) : list N * list (N * (N * N)) :=
  let l := ledger_step c m pre o x post in
  (* conservation for every user the tower holds *)
  (chk (forallb (fun r => let '(g, f) := match aget l (fst r) with Some y => y | None => (0, 0) end in
                          N.eqb g (u_slots (snd r) + held post (fst r) + f)) (o_users post)) 7 ++
   (* memory = disk *)
   chk (forallb (fun r => match aget (o_mem post) (fst r) with
                          | Some (s, e) => N.eqb s (u_slots (snd r)) && N.eqb e (u_expiry (snd r))
                          | None => false end) (o_users post)
        && Nat.eqb (length (o_mem post)) (length (o_users post))) 7 ++
   (* wire = disk *)
   chk (match o, x with
        | ORegister u, ORegisterRes (RegOk s st e) =>
            match user_row post u with Some ui => uinfo_eqb ui (mk_uinfo s st e) | None => false end
        | OAdd (Some u) _ _ _ _, OAddRes (AddOk _ _ s e) =>
            match user_row post u with Some ui => N.eqb s (u_slots ui) && N.eqb e (u_expiry ui) | None => false end
        | OGetSub (Some u), OSubRes (SubOk s e locs) =>
            match user_row post u with
            | Some ui => N.eqb s (u_slots ui) && N.eqb e (u_expiry ui)
                         && same_by N.eqb locs (map a_loc (apps_of post u))
            | None => false end
        | _, _ => true
        end) 7, l).

(* ---------- C06: authentication and isolation ---------- *)
Definition obs_eqb (a b : obs) : bool :=
  same_by urow_eqb (o_users a) (o_users b) && same_by app_eqb (o_apps a) (o_apps b)
  && same_by trk_eqb (o_trks a) (o_trks b).

Definition others_unchanged (u : N) (pre post : obs) : bool :=
  same_by urow_eqb (filter (fun r => negb (N.eqb (fst r) u)) (o_users pre))
                   (filter (fun r => negb (N.eqb (fst r) u)) (o_users post))
  && same_by app_eqb (filter (fun a => negb (N.eqb (a_user a) u)) (o_apps pre))
                     (filter (fun a => negb (N.eqb (a_user a) u)) (o_apps post))
  && same_by trk_eqb (filter (fun k => negb (N.eqb (t_user k) u)) (o_trks pre))
                     (filter (fun k => negb (N.eqb (t_user k) u)) (o_trks post)).

Definition mon_C06 (m : mstate) (pre : obs) (o : op) (x : out) (post : obs) : list N :=
  let authentic (signer : option N) : bool :=
    match signer with
    | Some u => match user_row pre u with Some ui => N.ltb (m_height m) (u_expiry ui) | None => false end
    | None => false
    end in
  let check (signer : option N) (succeeded : bool) : list N :=
    (* success only for a registered, non-expired signer; a refused request changes nothing;
       a request by u never alters another user's records *)
    chk (implb succeeded (authentic signer)) 6 ++
    chk (implb (negb succeeded) (obs_eqb pre post)) 6 ++
    chk (match signer with Some u => others_unchanged u pre post | None => obs_eqb pre post end) 6 in
  match o, x with
  | OAdd signer _ _ _ _, OAddRes r => check signer (match r with AddOk _ _ _ _ => true | _ => false end)
  | OGet signer loc, OGetRes r =>
      check signer (match r with GetApp _ _ _ | GetTrk _ _ | GetNotFound => true | _ => false end) ++
      (* what is revealed is the signer's own record *)
      chk (match signer, r with
           | Some u, GetApp l b d =>
               existsb (fun a => uuid_eqb (app_uuid a) (loc, u) && N.eqb l loc && blob_eqb (a_blob a) b && N.eqb (a_delay a) d) (o_apps pre)
           | Some u, GetTrk d p =>
               existsb (fun k => uuid_eqb (trk_uuid k) (loc, u) && N.eqb (t_dispute k) d && N.eqb (t_penalty k) p) (o_trks pre)
           | _, _ => true
           end) 6 ++
      chk (obs_eqb pre post) 6
  | OGetSub signer, OSubRes r =>
      check signer (match r with SubOk _ _ _ => true | _ => false end) ++ chk (obs_eqb pre post) 6
  | ORegister u, ORegisterRes _ => chk (others_unchanged u pre post) 6
  | _, _ => []
  end.

(* ---------- C08: receipts and read-back ---------- *)
(* d was confirmed in one of the six most recent blocks of the active chain *)
Definition in_cache (m : mstate) (d : N) : bool :=
  memN d (chain_txs_above m (Z.of_N (m_height m) - CACHE_SIZE)).
(* ... and in one of those the tower still holds: between disconnections and the refill the cache is
   the truncated window (the tower never re-fetches older blocks, C19) *)
Definition in_truncated_cache (m : mstate) (d : N) : bool :=
  memN d (chain_txs_above m (Z.of_N (m_height m) - (CACHE_SIZE - Z.of_N (m_deficit m)))).

Definition mon_C08 (m : mstate) (pre : obs) (o : op) (sc : script) (x : out) (post : obs)
  : list N * list ((N * N) * (blob * N)) :=
  match o, x with
  | OAdd (Some u) loc b delay sig, OAddRes (AddOk start rsig _ _) =>
      (chk (N.eqb rsig sig) 8 ++                       (* the receipt binds the request's own signature *)
       chk (N.eqb start (m_height m)) 8 ++             (* start block = the tower's height at acceptance *)
       (* issued only for something stored, responded to, or dropped after its dispute was seen *)
       chk (existsb (fun a => uuid_eqb (app_uuid a) (loc, u) && blob_eqb (a_blob a) b && N.eqb (a_delay a) delay
                                && N.eqb (a_sig a) sig) (o_apps post)
            || existsb (fun k => uuid_eqb (trk_uuid k) (loc, u)) (o_trks post)
            || (in_cache m loc &&
                match decrypt b loc with
                | None => true
                | Some p => match penalty_verdict m (m_height m) sc p with V_rejected => true | _ => false end
                end)) 8,
       (* remember the accepted version when it is held untriggered afterwards *)
       if existsb (fun a => uuid_eqb (app_uuid a) (loc, u) && blob_eqb (a_blob a) b) (o_apps post)
       then ((loc, u), (b, delay)) :: filter (fun e => negb (uuid_eqb (fst e) (loc, u))) (m_last m)
       else m_last m)
  | OGet (Some u) loc, OGetRes (GetApp l b d) =>
      (chk (match find (fun e => uuid_eqb (fst e) (loc, u)) (m_last m) with
            | Some (_, (b0, d0)) => N.eqb l loc && blob_eqb b b0 && N.eqb d d0
            | None => true
            end) 8, m_last m)
  | _, _ => ([], m_last m)
  end.

(* ---------- C01: breaches are answered ---------- *)
(* one row (d, u) whose dispute d is observed with the tower at height h (new block or cache hit) *)
(* the penalty p was submitted while the tower was at height h, or the tower had a reason not to (it is in a block the
   responder's index covers, the node said it has it in its mempool, or it was handed over earlier in this very block) *)
Definition penalty_handed (m : mstate) (h : N) (sc : script) (rpcs : list (rpc_kind * N)) (p : N) : bool :=
  let in_index := memN p (chain_txs_above m (Z.of_N h - Consts.RESPONDER_INDEX_SIZE)) in
  in_index || (queried rpcs p && match fst (script_get sc p) with G_in_mempool => true | _ => false end)
  || sent rpcs p || in_memo m p.

Definition breach_answered (m : mstate) (h : N) (sc : script) (rpcs : list (rpc_kind * N))
           (d : N) (a : app) (post : obs) : bool :=
  let uuid := app_uuid a in
  let has_row := existsb (fun a' => uuid_eqb (app_uuid a') uuid) (o_apps post) in
  match decrypt (a_blob a) d with
  | None => negb has_row                                        (* undecryptable: only that appointment is dropped *)
  | Some p =>
      penalty_handed m h sc rpcs p
      && match penalty_verdict m h sc p with
         | V_accepted => existsb (fun k => uuid_eqb (trk_uuid k) uuid && N.eqb (t_dispute k) d && N.eqb (t_penalty k) p) (o_trks post)
         | V_rejected => negb has_row
         | V_neither => true
         end
  end.

Definition mon_C01 (m : mstate) (pre : obs) (o : op) (sc : script) (x : out)
           (rpcs : list (rpc_kind * N)) (post : obs) : list N :=
  match o, x with
  | OConnect _ txs, OBlockRes =>
      let h := m_height m + 1 in
      (* the responder's index does not contain the block being connected yet when the watcher
         hands the breach over: the node's verdict decides for a penalty mined in this very block *)
      chk (forallb (fun a =>
                      implb (memN (a_loc a) txs && has_user post (a_user a)
                             && negb (existsb (fun k => uuid_eqb (trk_uuid k) (app_uuid a)) (o_trks pre)))
                            (breach_answered m h sc rpcs (a_loc a) a post)) (o_apps pre)) 1 ++
      (* the same for every acknowledged appointment still owed an answer, whatever the tables say: if the
         tower dropped it for a reason the property does not name, its breach goes unanswered here *)
      chk (forallb (fun e =>
                      let uuid := fst e in
                      implb (memN (fst uuid) txs && has_user post (snd uuid)
                             && negb (existsb (fun k => uuid_eqb (trk_uuid k) uuid) (o_trks pre)))
                            (breach_answered m h sc rpcs (fst uuid) (mk_app (fst uuid) (snd uuid) (snd e) 0 0 0) post))
                   (m_owed m)) 1 ++
      (* a row that already HAS a tracker and whose dispute is confirmed again (mined again after a reorg): "a transaction whose id
         starts with the locator is confirmed in a block the tower then processes" holds here too - the penalty is handed to the node
         while this block is handled unless the node or the index already has it (the responder's own cadence, C04, is not enough) *)
      chk (forallb (fun a =>
                      implb (memN (a_loc a) txs && has_user post (a_user a)
                             && existsb (fun k => uuid_eqb (trk_uuid k) (app_uuid a)) (o_trks pre))
                            (match decrypt (a_blob a) (a_loc a) with
                             | None => true
                             | Some p => penalty_handed m h sc rpcs p
                             end)) (o_apps pre)) 1
  | OAdd (Some u) loc b delay sig, OAddRes (AddOk start _ _ _) =>
      (* code 1: the dispute is in a block the cache holds; code 101: it is in one of the six most
         recent blocks but the cache is truncated at this moment (known finding, DESIGN.md section 6) *)
      chk (implb (in_truncated_cache m loc)
                 (breach_answered m (m_height m) sc rpcs loc (mk_app loc u b delay sig start) post)) 1 ++
      chk (implb (in_cache m loc && negb (in_truncated_cache m loc))
                 (breach_answered m (m_height m) sc rpcs loc (mk_app loc u b delay sig start) post)) 101
  | _, _ => []
  end.

(* ---------- C02: only justified broadcasts ---------- *)
Definition mon_C02 (m : mstate) (pre : obs) (o : op) (sc : script) (x : out)
           (rpcs : list (rpc_kind * N)) (post : obs) : list N :=
  let survivors (a_usr : N) := has_user post a_usr in
  let justified (tx : N) : bool :=
    match o with
    | OConnect _ txs =>
        (* penalty of a row breached by this block *)
        existsb (fun a => memN (a_loc a) txs && survivors (a_user a)
                          && match decrypt (a_blob a) (a_loc a) with Some p => N.eqb p tx | None => false end) (o_apps pre)
        (* penalty of an existing tracker (re-broadcast), or its dispute after a disconnection *)
        || existsb (fun k => survivors (t_user k) &&
                             (N.eqb (t_penalty k) tx
                              || (N.eqb (t_dispute k) tx && negb (match m_disc m with [] => true | _ => false end)))) (o_trks pre)
    | OAdd (Some u) loc b _ _ =>
        in_cache m loc && match decrypt b loc with Some p => N.eqb p tx | None => false end
    | _ => false
    end in
  chk (forallb (fun r => match fst r with K_send => justified (snd r) | K_getraw => true end) rpcs) 2 ++
  (* a new tracker only for a penalty the node was given or already had *)
  chk (forallb (fun k => existsb (fun k' => uuid_eqb (trk_uuid k') (trk_uuid k)) (o_trks pre)
                         || match penalty_verdict m
                                    (match o with OConnect _ _ => m_height m + 1 | _ => m_height m end) sc (t_penalty k) with
                            | V_accepted => true | _ => false end) (o_trks post)) 2.

(* ---------- C04: responses follow the active chain ---------- *)
Definition mon_C04 (m : mstate) (pre : obs) (o : op) (sc : script) (x : out)
           (rpcs : list (rpc_kind * N)) (post : obs) : list N :=
  match o, x with
  | OConnect _ txs, OBlockRes =>
      let h := m_height m + 1 in
      chk (forallb (fun k =>
             let uuid := trk_uuid k in
             let after := find_trk (o_trks post) uuid in
             let u := t_user k in
             if negb (has_user post u) then true                       (* owner purged: C09 *)
             else if memN (t_dispute k) txs then true                   (* dispute re-mined: re-triggered, see C01 *)
             else if memN (t_penalty k) txs then                        (* confirmed by this block *)
               match after with Some k' => t_conf k' && N.eqb (t_height k') h | None => false end
             else if completing h txs k then                            (* forgotten and refunded (amount: C07) *)
               match after with None => true | Some _ => false end
             else if t_conf k && memN (t_height k) (m_disc m) then      (* its confirming block was disconnected *)
               match eff_send_verdict m sc (t_dispute k) with
               | V_rejected => (sent rpcs (t_dispute k) || in_memo m (t_dispute k)) && match after with None => true | _ => false end
               | _ => (sent rpcs (t_dispute k) || in_memo m (t_dispute k)) && (sent rpcs (t_penalty k) || in_memo m (t_penalty k))
                      && match eff_send_verdict m sc (t_penalty k), after with
                         | V_rejected, None => true
                         | V_rejected, Some _ => false
                         | _, Some k' => negb (t_conf k') && N.eqb (t_height k') h
                         | _, None => false
                         end
               end
             else if negb (t_conf k) && Z.leb (Z.of_N (t_height k)) (Z.of_N h - Consts.CONFIRMATIONS_BEFORE_RETRY) then
               (* stale: re-submitted now *)
               (sent rpcs (t_penalty k) || in_memo m (t_penalty k))
               && match eff_send_verdict m sc (t_penalty k), after with
                  | V_rejected, None => true
                  | V_rejected, Some _ => false
                  (* restamped: to this height, or to the height at which it was given to the node
                     earlier in this block period (the carrier's memo) *)
                  | _, Some k' => negb (t_conf k') && N.ltb (t_height k) (t_height k') && N.leb (t_height k') h
                  | _, None => false
                  end
             else                                                       (* nothing happens to it *)
               match after with Some k' => trk_eqb k k' | None => false end) (o_trks pre)) 4 ++
      (* "... and its slots refunded": a connected block changes a surviving user's persisted balance by exactly
         the slots of the trackers of that user that complete in it (nothing else moves a balance in a block) *)
      chk (forallb (fun r =>
             let u := fst r in
             match user_row post u with
             | None => true
             | Some ui' =>
                 let refund :=
                   fold_right (fun a s =>
                                 if N.eqb (a_user a) u then
                                   match find_trk (o_trks pre) (app_uuid a) with
                                   | Some k => if negb (memN (t_dispute k) txs) && negb (memN (t_penalty k) txs) && completing h txs k
                                               then slots_of (b_len (a_blob a)) + s else s
                                   | None => s
                                   end
                                 else s) 0 (o_apps pre) in
                 N.eqb (u_slots ui') (u_slots (snd r) + refund)
             end) (o_users pre)) 4 ++
      (* recorded as confirmed only in a block of the active chain that contains the penalty *)
      chk (forallb (fun k =>
             implb (t_conf k && negb (existsb (fun k0 => trk_eqb k0 k) (o_trks pre)))
                   (existsb (fun b => N.eqb (fst b) (t_height k) && memN (t_penalty k) (snd b)) ((h, txs) :: m_chain m)))
                   (o_trks post)) 4
  | _, _ => []
  end.

(* ---------- C11 (sequential half): nothing aborts ---------- *)
Definition mon_C11 (x : out) : list N := match x with OAbort _ => [11] | _ => [] end.

(* ---------- the ghost set of acknowledged appointments still owed an answer ---------- *)
Definition owed_step (m : mstate) (o : op) (sc : script) (x : out) (post : obs) : list ((N * N) * blob) :=
  let drop uuid := filter (fun e : (N * N) * blob => negb (uuid_eqb (fst e) uuid)) (m_owed m) in
  match o, x with
  | OAdd (Some u) loc b _ _, OAddRes (AddOk _ _ _ _) =>
      (* held untriggered afterwards: owed (this version replaces the previous one); responded or dropped
         at once because its dispute is in the cache: no longer owed *)
      if existsb (fun a => uuid_eqb (app_uuid a) (loc, u) && blob_eqb (a_blob a) b) (o_apps post)
         && negb (existsb (fun k => uuid_eqb (trk_uuid k) (loc, u)) (o_trks post))
      then ((loc, u), b) :: drop (loc, u) else drop (loc, u)
  | OConnect _ txs, OBlockRes =>
      let h := m_height m + 1 in
      filter (fun e : (N * N) * blob =>
                let uuid := fst e in
                has_user post (snd uuid) &&
                (negb (memN (fst uuid) txs)
                 || match decrypt (snd e) (fst uuid) with
                    | None => false                                     (* undecryptable: dropped *)
                    | Some p => match penalty_verdict m h sc p with
                                | V_neither => true                      (* neither taken nor rejected: still owed *)
                                | _ => false                             (* responded / rejected *)
                                end
                    end)) (m_owed m)
  | _, _ => m_owed m
  end.

(* ---------- the combined step ---------- *)
Definition mon_step (c : config) (m : mstate) (pre : obs) (o : op) (sc : script) (x : out)
           (rpcs : list (rpc_kind * N)) (post : obs) : list N * mstate :=
  let '(f7, ledger) := mon_C07 c m pre o x post in
  let '(f8, last) := mon_C08 m pre o sc x post in
  let owed := owed_step m o sc x post in
  let fails := mon_C01 m pre o sc x rpcs post ++ mon_C02 m pre o sc x rpcs post ++ mon_C04 m pre o sc x rpcs post
               ++ mon_C06 m pre o x post ++ f7 ++ f8 ++ mon_C09 c m pre o x post ++ mon_C11 x in
  (* what was given to the node in this step joins the memo (first answer wins) *)
  let memo := fold_left (fun mm r =>
                 match fst r with
                 | K_getraw => mm
                 | K_send =>
                     let x := snd r in
                     if amem (fst mm) x || memN x (snd mm) then mm
                     else match send_verdict sc x with
                          | V_accepted => ((x, true) :: fst mm, snd mm)
                          | V_rejected => ((x, false) :: fst mm, snd mm)
                          | V_neither => (fst mm, x :: snd mm)
                          end
                 end) rpcs (m_memo m, m_memo27 m) in
  let m' :=
    match o, x with
    | OConnect _ txs, OBlockRes =>
        mk_mstate (m_height m + 1) ((m_height m + 1, txs) :: m_chain m)
                  (filter (fun e => has_user post (fst e)) ledger) last [] [] [] (m_deficit m - 1) owed
    | ODisconnect, OBlockRes =>
        mk_mstate (m_height m - 1) (tl (m_chain m)) ledger last (m_height m :: m_disc m) (fst memo) (snd memo)
                  (N.min (Z.to_N CACHE_SIZE) (m_deficit m + 1)) owed
    | _, _ => mk_mstate (m_height m) (m_chain m) ledger last (m_disc m) (fst memo) (snd memo) (m_deficit m) owed
    end in
  (fails, m').

(* RPC log of the model in the monitor's vocabulary *)
Definition rpcs_of (t : tower) : list (rpc_kind * N) := map (fun e => (r_kind e, r_tx e)) (rpc_log t).
