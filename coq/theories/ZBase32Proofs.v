(* ZBase32Proofs.v — zb_decode (zb_encode data) = Some data for EVERY byte string, i.e. the
   bit-regrouping of lightning::util::base32 (5-byte chunks <-> 8 characters, truncated text,
   zero-padding check) is lossless; and the layout of the recoverable-signature container.
   The chunk lemma is proved from sweeps over at most two bytes at a time (kernel computation
   over 65536 cases each), combined algebraically; the rest is induction over the chunks. *)
From TeosModel Require Import Base ListAux BtcCodec Crypto.
Local Open Scope N_scope.

(* ---------- reflection over all bytes ---------- *)
Definition ALL_BYTES : list N := map N.of_nat (seq 0 256).

Lemma in_all_bytes b : b < 256 -> In b ALL_BYTES.
Proof.
  intros Hb. unfold ALL_BYTES. apply in_map_iff. exists (N.to_nat b). split.
  - apply N2Nat.id.
  - apply in_seq. lia.
Qed.

Lemma sweep1 (P : N -> bool) :
  forallb P ALL_BYTES = true -> forall a, a < 256 -> P a = true.
Proof.
  intros Hs a Ha. rewrite forallb_forall in Hs. apply Hs. apply in_all_bytes. exact Ha.
Qed.

Lemma sweep2 (P : N -> N -> bool) :
  forallb (fun a => forallb (P a) ALL_BYTES) ALL_BYTES = true ->
  forall a b, a < 256 -> b < 256 -> P a b = true.
Proof.
  intros Hs a b Ha Hb. rewrite forallb_forall in Hs.
  specialize (Hs a (in_all_bytes a Ha)). rewrite forallb_forall in Hs.
  apply Hs. apply in_all_bytes. exact Hb.
Qed.

(* ---------- the eight characters of a chunk and the five bytes of a group, by name ---------- *)
Definition q0 (b0 : N) := N.shiftr (N.land b0 248) 3.
Definition q1 (b0 b1 : N) := N.lor (shl8 (N.land b0 7) 2) (N.shiftr (N.land b1 192) 6).
Definition q2 (b1 : N) := N.shiftr (N.land b1 62) 1.
Definition q3 (b1 b2 : N) := N.lor (shl8 (N.land b1 1) 4) (N.shiftr (N.land b2 240) 4).
Definition q4 (b2 b3 : N) := N.lor (shl8 (N.land b2 15) 1) (N.shiftr b3 7).
Definition q5 (b3 : N) := N.shiftr (N.land b3 124) 2.
Definition q6 (b3 b4 : N) := N.lor (shl8 (N.land b3 3) 3) (N.shiftr (N.land b4 224) 5).
Definition q7 (b4 : N) := N.land b4 31.

Definition enc5 (b0 b1 b2 b3 b4 : N) : list N :=
  [q0 b0; q1 b0 b1; q2 b1; q3 b1 b2; q4 b2 b3; q5 b3; q6 b3 b4; q7 b4].

Lemma enc_chunk_5 b0 b1 b2 b3 b4 : crzb_enc_chunk [b0; b1; b2; b3; b4] = enc5 b0 b1 b2 b3 b4.
Proof. reflexivity. Qed.

Definition r0 (v0 v1 : N) := N.lor (shl8 v0 3) (N.shiftr v1 2).
Definition r1 (v1 v2 v3 : N) := N.lor (N.lor (shl8 v1 6) (shl8 v2 1)) (N.shiftr v3 4).
Definition r2 (v3 v4 : N) := N.lor (shl8 v3 4) (N.shiftr v4 1).
Definition r3 (v4 v5 v6 : N) := N.lor (N.lor (shl8 v4 7) (shl8 v5 2)) (N.shiftr v6 3).
Definition r4 (v6 v7 : N) := N.lor (shl8 v6 5) v7.

Lemma dec_chunk_8 v0 v1 v2 v3 v4 v5 v6 v7 :
  crzb_dec_chunk [v0; v1; v2; v3; v4; v5; v6; v7] = [r0 v0 v1; r1 v1 v2 v3; r2 v3 v4; r3 v4 v5 v6; r4 v6 v7].
Proof. reflexivity. Qed.

(* sweeps (each a kernel computation over <= 65536 cases) *)
Lemma s_r0 : forall b0 b1, b0 < 256 -> b1 < 256 -> (r0 (q0 b0) (q1 b0 b1) =? b0) = true.
Proof. apply sweep2. vm_compute. reflexivity. Qed.

Lemma s_r1a : forall b0 b1, b0 < 256 -> b1 < 256 -> (shl8 (q1 b0 b1) 6 =? N.land b1 192) = true.
Proof. apply sweep2. vm_compute. reflexivity. Qed.
Lemma s_r1c : forall b1 b2, b1 < 256 -> b2 < 256 -> (N.shiftr (q3 b1 b2) 4 =? N.land b1 1) = true.
Proof. apply sweep2. vm_compute. reflexivity. Qed.
Lemma s_r1 : forall b1, b1 < 256 -> (N.lor (N.lor (N.land b1 192) (shl8 (q2 b1) 1)) (N.land b1 1) =? b1) = true.
Proof. apply sweep1. vm_compute. reflexivity. Qed.

Lemma s_r2a : forall b1 b2, b1 < 256 -> b2 < 256 -> (shl8 (q3 b1 b2) 4 =? N.land b2 240) = true.
Proof. apply sweep2. vm_compute. reflexivity. Qed.
Lemma s_r2b : forall b2 b3, b2 < 256 -> b3 < 256 -> (N.shiftr (q4 b2 b3) 1 =? N.land b2 15) = true.
Proof. apply sweep2. vm_compute. reflexivity. Qed.
Lemma s_r2 : forall b2, b2 < 256 -> (N.lor (N.land b2 240) (N.land b2 15) =? b2) = true.
Proof. apply sweep1. vm_compute. reflexivity. Qed.

Lemma s_r3a : forall b2 b3, b2 < 256 -> b3 < 256 -> (shl8 (q4 b2 b3) 7 =? N.land b3 128) = true.
Proof. apply sweep2. vm_compute. reflexivity. Qed.
Lemma s_r3c : forall b3 b4, b3 < 256 -> b4 < 256 -> (N.shiftr (q6 b3 b4) 3 =? N.land b3 3) = true.
Proof. apply sweep2. vm_compute. reflexivity. Qed.
Lemma s_r3 : forall b3, b3 < 256 -> (N.lor (N.lor (N.land b3 128) (shl8 (q5 b3) 2)) (N.land b3 3) =? b3) = true.
Proof. apply sweep1. vm_compute. reflexivity. Qed.

Lemma s_r4 : forall b3 b4, b3 < 256 -> b4 < 256 -> (r4 (q6 b3 b4) (q7 b4) =? b4) = true.
Proof. apply sweep2. vm_compute. reflexivity. Qed.

(* every character value is below 32 *)
Lemma s_q_small1 : forall b, b < 256 -> ((q0 b <? 32) && (q2 b <? 32) && (q5 b <? 32) && (q7 b <? 32)) = true.
Proof. apply sweep1. vm_compute. reflexivity. Qed.
Lemma s_q_small2 : forall a b, a < 256 -> b < 256 ->
  ((q1 a b <? 32) && (q3 a b <? 32) && (q4 a b <? 32) && (q6 a b <? 32)) = true.
Proof. apply sweep2. vm_compute. reflexivity. Qed.

(* ---- the 5-byte group lemma ---- *)
Lemma chunk_roundtrip b0 b1 b2 b3 b4 :
  b0 < 256 -> b1 < 256 -> b2 < 256 -> b3 < 256 -> b4 < 256 ->
  crzb_dec_chunk (crzb_enc_chunk [b0; b1; b2; b3; b4]) = [b0; b1; b2; b3; b4].
Proof.
  intros H0 H1 H2 H3 H4. rewrite enc_chunk_5. unfold enc5. rewrite dec_chunk_8.
  f_equal; [|f_equal; [|f_equal; [|f_equal; [|f_equal]]]].
  - apply N.eqb_eq. apply s_r0; assumption.
  - unfold r1.
    rewrite (proj1 (N.eqb_eq _ _) (s_r1a b0 b1 H0 H1)), (proj1 (N.eqb_eq _ _) (s_r1c b1 b2 H1 H2)).
    apply N.eqb_eq. apply s_r1. exact H1.
  - unfold r2.
    rewrite (proj1 (N.eqb_eq _ _) (s_r2a b1 b2 H1 H2)), (proj1 (N.eqb_eq _ _) (s_r2b b2 b3 H2 H3)).
    apply N.eqb_eq. apply s_r2. exact H2.
  - unfold r3.
    rewrite (proj1 (N.eqb_eq _ _) (s_r3a b2 b3 H2 H3)), (proj1 (N.eqb_eq _ _) (s_r3c b3 b4 H3 H4)).
    apply N.eqb_eq. apply s_r3. exact H3.
  - apply N.eqb_eq. apply s_r4; assumption.
Qed.

Lemma enc5_small b0 b1 b2 b3 b4 :
  b0 < 256 -> b1 < 256 -> b2 < 256 -> b3 < 256 -> b4 < 256 ->
  Forall (fun q => q < 32) (enc5 b0 b1 b2 b3 b4).
Proof.
  intros H0 H1 H2 H3 H4.
  pose proof (s_q_small1 b0 H0) as A0. pose proof (s_q_small1 b1 H1) as A1.
  pose proof (s_q_small1 b3 H3) as A3. pose proof (s_q_small1 b4 H4) as A4.
  pose proof (s_q_small2 b0 b1 H0 H1) as B0. pose proof (s_q_small2 b1 b2 H1 H2) as B1.
  pose proof (s_q_small2 b2 b3 H2 H3) as B2. pose proof (s_q_small2 b3 b4 H3 H4) as B3.
  repeat match goal with H : _ && _ = true |- _ => apply andb_true_iff in H as [? ?] end.
  repeat match goal with H : (_ <? _) = true |- _ => apply N.ltb_lt in H end.
  unfold enc5. repeat constructor; assumption.
Qed.

(* ---------- alphabet ---------- *)
Definition alpha (q : N) : N := nth (N.to_nat q) ZBASE_ALPHABET 0.

Lemma inv_alpha_sweep : forallb (fun q => match crzb_inv (alpha q) with Some q' => q' =? q | None => false end)
                                (map N.of_nat (seq 0 32)) = true.
Proof. vm_compute. reflexivity. Qed.

Lemma inv_alpha q : q < 32 -> crzb_inv (alpha q) = Some q.
Proof.
  intros Hq. pose proof inv_alpha_sweep as Hs. rewrite forallb_forall in Hs.
  specialize (Hs q). destruct (crzb_inv (alpha q)) as [q'|].
  - assert (Hi : In q (map N.of_nat (seq 0 32))).
    { apply in_map_iff. exists (N.to_nat q). split; [apply N2Nat.id|apply in_seq; lia]. }
    apply Hs in Hi. apply N.eqb_eq in Hi. congruence.
  - assert (Hi : In q (map N.of_nat (seq 0 32))).
    { apply in_map_iff. exists (N.to_nat q). split; [apply N2Nat.id|apply in_seq; lia]. }
    apply Hs in Hi. discriminate.
Qed.

Lemma inv_alpha_all qs : Forall (fun q => q < 32) qs -> cr_opt_map_all crzb_inv (map alpha qs) = Some qs.
Proof.
  induction 1 as [|q qs Hq _ IH]; [reflexivity|].
  cbn [map cr_opt_map_all]. rewrite inv_alpha by exact Hq. rewrite IH. reflexivity.
Qed.

(* ---------- the data loop ---------- *)
Lemma enc_data_nil f : crzb_enc_data f [] = [].
Proof. destruct f; reflexivity. Qed.

Lemma dec_data_nil f : crzb_dec_data f [] = [].
Proof. destruct f; reflexivity. Qed.

Lemma bytesb_cons b l : bytes_wf (b :: l) = true -> b < 256 /\ bytes_wf l = true.
Proof.
  unfold bytes_wf. cbn [forallb]. intros Hb. apply andb_true_iff in Hb as [H1 H2].
  split; [apply N.ltb_lt; exact H1|exact H2].
Qed.

Definition nchars (len : nat) : nat := ((len * 8 + 4) / 5)%nat.
Definition npad (len : nat) : nat := ((5 - len mod 5) mod 5)%nat.

Lemma nchars_step n : nchars (5 + n) = (8 + nchars n)%nat.
Proof.
  unfold nchars. replace ((5 + n) * 8 + 4)%nat with (8 * 5 + (n * 8 + 4))%nat by lia.
  rewrite Nat.div_add_l by lia. reflexivity.
Qed.

Lemma npad_step n : npad (5 + n) = npad n.
Proof.
  unfold npad. replace (5 + n)%nat with (n + 1 * 5)%nat by lia. rewrite Nat.mod_add by lia. reflexivity.
Qed.

(* one full group in front *)
Lemma enc_data_step f b0 b1 b2 b3 b4 rest :
  crzb_enc_data (S f) (b0 :: b1 :: b2 :: b3 :: b4 :: rest) = enc5 b0 b1 b2 b3 b4 ++ crzb_enc_data f rest.
Proof. reflexivity. Qed.

Lemma dec_data_step f v0 v1 v2 v3 v4 v5 v6 v7 rest :
  crzb_dec_data (S f) (v0 :: v1 :: v2 :: v3 :: v4 :: v5 :: v6 :: v7 :: rest) =
  crzb_dec_chunk [v0; v1; v2; v3; v4; v5; v6; v7] ++ crzb_dec_data f rest.
Proof. reflexivity. Qed.

(* the quintets that are kept, their number, their range and what they decode to *)
Lemma data_roundtrip :
  forall fuel data, (length data <= fuel)%nat -> bytes_wf data = true ->
  let Q := firstn (nchars (length data)) (crzb_enc_data fuel data) in
  length Q = nchars (length data) /\
  Forall (fun q => q < 32) Q /\
  forall fuel2, (nchars (length data) <= fuel2)%nat ->
    crzb_dec_data fuel2 Q = data ++ repeat 0 (npad (length data)).
Proof.
  induction fuel as [|f IH]; intros data Hlen Hb; cbv zeta.
  - destruct data; [|cbn in Hlen; lia]. cbn. repeat split; [constructor|]. intros. rewrite dec_data_nil. reflexivity.
  - destruct data as [|b0 [|b1 [|b2 [|b3 [|b4 rest]]]]].
    + cbn. repeat split; [constructor|]. intros. rewrite dec_data_nil. reflexivity.
    + (* one byte: two characters *)
      apply bytesb_cons in Hb as [H0 _].
      assert (Hz : (0 < 256)) by lia.
      cbn [length]. change (nchars 1) with 2%nat. change (npad 1) with 4%nat.
      change (crzb_enc_data (S f) [b0]) with (crzb_enc_chunk [b0; 0; 0; 0; 0] ++ crzb_enc_data f []).
      rewrite enc_data_nil, app_nil_r, enc_chunk_5. unfold enc5. cbn [firstn].
      pose proof (enc5_small b0 0 0 0 0 H0 Hz Hz Hz Hz) as Hs. unfold enc5 in Hs.
      split; [reflexivity|]. split.
      * inversion Hs as [|? ? A Hs1]; inversion Hs1 as [|? ? B _]; subst. repeat constructor; assumption.
      * intros fuel2 Hf. destruct fuel2 as [|f2]; [lia|].
        change (crzb_dec_data (S f2) [q0 b0; q1 b0 0]) with (crzb_dec_chunk (enc5 b0 0 0 0 0) ++ crzb_dec_data f2 []).
        rewrite dec_data_nil, app_nil_r, <- enc_chunk_5, chunk_roundtrip by assumption. reflexivity.
    + apply bytesb_cons in Hb as [H0 Hb]. apply bytesb_cons in Hb as [H1 _].
      assert (Hz : (0 < 256)) by lia.
      cbn [length]. change (nchars 2) with 4%nat. change (npad 2) with 3%nat.
      change (crzb_enc_data (S f) [b0; b1]) with (crzb_enc_chunk [b0; b1; 0; 0; 0] ++ crzb_enc_data f []).
      rewrite enc_data_nil, app_nil_r, enc_chunk_5. unfold enc5. cbn [firstn].
      pose proof (enc5_small b0 b1 0 0 0 H0 H1 Hz Hz Hz) as Hs. unfold enc5 in Hs.
      split; [reflexivity|]. split.
      * repeat match goal with H : Forall _ (_ :: _) |- _ => inversion H; clear H; subst end.
        repeat constructor; assumption.
      * intros fuel2 Hf. destruct fuel2 as [|f2]; [lia|].
        change (crzb_dec_data (S f2) [q0 b0; q1 b0 b1; q2 b1; q3 b1 0])
          with (crzb_dec_chunk (enc5 b0 b1 0 0 0) ++ crzb_dec_data f2 []).
        rewrite dec_data_nil, app_nil_r, <- enc_chunk_5, chunk_roundtrip by assumption. reflexivity.
    + apply bytesb_cons in Hb as [H0 Hb]. apply bytesb_cons in Hb as [H1 Hb]. apply bytesb_cons in Hb as [H2 _].
      assert (Hz : (0 < 256)) by lia.
      cbn [length]. change (nchars 3) with 5%nat. change (npad 3) with 2%nat.
      change (crzb_enc_data (S f) [b0; b1; b2]) with (crzb_enc_chunk [b0; b1; b2; 0; 0] ++ crzb_enc_data f []).
      rewrite enc_data_nil, app_nil_r, enc_chunk_5. unfold enc5. cbn [firstn].
      pose proof (enc5_small b0 b1 b2 0 0 H0 H1 H2 Hz Hz) as Hs. unfold enc5 in Hs.
      split; [reflexivity|]. split.
      * repeat match goal with H : Forall _ (_ :: _) |- _ => inversion H; clear H; subst end.
        repeat constructor; assumption.
      * intros fuel2 Hf. destruct fuel2 as [|f2]; [lia|].
        change (crzb_dec_data (S f2) [q0 b0; q1 b0 b1; q2 b1; q3 b1 b2; q4 b2 0])
          with (crzb_dec_chunk (enc5 b0 b1 b2 0 0) ++ crzb_dec_data f2 []).
        rewrite dec_data_nil, app_nil_r, <- enc_chunk_5, chunk_roundtrip by assumption. reflexivity.
    + apply bytesb_cons in Hb as [H0 Hb]. apply bytesb_cons in Hb as [H1 Hb].
      apply bytesb_cons in Hb as [H2 Hb]. apply bytesb_cons in Hb as [H3 _].
      assert (Hz : (0 < 256)) by lia.
      cbn [length]. change (nchars 4) with 7%nat. change (npad 4) with 1%nat.
      change (crzb_enc_data (S f) [b0; b1; b2; b3]) with (crzb_enc_chunk [b0; b1; b2; b3; 0] ++ crzb_enc_data f []).
      rewrite enc_data_nil, app_nil_r, enc_chunk_5. unfold enc5. cbn [firstn].
      pose proof (enc5_small b0 b1 b2 b3 0 H0 H1 H2 H3 Hz) as Hs. unfold enc5 in Hs.
      split; [reflexivity|]. split.
      * repeat match goal with H : Forall _ (_ :: _) |- _ => inversion H; clear H; subst end.
        repeat constructor; assumption.
      * intros fuel2 Hf. destruct fuel2 as [|f2]; [lia|].
        change (crzb_dec_data (S f2) [q0 b0; q1 b0 b1; q2 b1; q3 b1 b2; q4 b2 b3; q5 b3; q6 b3 0])
          with (crzb_dec_chunk (enc5 b0 b1 b2 b3 0) ++ crzb_dec_data f2 []).
        rewrite dec_data_nil, app_nil_r, <- enc_chunk_5, chunk_roundtrip by assumption. reflexivity.
    + (* a full group, then the rest by induction *)
      apply bytesb_cons in Hb as [H0 Hb]. apply bytesb_cons in Hb as [H1 Hb].
      apply bytesb_cons in Hb as [H2 Hb]. apply bytesb_cons in Hb as [H3 Hb]. apply bytesb_cons in Hb as [H4 Hb].
      assert (Hl : (length rest <= f)%nat) by (cbn [length] in Hlen; lia).
      destruct (IH rest Hl Hb) as (IHlen & IHsmall & IHdec).
      replace (length (b0 :: b1 :: b2 :: b3 :: b4 :: rest)) with (5 + length rest)%nat by reflexivity.
      rewrite nchars_step, npad_step, enc_data_step.
      replace (firstn (8 + nchars (length rest)) (enc5 b0 b1 b2 b3 b4 ++ crzb_enc_data f rest))
        with (enc5 b0 b1 b2 b3 b4 ++ firstn (nchars (length rest)) (crzb_enc_data f rest))
        by (unfold enc5; reflexivity).
      split; [|split].
      * rewrite app_length, IHlen. reflexivity.
      * apply Forall_app. split; [apply enc5_small; assumption|exact IHsmall].
      * intros fuel2 Hf. destruct fuel2 as [|f2]; [lia|].
        unfold enc5 at 1. cbn [app]. rewrite dec_data_step. fold (enc5 b0 b1 b2 b3 b4).
        rewrite <- enc_chunk_5, chunk_roundtrip by assumption.
        rewrite IHdec by lia. reflexivity.
Qed.

(* ---------- lengths ---------- *)
Lemma nchars_arith_case q c r :
  (c < 8)%nat -> (c * 5 / 8 = r)%nat -> (Nat.eqb c 1 || Nat.eqb c 3 || Nat.eqb c 6) = false ->
  (Nat.eqb ((q * 8 + c) mod 8) 1 || Nat.eqb ((q * 8 + c) mod 8) 3 || Nat.eqb ((q * 8 + c) mod 8) 6) = false /\
  ((q * 8 + c) * 5 / 8 = 5 * q + r)%nat.
Proof.
  intros Hc Hr Hn. split.
  - rewrite (Nat.add_comm (q * 8) c), Nat.mod_add, Nat.mod_small by lia. exact Hn.
  - replace ((q * 8 + c) * 5)%nat with (q * 5 * 8 + c * 5)%nat by lia.
    rewrite Nat.div_add_l by lia. lia.
Qed.

Lemma nchars_arith len :
  let k := nchars len in
  (Nat.eqb (k mod 8) 1 || Nat.eqb (k mod 8) 3 || Nat.eqb (k mod 8) 6) = false /\ (k * 5 / 8)%nat = len.
Proof.
  cbv zeta. unfold nchars.
  assert (Hd : exists q r, len = (5 * q + r)%nat /\ (r < 5)%nat).
  { exists (len / 5)%nat, (len mod 5)%nat. split; [apply Nat.div_mod; lia|apply Nat.mod_upper_bound; lia]. }
  destruct Hd as (q & r & -> & Hr).
  replace ((5 * q + r) * 8 + 4)%nat with (q * 8 * 5 + (r * 8 + 4))%nat by lia.
  rewrite Nat.div_add_l by lia.
  destruct r as [|[|[|[|[|r]]]]]; [| | | | |lia].
  - change ((0 * 8 + 4) / 5)%nat with 0%nat. apply nchars_arith_case; [lia|reflexivity|reflexivity].
  - change ((1 * 8 + 4) / 5)%nat with 2%nat. apply nchars_arith_case; [lia|reflexivity|reflexivity].
  - change ((2 * 8 + 4) / 5)%nat with 4%nat. apply nchars_arith_case; [lia|reflexivity|reflexivity].
  - change ((3 * 8 + 4) / 5)%nat with 5%nat. apply nchars_arith_case; [lia|reflexivity|reflexivity].
  - change ((4 * 8 + 4) / 5)%nat with 7%nat. apply nchars_arith_case; [lia|reflexivity|reflexivity].
Qed.

Lemma forallb_zero_repeat n : forallb (fun c => c =? 0) (repeat 0 n) = true.
Proof. induction n; [reflexivity|]. cbn [repeat forallb]. rewrite IHn. reflexivity. Qed.

(* ---- C17_zbase32_roundtrip ---- *)
Theorem zbase32_roundtrip data : bytes_wf data = true -> crzb_decode (crzb_encode data) = Some data.
Proof.
  intros Hb.
  destruct (data_roundtrip (length data) data (le_n _) Hb) as (Hlen & Hsmall & Hdec).
  fold (nchars (length data)) in *.
  set (Q := firstn (nchars (length data)) (crzb_enc_data (length data) data)) in *.
  assert (He : crzb_encode data = map alpha Q) by reflexivity.
  destruct (nchars_arith (length data)) as [Hmod Hn].
  unfold crzb_decode. rewrite He, map_length, Hlen, Hmod.
  rewrite inv_alpha_all by exact Hsmall. rewrite Hdec by apply le_n. rewrite Hn.
  rewrite skipn_app, skipn_all, Nat.sub_diag. cbn [skipn app]. rewrite forallb_zero_repeat.
  rewrite firstn_app, Nat.sub_diag, firstn_all. cbn [firstn]. rewrite app_nil_r. reflexivity.
Qed.

Lemma zb_encode_length data : bytes_wf data = true -> length (crzb_encode data) = nchars (length data).
Proof.
  intros Hb. destruct (data_roundtrip (length data) data (le_n _) Hb) as (Hlen & _ & _).
  unfold crzb_encode. rewrite map_length. exact Hlen.
Qed.

(* ---- C17_sigrec_layout ---- *)
(* the text of a signature is the zbase32 spelling (104 characters) of exactly 65 bytes:
   31 + recovery id, then the 64-byte compact signature; decoding gives both back *)
Theorem sigrec_layout rid compact :
  rid < 4 -> length compact = 64%nat -> bytes_wf compact = true ->
  crzb_decode (lnsig_encode rid compact) = Some ((31 + rid) :: compact) /\
  length (lnsig_encode rid compact) = 104%nat /\
  lnsig_decode (lnsig_encode rid compact) = Some (rid, compact).
Proof.
  intros Hr Hl Hb.
  assert (Hb' : bytes_wf (sigrec_encode rid compact) = true).
  { unfold sigrec_encode, SIGREC_BASE, bytes_wf. cbn [forallb]. apply andb_true_iff. split; [|exact Hb].
    apply N.ltb_lt. lia. }
  assert (Hd : crzb_decode (lnsig_encode rid compact) = Some ((31 + rid) :: compact)).
  { unfold lnsig_encode. rewrite zbase32_roundtrip by exact Hb'. reflexivity. }
  split; [exact Hd|]. split.
  - unfold lnsig_encode. rewrite zb_encode_length by exact Hb'. unfold sigrec_encode. cbn [length]. rewrite Hl. reflexivity.
  - unfold lnsig_decode. rewrite Hd. unfold sigrec_decode, SIGREC_BASE. cbn [length]. rewrite Hl.
    change (Nat.eqb 65 65) with true.
    replace (31 <=? 31 + rid) with true by (symmetry; apply N.leb_le; lia).
    replace (31 + rid <=? 31 + 3) with true by (symmetry; apply N.leb_le; lia).
    cbn [andb]. f_equal. f_equal. lia.
Qed.

(* a text of any other decoded length, or with a first byte outside 31..34, is refused before any
   elliptic-curve operation *)
Lemma sigrec_decode_some b rid compact :
  sigrec_decode b = Some (rid, compact) -> b = (31 + rid) :: compact /\ length compact = 64%nat /\ rid < 4.
Proof.
  unfold sigrec_decode, SIGREC_BASE. destruct b as [|p c]; [discriminate|].
  destruct (Nat.eqb (length (p :: c)) 65 && (31 <=? p) && (p <=? 31 + 3)) eqn:Hc; [|discriminate].
  intros He. inversion He; subst. repeat (apply andb_true_iff in Hc as [Hc ?]).
  apply Nat.eqb_eq in Hc. cbn [length] in Hc.
  repeat match goal with H : (_ <=? _) = true |- _ => apply N.leb_le in H end.
  repeat split; [f_equal; lia|lia|lia].
Qed.
