(* WireApi.v — the public API of the tower as the generic wire model (Wire.v) instantiated with the
   tables generated from /repo (Gen/WireSpec.v, Gen/Consts.v): what the client emits, what the
   tower's router does with a body, what the tower replies, what the client makes of the reply,
   and the byte strings that get signed.  Definitions only. *)
From TeosModel Require Import Base Wire.
From TeosModel.Gen Require Consts WireSpec.
From Coq Require Import String.
Local Open Scope string_scope.


(* ---------------- serialising / parsing a message of shape m ---------------- *)
Definition to_json (m : msg) (v : mval) : json := enc_msg WireSpec.STATUS m v.
Definition of_json (m : msg) (j : json) : option mval := dec_msg WireSpec.STATUS m j.
Definition typedb (m : msg) (v : mval) : bool := typed_msgb WireSpec.STATUS m v.

(* ---------------- client -> tower ---------------- *)
(* reqwest's RequestBuilder::json(&request): serde_json::to_vec of the prost struct *)
Definition to_json_client (e : endpoint_spec) (req : mval) : json := to_json (ep_req e) req.
Definition client_body (e : endpoint_spec) (req : mval) : str := json_print (to_json_client e req).

(* warp::body::json::<Req>() on the tower *)
Definition of_json_tower (e : endpoint_spec) (j : json) : option mval := of_json (ep_req e) j.

(* field access by JSON name in a struct value *)
Fixpoint lookup_field (fs : fields) (vs : vals) (name : str) : option val :=
  match fs, vs with
  | FCons n _ r, VCons v vr => if str_eqb n name then Some v else lookup_field r vr name
  | _, _ => None
  end.
Definition field_of (m : msg) (mv : mval) (name : str) : option val :=
  match m, mv with
  | MStruct fs, MVStruct vs => lookup_field fs vs name
  | _, _ => None
  end.

(* The field checks of the four handlers of teos/src/api/http.rs (hand-modelled, validated by the
   correspondence run): `x.is_empty()` -> EMPTY_FIELD, `x.len() != N` -> WRONG_FIELD_SIZE,
   `appointment: None` -> MISSING_FIELD; None = the request is forwarded to the internal API. *)
Definition check_sized (v : option val) (n : Z) : option Z :=
  match v with
  | Some (VBytes []) => Some Consts.ERR_EMPTY_FIELD
  | Some (VBytes b) => if Z.eqb (Z.of_nat (List.length b)) n then None else Some Consts.ERR_WRONG_FIELD_SIZE
  | _ => None
  end.
Definition check_nonempty_str (v : option val) : option Z :=
  match v with
  | Some (VStr []) => Some Consts.ERR_EMPTY_FIELD
  | _ => None
  end.
Definition first_err (a b : option Z) : option Z := match a with Some x => Some x | None => b end.

(* names, already evaluated to bytes (no Coq `string` value survives into the extracted model) *)
Definition n_user_id : str := Eval vm_compute in s2b "user_id".
Definition n_locator : str := Eval vm_compute in s2b "locator".
Definition n_signature : str := Eval vm_compute in s2b "signature".
Definition n_appointment : str := Eval vm_compute in s2b "appointment".
Definition p_register : str := Eval vm_compute in s2b "/register".
Definition p_add_appointment : str := Eval vm_compute in s2b "/add_appointment".
Definition p_get_appointment : str := Eval vm_compute in s2b "/get_appointment".

Definition handler_check (e : endpoint_spec) (req : mval) : option Z :=
  let m := ep_req e in
  if str_eqb (ep_path e) p_register then
    check_sized (field_of m req n_user_id) Consts.USER_ID_LEN
  else if str_eqb (ep_path e) p_add_appointment then
    first_err
      (match field_of m req n_appointment with
       | Some (VSome (MVStruct avs)) =>
         match m with
         | MStruct (FCons _ (KOptMsg am) _) => check_sized (field_of am (MVStruct avs) n_locator) Consts.LOCATOR_LEN
         | _ => None
         end
       | _ => Some Consts.ERR_MISSING_FIELD
       end)
      (check_nonempty_str (field_of m req n_signature))
  else if str_eqb (ep_path e) p_get_appointment then
    first_err (check_sized (field_of m req n_locator) Consts.LOCATOR_LEN)
              (check_nonempty_str (field_of m req n_signature))
  else
    check_nonempty_str (field_of m req n_signature).

(* what the router does with a POST whose Content-Length is len and whose body is the JSON value j
   (None = the body is not JSON at all) *)
Inductive tower_result :=
| TForward (req : mval)       (* handed to the internal API exactly as parsed *)
| TReject (code : Z)          (* handler field check: 400 + ApiError with that code *)
| TBadBody                    (* BodyDeserializeError: 400 + ApiError *)
| TTooLarge.                  (* content_length_limit: 413, plain text *)

Definition tower_http (e : endpoint_spec) (len : Z) (j : option json) : tower_result :=
  if (ep_cap e <? len)%Z then TTooLarge
  else match j with
       | None => TBadBody
       | Some j =>
         match of_json_tower e j with
         | None => TBadBody
         | Some req => match handler_check e req with Some c => TReject c | None => TForward req end
         end
       end.

(* ---------------- tower -> client ---------------- *)
(* parse_grpc_response: Ok(r) -> reply::json(&r);  Err(status) -> reply::json(&ApiError{message, code}) *)
Definition to_json_tower (e : endpoint_spec) (resp : mval) : json := to_json (ep_resp e) resp.
Definition mk_api_error (message : str) (code : Z) : mval := MVStruct (vlist [VStr message; VNum code]).
Definition to_json_err (err : mval) : json := to_json WireSpec.TowerApiError err.

Definition match_status (tonic_code : Z) : Z * Z :=
  match assoc_Z tonic_code WireSpec.MATCH_STATUS with Some r => r | None => WireSpec.MATCH_STATUS_DEFAULT end.
(* the reply to a request the internal API refused with that tonic status *)
Definition tower_error_reply (tonic_code : Z) (message : str) : Z * json :=
  let (http, code) := match_status tonic_code in (http, to_json_err (mk_api_error message code)).

(* process_post_response::<ApiResponse<T>> or ::<T>, as the client calls it for that endpoint *)
Definition of_json_client (e : endpoint_spec) (j : json) : creply :=
  client_decode WireSpec.STATUS (ep_client_wrapped e) WireSpec.API_RESPONSE_ORDER (ep_resp e) WireSpec.ClientApiError j.

(* ---------------- the messages of the API, field by field ---------------- *)
Definition mk_register_request (user_id : bytes) : mval := MVStruct (vlist [VBytes user_id]).
Definition mk_appointment (locator blob : bytes) (to_self_delay : Z) : mval :=
  MVStruct (vlist [VBytes locator; VBytes blob; VNum to_self_delay]).
Definition mk_add_appointment_request (locator blob : bytes) (to_self_delay : Z) (signature : str) : mval :=
  MVStruct (vlist [VSome (mk_appointment locator blob to_self_delay); VStr signature]).
Definition mk_get_appointment_request (locator : bytes) (signature : str) : mval :=
  MVStruct (vlist [VBytes locator; VStr signature]).
Definition mk_get_subscription_info_request (signature : str) : mval := MVStruct (vlist [VStr signature]).

Definition mk_register_response (user_id : bytes) (slots start expiry : Z) (signature : str) : mval :=
  MVStruct (vlist [VBytes user_id; VNum slots; VNum start; VNum expiry; VStr signature]).
Definition mk_add_appointment_response (locator : bytes) (start_block : Z) (signature : str) (slots expiry : Z) : mval :=
  MVStruct (vlist [VBytes locator; VNum start_block; VStr signature; VNum slots; VNum expiry]).
Definition mk_tracker (dispute_txid penalty_txid penalty_rawtx : bytes) : mval :=
  MVStruct (vlist [VBytes dispute_txid; VBytes penalty_txid; VBytes penalty_rawtx]).
(* appointment_data: None | Some(AppointmentData{None}) | Some(AppointmentData{Some(variant i)}) *)
Definition mk_get_appointment_response (data : val) (status : Z) : mval := MVStruct (vlist [data; VNum status]).
Definition data_appointment (a : mval) : val := VSome (MVOneof 0 a).
Definition data_tracker (t : mval) : val := VSome (MVOneof 1 t).
Definition mk_get_subscription_info_response (slots expiry : Z) (locators : list bytes) : mval :=
  MVStruct (vlist [VNum slots; VNum expiry; VVec locators]).

(* ---------------- the byte strings that get signed ---------------- *)
Definition appointment_to_vec (locator blob : bytes) (to_self_delay : N) : bytes :=
  layout_encode WireSpec.APPOINTMENT_TO_VEC [LVBytes locator; LVBytes blob; LVNum to_self_delay].
Definition registration_receipt_to_vec (user_id : bytes) (slots start expiry : N) : bytes :=
  layout_encode WireSpec.REGISTRATION_RECEIPT_TO_VEC [LVBytes user_id; LVNum slots; LVNum start; LVNum expiry].
Definition appointment_receipt_to_vec (user_signature : str) (start_block : N) : bytes :=
  layout_encode WireSpec.APPOINTMENT_RECEIPT_TO_VEC [LVBytes user_signature; LVNum start_block].

Definition get_appointment_msg_client (locator : bytes) : bytes :=
  sign_msg_get_appointment WireSpec.GET_APPOINTMENT_PREFIX_CLIENT locator.
Definition get_appointment_msg_tower (locator : bytes) : bytes :=
  sign_msg_get_appointment WireSpec.GET_APPOINTMENT_PREFIX_TOWER locator.

(* ---------------- the documented format (README / API docs), pinned by hand ----------------
   The monitor of the check compares what travels on the wire with THIS table, and
   C16_format_as_documented states that the table generated from the code is this one. *)
Definition Doc_Appointment : msg := Eval vm_compute in
  MStruct (flist [(s2b "locator", KHex); (s2b "encrypted_blob", KHex); (s2b "to_self_delay", KU32)]).
Definition Doc_Tracker : msg := Eval vm_compute in
  MStruct (flist [(s2b "dispute_txid", KHexBE); (s2b "penalty_txid", KHexBE); (s2b "penalty_rawtx", KHex)]).
Definition Doc_AppointmentData : msg := Eval vm_compute in MFlatOneof (mlist [Doc_Appointment; Doc_Tracker]).
Definition Doc_ApiError : msg := Eval vm_compute in MStruct (flist [(s2b "error", KStr); (s2b "error_code", KU8)]).
Definition Doc_ENDPOINTS : list (str * msg * msg * Z) := Eval vm_compute in
  [ (s2b "/register",
     MStruct (flist [(s2b "user_id", KHex)]),
     MStruct (flist [(s2b "user_id", KHex); (s2b "available_slots", KU32); (s2b "subscription_start", KU32);
                     (s2b "subscription_expiry", KU32); (s2b "subscription_signature", KStr)]),
     87%Z);
    (s2b "/add_appointment",
     MStruct (flist [(s2b "appointment", KOptMsg Doc_Appointment); (s2b "signature", KStr)]),
     MStruct (flist [(s2b "locator", KHex); (s2b "start_block", KU32); (s2b "signature", KStr);
                     (s2b "available_slots", KU32); (s2b "subscription_expiry", KU32)]),
     2048%Z);
    (s2b "/get_appointment",
     MStruct (flist [(s2b "locator", KHex); (s2b "signature", KStr)]),
     MStruct (flist [(s2b "appointment", KOptMsg Doc_AppointmentData); (s2b "status", KStatus)]),
     178%Z);
    (s2b "/get_subscription_info",
     MStruct (flist [(s2b "signature", KStr)]),
     MStruct (flist [(s2b "available_slots", KU32); (s2b "subscription_expiry", KU32); (s2b "locators", KVecHex)]),
     127%Z) ].
Definition Doc_STATUS_NAMES : list (Z * str) := Eval vm_compute in
  [(0%Z, s2b "not_found"); (1%Z, s2b "being_watched"); (2%Z, s2b "dispute_responded")].
Definition Doc_STATUS : status_table := Eval vm_compute in
  {| st_variants := [(s2b "NotFound", 0%Z); (s2b "BeingWatched", 1%Z); (s2b "DisputeResponded", 2%Z)];
     st_from_i32 := [(1%Z, s2b "BeingWatched"); (2%Z, s2b "DisputeResponded")];
     st_from_i32_default := s2b "NotFound";
     st_from_str := [(s2b "being_watched", s2b "BeingWatched"); (s2b "dispute_responded", s2b "DisputeResponded");
                     (s2b "not_found", s2b "NotFound")];
     st_display := [(s2b "BeingWatched", s2b "being_watched"); (s2b "DisputeResponded", s2b "dispute_responded");
                    (s2b "NotFound", s2b "not_found")] |}.
Definition Doc_APPOINTMENT_TO_VEC : layout := Eval vm_compute in
  [(s2b "locator", LFixed 16); (s2b "encrypted_blob", LVar); (s2b "to_self_delay", LBE32)].
Definition Doc_REGISTRATION_RECEIPT_TO_VEC : layout := Eval vm_compute in
  [(s2b "user_id", LFixed 33); (s2b "available_slots", LBE32); (s2b "subscription_start", LBE32);
   (s2b "subscription_expiry", LBE32)].
Definition Doc_APPOINTMENT_RECEIPT_TO_VEC : layout := Eval vm_compute in [(s2b "user_signature", LVar); (s2b "start_block", LBE32)].

Definition doc_endpoint (e : endpoint_spec) : str * msg * msg * Z := (ep_path e, ep_req e, ep_resp e, ep_cap e).

(* the documented emission of a request / reply / error, used by the monitor *)
Definition doc_to_json (m : msg) (v : mval) : json := enc_msg Doc_STATUS m v.

(* ---------------- entry points of the OCaml driver (coq/extraction/drv_wire.ml) ---------------- *)
Definition wire_messages : list (str * msg) := Eval vm_compute in
  (WireSpec.MESSAGES ++ [(s2b "TowerApiError", WireSpec.TowerApiError); (s2b "ClientApiError", WireSpec.ClientApiError)])%list.
Definition wire_endpoints : list endpoint_spec := WireSpec.ENDPOINTS.
Definition wire_enc : msg -> mval -> json := to_json.
Definition wire_dec : msg -> json -> option mval := of_json.
Definition wire_typed : msg -> mval -> bool := typedb.
Definition wire_print : json -> str := json_print.
Definition wire_doc_enc : msg -> mval -> json := doc_to_json.
Definition wire_doc_endpoints : list (str * msg * msg * Z) := Doc_ENDPOINTS.
Definition wire_doc_api_error : msg := Doc_ApiError.
Definition wire_tower_api_error : msg := WireSpec.TowerApiError.
Definition wire_tower_http : endpoint_spec -> Z -> option json -> tower_result := tower_http.
Definition wire_tower_error_reply : Z -> str -> Z * json := tower_error_reply.
Definition wire_client_decode : endpoint_spec -> json -> creply := of_json_client.
Definition wire_hex_encode : bytes -> str := hex_encode.
Definition wire_hex_decode : str -> option bytes := hex_decode.
Definition wire_behex_encode : bytes -> str := behex_encode.
Definition wire_behex_decode : str -> option bytes := behex_decode.
Definition wire_appointment_to_vec := appointment_to_vec.
Definition wire_registration_receipt_to_vec := registration_receipt_to_vec.
Definition wire_appointment_receipt_to_vec := appointment_receipt_to_vec.
Definition wire_doc_appointment_to_vec (l b : bytes) (t : N) : bytes :=
  layout_encode Doc_APPOINTMENT_TO_VEC [LVBytes l; LVBytes b; LVNum t].
Definition wire_doc_registration_receipt_to_vec (u : bytes) (a s e : N) : bytes :=
  layout_encode Doc_REGISTRATION_RECEIPT_TO_VEC [LVBytes u; LVNum a; LVNum s; LVNum e].
Definition wire_doc_appointment_receipt_to_vec (s : str) (b : N) : bytes :=
  layout_encode Doc_APPOINTMENT_RECEIPT_TO_VEC [LVBytes s; LVNum b].
Definition wire_get_appointment_msg_client := get_appointment_msg_client.
Definition wire_get_appointment_msg_tower := get_appointment_msg_tower.
Definition doc_get_appointment_prefix : str := Eval vm_compute in s2b "get appointment ".
Definition wire_doc_get_appointment_msg (l : bytes) : bytes := (doc_get_appointment_prefix ++ hex_encode l)%list.
