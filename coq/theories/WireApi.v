(* WireApi.v — the public API of the tower as the generic wire model (Wire.v) instantiated with the
   tables generated from /repo (Gen/WireSpec.W_v, Gen/Consts.v): what the client emits, what the
   tower's router does with a body, what the tower replies, what the client makes of the reply,
   and the byte strings that get signed.  Definitions only. *)
From TeosModel Require Import Base Wire.
From TeosModel.Gen Require Consts WireSpec.
From Coq Require Import String.
Local Open Scope string_scope.


(* ---------------- serialising / parsing a message of shape m ---------------- *)
Definition w_to_json (m : w_msg) (v : w_mval) : w_json := w_enc_msg WireSpec.W_STATUS m v.
Definition w_of_json (m : w_msg) (j : w_json) : option w_mval := w_dec_msg WireSpec.W_STATUS m j.
Definition w_typedb (m : w_msg) (v : w_mval) : bool := w_typed_msgb WireSpec.W_STATUS m v.

(* ---------------- client -> tower ---------------- *)
(* reqwest's RequestBuilder::json(&request): serde_json::to_vec of the prost struct *)
Definition w_to_json_client (e : w_endpoint_spec) (req : w_mval) : w_json := w_to_json (w_ep_req e) req.
Definition w_client_body (e : w_endpoint_spec) (req : w_mval) : w_str := w_json_print (w_to_json_client e req).

(* warp::body::json::<Req>() on the tower *)
Definition w_of_json_tower (e : w_endpoint_spec) (j : w_json) : option w_mval := w_of_json (w_ep_req e) j.

(* field access by JSON name in a struct value *)
Fixpoint w_lookup_field (fs : w_fields) (vs : w_vals) (name : w_str) : option w_val :=
  match fs, vs with
  | WFCons n _ r, WVCons v vr => if w_str_eqb n name then Some v else w_lookup_field r vr name
  | _, _ => None
  end.
Definition w_field_of (m : w_msg) (mv : w_mval) (name : w_str) : option w_val :=
  match m, mv with
  | WMStruct fs, WMVStruct vs => w_lookup_field fs vs name
  | _, _ => None
  end.

(* The field checks of the four handlers of teos/src/api/http.rs (hand-modelled, validated by the
   correspondence run): `x.is_empty()` -> EMPTY_FIELD (user_id, locator, encrypted_blob, signature), `x.len() != N` -> WRONG_FIELD_SIZE,
   `appointment: None` -> MISSING_FIELD; None = the request is forwarded to the internal API. *)
Definition w_check_sized (v : option w_val) (n : Z) : option Z :=
  match v with
  | Some (WVBytes []) => Some Consts.ERR_EMPTY_FIELD
  | Some (WVBytes b) => if Z.eqb (Z.of_nat (List.length b)) n then None else Some Consts.ERR_WRONG_FIELD_SIZE
  | _ => None
  end.
Definition w_check_nonempty_str (v : option w_val) : option Z :=
  match v with
  | Some (WVStr []) => Some Consts.ERR_EMPTY_FIELD
  | _ => None
  end.
Definition w_check_nonempty_bytes (v : option w_val) : option Z :=
  match v with
  | Some (WVBytes []) => Some Consts.ERR_EMPTY_FIELD
  | _ => None
  end.
Definition w_first_err (a b : option Z) : option Z := match a with Some x => Some x | None => b end.

(* names, already evaluated to bytes (no Coq `string` value survives into the extracted model) *)
Definition w_n_user_id : w_str := Eval vm_compute in w_s2b "user_id".
Definition w_n_locator : w_str := Eval vm_compute in w_s2b "locator".
Definition w_n_encrypted_blob : w_str := Eval vm_compute in w_s2b "encrypted_blob".
Definition w_n_signature : w_str := Eval vm_compute in w_s2b "signature".
Definition w_n_appointment : w_str := Eval vm_compute in w_s2b "appointment".
Definition w_p_register : w_str := Eval vm_compute in w_s2b "/register".
Definition w_p_add_appointment : w_str := Eval vm_compute in w_s2b "/add_appointment".
Definition w_p_get_appointment : w_str := Eval vm_compute in w_s2b "/get_appointment".

Definition w_handler_check (e : w_endpoint_spec) (req : w_mval) : option Z :=
  let m := w_ep_req e in
  if w_str_eqb (w_ep_path e) w_p_register then
    w_check_sized (w_field_of m req w_n_user_id) Consts.USER_ID_LEN
  else if w_str_eqb (w_ep_path e) w_p_add_appointment then
    w_first_err
      (match w_field_of m req w_n_appointment with
       | Some (WVSome (WMVStruct avs)) =>
         match m with
         | WMStruct (WFCons _ (KOptMsg am) _) =>
           w_first_err (w_check_sized (w_field_of am (WMVStruct avs) w_n_locator) Consts.LOCATOR_LEN)
                       (w_check_nonempty_bytes (w_field_of am (WMVStruct avs) w_n_encrypted_blob))
         | _ => None
         end
       | _ => Some Consts.ERR_MISSING_FIELD
       end)
      (w_check_nonempty_str (w_field_of m req w_n_signature))
  else if w_str_eqb (w_ep_path e) w_p_get_appointment then
    w_first_err (w_check_sized (w_field_of m req w_n_locator) Consts.LOCATOR_LEN)
              (w_check_nonempty_str (w_field_of m req w_n_signature))
  else
    w_check_nonempty_str (w_field_of m req w_n_signature).

(* what the router does with a POST whose Content-Length is len and whose body is the JSON value j
   (None = the body is not JSON at all) *)
Inductive w_tower_result :=
| WTForward (req : w_mval)       (* handed to the internal API exactly as parsed *)
| WTReject (code : Z)          (* handler field check: 400 + ApiError with that code *)
| WTBadBody                    (* BodyDeserializeError: 400 + ApiError *)
| WTTooLarge.                  (* content_length_limit: 413, plain text *)

Definition w_tower_http (e : w_endpoint_spec) (len : Z) (j : option w_json) : w_tower_result :=
  if (w_ep_cap e <? len)%Z then WTTooLarge
  else match j with
       | None => WTBadBody
       | Some j =>
         match w_of_json_tower e j with
         | None => WTBadBody
         | Some req => match w_handler_check e req with Some c => WTReject c | None => WTForward req end
         end
       end.

(* ---------------- tower -> client ---------------- *)
(* parse_grpc_response: Ok(r) -> reply::json(&r);  Err(status) -> reply::json(&ApiError{message, code}) *)
Definition w_to_json_tower (e : w_endpoint_spec) (resp : w_mval) : w_json := w_to_json (w_ep_resp e) resp.
Definition w_mk_api_error (message : w_str) (code : Z) : w_mval := WMVStruct (w_vlist [WVStr message; WVNum code]).
Definition w_to_json_err (err : w_mval) : w_json := w_to_json WireSpec.W_TowerApiError err.

Definition w_match_status (tonic_code : Z) : Z * Z :=
  match w_assoc_Z tonic_code WireSpec.W_MATCH_STATUS with Some r => r | None => WireSpec.W_MATCH_STATUS_DEFAULT end.
(* the reply to a request the internal API refused with that tonic status *)
Definition w_tower_error_reply (tonic_code : Z) (message : w_str) : Z * w_json :=
  let (http, code) := w_match_status tonic_code in (http, w_to_json_err (w_mk_api_error message code)).

(* process_post_response::<ApiResponse<T>> or ::<T>, as the client calls it for that endpoint *)
Definition w_of_json_client (e : w_endpoint_spec) (j : w_json) : w_creply :=
  w_client_decode WireSpec.W_STATUS (w_ep_client_wrapped e) WireSpec.W_API_RESPONSE_ORDER (w_ep_resp e) WireSpec.W_ClientApiError j.

(* ---------------- the messages of the API, field by field ---------------- *)
Definition w_mk_register_request (user_id : w_bytes) : w_mval := WMVStruct (w_vlist [WVBytes user_id]).
Definition w_mk_appointment (locator blob : w_bytes) (to_self_delay : Z) : w_mval :=
  WMVStruct (w_vlist [WVBytes locator; WVBytes blob; WVNum to_self_delay]).
Definition w_mk_add_appointment_request (locator blob : w_bytes) (to_self_delay : Z) (signature : w_str) : w_mval :=
  WMVStruct (w_vlist [WVSome (w_mk_appointment locator blob to_self_delay); WVStr signature]).
Definition w_mk_get_appointment_request (locator : w_bytes) (signature : w_str) : w_mval :=
  WMVStruct (w_vlist [WVBytes locator; WVStr signature]).
Definition w_mk_get_subscription_info_request (signature : w_str) : w_mval := WMVStruct (w_vlist [WVStr signature]).

Definition w_mk_register_response (user_id : w_bytes) (slots start expiry : Z) (signature : w_str) : w_mval :=
  WMVStruct (w_vlist [WVBytes user_id; WVNum slots; WVNum start; WVNum expiry; WVStr signature]).
Definition w_mk_add_appointment_response (locator : w_bytes) (start_block : Z) (signature : w_str) (slots expiry : Z) : w_mval :=
  WMVStruct (w_vlist [WVBytes locator; WVNum start_block; WVStr signature; WVNum slots; WVNum expiry]).
Definition w_mk_tracker (dispute_txid penalty_txid penalty_rawtx : w_bytes) : w_mval :=
  WMVStruct (w_vlist [WVBytes dispute_txid; WVBytes penalty_txid; WVBytes penalty_rawtx]).
(* appointment_data: None | Some(AppointmentData{None}) | Some(AppointmentData{Some(variant i)}) *)
Definition w_mk_get_appointment_response (data : w_val) (status : Z) : w_mval := WMVStruct (w_vlist [data; WVNum status]).
Definition w_data_appointment (a : w_mval) : w_val := WVSome (WMVOneof 0 a).
Definition w_data_tracker (t : w_mval) : w_val := WVSome (WMVOneof 1 t).
Definition w_mk_get_subscription_info_response (slots expiry : Z) (locators : list w_bytes) : w_mval :=
  WMVStruct (w_vlist [WVNum slots; WVNum expiry; WVVec locators]).

(* ---------------- the byte strings that get signed ---------------- *)
Definition w_appointment_to_vec (locator blob : w_bytes) (to_self_delay : N) : w_bytes :=
  w_layout_encode WireSpec.W_APPOINTMENT_TO_VEC [WLVBytes locator; WLVBytes blob; WLVNum to_self_delay].
Definition w_registration_receipt_to_vec (user_id : w_bytes) (slots start expiry : N) : w_bytes :=
  w_layout_encode WireSpec.W_REGISTRATION_RECEIPT_TO_VEC [WLVBytes user_id; WLVNum slots; WLVNum start; WLVNum expiry].
Definition w_appointment_receipt_to_vec (user_signature : w_str) (start_block : N) : w_bytes :=
  w_layout_encode WireSpec.W_APPOINTMENT_RECEIPT_TO_VEC [WLVBytes user_signature; WLVNum start_block].

Definition w_get_appointment_msg_client (locator : w_bytes) : w_bytes :=
  w_sign_msg_get_appointment WireSpec.W_GET_APPOINTMENT_PREFIX_CLIENT locator.
Definition w_get_appointment_msg_tower (locator : w_bytes) : w_bytes :=
  w_sign_msg_get_appointment WireSpec.W_GET_APPOINTMENT_PREFIX_TOWER locator.

(* ---------------- the documented format (README / API docs), pinned by hand ----------------
   The monitor of the check compares what travels on the wire with THIS table, and
   C16_format_as_documented states that the table generated from the code is this one. *)
Definition WDoc_Appointment : w_msg := Eval vm_compute in
  WMStruct (w_flist [(w_s2b "locator", KHex); (w_s2b "encrypted_blob", KHex); (w_s2b "to_self_delay", KU32)]).
Definition WDoc_Tracker : w_msg := Eval vm_compute in
  WMStruct (w_flist [(w_s2b "dispute_txid", KHexBE); (w_s2b "penalty_txid", KHexBE); (w_s2b "penalty_rawtx", KHex)]).
Definition WDoc_AppointmentData : w_msg := Eval vm_compute in WMFlatOneof (w_mlist [WDoc_Appointment; WDoc_Tracker]).
Definition WDoc_ApiError : w_msg := Eval vm_compute in WMStruct (w_flist [(w_s2b "error", KStr); (w_s2b "error_code", KU8)]).
Definition WDoc_ENDPOINTS : list (w_str * w_msg * w_msg * Z) := Eval vm_compute in
  [ (w_s2b "/register",
     WMStruct (w_flist [(w_s2b "user_id", KHex)]),
     WMStruct (w_flist [(w_s2b "user_id", KHex); (w_s2b "available_slots", KU32); (w_s2b "subscription_start", KU32);
                     (w_s2b "subscription_expiry", KU32); (w_s2b "subscription_signature", KStr)]),
     87%Z);
    (w_s2b "/add_appointment",
     WMStruct (w_flist [(w_s2b "appointment", KOptMsg WDoc_Appointment); (w_s2b "signature", KStr)]),
     WMStruct (w_flist [(w_s2b "locator", KHex); (w_s2b "start_block", KU32); (w_s2b "signature", KStr);
                     (w_s2b "available_slots", KU32); (w_s2b "subscription_expiry", KU32)]),
     2048%Z);
    (w_s2b "/get_appointment",
     WMStruct (w_flist [(w_s2b "locator", KHex); (w_s2b "signature", KStr)]),
     WMStruct (w_flist [(w_s2b "appointment", KOptMsg WDoc_AppointmentData); (w_s2b "status", KStatus)]),
     178%Z);
    (w_s2b "/get_subscription_info",
     WMStruct (w_flist [(w_s2b "signature", KStr)]),
     WMStruct (w_flist [(w_s2b "available_slots", KU32); (w_s2b "subscription_expiry", KU32); (w_s2b "locators", KVecHex)]),
     127%Z) ].
Definition WDoc_STATUS_NAMES : list (Z * w_str) := Eval vm_compute in
  [(0%Z, w_s2b "not_found"); (1%Z, w_s2b "being_watched"); (2%Z, w_s2b "dispute_responded")].
Definition WDoc_STATUS : w_status_table := Eval vm_compute in
  {| w_st_variants := [(w_s2b "NotFound", 0%Z); (w_s2b "BeingWatched", 1%Z); (w_s2b "DisputeResponded", 2%Z)];
     w_st_from_i32 := [(1%Z, w_s2b "BeingWatched"); (2%Z, w_s2b "DisputeResponded")];
     w_st_from_i32_default := w_s2b "NotFound";
     w_st_from_str := [(w_s2b "being_watched", w_s2b "BeingWatched"); (w_s2b "dispute_responded", w_s2b "DisputeResponded");
                     (w_s2b "not_found", w_s2b "NotFound")];
     w_st_display := [(w_s2b "BeingWatched", w_s2b "being_watched"); (w_s2b "DisputeResponded", w_s2b "dispute_responded");
                    (w_s2b "NotFound", w_s2b "not_found")] |}.
Definition WDoc_APPOINTMENT_TO_VEC : w_layout := Eval vm_compute in
  [(w_s2b "locator", WLFixed 16); (w_s2b "encrypted_blob", WLVar); (w_s2b "to_self_delay", WLBE32)].
Definition WDoc_REGISTRATION_RECEIPT_TO_VEC : w_layout := Eval vm_compute in
  [(w_s2b "user_id", WLFixed 33); (w_s2b "available_slots", WLBE32); (w_s2b "subscription_start", WLBE32);
   (w_s2b "subscription_expiry", WLBE32)].
Definition WDoc_APPOINTMENT_RECEIPT_TO_VEC : w_layout := Eval vm_compute in [(w_s2b "user_signature", WLVar); (w_s2b "start_block", WLBE32)].

Definition w_doc_endpoint (e : w_endpoint_spec) : w_str * w_msg * w_msg * Z := (w_ep_path e, w_ep_req e, w_ep_resp e, w_ep_cap e).

(* the documented emission of a request / reply / error, used by the monitor *)
Definition w_doc_to_json (m : w_msg) (v : w_mval) : w_json := w_enc_msg WDoc_STATUS m v.

(* ---------------- entry points of the OCaml driver (coq/extraction/drv_wire.ml) ---------------- *)
Definition wire_messages : list (w_str * w_msg) := Eval vm_compute in
  (WireSpec.W_MESSAGES ++ [(w_s2b "TowerApiError", WireSpec.W_TowerApiError); (w_s2b "ClientApiError", WireSpec.W_ClientApiError)])%list.
Definition wire_endpoints : list w_endpoint_spec := WireSpec.W_ENDPOINTS.
Definition wire_enc : w_msg -> w_mval -> w_json := w_to_json.
Definition wire_dec : w_msg -> w_json -> option w_mval := w_of_json.
Definition wire_typed : w_msg -> w_mval -> bool := w_typedb.
Definition wire_print : w_json -> w_str := w_json_print.
Definition wire_doc_enc : w_msg -> w_mval -> w_json := w_doc_to_json.
Definition wire_doc_typed (m : w_msg) (v : w_mval) : bool := w_typed_msgb WDoc_STATUS m v.
Definition wire_doc_endpoints : list (w_str * w_msg * w_msg * Z) := WDoc_ENDPOINTS.
Definition wire_doc_api_error : w_msg := WDoc_ApiError.
Definition wire_tower_api_error : w_msg := WireSpec.W_TowerApiError.
Definition wire_tower_http : w_endpoint_spec -> Z -> option w_json -> w_tower_result := w_tower_http.
Definition wire_tower_error_reply : Z -> w_str -> Z * w_json := w_tower_error_reply.
Definition wire_client_decode : w_endpoint_spec -> w_json -> w_creply := w_of_json_client.
Definition wire_hex_encode : w_bytes -> w_str := w_hex_encode.
Definition wire_hex_decode : w_str -> option w_bytes := w_hex_decode.
Definition wire_behex_encode : w_bytes -> w_str := w_behex_encode.
Definition wire_behex_decode : w_str -> option w_bytes := w_behex_decode.
Definition wire_appointment_to_vec := w_appointment_to_vec.
Definition wire_registration_receipt_to_vec := w_registration_receipt_to_vec.
Definition wire_appointment_receipt_to_vec := w_appointment_receipt_to_vec.
Definition wire_doc_appointment_to_vec (l b : w_bytes) (t : N) : w_bytes :=
  w_layout_encode WDoc_APPOINTMENT_TO_VEC [WLVBytes l; WLVBytes b; WLVNum t].
Definition wire_doc_registration_receipt_to_vec (u : w_bytes) (a s e : N) : w_bytes :=
  w_layout_encode WDoc_REGISTRATION_RECEIPT_TO_VEC [WLVBytes u; WLVNum a; WLVNum s; WLVNum e].
Definition wire_doc_appointment_receipt_to_vec (s : w_str) (b : N) : w_bytes :=
  w_layout_encode WDoc_APPOINTMENT_RECEIPT_TO_VEC [WLVBytes s; WLVNum b].
Definition wire_get_appointment_msg_client := w_get_appointment_msg_client.
Definition wire_get_appointment_msg_tower := w_get_appointment_msg_tower.
Definition w_doc_get_appointment_prefix : w_str := Eval vm_compute in w_s2b "get appointment ".
Definition wire_doc_get_appointment_msg (l : w_bytes) : w_bytes := (w_doc_get_appointment_prefix ++ w_hex_encode l)%list.
