(* ConcTower.v — the tower's operations as THREAD PROGRAMS at lock-acquisition granularity, and the
   interleaving semantics (C10).  Definitions only; proofs are in ConcTowerProofs.v.

   A program is a tree of events
       Acq l | Rel l | Act f            (f : tower -> res B, one atomic action on the shared state)
   whose order and nesting follow the guard lifetimes in the source (teos/src/{watcher,gatekeeper,
   responder,carrier}.rs, api/internal.rs):
     - a temporary guard (`x.lock().unwrap().f()`) lives to the end of its statement, an `if`
       condition's temporary to the end of the condition, a named guard to the end of its block;
     - in Watcher::add_appointment the locator-cache guard is the scrutinee of the `match` and lives
       until the end of the match: look-up and store are ONE critical section of the cache lock;
     - Gatekeeper::add_update_appointment holds `users` for the whole function and takes `db` twice
       under it (read the stored length; write the new balance);
     - Gatekeeper::filtered_block_connected decides who is outdated and removes them from the map and from
       the database in ONE critical section of `users` (`db` nested), then stores the height;
     - a user that vanished between two critical sections of a request (purged by a block) makes the
       request answer an authentication / subscription failure: has_subscription_expired, add_update_appointment,
       store_appointment (foreign key) and get_user_info return errors, they do not unwrap; a breached
       appointment that is gone when handle_breaches loads it is skipped;
     - the three AtomicU32 heights are read/written by actions of their own, outside any lock
       (except the gatekeeper height read inside has_subscription_expired, which the code performs
       while holding `users`);
     - every `lock().unwrap()`: a poisoned mutex makes the acquiring thread panic; a panic (an
       `Abort` of an action) poisons every mutex the thread holds.
   The bodies of the actions are Tower.v's own definitions (p_set_user, w_store_appointment,
   r_add_tracker, check_conf_loop, gk_delete_appointments, send_transaction, in_mempool, ...), so
   the sequential and the concurrent model share their logic; where a Tower.v function spans
   several critical sections it is split here, and ConcTowerProofs.v proves that running a
   program with no interference (`exec`) equals Tower.v's `step`.
   Data that only holders of one lock can see (the gatekeeper's user map under `users`) may be
   written anywhere inside one critical section of that lock: e.g. add_update_user's memory write
   and row write are one action `p_set_user` placed in the nested `db` section.

   Lock ids as in harness/src/locks.rs and LockOrder.v:
     0 locator_cache  1 carrier  2 tx_index  3 reorged_trackers  4 registered_users  5 dbm
     6 bitcoind_reachable (the flag is true throughout: outages are C12's subject). *)
From TeosModel Require Import Base TxIndex Tower.
From TeosModel.Gen Require Consts.

Definition lock := N.
Definition L_cache : lock := 0.
Definition L_carrier : lock := 1.
Definition L_txindex : lock := 2.
Definition L_reorged : lock := 3.
Definition L_users : lock := 4.
Definition L_db : lock := 5.
Definition L_reach : lock := 6.

(* ------------------------------------------------------------------------------------------ *)
(* programs *)

Inductive prog (A : Type) : Type :=
| Ret (a : A)
| Acq (l : lock) (k : prog A)
| Rel (l : lock) (k : prog A)
| Act (B : Type) (f : tower -> res B) (k : B -> prog A).
Arguments Ret {A}. Arguments Acq {A}. Arguments Rel {A}. Arguments Act {A}.

Fixpoint pbind {A C} (p : prog A) (g : A -> prog C) : prog C :=
  match p with
  | Ret a => g a
  | Acq l k => Acq l (pbind k g)
  | Rel l k => Rel l (pbind k g)
  | Act B f k => Act B f (fun b => pbind (k b) g)
  end.
Notation "x <- p ;; q" := (pbind p (fun x => q)) (at level 61, p at next level, right associativity).
Notation "p ;;; q" := (pbind p (fun _ => q)) (at level 61, right associativity).

Definition acq (l : lock) : prog unit := Acq l (Ret tt).
Definition rel (l : lock) : prog unit := Rel l (Ret tt).
Definition act {B} (f : tower -> res B) : prog B := Act B f Ret.
Definition rd {B} (f : tower -> B) : prog B := Act B (fun t => Ok (f t) t) Ret.
Definition wr (f : tower -> tower) : prog unit := Act unit (fun t => Ok tt (f t)) Ret.
Definition panic {B} (s : site) : prog B := Act B (fun t => Abort s t) Ret.

(* the run of a program with no other thread around (locks play no role) *)
Fixpoint exec {A} (p : prog A) (t : tower) : res A :=
  match p with
  | Ret a => Ok a t
  | Acq _ k => exec k t
  | Rel _ k => exec k t
  | Act B f k => match f t with Ok b t' => exec (k b) t' | Abort s t' => Abort s t' end
  end.

(* the locks a program acquires when run alone from t, in order (the lock trace) *)
Fixpoint lock_trace {A} (p : prog A) (t : tower) : list lock :=
  match p with
  | Ret _ => []
  | Acq l k => l :: lock_trace k t
  | Rel _ k => lock_trace k t
  | Act B f k => match f t with Ok b t' => lock_trace (k b) t' | Abort _ _ => [] end
  end.

(* ------------------------------------------------------------------------------------------ *)
(* the thread programs of the operations *)

Section Programs.
  Context (le : bool) (sc : script).

  (* InternalAPI::check_service_unavailable / Carrier::hang_until_bitcoind_reachable: the flag's
     mutex is taken, the flag (true) read, the guard dropped *)
  Definition reach_p : prog unit := acq L_reach ;;; rel L_reach.

  (* ---- Gatekeeper ---- *)

  Inductive reg_plan := RP_max | RP_update (ui' : uinfo) | RP_new (ui : uinfo).

  (* add_update_user, the decision taken under `users` *)
  Definition reg_decide (u block_count : N) (t : tower) : res reg_plan :=
    match gk_get t u with
    | Some ui =>
        match u32_add (u_slots ui) (c_slots (cfg t)) with
        | None => Ok RP_max t
        | Some s =>
            let e := match u32_add (u_expiry ui) (c_duration (cfg t)) with Some e => e | None => U32MAX end in
            Ok (RP_update (mk_uinfo s (u_start ui) e)) t
        end
    | None =>
        match u32_add block_count (c_duration (cfg t)) with
        | None => Abort S_gk_new_user_expiry_overflow t
        | Some e => Ok (RP_new (mk_uinfo (c_slots (cfg t)) block_count e)) t
        end
    end.

  Definition store_new_user (u : N) (ui : uinfo) (t : tower) : res unit :=
    if amem (db_users t) u then Abort S_gk_store_user_unwrap t else Ok tt (p_new_user t u ui).

  (* Gatekeeper::add_update_user: the height is loaded before the lock is taken *)
  Definition add_update_user_p (u : N) : prog reg_result :=
    bc <- rd gk_height ;;
    acq L_users ;;;
    plan <- act (reg_decide u bc) ;;
    match plan with
    | RP_max => rel L_users ;;; Ret RegMaxSlots
    | RP_update ui' =>
        acq L_db ;;; wr (fun t => p_set_user t u ui') ;;; rel L_db ;;; rel L_users ;;;
        Ret (RegOk (u_slots ui') (u_start ui') (u_expiry ui'))
    | RP_new ui =>
        acq L_db ;;; act (store_new_user u ui) ;;; rel L_db ;;; rel L_users ;;;
        Ret (RegOk (u_slots ui) (u_start ui) (u_expiry ui))
    end.

  Definition used_slots (uuid : N * N) (t : tower) : N :=
    match find_app (db_apps t) uuid with Some a => slots_of (b_len (a_blob a)) | None => 0 end.

  (* Gatekeeper::add_update_appointment: `users` for the whole function; `db` once to read the
     stored length, once more to write the balance.  Some s = Ok(available), None = NotEnoughSlots
     (also when the user is not in the map any more: `get_mut(..).ok_or(NotEnoughSlots)?`) *)
  Definition charge_p (u : N) (uuid : N * N) (blen : N) : prog (option N) :=
    acq L_users ;;;
    oui <- rd (fun t => gk_get t u) ;;
    match oui with
    | None => rel L_users ;;; Ret None
    | Some ui =>
        acq L_db ;;; used <- rd (used_slots uuid) ;; rel L_db ;;;
        let required := slots_of blen in
        if N.leb required (u_slots ui + used) then
          let s := (u_slots ui + used - required) mod U32MOD in
          acq L_db ;;; wr (fun t => p_set_user t u (mk_uinfo s (u_start ui) (u_expiry ui))) ;;; rel L_db ;;;
          rel L_users ;;; Ret (Some s)
        else rel L_users ;;; Ret None
    end.

  (* Gatekeeper::delete_appointments: users, then db, both to the end of the function *)
  Definition delete_apps_p (us : list (N * N)) (refund : bool) : prog unit :=
    acq L_users ;;; acq L_db ;;;
    act (fun t => gk_delete_appointments t us refund) ;;;
    rel L_db ;;; rel L_users.

  (* Gatekeeper::authenticate_user: recover_pk fails before any lock is taken *)
  Definition authenticate_p (signer : option N) : prog (option N) :=
    match signer with
    | None => Ret None
    | Some _ => acq L_users ;;; r <- rd (fun t => authenticate t signer) ;; rel L_users ;;; Ret r
    end.

  (* Gatekeeper::has_subscription_expired: None = the user is not in the map (any more); the callers answer
     an authentication failure *)
  Definition expired_p (u : N) : prog (option (bool * N)) :=
    acq L_users ;;;
    r <- rd (fun t => match gk_get t u with
                      | Some ui => Some (N.leb (u_expiry ui) (gk_height t), u_expiry ui)
                      | None => None end) ;;
    rel L_users ;;; Ret r.

  (* Gatekeeper::filtered_block_connected *)
  Definition find_outdated (h : N) (t : tower) : res (list N) :=
    match outdated_users (c_delta (cfg t)) h (gk_users t) with
    | None => Abort S_gk_outdated_overflow t
    | Some o => Ok o t
    end.
  Definition forget_users (outd : list N) (t : tower) : tower :=
    set_gk_users t (aretain (fun u => negb (memN u outd)) (gk_users t)).

  (* who is outdated is decided, and they are removed from memory and from the database, in ONE critical
     section of `users` (db nested: users before db, as everywhere else) *)
  Definition gk_connect_p (h : N) : prog unit :=
    acq L_users ;;; outd <- act (find_outdated h) ;;
    (match outd with
     | [] => Ret tt
     | _ => wr (forget_users outd) ;;;
            acq L_db ;;; wr (fun t => db_delete_users t outd) ;;; rel L_db
     end) ;;;
    rel L_users ;;;
    wr (fun t => set_gk_height t h).

  Definition store_height (set : tower -> N -> tower) (h : N) (s : site) (t : tower) : res unit :=
    match u32_sub h 1 with None => Abort s t | Some h' => Ok tt (set t h') end.

  Definition gk_disconnect_p (h : N) : prog unit := act (store_height set_gk_height h S_gk_disconnect_underflow).

  (* ---- Responder / Carrier ---- *)

  Definition index_lookup (p : N) (t : tower) : res (option cstatus) :=
    match ti_get (r_index t) p with
    | Some bh =>
        match ti_get_height (r_index t) bh with
        | Some h => Ok (Some (ConfirmedIn (Z.to_N h))) t
        | None => Abort S_r_get_height_unwrap t
        end
    | None => Ok None t
    end.
  Definition ask_mempool (p : N) (t : tower) : res (option cstatus) :=
    let '(b, t1) := in_mempool sc t p in Ok (if b then Some (InMempoolSince (car_height t1)) else None) t1.
  Definition send_act (tx : N) (t : tower) : res cstatus :=
    let '(s, t1) := send_transaction sc t tx in Ok s t1.

  (* Carrier::send_transaction / in_mempool: hang_until_bitcoind_reachable first *)
  Definition send_p (tx : N) : prog cstatus := reach_p ;;; act (send_act tx).

  (* Responder::handle_breach: carrier and tx_index are named guards, held to the end (across the
     node round trips and add_tracker's database section) *)
  Definition handle_breach_p (uuid : N * N) (d p : N) : prog cstatus :=
    acq L_carrier ;;; acq L_txindex ;;;
    st0 <- act (index_lookup p) ;;
    s <- (match st0 with
          | Some s => Ret s
          | None =>
              reach_p ;;; m <- act (ask_mempool p) ;;
              match m with Some s => Ret s | None => send_p p end
          end) ;;
    (if status_accepted s
     then acq L_db ;;; wr (fun t => r_add_tracker t uuid d p s) ;;; rel L_db
     else Ret tt) ;;;
    rel L_txindex ;;; rel L_carrier ;;; Ret s.

  Definition update_index (b : iblock N) (t : tower) : res unit :=
    match ti_update (r_index t) b with
    | None => Abort S_r_index_update t
    | Some idx => Ok tt (set_r_index t idx)
    end.

  Definition take_reorged (t : tower) : res (list (N * N)) := Ok (reorged t) (set_reorged t []).

  (* handle_reorged_txs, the loop body (carrier and db held) *)
  Fixpoint reorged_loop_p (h : N) (us : list (N * N)) (rejected : list (N * N)) : prog (list (N * N)) :=
    match us with
    | [] => Ret rejected
    | uuid :: r =>
        ok <- rd (fun t => find_trk (db_trks t) uuid) ;;
        match ok with
        | None => reorged_loop_p h r rejected
        | Some k =>
            s <- send_p (t_dispute k) ;;
            match s with
            | ConfirmedIn _ => panic S_r_reorg_unreachable
            | Rejected _ => reorged_loop_p h r (rejected ++ [uuid])
            | InMempoolSince _ | IrrevocablyResolved =>
                s2 <- send_p (t_penalty k) ;;
                if status_rejected s2 then reorged_loop_p h r (rejected ++ [uuid])
                else wr (fun t => set_trk_status t uuid h false) ;;; reorged_loop_p h r rejected
            end
        end
    end.

  Definition reorged_p (h : N) : prog (list (N * N)) :=
    acq L_reorged ;;; us <- act take_reorged ;; rel L_reorged ;;;
    acq L_carrier ;;; acq L_db ;;;
    rej <- reorged_loop_p h us [] ;;
    rel L_db ;;; rel L_carrier ;;; Ret rej.

  Definition load_stale_tracker (uuid : N * N) (t : tower) : res trk :=
    match find_trk (db_trks t) uuid with None => Abort S_r_stale_load_tracker_unwrap t | Some k => Ok k t end.

  Fixpoint stale_loop_p (h : N) (us : list (N * N)) (rejected : list (N * N)) : prog (list (N * N)) :=
    match us with
    | [] => Ret rejected
    | uuid :: r =>
        k <- act (load_stale_tracker uuid) ;;
        s <- send_p (t_penalty k) ;;
        match s with
        | Rejected _ => stale_loop_p h r (rejected ++ [uuid])
        | ConfirmedIn hh => wr (fun t => set_trk_status t uuid hh true) ;;; stale_loop_p h r rejected
        | InMempoolSince hh => wr (fun t => set_trk_status t uuid hh false) ;;; stale_loop_p h r rejected
        | IrrevocablyResolved => wr (fun t => set_trk_status t uuid h false) ;;; stale_loop_p h r rejected
        end
    end.

  Definition find_stale (h : N) (t : tower) : res (list (N * N)) :=
    match u32_sub h (Z.to_N Consts.CONFIRMATIONS_BEFORE_RETRY) with
    | None => Abort S_r_stale_underflow t
    | Some lim => Ok (map trk_uuid (filter (fun k => negb (t_conf k) && N.leb (t_height k) lim) (db_trks t))) t
    end.

  Definition stale_p (h : N) : prog (list (N * N)) :=
    acq L_carrier ;;; acq L_db ;;;
    stale <- act (find_stale h) ;;
    rej <- stale_loop_p h stale [] ;;
    rel L_db ;;; rel L_carrier ;;; Ret rej.

  (* Responder::filtered_block_connected *)
  Definition r_connect_p (hash : N) (txs : list N) (h : N) : prog unit :=
    acq L_carrier ;;; wr (fun t => set_car_height t h) ;;; rel L_carrier ;;;
    acq L_txindex ;;; act (update_index (index_block hash txs)) ;;; rel L_txindex ;;;
    acq L_reorged ;;; acq L_db ;;;
    completed <- act (fun t => check_conf_loop le txs h (db_trks t) t []) ;;
    rel L_db ;;; rel L_reorged ;;;
    (match completed with [] => Ret tt | _ => delete_apps_p completed true end) ;;;
    acq L_reorged ;;; cfr <- rd (fun t => match reorged t with [] => false | _ => true end) ;; rel L_reorged ;;;
    rej1 <- (if cfr then reorged_p h else Ret []) ;;
    rej2 <- stale_p h ;;
    (match rej1 ++ rej2 with [] => Ret tt | l => delete_apps_p l false end) ;;;
    acq L_carrier ;;; wr (fun t => set_car_memo t []) ;;; rel L_carrier.

  Definition mark_reorged (h : N) (t : tower) : tower :=
    set_reorged t (reorged t ++
      filter (fun u => negb (mem_uuid u (reorged t)))
             (map trk_uuid (filter (fun k => t_conf k && N.eqb (t_height k) h) (db_trks t)))).

  Definition r_disconnect_p (hash : N) (h : N) : prog unit :=
    acq L_carrier ;;; wr (fun t => set_car_height t h) ;;; rel L_carrier ;;;
    acq L_txindex ;;; wr (fun t => set_r_index t (ti_disconnect (r_index t) hash)) ;;; rel L_txindex ;;;
    acq L_reorged ;;; acq L_db ;;; wr (mark_reorged h) ;;; rel L_db ;;; rel L_reorged.

  (* ---- Watcher ---- *)

  (* Watcher::store_appointment, one critical section of db: false = StoredAppointment::UnknownUser (the
     INSERT failed on the foreign key, nothing stored) *)
  Definition store_act (a : app) (t : tower) : res bool :=
    match w_store_appointment t a with
    | Ok _ t' => Ok (w_store_ok t a) t'
    | Abort s t' => Abort s t'
    end.
  Definition store_appointment_p (a : app) : prog bool :=
    acq L_db ;;; ok <- act (store_act a) ;; rel L_db ;;; Ret ok.

  (* Watcher::store_triggered_appointment (runs with the locator-cache guard held); false = UnknownUser *)
  Definition store_triggered_p (a : app) (dispute : N) : prog bool :=
    match decrypt (a_blob a) dispute with
    | Some penalty =>
        ok <- store_appointment_p a ;;
        if ok then
          s <- handle_breach_p (app_uuid a) dispute penalty ;;
          (if status_rejected s then delete_apps_p [app_uuid a] false else Ret tt) ;;; Ret true
        else Ret false
    | None =>
        acq L_db ;;; ex <- rd (fun t => match find_app (db_apps t) (app_uuid a) with Some _ => true | None => false end) ;;
        rel L_db ;;;
        (if ex then delete_apps_p [app_uuid a] false else Ret tt) ;;; Ret true
    end.

  (* the critical section of the locator cache in add_appointment: look-up AND store *)
  Definition cache_section_p (a : app) : prog bool :=
    acq L_cache ;;;
    od <- rd (fun t => ti_get (w_cache t) (a_loc a)) ;;
    ok <- (match od with
           | Some dispute => store_triggered_p a dispute
           | None => store_appointment_p a
           end) ;;
    rel L_cache ;;; Ret ok.

  Definition has_tracker_p (uuid : N * N) : prog bool :=
    acq L_db ;;; r <- rd (fun t => match find_trk (db_trks t) uuid with Some _ => true | None => false end) ;;
    rel L_db ;;; Ret r.

  (* Watcher::add_appointment up to (not including) the locator-cache critical section:
     inl = the reply is already decided, inr = (appointment to store, available slots, expiry) *)
  Definition add_pre_p (signer : option N) (loc : N) (b : blob) (delay sig : N) : prog (add_result + (app * N * N)) :=
    ou <- authenticate_p signer ;;
    match ou with
    | None => Ret (inl AddAuthOrSlots)
    | Some u =>
        oe <- expired_p u ;;
        match oe with
        | None => Ret (inl AddAuthOrSlots)
        | Some e =>
            if fst e then Ret (inl (AddExpired (snd e)))
            else
              start <- rd w_height ;;
              ht <- has_tracker_p (loc, u) ;;
              if ht then Ret (inl AddTriggered)
              else
                ch <- charge_p u (loc, u) (b_len b) ;;
                match ch with
                | None => Ret (inl AddAuthOrSlots)
                | Some available => Ret (inr (mk_app loc u b delay sig start, available, snd e))
                end
        end
    end.

  Definition add_finish (x : add_result + (app * N * N)) : prog add_result :=
    match x with
    | inl r => Ret r
    | inr (a, available, expiry) =>
        ok <- cache_section_p a ;;
        Ret (if ok then AddOk (a_start a) (a_sig a) available expiry else AddAuthOrSlots)
    end.

  (* Watcher::add_appointment *)
  Definition add_appointment_p (signer : option N) (loc : N) (b : blob) (delay sig : N) : prog add_result :=
    x <- add_pre_p signer loc b delay sig ;; add_finish x.

  Definition load_for_get (uuid : N * N) (t : tower) : get_result :=
    match find_trk (db_trks t) uuid, find_app (db_apps t) uuid with
    | Some k, Some _ => GetTrk (t_dispute k) (t_penalty k)
    | _, Some a => GetApp (a_loc a) (a_blob a) (a_delay a)
    | _, None => GetNotFound
    end.

  (* Watcher::get_appointment *)
  Definition get_appointment_p (signer : option N) (loc : N) : prog get_result :=
    ou <- authenticate_p signer ;;
    match ou with
    | None => Ret GetAuth
    | Some u =>
        oe <- expired_p u ;;
        match oe with
        | None => Ret GetAuth
        | Some e =>
            if fst e then Ret (GetExpired (snd e))
            else acq L_db ;;; r <- rd (load_for_get (loc, u)) ;; rel L_db ;;; Ret r
        end
    end.

  (* Watcher::get_subscription_info: authenticate, expiry test, then Gatekeeper::get_user_info (the user map's
     guard is a temporary of the first statement, the database is locked by the second one) *)
  Definition get_subscription_info_p (signer : option N) : prog sub_result :=
    ou <- authenticate_p signer ;;
    match ou with
    | None => Ret SubAuth
    | Some u =>
        oe <- expired_p u ;;
        match oe with
        | None => Ret SubAuth
        | Some e =>
            if fst e then Ret (SubExpired (snd e))
            else
              acq L_users ;;; oi <- rd (fun t => gk_get t u) ;; rel L_users ;;;
              match oi with
              | None => Ret SubAuth
              | Some ui =>
                  acq L_db ;;; locs <- rd (fun t => map a_loc (filter (fun a => N.eqb (a_user a) u) (db_apps t))) ;;
                  rel L_db ;;; Ret (SubOk (u_slots ui) (u_expiry ui) locs)
              end
        end
    end.

  Definition update_cache (b : iblock N) (t : tower) : res unit :=
    match ti_update (w_cache t) b with
    | None => Abort S_w_cache_update t
    | Some c => Ok tt (set_w_cache t c)
    end.
  Definition find_breaches (txs : list N) (t : tower) : list N :=
    filter (fun d => existsb (fun a => N.eqb (a_loc a) d) (db_apps t)) txs.
  Definition load_uuids (d : N) (t : tower) : list (N * N) :=
    map app_uuid (filter (fun a => N.eqb (a_loc a) d) (db_apps t)).
  (* Watcher::handle_breaches: the database is locked per statement, never over the loop; a uuid whose row is
     gone by the time it is loaded is skipped *)
  Fixpoint breach_uuid_loop_p (d : N) (us : list (N * N)) (invalid : list (N * N)) : prog (list (N * N)) :=
    match us with
    | [] => Ret invalid
    | uuid :: r =>
        acq L_db ;;; oa <- rd (fun t => find_app (db_apps t) uuid) ;; rel L_db ;;;
        match oa with
        | None => breach_uuid_loop_p d r invalid
        | Some a =>
            match decrypt (a_blob a) d with
            | Some p =>
                s <- handle_breach_p uuid d p ;;
                breach_uuid_loop_p d r (if status_rejected s then invalid ++ [uuid] else invalid)
            | None => breach_uuid_loop_p d r (invalid ++ [uuid])
            end
        end
    end.

  Fixpoint breach_loop_p (ds : list N) (invalid : list (N * N)) : prog (list (N * N)) :=
    match ds with
    | [] => Ret invalid
    | d :: r =>
        acq L_db ;;; us <- rd (load_uuids d) ;; rel L_db ;;;
        inv <- breach_uuid_loop_p d us invalid ;;
        breach_loop_p r inv
    end.

  (* Watcher::filtered_block_connected: the cache is updated in a critical section of its own,
     BEFORE the database is asked which of the block's locators are being watched *)
  Definition w_cache_p (hash : N) (txs : list N) : prog unit :=
    acq L_cache ;;; act (update_cache (cache_block hash txs)) ;;; rel L_cache.

  Definition w_rest_p (txs : list N) (h : N) : prog unit :=
    acq L_db ;;; breaches <- rd (find_breaches txs) ;; rel L_db ;;;
    invalid <- breach_loop_p breaches [] ;;
    (match invalid with [] => Ret tt | l => delete_apps_p l false end) ;;;
    wr (fun t => set_w_height t h).

  Definition w_connect_p (hash : N) (txs : list N) (h : N) : prog unit :=
    w_cache_p hash txs ;;; w_rest_p txs h.

  Definition w_disconnect_p (hash : N) (h : N) : prog unit :=
    acq L_cache ;;; wr (fun t => set_w_cache t (ti_disconnect (w_cache t) hash)) ;;; rel L_cache ;;;
    act (store_height set_w_height h S_w_disconnect_underflow).

  (* ---- whole operations ---- *)

  Definition listener_connected_p (hash : N) (txs : list N) (h : N) (which : Z) : prog unit :=
    if Z.eqb which 0 then gk_connect_p h
    else if Z.eqb which 1 then w_connect_p hash txs h
    else r_connect_p hash txs h.

  Definition listener_disconnected_p (hash : N) (h : N) (which : Z) : prog unit :=
    if Z.eqb which 0 then gk_disconnect_p h
    else if Z.eqb which 1 then w_disconnect_p hash h
    else r_disconnect_p hash h.

  Fixpoint run_listeners_p (f : Z -> prog unit) (order : list Z) : prog unit :=
    match order with
    | [] => Ret tt
    | w :: r => f w ;;; run_listeners_p f r
    end.

  Definition connect_p (hash : N) (txs : list N) (h : N) : prog unit :=
    run_listeners_p (listener_connected_p hash txs h) Consts.LISTENER_ORDER.
  Definition disconnect_p (hash : N) (h : N) : prog unit :=
    run_listeners_p (listener_disconnected_p hash h) Consts.LISTENER_ORDER.

  (* API requests: InternalAPI checks the reachability flag first *)
  Definition register_p (u : N) : prog out :=
    reach_p ;;; r <- add_update_user_p u ;; Ret (ORegisterRes r).
  Definition add_p (signer : option N) (loc : N) (b : blob) (delay sig : N) : prog out :=
    reach_p ;;; r <- add_appointment_p signer loc b delay sig ;; Ret (OAddRes r).
  Definition get_p (signer : option N) (loc : N) : prog out :=
    reach_p ;;; r <- get_appointment_p signer loc ;; Ret (OGetRes r).
  Definition getsub_p (signer : option N) : prog out :=
    reach_p ;;; r <- get_subscription_info_p signer ;; Ret (OSubRes r).

  (* the chain monitor's thread: block events one after the other.  `h` = height of the tip and
     `stack` = hashes of the blocks the indexes hold (newest first) when the thread starts *)
  Fixpoint chain_p (h : N) (stack : list N) (evs : list op) : prog unit :=
    match evs with
    | [] => Ret tt
    | OConnect hash txs :: r => connect_p hash txs (h + 1) ;;; chain_p (h + 1) (hash :: stack) r
    | ODisconnect :: r =>
        match stack with
        | hash :: st => disconnect_p hash h ;;; chain_p (h - 1) st r
        | [] => chain_p h stack r
        end
    | _ :: r => chain_p h stack r
    end.

  (* the program of one operation started in state t0 (what Tower.step runs sequentially) *)
  Definition prog_of_op (t0 : tower) (o : op) : prog out :=
    match o with
    | ORegister u => register_p u
    | OAdd signer loc b delay sig => add_p signer loc b delay sig
    | OGet signer loc => get_p signer loc
    | OGetSub signer => getsub_p signer
    | OConnect _ _ | ODisconnect =>
        chain_p (gk_height t0) (rev (ti_blocks (r_index t0))) [o] ;;; Ret OBlockRes
    end.

  (* a thread of the quantifier: one API request, or the chain monitor delivering block events *)
  Definition prog_of_thread (t0 : tower) (ops : list op) : prog out :=
    match ops with
    | [o] => prog_of_op t0 o
    | _ => chain_p (gk_height t0) (rev (ti_blocks (r_index t0))) ops ;;; Ret OBlockRes
    end.
End Programs.

(* ------------------------------------------------------------------------------------------ *)
(* interleaving semantics *)

(* how a thread ended *)
Inductive tout := TOut (o : out) | TPoisoned (l : lock).

Inductive tstate := Running (p : prog out) | Ended (r : tout).

Record cthread := mk_cthread {
  ct_st : tstate;
  ct_held : list lock;          (* most recently acquired first *)
  ct_trace : list lock          (* every acquisition so far, newest first *)
}.

Record conf := mk_conf {
  cf_tower : tower;
  cf_poisoned : list lock;
  cf_threads : list cthread
}.

Definition spawn (p : prog out) : cthread := mk_cthread (Running p) [] [].
Definition init_config (t : tower) (ps : list (prog out)) : conf := mk_conf t [] (map spawn ps).

Definition holds (th : cthread) (l : lock) : bool := memN l (ct_held th).
Definition is_held (c : conf) (l : lock) : bool := existsb (fun th => holds th l) (cf_threads c).
Definition remove_lock (l : lock) (held : list lock) : list lock := filter (fun x => negb (N.eqb x l)) held.

Fixpoint set_nth {A} (l : list A) (i : nat) (x : A) : list A :=
  match l, i with
  | [], _ => []
  | _ :: r, O => x :: r
  | y :: r, S j => y :: set_nth r j x
  end.

(* a panic: the thread ends, every mutex it holds is released and poisoned *)
Definition die (c : conf) (i : nat) (th : cthread) (t : tower) (r : tout) : conf :=
  mk_conf t (cf_poisoned c ++ ct_held th) (set_nth (cf_threads c) i (mk_cthread (Ended r) [] (ct_trace th))).

(* one event of thread i; None = the thread has ended, does not exist, or waits for a held lock *)
Definition step_thread (c : conf) (i : nat) : option conf :=
  match nth_error (cf_threads c) i with
  | None => None
  | Some th =>
      match ct_st th with
      | Ended _ => None
      | Running p =>
          match p with
          | Ret _ => None
          | Acq l k =>
              if is_held c l then None
              else if memN l (cf_poisoned c) then
                (* lock() returns the PoisonError (holding the guard), unwrap() panics *)
                Some (die c i (mk_cthread (ct_st th) (l :: ct_held th) (l :: ct_trace th)) (cf_tower c) (TPoisoned l))
              else Some (mk_conf (cf_tower c) (cf_poisoned c)
                                     (set_nth (cf_threads c) i (mk_cthread (Running k) (l :: ct_held th) (l :: ct_trace th))))
          | Rel l k =>
              Some (mk_conf (cf_tower c) (cf_poisoned c)
                                (set_nth (cf_threads c) i (mk_cthread (Running k) (remove_lock l (ct_held th)) (ct_trace th))))
          | Act B f k =>
              match f (cf_tower c) with
              | Ok b t' =>
                  Some (mk_conf t' (cf_poisoned c)
                                    (set_nth (cf_threads c) i (mk_cthread (Running (k b)) (ct_held th) (ct_trace th))))
              | Abort s t' => Some (die c i th t' (TOut (OAbort s)))
              end
          end
      end
  end.

(* a schedule is a word over thread indices, one letter per event; a letter naming a thread that
   cannot move is skipped *)
Definition sched_step (c : conf) (i : nat) : conf :=
  match step_thread c i with Some c' => c' | None => c end.
Definition run_config (c : conf) (sched : list nat) : conf := fold_left sched_step sched c.

Definition thread_result (th : cthread) : option tout :=
  match ct_st th with
  | Running (Ret o) => Some (TOut o)
  | Running _ => None
  | Ended r => Some r
  end.
Definition finished (th : cthread) : bool := match thread_result th with Some _ => true | None => false end.
Definition all_finished (c : conf) : bool := forallb finished (cf_threads c).

(* THE interleaving semantics: final shared state and what each thread returned (None = not finished) *)
Definition run_sched (t : tower) (ps : list (prog out)) (sched : list nat) : tower * list (option tout) :=
  let c := run_config (init_config t ps) sched in (cf_tower c, map thread_result (cf_threads c)).

(* ---- lock-acquisition granularity: what a controlled scheduler replays on the real code ----
   One letter = "thread i is granted the lock it asks for and runs until it asks for the next one
   (or ends)".  Everything a thread does before its first request happens when it is started
   (threads are started in index order). *)

(* thread-local run up to the next acquisition *)
Fixpoint settle (p : prog out) (t : tower) (held : list lock) : tstate * tower * list lock * list lock :=
  match p with
  | Ret o => (Running (Ret o), t, held, [])
  | Acq l k => (Running (Acq l k), t, held, [])
  | Rel l k => settle k t (remove_lock l held)
  | Act B f k =>
      match f t with
      | Ok b t' => settle (k b) t' held
      | Abort s t' => (Ended (TOut (OAbort s)), t', [], held)
      end
  end.

Definition settle_thread (c : conf) (i : nat) : conf :=
  match nth_error (cf_threads c) i with
  | None => c
  | Some th =>
      match ct_st th with
      | Ended _ => c
      | Running p =>
          let '(st, t', held, poisoned) := settle p (cf_tower c) (ct_held th) in
          mk_conf t' (cf_poisoned c ++ poisoned) (set_nth (cf_threads c) i (mk_cthread st held (ct_trace th)))
      end
  end.

Definition requested (th : cthread) : option lock :=
  match ct_st th with Running (Acq l _) => Some l | _ => None end.

(* threads waiting for a lock nobody holds *)
Fixpoint enabled_from (c : conf) (i : nat) (ths : list cthread) : list nat :=
  match ths with
  | [] => []
  | th :: r =>
      match requested th with
      | Some l => if is_held c l then enabled_from c (S i) r else i :: enabled_from c (S i) r
      | None => enabled_from c (S i) r
      end
  end.
Definition enabled (c : conf) : list nat := enabled_from c 0 (cf_threads c).

(* every unfinished thread waits for a lock another thread holds *)
Definition deadlocked (c : conf) : bool :=
  negb (all_finished c) && match enabled c with [] => true | _ => false end.

Definition start_config (t : tower) (ps : list (prog out)) : conf :=
  fold_left settle_thread (seq 0 (length ps)) (init_config t ps).

Definition coarse_step (c : conf) (i : nat) : option conf :=
  if existsb (Nat.eqb i) (enabled c) then
    match step_thread c i with
    | Some c' => Some (settle_thread c' i)
    | None => None
    end
  else None.

(* None = the word asks for a thread that is not waiting for a free lock *)
Fixpoint run_coarse (c : conf) (w : list nat) : option conf :=
  match w with
  | [] => Some c
  | i :: r => match coarse_step c i with Some c' => run_coarse c' r | None => None end
  end.

(* what the driver compares with the real code *)
Definition thread_trace (th : cthread) : list lock := rev (ct_trace th).

(* ------------------------------------------------------------------------------------------ *)
(* the property monitor on observations (final tables + gatekeeper memory + what was processed) *)

(* (ii) an appointment row whose locator is among the transactions of a processed block and that
   has no tracker: "stored and unwatched".  `excused uuid` = the node answered 'already in chain'
   for its penalty or its blob does not decrypt under that dispute (then the row must be gone). *)
Definition unwatched (apps : list app) (trks : list trk) (processed : list N) : list (N * N) :=
  map app_uuid (filter (fun a => memN (a_loc a) processed &&
                                 match find_trk trks (app_uuid a) with Some _ => false | None => true end) apps).

(* (iv) records without owner *)
Definition orphans (users : list (N * uinfo)) (apps : list app) (trks : list trk) : nat :=
  length (filter (fun a => negb (amem users (a_user a))) apps) +
  length (filter (fun k => match find_app apps (trk_uuid k) with Some _ => false | None => true end) trks).

(* (iii) ledger of one user: balance + slots held by its rows *)
Definition ledger (users : list (N * uinfo)) (apps : list app) (u : N) : N :=
  match aget users u with Some ui => u_slots ui | None => 0 end +
  fold_right (fun a s => (if N.eqb (a_user a) u then slots_of (b_len (a_blob a)) else 0) + s) 0 apps.
