(* Conc.v — generic lock-order theorem: if every thread only ever requests a lock that ranks
   strictly above all the locks it holds, no configuration is a deadlock. *)
From Coq Require Import List NArith Lia.
Import ListNotations.
Local Open Scope N_scope.

Record thread := mk_thread { th_held : list N; th_want : option N }.

(* a configuration: the threads with what they hold and what they are asking for *)
Definition cconfig := list thread.

Section Order.
  Context (rank : N -> N).

  (* the lock-order discipline *)
  Definition disciplined (c : cconfig) : Prop :=
    forall th l h, In th c -> th_want th = Some l -> In h (th_held th) -> rank h < rank l.

  (* a deadlock: somebody is asking, and everybody who is asking is asking for a lock held by a
     thread that is itself asking (nobody who could release is running) *)
  Definition deadlock (c : cconfig) : Prop :=
    (exists th l, In th c /\ th_want th = Some l) /\
    (forall th l, In th c -> th_want th = Some l ->
                  exists th' l', In th' c /\ In l (th_held th') /\ th_want th' = Some l').

  Definition bound (c : cconfig) : N :=
    fold_right (fun th b => N.max b (match th_want th with Some l => rank l | None => 0 end)) 0 c.

  Lemma want_bound (c : cconfig) th l : In th c -> th_want th = Some l -> rank l <= bound c.
  Proof.
    induction c as [|x c IH]; intros Hin Hw; [destruct Hin|].
    unfold bound in *. cbn [fold_right]. destruct Hin as [He|Hin].
    - subst x. rewrite Hw. lia.
    - specialize (IH Hin Hw). lia.
  Qed.

  Theorem lock_order_no_deadlock (c : cconfig) : disciplined c -> ~ deadlock c.
  Proof.
    intros Hd [[th0 [l0 [Hin0 Hw0]]] Hall].
    set (B := bound c).
    assert (HB : forall th l, In th c -> th_want th = Some l -> rank l <= B) by (intros; eapply want_bound; eauto).
    (* following holders yields strictly increasing wanted ranks: impossible below the bound *)
    assert (Hk : forall n th l, In th c -> th_want th = Some l -> B - rank l < N.of_nat n -> False).
    { induction n as [|n IH]; intros th l Hin Hw Hlt; [lia|].
      destruct (Hall th l Hin Hw) as [th' [l' [Hin' [Hheld Hw']]]].
      pose proof (Hd th' l' l Hin' Hw' Hheld) as Hr.
      pose proof (HB th' l' Hin' Hw') as Hb'.
      apply (IH th' l' Hin' Hw'). lia. }
    apply (Hk (S (N.to_nat B)) th0 l0 Hin0 Hw0). lia.
  Qed.
End Order.
