(* HttpTower.v — the HTTP layer (Http.v) in front of the tower core (Tower.v): what one HTTP request
   does to the tower state.  The internal API (teos/src/api/internal.rs) sits between them: it answers
   Unavailable while bitcoind is flagged unreachable, InvalidArgument for a user id that is not a public
   key, and otherwise turns the verdict of the core into a tonic status by the failure -> code rows the
   translator reads from internal.rs (the H_IA_ definitions of Gen/Http.v).  Definitions only. *)
From Coq Require Import ZArith NArith List Bool.
From TeosModel Require Import Base TxIndex Tower HttpBase Http.
From TeosModel.Gen Require Import Http.
Import ListNotations.

(* the operations the public API can trigger *)
Definition his_api_op (o : op) : bool :=
  match o with
  | ORegister _ | OAdd _ _ _ _ _ | OGet _ _ | OGetSub _ => true
  | OConnect _ _ | ODisconnect => false
  end.

(* internal.rs: Ok(..) -> Response, Err(failure) -> Status::new(Code::.., ..); an abort of the core kills the
   handler task (what tonic's client then reports is not modelled: Unknown) *)
Definition hgrpc_of_out (o : out) : hgrpc :=
  match o with
  | ORegisterRes (RegOk _ _ _) => GOk
  | ORegisterRes RegMaxSlots => GErr H_IA_register_Err
  | OAddRes (AddOk _ _ _ _) => GOk
  | OAddRes AddAuthOrSlots => GErr H_IA_add_appointment_AuthenticationFailure      (* = ..._NotEnoughSlots: HttpProofs.auth_or_slots_one_code *)
  | OAddRes (AddExpired _) => GErr H_IA_add_appointment_SubscriptionExpired
  | OAddRes AddTriggered => GErr H_IA_add_appointment_AlreadyTriggered
  | OGetRes (GetApp _ _ _) | OGetRes (GetTrk _ _) => GOk
  | OGetRes GetNotFound => GErr H_IA_get_appointment_NotFound
  | OGetRes GetAuth => GErr H_IA_get_appointment_AuthenticationFailure
  | OGetRes (GetExpired _) => GErr H_IA_get_appointment_SubscriptionExpired
  | OSubRes (SubOk _ _ _) => GOk
  | OSubRes SubAuth => GErr H_IA_get_subscription_info_AuthenticationFailure
  | OSubRes (SubExpired _) => GErr H_IA_get_subscription_info_SubscriptionExpired
  | OBlockRes => GOk
  | OAbort _ => GAbort H_TONIC_UNKNOWN
  end.

(* what a request that reaches the internal API does there.  `den` = the operation of the core the
   request denotes (who signed what: DESIGN 3.2), None for a register request whose user id is not a
   public key; `reachable` = the bitcoind_reachable flag *)
Definition hcore (le : bool) (t : tower) (reachable : bool) (den : option op) (sc : script) : tower * hgrpc :=
  if negb reachable then (t, GErr H_IA_UNAVAILABLE)                       (* check_service_unavailable()? *)
  else match den with
       | None => (t, GErr H_IA_register_BadUserId)                        (* UserId::from_slice(..).map_err(..)? *)
       | Some o => let (t', r) := step le t o sc in (t', hgrpc_of_out r)
       end.

(* one HTTP request against the tower: the core runs only when the HTTP layer forwards (by
   HttpProofs.forwarded_answer a forwarded request satisfies every unwrap of the internal API, so it does
   reach the core) *)
Definition hserve (le : bool) (t : tower) (reachable : bool) (rq : hrequest) (den : option op) (sc : script) : tower * hreply :=
  let (t', g) := hcore le t reachable den sc in
  let r := respond rq g in
  if rp_forwarded r then (t', r) else (t, r).
