(* ClientProofs.v — proofs about the store model Client.v (C18). *)
From TeosModel Require Import Base ListAux Db DbProofs Client.
Local Open Scope nat_scope.

Lemma CS_wf : schema_wf CS.
Proof. apply schema_wfb_sound. vm_compute. reflexivity. Qed.

Lemma CS_length : length CS = 8.
Proof. reflexivity. Qed.

Ltac destruct_table c :=
  destruct c as [|[|[|[|[|[|[|[|c]]]]]]]].

(* the table / column index constants of the generated schema, for `autounfold with clschema` *)
Global Hint Unfold T_towers C_towers_tower_id C_towers_net_addr C_towers_available_slots T_appointments C_appointments_locator C_appointments_encrypted_blob C_appointments_to_self_delay T_pending_appointments C_pending_appointments_locator C_pending_appointments_tower_id T_invalid_appointments C_invalid_appointments_locator C_invalid_appointments_tower_id T_registration_receipts C_registration_receipts_tower_id C_registration_receipts_available_slots C_registration_receipts_subscription_start C_registration_receipts_subscription_expiry C_registration_receipts_signature T_appointment_receipts C_appointment_receipts_locator C_appointment_receipts_tower_id C_appointment_receipts_start_block C_appointment_receipts_user_signature C_appointment_receipts_tower_signature T_misbehaving_proofs C_misbehaving_proofs_tower_id C_misbehaving_proofs_locator C_misbehaving_proofs_recovered_id T_keys C_keys_id C_keys_key : clschema.

(* rows built by mkrow are the expected positional rows *)
Lemma mkrow_towers t a s :
  mkrow T_towers [(C_towers_tower_id, t); (C_towers_net_addr, a); (C_towers_available_slots, s)] = [t; a; s].
Proof. reflexivity. Qed.
Lemma mkrow_pending l t :
  mkrow T_pending_appointments [(C_pending_appointments_locator, l); (C_pending_appointments_tower_id, t)] = [l; t].
Proof. reflexivity. Qed.
Lemma mkrow_invalid l t :
  mkrow T_invalid_appointments [(C_invalid_appointments_locator, l); (C_invalid_appointments_tower_id, t)] = [l; t].
Proof. reflexivity. Qed.
Lemma mkrow_rr t s a e g :
  mkrow T_registration_receipts
         [(C_registration_receipts_tower_id, t); (C_registration_receipts_available_slots, s);
          (C_registration_receipts_subscription_start, a);
          (C_registration_receipts_subscription_expiry, e);
          (C_registration_receipts_signature, g)] = [t; s; a; e; g].
Proof. reflexivity. Qed.
Lemma receipt_row_eq t l sb u g : receipt_row t l sb u g = [l; t; sb; u; g].
Proof. reflexivity. Qed.
Lemma body_row_eq l b dl : body_row l b dl = [l; b; dl].
Proof. reflexivity. Qed.
Lemma mkrow_proof t l rc :
  mkrow T_misbehaving_proofs [(C_misbehaving_proofs_tower_id, t); (C_misbehaving_proofs_locator, l);
                              (C_misbehaving_proofs_recovered_id, rc)] = [t; l; rc].
Proof. reflexivity. Qed.

(* ---------- generic helpers ---------- *)
Lemma proj1_col r c : proj r [c] = [col r c].
Proof. reflexivity. Qed.
Lemma proj2_col r a b : proj r [a; b] = [col r a; col r b].
Proof. reflexivity. Qed.

Lemma key1_eqb a b : key_eqb [a] [b] = N.eqb a b.
Proof. cbn. apply andb_true_r. Qed.
Lemma key2_eqb a b c d : key_eqb [a; b] [c; d] = N.eqb a c && N.eqb b d.
Proof. cbn. rewrite andb_true_r. reflexivity. Qed.

Lemma filter_ext_in' {A} (f g : A -> bool) l : (forall x, In x l -> f x = g x) -> filter f l = filter g l.
Proof.
  induction l as [|x l IH]; cbn; intros H; [reflexivity|].
  rewrite (H x (or_introl eq_refl)), IH; [reflexivity|]. intros y Hy. apply H. right. exact Hy.
Qed.

Lemma filter_all_true {A} (f : A -> bool) l : (forall x, In x l -> f x = true) -> filter f l = l.
Proof.
  induction l as [|x l IH]; cbn; intros H; [reflexivity|].
  rewrite (H x (or_introl eq_refl)), IH; [reflexivity|]. intros y Hy. apply H. right. exact Hy.
Qed.

(* database-level invariant of the client: integrity, the eight tables, and every tower row has
   at least one registration receipt (store_tower_record writes both in one transaction) *)
Definition has_receipt (d : db) (t : N) : Prop :=
  exists rr, In rr (tbl d T_registration_receipts) /\ col rr C_registration_receipts_tower_id = t.

Definition DbInv (d : db) : Prop :=
  db_ok CS d /\ arity_ok CS d /\ length d = 8 /\
  (forall tr, In tr (tbl d T_towers) -> has_receipt d (col tr C_towers_tower_id)).

Lemma dbm_new_eq : dbm_new = [[]; []; []; []; []; []; []; [[1%N; 1%N]]].
Proof. vm_compute. reflexivity. Qed.

Lemma DbInv_new : DbInv dbm_new.
Proof.
  rewrite dbm_new_eq. split; [|split; [|split; [reflexivity|intros tr []]]].
  - split; [apply fk_okb_sound|apply pk_okb_sound]; vm_compute; reflexivity.
  - intros c r Hr. destruct_table c; cbn in Hr; try contradiction; try (destruct c; cbn in Hr; contradiction).
    destruct Hr as [<-|[]]. reflexivity.
Qed.

(* the parent rows the foreign keys of the client schema promise *)
Lemma fk_pending_tower d r : fk_ok CS d -> In r (tbl d T_pending_appointments) ->
  exists tr, In tr (tbl d T_towers) /\ col tr C_towers_tower_id = col r C_pending_appointments_tower_id.
Proof.
  intros H Hr. pose proof (H T_pending_appointments r (mk_fkey [1] 0 [0] true) Hr) as Hp.
  assert (Hin : In (mk_fkey [1] 0 [0] true) (ts_fks (tsch CS T_pending_appointments))) by (cbn; auto).
  apply Hp in Hin. apply parent_present_iff in Hin. destruct Hin as [tr [A B]]. exists tr. split; [exact A|].
  cbn in B. inversion B as [B1]. exact B1.
Qed.

Lemma fk_pending_body d r : fk_ok CS d -> In r (tbl d T_pending_appointments) ->
  exists b, In b (tbl d T_appointments) /\ col b C_appointments_locator = col r C_pending_appointments_locator.
Proof.
  intros H Hr. pose proof (H T_pending_appointments r (mk_fkey [0] 1 [0] true) Hr) as Hp.
  assert (Hin : In (mk_fkey [0] 1 [0] true) (ts_fks (tsch CS T_pending_appointments))) by (cbn; auto).
  apply Hp in Hin. apply parent_present_iff in Hin. destruct Hin as [tr [A B]]. exists tr. split; [exact A|].
  cbn in B. inversion B as [B1]. exact B1.
Qed.

Lemma fk_invalid_tower d r : fk_ok CS d -> In r (tbl d T_invalid_appointments) ->
  exists tr, In tr (tbl d T_towers) /\ col tr C_towers_tower_id = col r C_invalid_appointments_tower_id.
Proof.
  intros H Hr. pose proof (H T_invalid_appointments r (mk_fkey [1] 0 [0] true) Hr) as Hp.
  assert (Hin : In (mk_fkey [1] 0 [0] true) (ts_fks (tsch CS T_invalid_appointments))) by (cbn; auto).
  apply Hp in Hin. apply parent_present_iff in Hin. destruct Hin as [tr [A B]]. exists tr. split; [exact A|].
  cbn in B. inversion B as [B1]. exact B1.
Qed.

Lemma fk_invalid_body d r : fk_ok CS d -> In r (tbl d T_invalid_appointments) ->
  exists b, In b (tbl d T_appointments) /\ col b C_appointments_locator = col r C_invalid_appointments_locator.
Proof.
  intros H Hr. pose proof (H T_invalid_appointments r (mk_fkey [0] 1 [0] true) Hr) as Hp.
  assert (Hin : In (mk_fkey [0] 1 [0] true) (ts_fks (tsch CS T_invalid_appointments))) by (cbn; auto).
  apply Hp in Hin. apply parent_present_iff in Hin. destruct Hin as [tr [A B]]. exists tr. split; [exact A|].
  cbn in B. inversion B as [B1]. exact B1.
Qed.

Lemma fk_rr_tower d r : fk_ok CS d -> In r (tbl d T_registration_receipts) ->
  exists tr, In tr (tbl d T_towers) /\ col tr C_towers_tower_id = col r C_registration_receipts_tower_id.
Proof.
  intros H Hr. pose proof (H T_registration_receipts r (mk_fkey [0] 0 [0] true) Hr) as Hp.
  assert (Hin : In (mk_fkey [0] 0 [0] true) (ts_fks (tsch CS T_registration_receipts))) by (cbn; auto).
  apply Hp in Hin. apply parent_present_iff in Hin. destruct Hin as [tr [A B]]. exists tr. split; [exact A|].
  cbn in B. inversion B as [B1]. exact B1.
Qed.

Lemma fk_ar_tower d r : fk_ok CS d -> In r (tbl d T_appointment_receipts) ->
  exists tr, In tr (tbl d T_towers) /\ col tr C_towers_tower_id = col r C_appointment_receipts_tower_id.
Proof.
  intros H Hr. pose proof (H T_appointment_receipts r (mk_fkey [1] 0 [0] true) Hr) as Hp.
  assert (Hin : In (mk_fkey [1] 0 [0] true) (ts_fks (tsch CS T_appointment_receipts))) by (cbn; auto).
  apply Hp in Hin. apply parent_present_iff in Hin. destruct Hin as [tr [A B]]. exists tr. split; [exact A|].
  cbn in B. inversion B as [B1]. exact B1.
Qed.

Lemma fk_proof_receipt d r : fk_ok CS d -> In r (tbl d T_misbehaving_proofs) ->
  exists rc, In rc (tbl d T_appointment_receipts) /\
    col rc C_appointment_receipts_locator = col r C_misbehaving_proofs_locator /\
    col rc C_appointment_receipts_tower_id = col r C_misbehaving_proofs_tower_id.
Proof.
  intros H Hr. pose proof (H T_misbehaving_proofs r (mk_fkey [1; 0] 5 [0; 1] true) Hr) as Hp.
  assert (Hin : In (mk_fkey [1; 0] 5 [0; 1] true) (ts_fks (tsch CS T_misbehaving_proofs))) by (cbn; auto).
  apply Hp in Hin. apply parent_present_iff in Hin. destruct Hin as [tr [A B]]. exists tr. split; [exact A|].
  cbn in B. inversion B as [[B1 B2]]. split; [exact B1|exact B2].
Qed.

(* ---------- what the three DELETE statements of the client remove (cascade lemma, instantiated) ---------- *)
Definition abandon_root (t : N) := where_root T_towers [C_towers_tower_id] [t].

Lemma where_root_true t0 cols vals c r :
  where_root t0 cols vals c r = true <-> c = t0 /\ proj r cols = vals.
Proof.
  unfold where_root. rewrite andb_true_iff, Nat.eqb_eq, key_eqb_eq. tauto.
Qed.


Lemma doomed_abandon_sound d t c r :
  Doomed CS d (abandon_root t) c r -> row_of_tower c t r = true.
Proof.
  intros HD. induction HD as [c r Hr Hroot|c r fk r' Hr Hfk Hc Hr' HD IH Hk].
  - apply where_root_true in Hroot. destruct Hroot as [-> Hp]. cbn in Hp. inversion Hp as [E].
    unfold row_of_tower. cbn. unfold col. cbn. apply N.eqb_refl.
  - destruct_table c; cbn in Hfk; try contradiction; try (destruct c; cbn in Hfk; contradiction);
      repeat (destruct Hfk as [<-|Hfk]); try contradiction;
      cbn in IH, Hk |- *; unfold row_of_tower, col in *; cbn in *; autounfold with clschema in *;
      try discriminate; inversion Hk; congruence.
Qed.

Lemma doomed_abandon_complete d t c r :
  fk_ok CS d -> In r (tbl d c) -> row_of_tower c t r = true -> Doomed CS d (abandon_root t) c r.
Proof.
  intros Hfk Hr Hrow.
  assert (Htow : forall tr, In tr (tbl d T_towers) -> col tr C_towers_tower_id = t -> Doomed CS d (abandon_root t) T_towers tr).
  { intros tr Htr E. apply Doomed_root; [exact Htr|]. apply where_root_true. split; [reflexivity|].
    cbn. f_equal. exact E. }
  assert (Har : forall rc, In rc (tbl d T_appointment_receipts) -> col rc C_appointment_receipts_tower_id = t ->
                           Doomed CS d (abandon_root t) T_appointment_receipts rc).
  { intros rc Hrc E. destruct (fk_ar_tower d rc Hfk Hrc) as [tr [Htr Et]].
    apply (Doomed_child CS d _ T_appointment_receipts rc (mk_fkey [1] 0 [0] true) tr); auto.
    - cbn. auto.
    - apply Htow; [exact Htr|congruence].
    - cbn. f_equal. exact Et. }
  unfold row_of_tower in Hrow. destruct_table c; cbn in Hrow; try discriminate; apply N.eqb_eq in Hrow.
  - apply Htow; assumption.
  - destruct (fk_pending_tower d r Hfk Hr) as [tr [Htr Et]].
    apply (Doomed_child CS d _ T_pending_appointments r (mk_fkey [1] 0 [0] true) tr); auto.
    + cbn. auto.
    + apply Htow; [exact Htr|congruence].
    + cbn. f_equal. exact Et.
  - destruct (fk_invalid_tower d r Hfk Hr) as [tr [Htr Et]].
    apply (Doomed_child CS d _ T_invalid_appointments r (mk_fkey [1] 0 [0] true) tr); auto.
    + cbn. auto.
    + apply Htow; [exact Htr|congruence].
    + cbn. f_equal. exact Et.
  - destruct (fk_rr_tower d r Hfk Hr) as [tr [Htr Et]].
    apply (Doomed_child CS d _ T_registration_receipts r (mk_fkey [0] 0 [0] true) tr); auto.
    + cbn. auto.
    + apply Htow; [exact Htr|congruence].
    + cbn. f_equal. exact Et.
  - apply Har; assumption.
  - destruct (fk_proof_receipt d r Hfk Hr) as [rc [Hrc [E1 E2]]].
    apply (Doomed_child CS d _ T_misbehaving_proofs r (mk_fkey [1; 0] 5 [0; 1] true) rc); auto.
    + cbn. auto.
    + apply Har; [exact Hrc|congruence].
    + cbn. f_equal; [exact E1|f_equal; exact E2].
Qed.

Lemma CS_all_cascade c fk : In fk (ts_fks (tsch CS c)) -> fk_cascade fk = true.
Proof.
  destruct_table c; cbn; try tauto; try (destruct c; cbn; tauto);
    intros H; repeat (destruct H as [<-|H]); try contradiction; reflexivity.
Qed.

Lemma existsb_all_false {A} (f : A -> bool) l : (forall x, In x l -> f x = false) -> existsb f l = false.
Proof.
  induction l as [|x l IH]; cbn; intros H; [reflexivity|].
  rewrite (H x (or_introl eq_refl)), IH; [reflexivity|]. intros y Hy. apply H. right. exact Hy.
Qed.

Lemma existsb_map_idx_from_all_false {A} (g : nat -> A -> bool) l i :
  (forall c x, g c x = false) -> existsb (fun x => x) (map_idx_from i g l) = false.
Proof.
  intros H. revert i. induction l as [|x l IH]; intros i; cbn; [reflexivity|]. rewrite H, IH. reflexivity.
Qed.

(* no foreign key of the client schema is NO ACTION: a DELETE never fails on a constraint *)
Lemma delete_root_total d root : exists d', db_delete_root CS d root = DbOk d'.
Proof.
  unfold db_delete_root, map_idx. rewrite existsb_map_idx_from_all_false; [eexists; reflexivity|].
  intros c rows. apply existsb_all_false. intros r _. unfold orphanedb. apply andb_false_iff. right.
  apply existsb_all_false. intros fk Hfk. rewrite (CS_all_cascade c fk Hfk). reflexivity.
Qed.

Lemma tbl_delete_root d root d' :
  db_delete_root CS d root = DbOk d' ->
  (forall c, tbl d' c = filter (fun r => negb (doomed CS d root c r)) (tbl d c)) /\ length d' = length d.
Proof. intros H. apply db_delete_root_inv in H. tauto. Qed.

(* a DELETE expressed with the set of rows it removes *)
Lemma delete_root_spec d root d' (P : nat -> row -> bool) :
  db_delete_root CS d root = DbOk d' ->
  (forall c r, In r (tbl d c) -> (Doomed CS d root c r <-> P c r = true)) ->
  forall c, tbl d' c = filter (fun r => negb (P c r)) (tbl d c).
Proof.
  intros H HP c. destruct (tbl_delete_root d root d' H) as [Ht _]. rewrite Ht.
  apply filter_ext_in'. intros r Hr. f_equal.
  destruct (doomed CS d root c r) eqn:E.
  - apply (doomed_iff CS d root CS_wf c r Hr) in E. apply HP in E; [|exact Hr]. symmetry. exact E.
  - destruct (P c r) eqn:E2; [|reflexivity]. apply HP in E2; [|exact Hr].
    apply (doomed_iff CS d root CS_wf c r Hr) in E2. congruence.
Qed.

(* abandon: the rows of tower t in the six tower-keyed tables, nothing else *)
Lemma abandon_delete_spec d t d' :
  fk_ok CS d -> db_delete_root CS d (abandon_root t) = DbOk d' ->
  forall c, tbl d' c = filter (fun r => negb (row_of_tower c t r)) (tbl d c).
Proof.
  intros Hfk H. apply (delete_root_spec d _ d' (fun c r => row_of_tower c t r) H).
  intros c r Hr. split; [apply doomed_abandon_sound|apply doomed_abandon_complete; assumption].
Qed.

(* DELETE FROM pending_appointments WHERE locator=l AND tower_id=t: that row only *)
Definition pending_root (t l : N) :=
  where_root T_pending_appointments [C_pending_appointments_locator; C_pending_appointments_tower_id] [l; t].
Definition is_pending_key (t l : N) (c : nat) (r : row) : bool :=
  Nat.eqb c T_pending_appointments &&
  key_eqb (proj r [C_pending_appointments_locator; C_pending_appointments_tower_id]) [l; t].

Lemma doomed_pending_row d t l c r :
  Doomed CS d (pending_root t l) c r <-> (In r (tbl d c) /\ is_pending_key t l c r = true).
Proof.
  split.
  - intros HD. induction HD as [c r Hr Hroot|c r fk r' Hr Hfk Hc Hr' HD IH Hk].
    + split; [exact Hr|exact Hroot].
    + destruct IH as [_ IH]. unfold is_pending_key in IH. apply andb_true_iff in IH. destruct IH as [IH _].
      apply Nat.eqb_eq in IH.
      destruct_table c; cbn in Hfk; try contradiction; try (destruct c; cbn in Hfk; contradiction);
        repeat (destruct Hfk as [<-|Hfk]); try contradiction; cbn in IH; discriminate.
  - intros [Hr H]. apply Doomed_root; assumption.
Qed.

Lemma pending_delete_spec d t l d' :
  db_delete_root CS d (pending_root t l) = DbOk d' ->
  forall c, tbl d' c = filter (fun r => negb (is_pending_key t l c r)) (tbl d c).
Proof.
  intros H. apply (delete_root_spec d _ d' (is_pending_key t l) H).
  intros c r Hr. rewrite doomed_pending_row. tauto.
Qed.

(* DELETE FROM appointments WHERE locator=l: the body and, by cascade, every pending / invalid row on l *)
Definition body_root (l : N) := where_root T_appointments [C_appointments_locator] [l].
Definition on_locator (l : N) (c : nat) (r : row) : bool :=
  (Nat.eqb c T_appointments || Nat.eqb c T_pending_appointments || Nat.eqb c T_invalid_appointments) &&
  N.eqb (nth 0 r 0%N) l.

Lemma doomed_body_sound d l c r : Doomed CS d (body_root l) c r -> on_locator l c r = true.
Proof.
  intros HD. induction HD as [c r Hr Hroot|c r fk r' Hr Hfk Hc Hr' HD IH Hk].
  - apply where_root_true in Hroot. destruct Hroot as [-> Hp]. cbn in Hp. inversion Hp as [E].
    unfold on_locator. cbn. apply N.eqb_refl.
  - unfold on_locator in *.
    destruct_table c; cbn in Hfk; try contradiction; try (destruct c; cbn in Hfk; contradiction);
      repeat (destruct Hfk as [<-|Hfk]); try contradiction;
      cbn in IH, Hk |- *; try discriminate; inversion Hk; congruence.
Qed.

Lemma doomed_body_complete d l c r :
  fk_ok CS d -> In r (tbl d c) -> on_locator l c r = true -> Doomed CS d (body_root l) c r.
Proof.
  intros Hfk Hr H. unfold on_locator in H. apply andb_true_iff in H. destruct H as [Hc Hl]. apply N.eqb_eq in Hl.
  assert (Hb : forall b, In b (tbl d T_appointments) -> col b C_appointments_locator = l ->
                         Doomed CS d (body_root l) T_appointments b).
  { intros b Hbin E. apply Doomed_root; [exact Hbin|]. apply where_root_true. split; [reflexivity|].
    cbn. f_equal. exact E. }
  destruct_table c; cbn in Hc; try discriminate.
  - apply Hb; assumption.
  - destruct (fk_pending_body d r Hfk Hr) as [b [Hbin E]].
    apply (Doomed_child CS d _ T_pending_appointments r (mk_fkey [0] 1 [0] true) b); auto.
    + cbn. auto.
    + apply Hb; [exact Hbin|]. rewrite E. exact Hl.
    + cbn. f_equal. exact E.
  - destruct (fk_invalid_body d r Hfk Hr) as [b [Hbin E]].
    apply (Doomed_child CS d _ T_invalid_appointments r (mk_fkey [0] 1 [0] true) b); auto.
    + cbn. auto.
    + apply Hb; [exact Hbin|]. rewrite E. exact Hl.
    + cbn. f_equal. exact E.
Qed.

Lemma body_delete_spec d l d' :
  fk_ok CS d -> db_delete_root CS d (body_root l) = DbOk d' ->
  forall c, tbl d' c = filter (fun r => negb (on_locator l c r)) (tbl d c).
Proof.
  intros Hfk H. apply (delete_root_spec d _ d' (on_locator l) H).
  intros c r Hr. split; [apply doomed_body_sound|apply doomed_body_complete; assumption].
Qed.

(* the garbage collection of remove_tower_record: the unreferenced bodies only *)
Lemma doomed_gc d0 d c r :
  (forall b, In b (tbl d T_appointments) -> unreferenced_root d0 T_appointments b = true ->
     (forall p, In p (tbl d T_pending_appointments) -> col p C_pending_appointments_locator <> col b C_appointments_locator) /\
     (forall p, In p (tbl d T_invalid_appointments) -> col p C_invalid_appointments_locator <> col b C_appointments_locator)) ->
  (Doomed CS d (unreferenced_root d0) c r <-> (In r (tbl d c) /\ unreferenced_root d0 c r = true)).
Proof.
  intros Hun. split.
  - intros HD. induction HD as [c r Hr Hroot|c r fk r' Hr Hfk Hc Hr' HD IH Hk].
    + tauto.
    + destruct IH as [Hin IH]. pose proof IH as IH0. unfold unreferenced_root in IH. apply andb_true_iff in IH.
      destruct IH as [IH _]. apply Nat.eqb_eq in IH.
      destruct_table c; cbn in Hfk; try contradiction; try (destruct c; cbn in Hfk; contradiction);
        repeat (destruct Hfk as [<-|Hfk]); try contradiction; cbn in IH; try discriminate; exfalso.
      * destruct (Hun r' Hr' IH0) as [A _]. apply (A r Hr). cbn in Hk. inversion Hk as [E]. symmetry. exact E.
      * destruct (Hun r' Hr' IH0) as [_ A]. apply (A r Hr). cbn in Hk. inversion Hk as [E]. symmetry. exact E.
  - intros [Hr H]. apply Doomed_root; assumption.
Qed.

(* ---------- association lists ---------- *)
Lemma aget_aretain {V} (p : N -> bool) (m : amap V) k :
  aget (aretain p m) k = if p k then aget m k else None.
Proof.
  unfold aretain. induction m as [|[k' v] m IH]; cbn; [destruct (p k); reflexivity|].
  destruct (N.eqb k k') eqn:E.
  - apply N.eqb_eq in E. subst k'. destruct (p k) eqn:Ep; cbn.
    + rewrite N.eqb_refl. reflexivity.
    + exact IH.
  - destruct (p k') eqn:Ep'; cbn; [rewrite E|]; exact IH.
Qed.

Lemma aget_aremove {V} (m : amap V) t k : aget (aremove m t) k = if N.eqb k t then None else aget m k.
Proof. unfold aremove. rewrite aget_aretain. destruct (N.eqb k t); reflexivity. Qed.

Lemma aget_aset {V} (m : amap V) t v k : aget (aset m t v) k = if N.eqb k t then Some v else aget m k.
Proof. unfold aset. cbn. destruct (N.eqb k t) eqn:E; [reflexivity|]. rewrite aget_aremove, E. reflexivity. Qed.

Lemma aget_In_fst {V} (m : amap V) k v : aget m k = Some v -> In k (map fst m).
Proof.
  induction m as [|[k' v'] m IH]; cbn; [discriminate|].
  destruct (N.eqb k k') eqn:E; [apply N.eqb_eq in E; auto|auto].
Qed.

Lemma aget_None_not_In {V} (m : amap V) k : aget m k = None -> ~ In k (map fst m).
Proof.
  induction m as [|[k' v'] m IH]; cbn; [tauto|].
  destruct (N.eqb k k') eqn:E; [discriminate|]. apply N.eqb_neq in E. intros H [A|A]; [congruence|]. exact (IH H A).
Qed.

(* ---------- find over tables ---------- *)
Lemma find_some_iff_unique {A} (f : A -> bool) (g : A -> key) l x :
  NoDup (map g l) -> (forall a b, f a = true -> f b = true -> g a = g b) ->
  In x l -> f x = true -> find f l = Some x.
Proof.
  induction l as [|y l IH]; cbn; intros Hnd Hg Hin Hf; [contradiction|].
  inversion Hnd as [|? ? Hny Hnd']; subst. destruct (f y) eqn:Ey.
  - destruct Hin as [->|Hin]; [reflexivity|]. exfalso. apply Hny. rewrite (Hg y x Ey Hf). apply in_map. exact Hin.
  - destruct Hin as [->|Hin]; [congruence|]. apply IH; assumption.
Qed.

Lemma find_none_iff {A} (f : A -> bool) l : find f l = None <-> forall x, In x l -> f x = false.
Proof.
  split.
  - intros H x Hx. exact (find_none f l H x Hx).
  - induction l as [|y l IH]; cbn; intros H; [reflexivity|].
    rewrite (H y (or_introl eq_refl)). apply IH. intros x Hx. apply H. right. exact Hx.
Qed.

Lemma find_pk_Some d tb k r : find_pk CS d tb k = Some r -> In r (tbl d tb) /\ proj r (ts_pk (tsch CS tb)) = k.
Proof. unfold find_pk. intros H. apply find_some in H. destruct H as [A B]. apply key_eqb_eq in B. tauto. Qed.

Lemma find_pk_unique d tb k r : pk_ok CS d -> In r (tbl d tb) -> proj r (ts_pk (tsch CS tb)) = k -> find_pk CS d tb k = Some r.
Proof.
  intros Hpk Hr Hk. unfold find_pk.
  apply (find_some_iff_unique _ (fun r => proj r (ts_pk (tsch CS tb)))).
  - apply Hpk.
  - intros a b Ha Hb. apply key_eqb_eq in Ha, Hb. congruence.
  - exact Hr.
  - apply key_eqb_eq. exact Hk.
Qed.

Lemma find_pk_None d tb k : find_pk CS d tb k = None <-> forall r, In r (tbl d tb) -> proj r (ts_pk (tsch CS tb)) <> k.
Proof.
  unfold find_pk. rewrite find_none_iff. split; intros H r Hr.
  - apply key_eqb_neq. apply H. exact Hr.
  - apply key_eqb_neq. apply H. exact Hr.
Qed.

Lemma existsb_find {A} (f : A -> bool) l : existsb f l = match find f l with Some _ => true | None => false end.
Proof. induction l as [|x l IH]; cbn; [reflexivity|]. destruct (f x); cbn; [reflexivity|exact IH]. Qed.

Lemma has_pk_find d tb k : has_pk CS d tb k = match find_pk CS d tb k with Some _ => true | None => false end.
Proof. unfold has_pk, find_pk. apply existsb_find. Qed.

(* find_pk depends on the table only *)
Lemma find_pk_ext d d' tb k : tbl d' tb = tbl d tb -> find_pk CS d' tb k = find_pk CS d tb k.
Proof. unfold find_pk. intros ->. reflexivity. Qed.

Lemma find_filter_keep {A} (f p : A -> bool) l :
  (forall x, In x l -> f x = true -> p x = true) -> find f (filter p l) = find f l.
Proof.
  induction l as [|y l IH]; cbn; intros H; [reflexivity|].
  destruct (p y) eqn:Ep; cbn.
  - destruct (f y); [reflexivity|]. apply IH. intros x Hx. apply H. right. exact Hx.
  - destruct (f y) eqn:Ef; [rewrite (H y (or_introl eq_refl) Ef) in Ep; discriminate|].
    apply IH. intros x Hx. apply H. right. exact Hx.
Qed.

Lemma find_map_key {A} (f : A -> bool) (g : A -> A) l :
  (forall x, f (g x) = f x) -> find f (map g l) = option_map g (find f l).
Proof.
  intros H. induction l as [|y l IH]; cbn; [reflexivity|]. rewrite H. destruct (f y); [reflexivity|exact IH].
Qed.

(* ---------- the views a summary is computed from ---------- *)
Lemma max_receipt_ext d d' t : tbl d' T_registration_receipts = tbl d T_registration_receipts -> max_receipt d' t = max_receipt d t.
Proof. unfold max_receipt. intros ->. reflexivity. Qed.
Lemma pending_locators_ext d d' t : tbl d' T_pending_appointments = tbl d T_pending_appointments -> pending_locators d' t = pending_locators d t.
Proof. unfold pending_locators. intros ->. reflexivity. Qed.
Lemma invalid_locators_ext d d' t : tbl d' T_invalid_appointments = tbl d T_invalid_appointments -> invalid_locators d' t = invalid_locators d t.
Proof. unfold invalid_locators. intros ->. reflexivity. Qed.

Definition rr_step (t : N) (best : option row) (r : row) : option row :=
  if N.eqb (col r C_registration_receipts_tower_id) t then
    match best with
    | None => Some r
    | Some b => if N.ltb (col b C_registration_receipts_subscription_expiry)
                         (col r C_registration_receipts_subscription_expiry)
                then Some r else Some b
    end
  else best.

Lemma max_receipt_fold d t : max_receipt d t = fold_left (rr_step t) (tbl d T_registration_receipts) None.
Proof. reflexivity. Qed.

Lemma fold_rr_filter t p l acc :
  (forall r, In r l -> col r C_registration_receipts_tower_id = t -> p r = true) ->
  fold_left (rr_step t) (filter p l) acc = fold_left (rr_step t) l acc.
Proof.
  revert acc. induction l as [|r l IH]; cbn; intros acc H; [reflexivity|].
  destruct (p r) eqn:Ep; cbn.
  - apply IH. intros x Hx. apply H. right. exact Hx.
  - rewrite IH by (intros x Hx; apply H; right; exact Hx). f_equal. unfold rr_step.
    destruct (N.eqb (col r C_registration_receipts_tower_id) t) eqn:E; [|reflexivity].
    apply N.eqb_eq in E. rewrite (H r (or_introl eq_refl) E) in Ep. discriminate.
Qed.

Lemma fold_rr_none t l : (forall r, In r l -> col r C_registration_receipts_tower_id <> t) -> fold_left (rr_step t) l None = None.
Proof.
  induction l as [|r l IH]; cbn; intros H; [reflexivity|].
  unfold rr_step at 2. destruct (N.eqb (col r C_registration_receipts_tower_id) t) eqn:E.
  - apply N.eqb_eq in E. exfalso. exact (H r (or_introl eq_refl) E).
  - apply IH. intros x Hx. apply H. right. exact Hx.
Qed.

(* the fold returns a receipt of t whose expiry is maximal *)
Lemma fold_rr_spec t l : forall acc,
  (forall b, acc = Some b -> col b C_registration_receipts_tower_id = t) ->
  match fold_left (rr_step t) l acc with
  | Some m => col m C_registration_receipts_tower_id = t /\ (acc = Some m \/ In m l) /\
              (forall b, acc = Some b -> (col b C_registration_receipts_subscription_expiry <= col m C_registration_receipts_subscription_expiry)%N) /\
              (forall r, In r l -> col r C_registration_receipts_tower_id = t ->
                         (col r C_registration_receipts_subscription_expiry <= col m C_registration_receipts_subscription_expiry)%N)
  | None => acc = None /\ forall r, In r l -> col r C_registration_receipts_tower_id <> t
  end.
Proof.
  induction l as [|r l IH]; intros acc Hacc; cbn [fold_left].
  - destruct acc as [b|]; [|split; [reflexivity|intros r []]].
    split; [apply Hacc; reflexivity|]. split; [left; reflexivity|]. split; [|intros r []].
    intros b' E. injection E as <-. apply N.le_refl.
  - assert (Hacc' : forall b, rr_step t acc r = Some b -> col b C_registration_receipts_tower_id = t).
    { intros b. unfold rr_step. destruct (N.eqb (col r C_registration_receipts_tower_id) t) eqn:E.
      - apply N.eqb_eq in E. destruct acc as [b0|].
        + destruct (N.ltb _ _); intros H; injection H as <-; [exact E|apply Hacc; reflexivity].
        + intros H; injection H as <-; exact E.
      - apply Hacc. }
    specialize (IH (rr_step t acc r) Hacc'). destruct (fold_left (rr_step t) l (rr_step t acc r)) as [m|].
    + destruct IH as [Hm [Hsrc [Hge Hall]]]. split; [exact Hm|].
      unfold rr_step in Hsrc, Hge. destruct (N.eqb (col r C_registration_receipts_tower_id) t) eqn:E.
      * destruct acc as [b0|].
        -- destruct (N.ltb (col b0 C_registration_receipts_subscription_expiry) (col r C_registration_receipts_subscription_expiry)) eqn:El.
           ++ apply N.ltb_lt in El. split; [destruct Hsrc as [Hs|Hs]; [injection Hs as ->; right; left; reflexivity|right; right; exact Hs]|].
              split.
              ** intros b Eb. injection Eb as <-. specialize (Hge r eq_refl). lia.
              ** intros x [<-|Hx] Ex; [apply Hge; reflexivity|apply Hall; assumption].
           ++ apply N.ltb_ge in El. split; [destruct Hsrc as [Hs|Hs]; [left; exact Hs|right; right; exact Hs]|].
              split.
              ** intros b Eb. injection Eb as <-. apply Hge. reflexivity.
              ** intros x [<-|Hx] Ex; [specialize (Hge b0 eq_refl); lia|apply Hall; assumption].
        -- split; [destruct Hsrc as [Hs|Hs]; [injection Hs as ->; right; left; reflexivity|right; right; exact Hs]|].
           split; [intros b Eb; discriminate|].
           intros x [<-|Hx] Ex; [apply Hge; reflexivity|apply Hall; assumption].
      * apply N.eqb_neq in E. split; [destruct Hsrc as [Hs|Hs]; [left; exact Hs|right; right; exact Hs]|].
        split; [exact Hge|]. intros x [<-|Hx] Ex; [contradiction|apply Hall; assumption].
    + destruct IH as [Hn Hall]. unfold rr_step in Hn.
      destruct (N.eqb (col r C_registration_receipts_tower_id) t) eqn:E.
      * destruct acc as [b0|]; [destruct (N.ltb _ _); discriminate|discriminate].
      * apply N.eqb_neq in E. split; [exact Hn|]. intros x [<-|Hx]; [exact E|apply Hall; exact Hx].
Qed.

(* ---------- memory = disk: the invariant ---------- *)
Definition set_eq (a b : list N) : Prop := forall x, In x a <-> In x b.

Definition summary_matches (d : db) (t : N) (s : summary) : Prop :=
  exists tr rr, find_pk CS d T_towers [t] = Some tr /\ max_receipt d t = Some rr /\
    su_addr s = col tr C_towers_net_addr /\ su_slots s = col tr C_towers_available_slots /\
    su_start s = col rr C_registration_receipts_subscription_start /\
    su_expiry s = col rr C_registration_receipts_subscription_expiry /\
    set_eq (su_pending s) (pending_locators d t) /\ set_eq (su_invalid s) (invalid_locators d t).

Definition MemInv (c : client) : Prop :=
  (forall t s, aget (c_towers c) t = Some s -> summary_matches (c_db c) t s) /\
  (forall t, aget (c_towers c) t = None -> find_pk CS (c_db c) T_towers [t] = None).

Definition Inv (c : client) : Prop := DbInv (c_db c) /\ (c_poisoned c = false -> MemInv c).

(* summary_matches only looks at four tables *)
Lemma summary_matches_ext d d' t s :
  tbl d' T_towers = tbl d T_towers -> tbl d' T_registration_receipts = tbl d T_registration_receipts ->
  tbl d' T_pending_appointments = tbl d T_pending_appointments ->
  tbl d' T_invalid_appointments = tbl d T_invalid_appointments ->
  summary_matches d t s -> summary_matches d' t s.
Proof.
  intros E0 E4 E2 E3 [tr [rr H]]. exists tr, rr.
  rewrite (find_pk_ext d d' _ _ E0), (max_receipt_ext d d' t E4), (pending_locators_ext d d' t E2),
    (invalid_locators_ext d d' t E3). exact H.
Qed.

Lemma exec_ignore_insert_frame d tb r :
  (forall c, c <> tb -> tbl (exec_ignore CS d (SInsert tb r)) c = tbl d c) /\
  length (exec_ignore CS d (SInsert tb r)) = length d.
Proof.
  unfold exec_ignore. cbn [exec]. destruct (db_insert CS d tb r) as [d1|e] eqn:E; [|split; reflexivity].
  apply tbl_insert in E. destruct E as [_ [E L]]. split; [exact E|exact L].
Qed.

Lemma DbInv_frame d d' :
  db_ok CS d' -> arity_ok CS d' -> length d' = length d ->
  (forall tr, In tr (tbl d' T_towers) -> exists tr0, In tr0 (tbl d T_towers) /\ col tr0 C_towers_tower_id = col tr C_towers_tower_id) ->
  (forall rr, In rr (tbl d T_registration_receipts) -> exists rr', In rr' (tbl d' T_registration_receipts) /\
       col rr' C_registration_receipts_tower_id = col rr C_registration_receipts_tower_id) ->
  DbInv d -> DbInv d'.
Proof.
  intros Hok Har Hl Ht Hr [_ [_ [L Hrec]]]. split; [exact Hok|]. split; [exact Har|]. split; [congruence|].
  intros tr Htr. destruct (Ht tr Htr) as [tr0 [Htr0 E]]. destruct (Hrec tr0 Htr0) as [rr [Hrr Err]].
  destruct (Hr rr Hrr) as [rr' [Hrr' E']]. exists rr'. split; [exact Hrr'|congruence].
Qed.

(* store_pending_appointment / store_invalid_appointment *)
Lemma store_pending_spec d t l b dl d' :
  DbInv d -> dbm_store_pending_appointment d t l b dl = DbOk d' ->
  DbInv d' /\ tbl d' T_pending_appointments = tbl d T_pending_appointments ++ [[l; t]] /\
  (forall c, c <> T_pending_appointments -> c <> T_appointments -> tbl d' c = tbl d c).
Proof.
  intros HI H. unfold dbm_store_pending_appointment in H. rewrite mkrow_pending in H.
  destruct (exec_ignore_insert_frame d T_appointments (body_row l b dl)) as [F1 L1].
  set (d1 := exec_ignore CS d (SInsert T_appointments (body_row l b dl))) in *.
  pose proof (tbl_insert CS d1 _ _ d' H) as [Tt [To L]].
  assert (Hok1 : db_ok CS d1) by (apply exec_ignore_ok; [apply CS_wf|apply HI]).
  assert (Hok : db_ok CS d') by (exact (insert_preserves_ok CS d1 _ _ d' Hok1 H)).
  assert (Har : arity_ok CS d').
  { refine (exec_preserves_arity CS d1 (SInsert _ _) d' _ H). apply exec_ignore_arity. apply HI. }
  split; [|split].
  - apply (DbInv_frame d d'); auto; try congruence.
    + intros tr Htr. exists tr. split; [|reflexivity]. rewrite To in Htr by discriminate. rewrite F1 in Htr by discriminate. exact Htr.
    + intros rr Hrr. exists rr. split; [|reflexivity]. rewrite To by discriminate. rewrite F1 by discriminate. exact Hrr.
  - rewrite Tt, F1 by discriminate. reflexivity.
  - intros c H2 H1. rewrite To by exact H2. apply F1. exact H1.
Qed.

Lemma store_invalid_spec d t l b dl d' :
  DbInv d -> dbm_store_invalid_appointment d t l b dl = DbOk d' ->
  DbInv d' /\ tbl d' T_invalid_appointments = tbl d T_invalid_appointments ++ [[l; t]] /\
  (forall c, c <> T_invalid_appointments -> c <> T_appointments -> tbl d' c = tbl d c).
Proof.
  intros HI H. unfold dbm_store_invalid_appointment in H. rewrite mkrow_invalid in H.
  destruct (exec_ignore_insert_frame d T_appointments (body_row l b dl)) as [F1 L1].
  set (d1 := exec_ignore CS d (SInsert T_appointments (body_row l b dl))) in *.
  pose proof (tbl_insert CS d1 _ _ d' H) as [Tt [To L]].
  assert (Hok1 : db_ok CS d1) by (apply exec_ignore_ok; [apply CS_wf|apply HI]).
  assert (Hok : db_ok CS d') by (exact (insert_preserves_ok CS d1 _ _ d' Hok1 H)).
  assert (Har : arity_ok CS d').
  { refine (exec_preserves_arity CS d1 (SInsert _ _) d' _ H). apply exec_ignore_arity. apply HI. }
  split; [|split].
  - apply (DbInv_frame d d'); auto; try congruence.
    + intros tr Htr. exists tr. split; [|reflexivity]. rewrite To in Htr by discriminate. rewrite F1 in Htr by discriminate. exact Htr.
    + intros rr Hrr. exists rr. split; [|reflexivity]. rewrite To by discriminate. rewrite F1 by discriminate. exact Hrr.
  - rewrite Tt, F1 by discriminate. reflexivity.
  - intros c H2 H1. rewrite To by exact H2. apply F1. exact H1.
Qed.

(* store_appointment_receipt *)
Definition upd_slots (t slots : N) (r : row) : row :=
  if key_eqb (proj r (ts_pk (tsch CS T_towers))) [t] then apply_sets r [(C_towers_available_slots, slots)] else r.

Lemma upd_slots_key t slots r : col (upd_slots t slots r) C_towers_tower_id = col r C_towers_tower_id.
Proof.
  unfold upd_slots. destruct (key_eqb _ _); [|reflexivity]. cbn. unfold col. apply nth_set_col. discriminate.
Qed.

Lemma store_receipt_spec d t l slots sb u g d' :
  DbInv d -> dbm_store_appointment_receipt d t l slots sb u g = DbOk d' ->
  DbInv d' /\ tbl d' T_towers = map (upd_slots t slots) (tbl d T_towers) /\
  (forall c, c <> T_towers -> c <> T_appointment_receipts -> tbl d' c = tbl d c).
Proof.
  intros HI H. unfold dbm_store_appointment_receipt in H.
  destruct (db_insert CS d T_appointment_receipts (receipt_row t l sb u g)) as [d1|e] eqn:E1; [|discriminate].
  pose proof (tbl_insert CS d _ _ d1 E1) as [T1 [O1 L1]].
  pose proof (tbl_update CS d1 _ _ _ _ d' H) as [O2 [L2 T2]].
  destruct HI as [Hok [Har [L Hrec]]].
  assert (Hok1 : db_ok CS d1) by exact (insert_preserves_ok CS d _ _ d1 Hok E1).
  assert (Hok' : db_ok CS d') by exact (update_preserves_ok CS d1 _ _ _ _ d' CS_wf Hok1 H).
  assert (Har' : arity_ok CS d').
  { refine (exec_preserves_arity CS d1 (SUpdate _ _ _ _) d' _ H).
    exact (exec_preserves_arity CS d (SInsert _ _) d1 Har E1). }
  assert (T0 : tbl d' T_towers = map (upd_slots t slots) (tbl d T_towers)).
  { rewrite T2 by (rewrite L1, L; unfold T_towers; lia). rewrite O1 by discriminate. reflexivity. }
  split; [|split; [exact T0|]].
  - split; [exact Hok'|]. split; [exact Har'|]. split; [congruence|].
    intros tr Htr. rewrite T0 in Htr. apply in_map_iff in Htr. destruct Htr as [tr0 [<- Htr0]].
    rewrite upd_slots_key. destruct (Hrec tr0 Htr0) as [rr [Hrr Err]]. exists rr. split; [|exact Err].
    rewrite O2 by discriminate. rewrite O1 by discriminate. exact Hrr.
  - intros c H0 H5. rewrite O2 by exact H0. apply O1. exact H5.
Qed.

Lemma store_proof_spec d t l sb u g rc d' :
  DbInv d -> dbm_store_misbehaving_proof d t l sb u g rc = DbOk d' ->
  DbInv d' /\ (forall c, c <> T_misbehaving_proofs -> c <> T_appointment_receipts -> tbl d' c = tbl d c).
Proof.
  intros HI H. unfold dbm_store_misbehaving_proof in H.
  destruct (db_insert CS d T_appointment_receipts (receipt_row t l sb u g)) as [d1|e] eqn:E1; [|discriminate].
  pose proof (tbl_insert CS d _ _ d1 E1) as [T1 [O1 L1]].
  pose proof (tbl_insert CS d1 _ _ d' H) as [T2 [O2 L2]].
  destruct HI as [Hok [Har [L Hrec]]].
  assert (Hok1 : db_ok CS d1) by exact (insert_preserves_ok CS d _ _ d1 Hok E1).
  assert (Hfr : forall c, c <> T_misbehaving_proofs -> c <> T_appointment_receipts -> tbl d' c = tbl d c).
  { intros c H6 H5. rewrite O2 by exact H6. apply O1. exact H5. }
  split; [|exact Hfr].
  split; [exact (insert_preserves_ok CS d1 _ _ d' Hok1 H)|]. split.
  { refine (exec_preserves_arity CS d1 (SInsert _ _) d' _ H). exact (exec_preserves_arity CS d (SInsert _ _) d1 Har E1). }
  split; [congruence|].
  intros tr Htr. rewrite Hfr in Htr by discriminate. destruct (Hrec tr Htr) as [rr [Hrr Err]]. exists rr.
  split; [|exact Err]. rewrite Hfr by discriminate. exact Hrr.
Qed.

Lemma store_proof_over_receipt_spec d t l sb u g rc d' :
  DbInv d -> dbm_store_misbehaving_proof_over_receipt d t l sb u g rc = DbOk d' ->
  DbInv d' /\ (forall c, c <> T_misbehaving_proofs -> c <> T_appointment_receipts -> tbl d' c = tbl d c).
Proof.
  intros HI H. unfold dbm_store_misbehaving_proof_over_receipt in H.
  destruct (db_update CS d T_appointment_receipts [l; t] _ false) as [d1|e] eqn:E1; [|discriminate].
  pose proof (tbl_update CS d _ _ _ _ d1 E1) as [O1 [L1 T1]].
  pose proof (tbl_insert CS d1 _ _ d' H) as [T2 [O2 L2]].
  destruct HI as [Hok [Har [L Hrec]]].
  assert (Hok1 : db_ok CS d1) by exact (update_preserves_ok CS d _ _ _ _ d1 CS_wf Hok E1).
  assert (Hfr : forall c, c <> T_misbehaving_proofs -> c <> T_appointment_receipts -> tbl d' c = tbl d c).
  { intros c H6 H5. rewrite O2 by exact H6. apply O1. exact H5. }
  split; [|exact Hfr].
  split; [exact (insert_preserves_ok CS d1 _ _ d' Hok1 H)|]. split.
  { refine (exec_preserves_arity CS d1 (SInsert _ _) d' _ H). exact (exec_preserves_arity CS d (SUpdate _ _ _ _) d1 Har E1). }
  split; [congruence|].
  intros tr Htr. rewrite Hfr in Htr by discriminate. destruct (Hrec tr Htr) as [rr [Hrr Err]]. exists rr.
  split; [|exact Err]. rewrite Hfr by discriminate. exact Hrr.
Qed.

Lemma flag_store_spec d t l sb u g rc d' :
  DbInv d -> flag_store d t l sb u g rc = DbOk d' ->
  DbInv d' /\ (forall c, c <> T_misbehaving_proofs -> c <> T_appointment_receipts -> tbl d' c = tbl d c).
Proof.
  intros HI. unfold flag_store. destruct (exists_misbehaving_proof d t).
  - intros H. inversion H. subst d'. split; [exact HI|reflexivity].
  - destruct (dbm_load_appointment_receipt d t l).
    + apply store_proof_over_receipt_spec. exact HI.
    + apply store_proof_spec. exact HI.
Qed.

(* "stores the proof": whenever flag_misbehaving_tower stores a proof (none was stored for the tower), the proof row
   (tower, locator, recovered id) is there AND the receipt stored for (tower, locator) is the offending one - also when a
   receipt of that appointment was stored before (a retry interrupted between its two writes): it is replaced *)
Theorem flag_store_backs_proof d t l sb u g rc d' :
  DbInv d -> exists_misbehaving_proof d t = false -> flag_store d t l sb u g rc = DbOk d' ->
  find_pk CS d' T_misbehaving_proofs [t] = Some (proof_row t l rc) /\
  find_pk CS d' T_appointment_receipts [l; t] = Some (receipt_row t l sb u g).
Proof.
  intros HI Hnp H. pose proof (flag_store_spec _ _ _ _ _ _ _ _ HI H) as [HI' _].
  assert (Hpk : pk_ok CS d') by apply HI'.
  unfold flag_store in H. rewrite Hnp in H.
  destruct (dbm_load_appointment_receipt d t l) as [r0|] eqn:Er.
  - unfold dbm_store_misbehaving_proof_over_receipt in H.
    destruct (db_update CS d T_appointment_receipts [l; t] _ false) as [d1|e] eqn:E1; [|discriminate].
    pose proof (tbl_update CS d _ _ _ _ d1 E1) as [O1 [L1 T1]].
    pose proof (tbl_insert CS d1 _ _ d' H) as [T2 [O2 L2]].
    split.
    + apply find_pk_unique; [exact Hpk| |reflexivity]. rewrite T2. apply in_or_app. right. left. reflexivity.
    + unfold dbm_load_appointment_receipt in Er. apply find_pk_Some in Er. destruct Er as [Hin Hk].
      assert (Hlen : length r0 = 5%nat) by (apply (proj1 (proj2 HI) T_appointment_receipts r0 Hin)).
      destruct r0 as [|a0 [|a1 [|a2 [|a3 [|a4 [|]]]]]]; try discriminate Hlen.
      cbn in Hk. inversion Hk. subst a0 a1.
      apply find_pk_unique; [exact Hpk| |reflexivity].
      rewrite O2 by discriminate. rewrite T1 by (rewrite (proj1 (proj2 (proj2 HI))); unfold T_appointment_receipts; lia).
      apply in_map_iff. exists [l; t; a2; a3; a4]. split; [|exact Hin].
      change (proj [l; t; a2; a3; a4] (ts_pk (tsch CS T_appointment_receipts))) with [l; t].
      rewrite key_eqb_refl. reflexivity.
  - unfold dbm_store_misbehaving_proof in H.
    destruct (db_insert CS d T_appointment_receipts (receipt_row t l sb u g)) as [d1|e] eqn:E1; [|discriminate].
    pose proof (tbl_insert CS d _ _ d1 E1) as [T1 [O1 L1]].
    pose proof (tbl_insert CS d1 _ _ d' H) as [T2 [O2 L2]].
    split.
    + apply find_pk_unique; [exact Hpk| |reflexivity]. rewrite T2. apply in_or_app. right. left. reflexivity.
    + apply find_pk_unique; [exact Hpk| |reflexivity]. rewrite O2 by discriminate. rewrite T1. apply in_or_app. right. left. reflexivity.
Qed.

(* store_tower_record *)
Definition upd_tower (t addr slots : N) (r : row) : row :=
  if key_eqb (proj r (ts_pk (tsch CS T_towers))) [t]
  then apply_sets r [(C_towers_net_addr, addr); (C_towers_available_slots, slots)] else r.

Lemma upd_tower_key t a s r : col (upd_tower t a s r) C_towers_tower_id = col r C_towers_tower_id.
Proof.
  unfold upd_tower. destruct (key_eqb _ _); [|reflexivity]. cbn. unfold col.
  rewrite nth_set_col by discriminate. apply nth_set_col. discriminate.
Qed.

Lemma store_tower_spec d t addr slots start expiry sg d' :
  DbInv d -> dbm_store_tower_record d t addr slots start expiry sg = DbOk d' ->
  DbInv d' /\
  tbl d' T_registration_receipts = tbl d T_registration_receipts ++ [[t; slots; start; expiry; sg]] /\
  tbl d' T_towers = (if has_pk CS d T_towers [t] then map (upd_tower t addr slots) (tbl d T_towers)
                     else tbl d T_towers ++ [[t; addr; slots]]) /\
  (forall c, c <> T_towers -> c <> T_registration_receipts -> tbl d' c = tbl d c).
Proof.
  intros HI H. unfold dbm_store_tower_record in H. rewrite mkrow_rr, mkrow_towers in H.
  destruct HI as [Hok [Har [L Hrec]]].
  destruct (has_pk CS d T_towers [t]) eqn:Ehas.
  - destruct (db_update CS d T_towers [t] _ false) as [d1|e] eqn:E1; [|discriminate].
    pose proof (tbl_update CS d _ _ _ _ d1 E1) as [O1 [L1 T1]].
    pose proof (tbl_insert CS d1 _ _ d' H) as [T2 [O2 L2]].
    assert (Hok1 : db_ok CS d1) by exact (update_preserves_ok CS d _ _ _ _ d1 CS_wf Hok E1).
    assert (T0 : tbl d' T_towers = map (upd_tower t addr slots) (tbl d T_towers)).
    { rewrite O2 by discriminate. rewrite T1 by (rewrite L; unfold T_towers; lia). reflexivity. }
    assert (T4 : tbl d' T_registration_receipts = tbl d T_registration_receipts ++ [[t; slots; start; expiry; sg]]).
    { rewrite T2, O1 by discriminate. reflexivity. }
    split; [|split; [exact T4|split; [exact T0|]]].
    + split; [exact (insert_preserves_ok CS d1 _ _ d' Hok1 H)|]. split.
      { refine (exec_preserves_arity CS d1 (SInsert _ _) d' _ H). exact (exec_preserves_arity CS d (SUpdate _ _ _ _) d1 Har E1). }
      split; [congruence|].
      intros tr Htr. rewrite T0 in Htr. apply in_map_iff in Htr. destruct Htr as [tr0 [<- Htr0]].
      rewrite upd_tower_key. destruct (Hrec tr0 Htr0) as [rr [Hrr Err]]. exists rr. split; [|exact Err].
      rewrite T4. apply in_or_app. left. exact Hrr.
    + intros c H0 H4. rewrite O2 by exact H4. apply O1. exact H0.
  - destruct (db_insert CS d T_towers [t; addr; slots]) as [d1|e] eqn:E1; [|discriminate].
    pose proof (tbl_insert CS d _ _ d1 E1) as [T1 [O1 L1]].
    pose proof (tbl_insert CS d1 _ _ d' H) as [T2 [O2 L2]].
    assert (Hok1 : db_ok CS d1) by exact (insert_preserves_ok CS d _ _ d1 Hok E1).
    assert (T0 : tbl d' T_towers = tbl d T_towers ++ [[t; addr; slots]]).
    { rewrite O2 by discriminate. exact T1. }
    assert (T4 : tbl d' T_registration_receipts = tbl d T_registration_receipts ++ [[t; slots; start; expiry; sg]]).
    { rewrite T2, O1 by discriminate. reflexivity. }
    split; [|split; [exact T4|split; [exact T0|]]].
    + split; [exact (insert_preserves_ok CS d1 _ _ d' Hok1 H)|]. split.
      { refine (exec_preserves_arity CS d1 (SInsert _ _) d' _ H). exact (exec_preserves_arity CS d (SInsert _ _) d1 Har E1). }
      split; [congruence|].
      intros tr Htr. rewrite T0 in Htr. apply in_app_or in Htr. destruct Htr as [Htr|[<-|[]]].
      * destruct (Hrec tr Htr) as [rr [Hrr Err]]. exists rr. split; [|exact Err]. rewrite T4. apply in_or_app. left. exact Hrr.
      * exists [t; slots; start; expiry; sg]. split; [|reflexivity]. rewrite T4. apply in_or_app. right. left. reflexivity.
    + intros c H0 H4. rewrite O2 by exact H4. apply O1. exact H0.
Qed.

(* ---------- delete_pending_appointment ---------- *)
Lemma filter_two {A} (f : A -> bool) l a b :
  In a l -> In b l -> a <> b -> f a = true -> f b = true -> 2 <= length (filter f l).
Proof.
  induction l as [|x l IH]; cbn; intros Ha Hb Hn Fa Fb; [contradiction|].
  destruct Ha as [->|Ha]; destruct Hb as [->|Hb]; try congruence.
  - rewrite Fa. cbn. assert (In b (filter f l)) by (apply filter_In; tauto).
    destruct (filter f l); [contradiction|cbn; lia].
  - rewrite Fb. cbn. assert (In a (filter f l)) by (apply filter_In; tauto).
    destruct (filter f l); [contradiction|cbn; lia].
  - specialize (IH Ha Hb Hn Fa Fb). destruct (f x); cbn; lia.
Qed.

Lemma filter_one {A} (f : A -> bool) l a : In a l -> f a = true -> 1 <= length (filter f l).
Proof.
  intros Ha Fa. assert (In a (filter f l)) by (apply filter_In; tauto). destruct (filter f l); [contradiction|cbn; lia].
Qed.

Lemma count_zero d tb c0 l : count_where d tb [c0] [l] = 0 -> forall p, In p (tbl d tb) -> col p c0 <> l.
Proof.
  unfold count_where, select_where. intros H p Hp E.
  assert (1 <= length (filter (fun r => key_eqb (proj r [c0]) [l]) (tbl d tb))); [|lia].
  apply (filter_one _ _ p Hp). apply key_eqb_eq. cbn. f_equal. exact E.
Qed.

Lemma is_pending_row_In d t l : is_pending_row d t l = true <-> In [l; t] (tbl d T_pending_appointments) \/
  exists r, In r (tbl d T_pending_appointments) /\ proj r [C_pending_appointments_locator; C_pending_appointments_tower_id] = [l; t].
Proof.
  unfold is_pending_row. rewrite has_pk_true. split.
  - intros [r [A B]]. right. exists r. split; [exact A|exact B].
  - intros [H|[r [A B]]]; [exists [l; t]; split; [exact H|reflexivity]|exists r; split; [exact A|exact B]].
Qed.

Lemma delete_pending_spec d t l d' :
  DbInv d -> is_pending_row d t l = true -> dbm_delete_pending_appointment d t l = DbOk d' ->
  DbInv d' /\
  (forall c, c <> T_appointments -> c <> T_pending_appointments -> tbl d' c = tbl d c) /\
  (forall r, In r (tbl d' T_pending_appointments) <->
             In r (tbl d T_pending_appointments) /\
             proj r [C_pending_appointments_locator; C_pending_appointments_tower_id] <> [l; t]) /\
  (forall b, In b (tbl d' T_appointments) <->
             In b (tbl d T_appointments) /\ (col b C_appointments_locator <> l \/ ref_count d l <> 1)).
Proof.
  intros [Hok [Har [L Hrec]]] Hheld H.
  apply has_pk_true in Hheld. destruct Hheld as [r0 [Hr0 Hk0]]. cbn in Hk0.
  assert (Hroot : exists root, db_delete_root CS d root = DbOk d' /\
     ((root = body_root l /\ ref_count d l = 1) \/ (root = pending_root t l /\ ref_count d l <> 1))).
  { unfold dbm_delete_pending_appointment in H. destruct (Nat.eqb (ref_count d l) 1) eqn:E.
    - apply Nat.eqb_eq in E. apply db_delete_inv in H. destruct H as [H _]. exists (body_root l). split; [exact H|]. left. tauto.
    - apply Nat.eqb_neq in E. apply db_delete_inv in H. destruct H as [H _]. exists (pending_root t l). split; [exact H|]. right. tauto. }
  destruct Hroot as [root [Hdel Hcase]].
  assert (Hok' : db_ok CS d') by exact (delete_root_preserves_ok CS d root d' CS_wf Hok Hdel).
  assert (Har' : arity_ok CS d') by exact (delete_root_preserves_arity CS d root d' Har Hdel).
  assert (L' : length d' = length d) by (apply tbl_delete_root in Hdel; tauto).
  assert (Hmain :
    (forall c, c <> T_appointments -> c <> T_pending_appointments -> tbl d' c = tbl d c) /\
    (forall r, In r (tbl d' T_pending_appointments) <->
               In r (tbl d T_pending_appointments) /\
               proj r [C_pending_appointments_locator; C_pending_appointments_tower_id] <> [l; t]) /\
    (forall b, In b (tbl d' T_appointments) <->
               In b (tbl d T_appointments) /\ (col b C_appointments_locator <> l \/ ref_count d l <> 1))).
  { destruct Hcase as [[-> Hc]|[-> Hc]].
    - (* the last reference: the body goes, the cascade takes the pending row *)
      pose proof (body_delete_spec d l d' (proj1 Hok) Hdel) as Hs.
      assert (Hp1 : 1 <= count_where d T_pending_appointments [C_pending_appointments_locator] [l]).
      { unfold count_where, select_where. apply (filter_one _ _ r0 Hr0). apply key_eqb_eq. cbn. inversion Hk0. reflexivity. }
      assert (Hi0 : count_where d T_invalid_appointments [C_invalid_appointments_locator] [l] = 0)
        by (unfold ref_count in Hc; lia).
      assert (Hp1' : count_where d T_pending_appointments [C_pending_appointments_locator] [l] = 1)
        by (unfold ref_count in Hc; lia).
      split; [|split].
      + intros c H1 H2. rewrite Hs. apply filter_all_true. intros r Hr. unfold on_locator.
        destruct_table c; try (exfalso; apply H1; reflexivity); try (exfalso; apply H2; reflexivity); try reflexivity.
        cbn. apply negb_true_iff. apply N.eqb_neq. exact (count_zero d _ _ l Hi0 r Hr).
      + intros r. rewrite Hs, filter_In. unfold on_locator. cbn. split.
        * intros [Hr Hn]. split; [exact Hr|]. apply negb_true_iff, N.eqb_neq in Hn. intros E. inversion E. contradiction.
        * intros [Hr Hn]. split; [exact Hr|]. apply negb_true_iff, N.eqb_neq. intros E.
          assert (Hne : r <> r0).
          { intros ->. apply Hn. exact Hk0. }
          assert (2 <= count_where d T_pending_appointments [C_pending_appointments_locator] [l]); [|lia].
          unfold count_where, select_where. apply (filter_two _ _ r r0 Hr Hr0 Hne); apply key_eqb_eq; cbn.
          -- f_equal. exact E.
          -- inversion Hk0. reflexivity.
      + intros b. rewrite Hs, filter_In. unfold on_locator. cbn. split.
        * intros [Hb Hn]. split; [exact Hb|]. left. apply negb_true_iff, N.eqb_neq in Hn. exact Hn.
        * intros [Hb [Hn|Hn]]; [|congruence]. split; [exact Hb|]. apply negb_true_iff, N.eqb_neq. exact Hn.
    - (* other references remain: only the pending row goes *)
      pose proof (pending_delete_spec d t l d' Hdel) as Hs. split; [|split].
      + intros c H1 H2. rewrite Hs. apply filter_all_true. intros r Hr. unfold is_pending_key.
        destruct_table c; try (exfalso; apply H1; reflexivity); try (exfalso; apply H2; reflexivity); reflexivity.
      + intros r. rewrite Hs, filter_In. unfold is_pending_key. cbn [Nat.eqb T_pending_appointments andb]. split.
        * intros [Hr Hn]. split; [exact Hr|]. apply negb_true_iff, key_eqb_neq in Hn. exact Hn.
        * intros [Hr Hn]. split; [exact Hr|]. apply negb_true_iff, key_eqb_neq. exact Hn.
      + intros b. rewrite Hs, filter_In. unfold is_pending_key. cbn. split; [intros [Hb _]; tauto|intros [Hb _]; tauto]. }
  split; [|exact Hmain]. destruct Hmain as [Hfr _].
  split; [exact Hok'|]. split; [exact Har'|]. split; [congruence|].
  intros tr Htr. rewrite Hfr in Htr by discriminate. destruct (Hrec tr Htr) as [rr [Hrr Err]]. exists rr.
  split; [|exact Err]. rewrite Hfr by discriminate. exact Hrr.
Qed.

(* ---------- remove_tower_record ---------- *)
Lemma ref_count_ext d d' l :
  tbl d' T_pending_appointments = tbl d T_pending_appointments ->
  tbl d' T_invalid_appointments = tbl d T_invalid_appointments -> ref_count d' l = ref_count d l.
Proof. unfold ref_count, count_where, select_where. intros -> ->. reflexivity. Qed.

Lemma ref_count_zero d l : ref_count d l = 0 ->
  (forall p, In p (tbl d T_pending_appointments) -> col p C_pending_appointments_locator <> l) /\
  (forall p, In p (tbl d T_invalid_appointments) -> col p C_invalid_appointments_locator <> l).
Proof.
  unfold ref_count. intros H. split; apply count_zero; lia.
Qed.

Lemma remove_tower_spec d t d' :
  DbInv d -> dbm_remove_tower_record d t = DbOk d' ->
  DbInv d' /\
  (forall c, c <> T_appointments -> tbl d' c = filter (fun r => negb (row_of_tower c t r)) (tbl d c)) /\
  (forall b, In b (tbl d' T_appointments) <->
             In b (tbl d T_appointments) /\ ref_count d' (col b C_appointments_locator) <> 0) /\
  has_pk CS d T_towers [t] = true.
Proof.
  intros [Hok [Har [L Hrec]]] H. unfold dbm_remove_tower_record in H.
  destruct (db_delete CS d T_towers [C_towers_tower_id] [t] true) as [d1|e] eqn:E1; [|discriminate].
  apply db_delete_inv in E1. destruct E1 as [E1 Hcnt]. specialize (Hcnt eq_refl).
  pose proof (abandon_delete_spec d t d1 (proj1 Hok) E1) as S1.
  assert (Hok1 : db_ok CS d1) by exact (delete_root_preserves_ok CS d _ d1 CS_wf Hok E1).
  assert (Har1 : arity_ok CS d1) by exact (delete_root_preserves_arity CS d _ d1 Har E1).
  assert (L1 : length d1 = length d) by (apply tbl_delete_root in E1; tauto).
  assert (S2 : forall c, tbl d' c = filter (fun r => negb (unreferenced_root d1 c r)) (tbl d1 c)).
  { apply (delete_root_spec d1 _ d' (unreferenced_root d1) H). intros c r Hr. rewrite doomed_gc; [tauto|].
    intros b Hb Hun. unfold unreferenced_root in Hun. cbn in Hun. apply Nat.eqb_eq in Hun.
    exact (ref_count_zero d1 _ Hun). }
  assert (Hok' : db_ok CS d') by exact (delete_root_preserves_ok CS d1 _ d' CS_wf Hok1 H).
  assert (Har' : arity_ok CS d') by exact (delete_root_preserves_arity CS d1 _ d' Har1 H).
  assert (L' : length d' = length d1) by (apply tbl_delete_root in H; tauto).
  assert (Hfr : forall c, c <> T_appointments -> tbl d' c = filter (fun r => negb (row_of_tower c t r)) (tbl d c)).
  { intros c Hc. rewrite S2, <- S1. apply filter_all_true. intros r _. unfold unreferenced_root.
    destruct_table c; try (exfalso; apply Hc; reflexivity); reflexivity. }
  split; [|split; [exact Hfr|split]].
  - split; [exact Hok'|]. split; [exact Har'|]. split; [congruence|].
    intros tr Htr. rewrite Hfr in Htr by discriminate. apply filter_In in Htr. destruct Htr as [Htr Hn].
    destruct (Hrec tr Htr) as [rr [Hrr Err]]. exists rr. split; [|exact Err].
    rewrite Hfr by discriminate. apply filter_In. split; [exact Hrr|].
    unfold row_of_tower in *. cbn in *. rewrite Err. exact Hn.
  - intros b. rewrite S2, filter_In. rewrite S1.
    rewrite (filter_all_true _ (tbl d T_appointments)) by (intros; reflexivity).
    rewrite (ref_count_ext d1 d') by (rewrite S2; apply filter_all_true; intros; reflexivity).
    unfold unreferenced_root. cbn [Nat.eqb T_appointments andb]. split.
    + intros [Hb Hn]. split; [exact Hb|]. apply negb_true_iff, Nat.eqb_neq in Hn. exact Hn.
    + intros [Hb Hn]. split; [exact Hb|]. apply negb_true_iff, Nat.eqb_neq. exact Hn.
  - destruct (has_pk CS d T_towers [t]) eqn:Eh; [reflexivity|]. exfalso. apply Hcnt.
    unfold count_where, select_where. pose proof (has_pk_false CS d T_towers [t] Eh) as Hf.
    destruct (filter _ _) as [|x rest] eqn:Ef; [reflexivity|]. exfalso.
    assert (Hx : In x (filter (fun r => key_eqb (proj r [C_towers_tower_id]) [t]) (tbl d T_towers))) by (rewrite Ef; left; reflexivity).
    apply filter_In in Hx. destruct Hx as [Hx Hk]. apply key_eqb_eq in Hk. exact (Hf x Hx Hk).
Qed.

(* ---------- how the four views move ---------- *)
Lemma towers_key_eqb r k : key_eqb (proj r (ts_pk (tsch CS T_towers))) [k] = N.eqb (col r C_towers_tower_id) k.
Proof. cbn. apply andb_true_r. Qed.

Lemma find_pk_towers d k : find_pk CS d T_towers [k] = find (fun r => N.eqb (col r C_towers_tower_id) k) (tbl d T_towers).
Proof.
  unfold find_pk. induction (tbl d T_towers) as [|r l IH]; [reflexivity|]. cbn [find].
  rewrite towers_key_eqb, IH. reflexivity.
Qed.

Lemma find_pk_towers_map d d' g k :
  tbl d' T_towers = map g (tbl d T_towers) -> (forall r, col (g r) C_towers_tower_id = col r C_towers_tower_id) ->
  find_pk CS d' T_towers [k] = option_map g (find_pk CS d T_towers [k]).
Proof.
  intros E Hg. rewrite !find_pk_towers, E. apply find_map_key. intros r. rewrite Hg. reflexivity.
Qed.

Lemma find_app {A} (f : A -> bool) l1 l2 :
  find f (l1 ++ l2) = match find f l1 with Some x => Some x | None => find f l2 end.
Proof. induction l1 as [|x l1 IH]; cbn; [reflexivity|]. destruct (f x); [reflexivity|exact IH]. Qed.

Lemma find_pk_towers_app d d' t a s k :
  tbl d' T_towers = tbl d T_towers ++ [[t; a; s]] ->
  find_pk CS d' T_towers [k] = match find_pk CS d T_towers [k] with
                               | Some x => Some x
                               | None => if N.eqb t k then Some [t; a; s] else None
                               end.
Proof. intros E. rewrite !find_pk_towers, E, find_app. cbn. reflexivity. Qed.

Lemma find_pk_towers_filter d d' t k :
  tbl d' T_towers = filter (fun r => negb (row_of_tower T_towers t r)) (tbl d T_towers) ->
  find_pk CS d' T_towers [k] = if N.eqb k t then None else find_pk CS d T_towers [k].
Proof.
  intros E. rewrite !find_pk_towers, E. destruct (N.eqb k t) eqn:Ek.
  - apply N.eqb_eq in Ek. subst k. apply find_none_iff. intros r Hr. apply filter_In in Hr. destruct Hr as [_ Hn].
    unfold row_of_tower in Hn. cbn in Hn. apply negb_true_iff in Hn. exact Hn.
  - apply find_filter_keep. intros r _ Hr. apply N.eqb_eq in Hr. unfold row_of_tower. cbn. apply negb_true_iff.
    apply N.eqb_neq. apply N.eqb_neq in Ek. congruence.
Qed.

Lemma max_receipt_app d d' r t :
  tbl d' T_registration_receipts = tbl d T_registration_receipts ++ [r] ->
  max_receipt d' t = rr_step t (max_receipt d t) r.
Proof. intros E. rewrite !max_receipt_fold, E, fold_left_app. reflexivity. Qed.

Lemma max_receipt_filter d d' t k :
  tbl d' T_registration_receipts = filter (fun r => negb (row_of_tower T_registration_receipts t r)) (tbl d T_registration_receipts) ->
  k <> t -> max_receipt d' k = max_receipt d k.
Proof.
  intros E Hk. rewrite !max_receipt_fold, E. apply fold_rr_filter. intros r _ Hr.
  unfold row_of_tower. cbn. apply negb_true_iff, N.eqb_neq. congruence.
Qed.

Lemma In_pending_locators d k x :
  In x (pending_locators d k) <->
  exists r, In r (tbl d T_pending_appointments) /\ col r C_pending_appointments_tower_id = k /\ col r C_pending_appointments_locator = x.
Proof.
  unfold pending_locators. rewrite in_map_iff. split.
  - intros [r [E Hr]]. apply filter_In in Hr. destruct Hr as [Hr Hk]. apply N.eqb_eq in Hk. exists r. tauto.
  - intros [r [Hr [Hk E]]]. exists r. split; [exact E|]. apply filter_In. split; [exact Hr|]. apply N.eqb_eq. exact Hk.
Qed.

Lemma In_invalid_locators d k x :
  In x (invalid_locators d k) <->
  exists r, In r (tbl d T_invalid_appointments) /\ col r C_invalid_appointments_tower_id = k /\ col r C_invalid_appointments_locator = x.
Proof.
  unfold invalid_locators. rewrite in_map_iff. split.
  - intros [r [E Hr]]. apply filter_In in Hr. destruct Hr as [Hr Hk]. apply N.eqb_eq in Hk. exists r. tauto.
  - intros [r [Hr [Hk E]]]. exists r. split; [exact E|]. apply filter_In. split; [exact Hr|]. apply N.eqb_eq. exact Hk.
Qed.

Lemma pending_locators_app d d' t l k :
  tbl d' T_pending_appointments = tbl d T_pending_appointments ++ [[l; t]] ->
  pending_locators d' k = pending_locators d k ++ (if N.eqb t k then [l] else []).
Proof.
  intros E. unfold pending_locators. rewrite E, filter_app, map_app. f_equal. cbn.
  unfold col. cbn. destruct (N.eqb t k); reflexivity.
Qed.

Lemma invalid_locators_app d d' t l k :
  tbl d' T_invalid_appointments = tbl d T_invalid_appointments ++ [[l; t]] ->
  invalid_locators d' k = invalid_locators d k ++ (if N.eqb t k then [l] else []).
Proof.
  intros E. unfold invalid_locators. rewrite E, filter_app, map_app. f_equal. cbn.
  unfold col. cbn. destruct (N.eqb t k); reflexivity.
Qed.

Lemma filter_filter_imp {A} (f g : A -> bool) l : (forall x, f x = true -> g x = true) -> filter f (filter g l) = filter f l.
Proof.
  intros H. induction l as [|x l IH]; cbn; [reflexivity|]. destruct (g x) eqn:Eg; cbn.
  - rewrite IH. reflexivity.
  - destruct (f x) eqn:Ef; [rewrite (H x Ef) in Eg; discriminate|exact IH].
Qed.

Lemma pending_locators_filter d d' t k :
  tbl d' T_pending_appointments = filter (fun r => negb (row_of_tower T_pending_appointments t r)) (tbl d T_pending_appointments) ->
  k <> t -> pending_locators d' k = pending_locators d k.
Proof.
  intros E Hk. unfold pending_locators. rewrite E. f_equal. apply filter_filter_imp. intros r Hr.
  apply N.eqb_eq in Hr. unfold row_of_tower. cbn. apply negb_true_iff, N.eqb_neq. congruence.
Qed.

Lemma invalid_locators_filter d d' t k :
  tbl d' T_invalid_appointments = filter (fun r => negb (row_of_tower T_invalid_appointments t r)) (tbl d T_invalid_appointments) ->
  k <> t -> invalid_locators d' k = invalid_locators d k.
Proof.
  intros E Hk. unfold invalid_locators. rewrite E. f_equal. apply filter_filter_imp. intros r Hr.
  apply N.eqb_eq in Hr. unfold row_of_tower. cbn. apply negb_true_iff, N.eqb_neq. congruence.
Qed.

(* sets *)
Lemma memN_In x l : memN x l = true <-> In x l.
Proof.
  unfold memN. rewrite existsb_exists. split.
  - intros [y [Hy E]]. apply N.eqb_eq in E. subst. exact Hy.
  - intros H. exists x. split; [exact H|apply N.eqb_refl].
Qed.

Lemma In_set_add x l y : In y (set_add x l) <-> In y l \/ y = x.
Proof.
  unfold set_add. destruct (memN x l) eqn:E.
  - apply memN_In in E. split; [tauto|]. intros [H| ->]; assumption.
  - rewrite in_app_iff. cbn. intuition.
Qed.

Lemma In_set_remove x l y : In y (set_remove x l) <-> In y l /\ y <> x.
Proof.
  unfold set_remove. rewrite filter_In, negb_true_iff, N.eqb_neq. tauto.
Qed.

(* ---------- the WTClient operations preserve the invariant ---------- *)
Lemma MemInv_aset c c' t su' :
  c_towers c' = aset (c_towers c) t su' -> MemInv c ->
  summary_matches (c_db c') t su' ->
  (forall k s, k <> t -> summary_matches (c_db c) k s -> summary_matches (c_db c') k s) ->
  (forall k, k <> t -> find_pk CS (c_db c) T_towers [k] = None -> find_pk CS (c_db c') T_towers [k] = None) ->
  MemInv c'.
Proof.
  intros Et [M1 M2] Ht F1 F2. split.
  - intros k s. rewrite Et, aget_aset. destruct (N.eqb k t) eqn:E.
    + apply N.eqb_eq in E. subst k. intros H. injection H as <-. exact Ht.
    + apply N.eqb_neq in E. intros H. apply F1; [exact E|]. apply M1. exact H.
  - intros k. rewrite Et, aget_aset. destruct (N.eqb k t) eqn:E; [discriminate|].
    apply N.eqb_neq in E. intros H. apply F2; [exact E|]. apply M2. exact H.
Qed.

Lemma summary_matches_status d t s st : summary_matches d t s -> summary_matches d t (su_with_status s st).
Proof. intros [tr [rr H]]. exists tr, rr. exact H. Qed.

Lemma Inv_set_status c t st : Inv c -> Inv (wt_set_tower_status c t st).
Proof.
  intros [HD HM]. unfold wt_set_tower_status. destruct (aget (c_towers c) t) as [s|] eqn:E; [|split; assumption].
  destruct (is_misbehaving (su_status s) && negb (is_misbehaving st)); [split; assumption|].
  split; [exact HD|]. intros Hp. specialize (HM Hp).
  apply (MemInv_aset c _ t (su_with_status s st)); auto.
  apply summary_matches_status. apply HM. exact E.
Qed.

Lemma Inv_poison c : Inv c -> Inv (poison c).
Proof. intros [HD _]. split; [exact HD|]. cbn. discriminate. Qed.

Lemma Inv_poison_towers c m : Inv c -> Inv (poison (with_towers c m)).
Proof. intros [HD _]. split; [exact HD|]. cbn. discriminate. Qed.

Lemma set_eq_add p pl l : set_eq p pl -> set_eq (set_add l p) (pl ++ [l]).
Proof. intros H x. rewrite In_set_add, in_app_iff. cbn. rewrite (H x). intuition. Qed.

Lemma summary_matches_intro d t s tr rr :
  find_pk CS d T_towers [t] = Some tr -> max_receipt d t = Some rr ->
  su_addr s = col tr C_towers_net_addr -> su_slots s = col tr C_towers_available_slots ->
  su_start s = col rr C_registration_receipts_subscription_start ->
  su_expiry s = col rr C_registration_receipts_subscription_expiry ->
  set_eq (su_pending s) (pending_locators d t) -> set_eq (su_invalid s) (invalid_locators d t) ->
  summary_matches d t s.
Proof. intros. exists tr, rr. tauto. Qed.

Lemma Inv_add_pending c t l b dl : Inv c -> c_poisoned c = false -> Inv (fst (wt_add_pending_appointment c t l b dl)).
Proof.
  intros HI Hp. unfold wt_add_pending_appointment. destruct (aget (c_towers c) t) as [s|] eqn:E; [|exact HI].
  destruct (memN l (su_pending s)); [exact HI|].
  destruct (dbm_store_pending_appointment (c_db c) t l b dl) as [d'|e] eqn:Es; cbn [fst]; [|apply Inv_poison_towers; exact HI].
  destruct HI as [HD HM]. specialize (HM Hp).
  destruct (store_pending_spec _ _ _ _ _ _ HD Es) as [HD' [T2 Hfr]].
  split; [exact HD'|]. intros _.
  apply (MemInv_aset c _ t (su_with_pending s (set_add l (su_pending s)))); [reflexivity|exact HM| | |]; cbn [c_db with_db with_towers].
  - destruct (proj1 HM t s E) as [tr [rr [A [B [C1 [C2 [C3 [C4 [C5 C6]]]]]]]]].
    apply (summary_matches_intro d' t _ tr rr); cbn; auto.
    + rewrite (find_pk_ext (c_db c) d') by (apply Hfr; discriminate). exact A.
    + rewrite (max_receipt_ext (c_db c) d') by (apply Hfr; discriminate). exact B.
    + rewrite (pending_locators_app (c_db c) d' t l t T2), N.eqb_refl. apply set_eq_add. exact C5.
    + rewrite (invalid_locators_ext (c_db c) d') by (apply Hfr; discriminate). exact C6.
  - intros k s0 Hk [tr [rr [A [B [C1 [C2 [C3 [C4 [C5 C6]]]]]]]]].
    apply (summary_matches_intro d' k _ tr rr); auto.
    + rewrite (find_pk_ext (c_db c) d') by (apply Hfr; discriminate). exact A.
    + rewrite (max_receipt_ext (c_db c) d') by (apply Hfr; discriminate). exact B.
    + rewrite (pending_locators_app (c_db c) d' t l k T2).
      assert (En : N.eqb t k = false) by (apply N.eqb_neq; congruence). rewrite En, app_nil_r. exact C5.
    + rewrite (invalid_locators_ext (c_db c) d') by (apply Hfr; discriminate). exact C6.
  - intros k Hk H. rewrite (find_pk_ext (c_db c) d') by (apply Hfr; discriminate). exact H.
Qed.

Lemma Inv_add_invalid c t l b dl : Inv c -> c_poisoned c = false -> Inv (fst (wt_add_invalid_appointment c t l b dl)).
Proof.
  intros HI Hp. unfold wt_add_invalid_appointment. destruct (aget (c_towers c) t) as [s|] eqn:E; [|exact HI].
  destruct (memN l (su_invalid s)); [exact HI|].
  destruct (dbm_store_invalid_appointment (c_db c) t l b dl) as [d'|e] eqn:Es; cbn [fst]; [|apply Inv_poison_towers; exact HI].
  destruct HI as [HD HM]. specialize (HM Hp).
  destruct (store_invalid_spec _ _ _ _ _ _ HD Es) as [HD' [T2 Hfr]].
  split; [exact HD'|]. intros _.
  apply (MemInv_aset c _ t (su_with_invalid s (set_add l (su_invalid s)))); [reflexivity|exact HM| | |]; cbn [c_db with_db with_towers].
  - destruct (proj1 HM t s E) as [tr [rr [A [B [C1 [C2 [C3 [C4 [C5 C6]]]]]]]]].
    apply (summary_matches_intro d' t _ tr rr); cbn; auto.
    + rewrite (find_pk_ext (c_db c) d') by (apply Hfr; discriminate). exact A.
    + rewrite (max_receipt_ext (c_db c) d') by (apply Hfr; discriminate). exact B.
    + rewrite (pending_locators_ext (c_db c) d') by (apply Hfr; discriminate). exact C5.
    + rewrite (invalid_locators_app (c_db c) d' t l t T2), N.eqb_refl. apply set_eq_add. exact C6.
  - intros k s0 Hk [tr [rr [A [B [C1 [C2 [C3 [C4 [C5 C6]]]]]]]]].
    apply (summary_matches_intro d' k _ tr rr); auto.
    + rewrite (find_pk_ext (c_db c) d') by (apply Hfr; discriminate). exact A.
    + rewrite (max_receipt_ext (c_db c) d') by (apply Hfr; discriminate). exact B.
    + rewrite (pending_locators_ext (c_db c) d') by (apply Hfr; discriminate). exact C5.
    + rewrite (invalid_locators_app (c_db c) d' t l k T2).
      assert (En : N.eqb t k = false) by (apply N.eqb_neq; congruence). rewrite En, app_nil_r. exact C6.
  - intros k Hk H. rewrite (find_pk_ext (c_db c) d') by (apply Hfr; discriminate). exact H.
Qed.

Lemma upd_slots_other t slots r k : col r C_towers_tower_id = k -> k <> t -> upd_slots t slots r = r.
Proof.
  intros E Hk. unfold upd_slots. rewrite towers_key_eqb, E.
  assert (En : N.eqb k t = false) by (apply N.eqb_neq; exact Hk). rewrite En. reflexivity.
Qed.

Lemma upd_slots_same t slots r :
  col r C_towers_tower_id = t -> length r = 3 ->
  col (upd_slots t slots r) C_towers_net_addr = col r C_towers_net_addr /\
  col (upd_slots t slots r) C_towers_available_slots = slots.
Proof.
  intros E L. unfold upd_slots. rewrite towers_key_eqb, E, N.eqb_refl. cbn. unfold col. split.
  - apply nth_set_col. discriminate.
  - apply nth_set_col_same. rewrite L. unfold C_towers_available_slots. lia.
Qed.

Lemma towers_row_facts d k tr : DbInv d -> find_pk CS d T_towers [k] = Some tr -> col tr C_towers_tower_id = k /\ length tr = 3 /\ In tr (tbl d T_towers).
Proof.
  intros [_ [Har _]] H. apply find_pk_Some in H. destruct H as [Hin Hk]. cbn in Hk. inversion Hk as [E].
  split; [reflexivity|]. split; [exact (Har T_towers tr Hin)|exact Hin].
Qed.

Lemma Inv_add_receipt c t l slots sb u g :
  Inv c -> c_poisoned c = false -> Inv (fst (wt_add_appointment_receipt c t l slots sb u g)).
Proof.
  intros HI Hp. unfold wt_add_appointment_receipt. destruct (aget (c_towers c) t) as [s|] eqn:E; [|exact HI].
  destruct (dbm_load_appointment_receipt (c_db c) t l); [exact HI|].
  destruct (dbm_store_appointment_receipt (c_db c) t l slots sb u g) as [d'|e] eqn:Es; cbn [fst]; [|apply Inv_poison_towers; exact HI].
  destruct HI as [HD HM]. specialize (HM Hp).
  destruct (store_receipt_spec _ _ _ _ _ _ _ _ HD Es) as [HD' [T0 Hfr]].
  assert (Hfind : forall k, find_pk CS d' T_towers [k] = option_map (upd_slots t slots) (find_pk CS (c_db c) T_towers [k])).
  { intros k. apply find_pk_towers_map; [exact T0|]. intros r. apply upd_slots_key. }
  split; [exact HD'|]. intros _.
  apply (MemInv_aset c _ t (su_with_slots s slots)); [reflexivity|exact HM| | |]; cbn [c_db with_db with_towers].
  - destruct (proj1 HM t s E) as [tr [rr [A [B [C1 [C2 [C3 [C4 [C5 C6]]]]]]]]].
    destruct (towers_row_facts _ _ _ HD A) as [Ek [Hl _]].
    destruct (upd_slots_same t slots tr Ek Hl) as [U1 U2].
    apply (summary_matches_intro d' t _ (upd_slots t slots tr) rr); cbn; auto.
    + rewrite Hfind, A. reflexivity.
    + rewrite (max_receipt_ext (c_db c) d') by (apply Hfr; discriminate). exact B.
    + congruence.
    + rewrite (pending_locators_ext (c_db c) d') by (apply Hfr; discriminate). exact C5.
    + rewrite (invalid_locators_ext (c_db c) d') by (apply Hfr; discriminate). exact C6.
  - intros k s0 Hk [tr [rr [A [B [C1 [C2 [C3 [C4 [C5 C6]]]]]]]]].
    destruct (towers_row_facts _ _ _ HD A) as [Ek _].
    apply (summary_matches_intro d' k _ tr rr); auto.
    + rewrite Hfind, A. cbn. rewrite (upd_slots_other t slots tr k Ek Hk). reflexivity.
    + rewrite (max_receipt_ext (c_db c) d') by (apply Hfr; discriminate). exact B.
    + rewrite (pending_locators_ext (c_db c) d') by (apply Hfr; discriminate). exact C5.
    + rewrite (invalid_locators_ext (c_db c) d') by (apply Hfr; discriminate). exact C6.
  - intros k Hk H. rewrite Hfind, H. reflexivity.
Qed.

Lemma Inv_flag_misbehaving c t l sb u g rc :
  Inv c -> c_poisoned c = false -> Inv (fst (wt_flag_misbehaving_tower c t l sb u g rc)).
Proof.
  intros HI Hp. unfold wt_flag_misbehaving_tower. destruct (aget (c_towers c) t) as [s|] eqn:E; [|exact HI].
  destruct (flag_store (c_db c) t l sb u g rc) as [d'|e] eqn:Es; cbn [fst]; [|apply Inv_poison; exact HI].
  destruct HI as [HD HM]. specialize (HM Hp).
  destruct (flag_store_spec _ _ _ _ _ _ _ _ HD Es) as [HD' Hfr].
  assert (Hext : forall k s0, summary_matches (c_db c) k s0 -> summary_matches d' k s0).
  { intros k s0. apply summary_matches_ext; apply Hfr; discriminate. }
  split; [exact HD'|]. intros _.
  apply (MemInv_aset c _ t (su_with_status s Misbehaving)); [reflexivity|exact HM| | |]; cbn [c_db with_db with_towers].
  - apply summary_matches_status. apply Hext. apply HM. exact E.
  - intros k s0 _. apply Hext.
  - intros k _ H. rewrite (find_pk_ext (c_db c) d') by (apply Hfr; discriminate). exact H.
Qed.

(* remove_pending_appointment on a (tower, locator) that is a pending row *)
Lemma Inv_remove_pending c t l :
  Inv c -> c_poisoned c = false -> held_op c (SRemovePending t l) = true ->
  Inv (fst (wt_remove_pending_appointment c t l)).
Proof.
  intros HI Hp Hheld. unfold wt_remove_pending_appointment. cbn in Hheld.
  destruct (aget (c_towers c) t) as [s|] eqn:E; [|exact HI].
  destruct (dbm_delete_pending_appointment (c_db c) t l) as [d'|e] eqn:Es; cbn [fst]; [|apply Inv_poison_towers; exact HI].
  destruct HI as [HD HM]. specialize (HM Hp).
  destruct (delete_pending_spec _ _ _ _ HD Hheld Es) as [HD' [Hfr [HP _]]].
  assert (Hpl : forall k x, In x (pending_locators d' k) <-> In x (pending_locators (c_db c) k) /\ ~ (k = t /\ x = l)).
  { intros k x. rewrite !In_pending_locators. split.
    - intros [r [Hr [Hk Hx]]]. apply HP in Hr. destruct Hr as [Hr Hn]. split; [exists r; tauto|].
      intros [-> ->]. apply Hn. cbn. unfold col in Hk, Hx. rewrite Hk, Hx. reflexivity.
    - intros [[r [Hr [Hk Hx]]] Hn]. exists r. split; [|tauto]. apply HP. split; [exact Hr|].
      intros Ek. apply Hn. cbn in Ek. inversion Ek. unfold col in Hk, Hx. split; congruence. }
  split; [exact HD'|]. intros _.
  apply (MemInv_aset c _ t (su_with_pending s (set_remove l (su_pending s)))); [reflexivity|exact HM| | |]; cbn [c_db with_db with_towers].
  - destruct (proj1 HM t s E) as [tr [rr [A [B [C1 [C2 [C3 [C4 [C5 C6]]]]]]]]].
    apply (summary_matches_intro d' t _ tr rr); cbn; auto.
    + rewrite (find_pk_ext (c_db c) d') by (apply Hfr; discriminate). exact A.
    + rewrite (max_receipt_ext (c_db c) d') by (apply Hfr; discriminate). exact B.
    + intros x. rewrite In_set_remove, Hpl, (C5 x). split; [intros [A1 A2]; split; [exact A1|tauto]|].
      intros [A1 A2]. split; [exact A1|]. intros ->. apply A2. tauto.
    + rewrite (invalid_locators_ext (c_db c) d') by (apply Hfr; discriminate). exact C6.
  - intros k s0 Hk [tr [rr [A [B [C1 [C2 [C3 [C4 [C5 C6]]]]]]]]].
    apply (summary_matches_intro d' k _ tr rr); auto.
    + rewrite (find_pk_ext (c_db c) d') by (apply Hfr; discriminate). exact A.
    + rewrite (max_receipt_ext (c_db c) d') by (apply Hfr; discriminate). exact B.
    + intros x. rewrite Hpl, (C5 x). split; [intros A1; split; [exact A1|tauto]|tauto].
    + rewrite (invalid_locators_ext (c_db c) d') by (apply Hfr; discriminate). exact C6.
  - intros k Hk H. rewrite (find_pk_ext (c_db c) d') by (apply Hfr; discriminate). exact H.
Qed.

Lemma remove_tower_total d t : has_pk CS d T_towers [t] = true -> exists d', dbm_remove_tower_record d t = DbOk d'.
Proof.
  intros H. unfold dbm_remove_tower_record, db_delete. cbn [andb].
  assert (Hc : Nat.eqb (count_where d T_towers [C_towers_tower_id] [t]) 0 = false).
  { apply Nat.eqb_neq. apply has_pk_true in H. destruct H as [r [Hr Hk]]. unfold count_where, select_where.
    assert (1 <= length (filter (fun r => key_eqb (proj r [C_towers_tower_id]) [t]) (tbl d T_towers))); [|lia].
    apply (filter_one _ _ r Hr). apply key_eqb_eq. exact Hk. }
  rewrite Hc. destruct (delete_root_total d (where_root T_towers [C_towers_tower_id] [t])) as [d1 E1]. rewrite E1.
  apply delete_root_total.
Qed.

Lemma Inv_remove_tower c t : Inv c -> c_poisoned c = false -> Inv (fst (wt_remove_tower c t)).
Proof.
  intros HI Hp. unfold wt_remove_tower. destruct (aget (c_towers c) t) as [s|] eqn:E; [|exact HI].
  destruct HI as [HD HM]. specialize (HM Hp).
  destruct (proj1 HM t s E) as [tr0 [rr0 [A0 _]]].
  assert (Hhas : has_pk CS (c_db c) T_towers [t] = true) by (rewrite has_pk_find, A0; reflexivity).
  destruct (remove_tower_total _ _ Hhas) as [d' Es]. rewrite Es. cbn [fst].
  destruct (remove_tower_spec _ _ _ HD Es) as [HD' [Hfr _]].
  split; [exact HD'|]. intros _. split; cbn [c_db c_towers with_db with_towers].
  - intros k s0. rewrite aget_aremove. destruct (N.eqb k t) eqn:Ek; [discriminate|]. apply N.eqb_neq in Ek.
    intros H. destruct (proj1 HM k s0 H) as [tr [rr [A [B [C1 [C2 [C3 [C4 [C5 C6]]]]]]]]].
    apply (summary_matches_intro d' k _ tr rr); auto.
    + rewrite (find_pk_towers_filter (c_db c) d' t k) by (apply Hfr; discriminate).
      assert (En : N.eqb k t = false) by (apply N.eqb_neq; exact Ek). rewrite En. exact A.
    + rewrite (max_receipt_filter (c_db c) d' t k) by (try apply Hfr; try discriminate; exact Ek). exact B.
    + rewrite (pending_locators_filter (c_db c) d' t k) by (try apply Hfr; try discriminate; exact Ek). exact C5.
    + rewrite (invalid_locators_filter (c_db c) d' t k) by (try apply Hfr; try discriminate; exact Ek). exact C6.
  - intros k. rewrite aget_aremove. rewrite (find_pk_towers_filter (c_db c) d' t k) by (apply Hfr; discriminate).
    destruct (N.eqb k t); [reflexivity|]. apply HM.
Qed.

(* add_update_tower *)
Lemma upd_tower_other t a s r k : col r C_towers_tower_id = k -> k <> t -> upd_tower t a s r = r.
Proof.
  intros E Hk. unfold upd_tower. rewrite towers_key_eqb, E.
  assert (En : N.eqb k t = false) by (apply N.eqb_neq; exact Hk). rewrite En. reflexivity.
Qed.

Lemma upd_tower_same t a s r :
  col r C_towers_tower_id = t -> length r = 3 ->
  col (upd_tower t a s r) C_towers_net_addr = a /\ col (upd_tower t a s r) C_towers_available_slots = s.
Proof.
  intros E L. unfold upd_tower. rewrite towers_key_eqb, E, N.eqb_refl. cbn. unfold col. split.
  - rewrite nth_set_col by discriminate. apply nth_set_col_same. rewrite L. unfold C_towers_net_addr. lia.
  - apply nth_set_col_same. rewrite length_set_col, L. unfold C_towers_available_slots. lia.
Qed.

Lemma filter_nil_iff {A} (f : A -> bool) l : filter f l = [] <-> forall x, In x l -> f x = false.
Proof.
  induction l as [|y l IH]; cbn; [split; [intros _ x []|reflexivity]|].
  destruct (f y) eqn:E.
  - split; [discriminate|]. intros H. rewrite (H y (or_introl eq_refl)) in E. discriminate.
  - rewrite IH. split; [intros H x [<-|Hx]; [exact E|apply H; exact Hx]|intros H x Hx; apply H; right; exact Hx].
Qed.

Lemma no_rows_without_tower d t :
  DbInv d -> find_pk CS d T_towers [t] = None ->
  max_receipt d t = None /\ pending_locators d t = [] /\ invalid_locators d t = [].
Proof.
  intros [[Hfk _] _] H. rewrite find_pk_None in H.
  assert (Hno : forall tr, In tr (tbl d T_towers) -> col tr C_towers_tower_id <> t).
  { intros tr Htr E. apply (H tr Htr). cbn. f_equal. exact E. }
  split; [|split].
  - rewrite max_receipt_fold. apply fold_rr_none. intros r Hr E.
    destruct (fk_rr_tower d r Hfk Hr) as [tr [Htr Et]]. apply (Hno tr Htr). congruence.
  - unfold pending_locators. rewrite (proj2 (filter_nil_iff _ _)); [reflexivity|].
    intros r Hr. apply N.eqb_neq. intros E. destruct (fk_pending_tower d r Hfk Hr) as [tr [Htr Et]]. apply (Hno tr Htr). congruence.
  - unfold invalid_locators. rewrite (proj2 (filter_nil_iff _ _)); [reflexivity|].
    intros r Hr. apply N.eqb_neq. intros E. destruct (fk_invalid_tower d r Hfk Hr) as [tr [Htr Et]]. apply (Hno tr Htr). congruence.
Qed.

Definition new_summary (c : client) (t addr slots start expiry : N) : summary :=
  match aget (c_towers c) t with
  | Some s => {| su_addr := addr; su_slots := slots; su_start := start; su_expiry := expiry;
                 su_status := su_status s; su_pending := su_pending s; su_invalid := su_invalid s |}
  | None => {| su_addr := addr; su_slots := slots; su_start := start; su_expiry := expiry;
               su_status := Reachable; su_pending := []; su_invalid := [] |}
  end.

Lemma rr_step_other t k best slots start expiry sg : t <> k -> rr_step k best [t; slots; start; expiry; sg] = best.
Proof.
  intros H. unfold rr_step. unfold col. cbn. assert (En : N.eqb t k = false) by (apply N.eqb_neq; exact H).
  rewrite En. reflexivity.
Qed.

Lemma Inv_store_tower c t addr slots start expiry sg d' :
  Inv c -> c_poisoned c = false ->
  dbm_store_tower_record (c_db c) t addr slots start expiry sg = DbOk d' ->
  (forall s, aget (c_towers c) t = Some s -> (su_expiry s < expiry)%N) ->
  Inv (with_towers (with_db c d') (aset (c_towers c) t (new_summary c t addr slots start expiry))).
Proof.
  intros [HD HM] Hp Es Hexp. specialize (HM Hp).
  destruct (store_tower_spec _ _ _ _ _ _ _ _ HD Es) as [HD' [T4 [T0 Hfr]]].
  split; [exact HD'|]. intros _.
  assert (Hmax : forall k, k <> t -> max_receipt d' k = max_receipt (c_db c) k).
  { intros k Hk. rewrite (max_receipt_app (c_db c) d' _ k T4). apply rr_step_other. congruence. }
  unfold new_summary. destruct (aget (c_towers c) t) as [s|] eqn:E.
  - (* renewal *)
    destruct (proj1 HM t s E) as [tr [rr [A [B [C1 [C2 [C3 [C4 [C5 C6]]]]]]]]].
    assert (Hhas : has_pk CS (c_db c) T_towers [t] = true) by (rewrite has_pk_find, A; reflexivity).
    rewrite Hhas in T0.
    assert (Hfind : forall k, find_pk CS d' T_towers [k] = option_map (upd_tower t addr slots) (find_pk CS (c_db c) T_towers [k])).
    { intros k. apply find_pk_towers_map; [exact T0|]. intros r. apply upd_tower_key. }
    destruct (towers_row_facts _ _ _ HD A) as [Ek [Hl _]].
    destruct (upd_tower_same t addr slots tr Ek Hl) as [U1 U2].
    eapply (MemInv_aset c _ t); [reflexivity|exact HM| | |]; cbn [c_db with_db with_towers].
    + apply (summary_matches_intro d' t _ (upd_tower t addr slots tr) [t; slots; start; expiry; sg]); cbn; auto.
      * rewrite Hfind, A. reflexivity.
      * rewrite (max_receipt_app (c_db c) d' _ t T4), B. unfold rr_step. unfold col at 1. cbn [nth C_registration_receipts_tower_id].
        rewrite N.eqb_refl. specialize (Hexp s eq_refl). rewrite C4 in Hexp.
        assert (El : N.ltb (col rr C_registration_receipts_subscription_expiry)
                           (col [t; slots; start; expiry; sg] C_registration_receipts_subscription_expiry) = true)
          by (apply N.ltb_lt; exact Hexp).
        rewrite El. reflexivity.
      * rewrite (pending_locators_ext (c_db c) d') by (apply Hfr; discriminate). exact C5.
      * rewrite (invalid_locators_ext (c_db c) d') by (apply Hfr; discriminate). exact C6.
    + intros k s0 Hk [tr1 [rr1 [A1 [B1 [D1 [D2 [D3 [D4 [D5 D6]]]]]]]]].
      destruct (towers_row_facts _ _ _ HD A1) as [Ek1 _].
      apply (summary_matches_intro d' k _ tr1 rr1); auto.
      * rewrite Hfind, A1. cbn. rewrite (upd_tower_other t addr slots tr1 k Ek1 Hk). reflexivity.
      * rewrite Hmax by exact Hk. exact B1.
      * rewrite (pending_locators_ext (c_db c) d') by (apply Hfr; discriminate). exact D5.
      * rewrite (invalid_locators_ext (c_db c) d') by (apply Hfr; discriminate). exact D6.
    + intros k Hk H. rewrite Hfind, H. reflexivity.
  - (* first registration *)
    pose proof (proj2 HM t E) as A.
    assert (Hhas : has_pk CS (c_db c) T_towers [t] = false) by (rewrite has_pk_find, A; reflexivity).
    rewrite Hhas in T0.
    destruct (no_rows_without_tower _ _ HD A) as [N1 [N2 N3]].
    eapply (MemInv_aset c _ t); [reflexivity|exact HM| | |]; cbn [c_db with_db with_towers].
    + apply (summary_matches_intro d' t _ [t; addr; slots] [t; slots; start; expiry; sg]); cbn; auto.
      * rewrite (find_pk_towers_app (c_db c) d' t addr slots t T0), A, N.eqb_refl. reflexivity.
      * rewrite (max_receipt_app (c_db c) d' _ t T4), N1. unfold rr_step. unfold col. cbn [nth C_registration_receipts_tower_id].
        rewrite N.eqb_refl. reflexivity.
      * rewrite (pending_locators_ext (c_db c) d') by (apply Hfr; discriminate). rewrite N2. intros x. tauto.
      * rewrite (invalid_locators_ext (c_db c) d') by (apply Hfr; discriminate). rewrite N3. intros x. tauto.
    + intros k s0 Hk [tr1 [rr1 [A1 [B1 [D1 [D2 [D3 [D4 [D5 D6]]]]]]]]].
      apply (summary_matches_intro d' k _ tr1 rr1); auto.
      * rewrite (find_pk_towers_app (c_db c) d' t addr slots k T0), A1. reflexivity.
      * rewrite Hmax by exact Hk. exact B1.
      * rewrite (pending_locators_ext (c_db c) d') by (apply Hfr; discriminate). exact D5.
      * rewrite (invalid_locators_ext (c_db c) d') by (apply Hfr; discriminate). exact D6.
    + intros k Hk H. rewrite (find_pk_towers_app (c_db c) d' t addr slots k T0), H.
      assert (En : N.eqb t k = false) by (apply N.eqb_neq; congruence). rewrite En. reflexivity.
Qed.

Lemma Inv_add_update_tower c t addr slots start expiry sg :
  Inv c -> c_poisoned c = false -> Inv (fst (wt_add_update_tower c t addr slots start expiry sg)).
Proof.
  intros HI Hp. unfold wt_add_update_tower.
  assert (Hstore : (forall s, aget (c_towers c) t = Some s -> (su_expiry s < expiry)%N) ->
    Inv (fst match dbm_store_tower_record (c_db c) t addr slots start expiry sg with
             | DbOk d' => (with_towers (with_db c d') (aset (c_towers c) t (new_summary c t addr slots start expiry)), ROk)
             | DbErr _ => (poison c, RAbort Site_store_tower_record_unwrap)
             end)).
  { intros Hexp. destruct (dbm_store_tower_record (c_db c) t addr slots start expiry sg) as [d'|e] eqn:Es; cbn [fst].
    - exact (Inv_store_tower c t addr slots start expiry sg d' HI Hp Es Hexp).
    - apply Inv_poison. exact HI. }
  unfold new_summary in Hstore.
  destruct (aget (c_towers c) t) as [s|] eqn:E.
  - destruct (N.leb expiry (su_expiry s)) eqn:El; [exact HI|]. apply N.leb_gt in El.
    destruct (load_tower_record (c_db c) t) as [|info|st]; cbn [fst]; try (apply Inv_poison; exact HI).
    destruct (N.leb slots (ti_slots info)); [exact HI|].
    apply Hstore. intros s0 H. injection H as <-. exact El.
  - apply Hstore. intros s0 H. discriminate.
Qed.

(* ---------- load_towers, reload ---------- *)
Lemma aget_flat_map_none (g : row -> option summary) rows t :
  (forall r, In r rows -> col r C_towers_tower_id <> t) ->
  aget (flat_map (fun tr => match g tr with Some s => [(col tr C_towers_tower_id, s)] | None => [] end) rows) t = None.
Proof.
  induction rows as [|r rows IH]; cbn [flat_map]; intros H; [reflexivity|].
  assert (Hr : col r C_towers_tower_id <> t) by (apply H; left; reflexivity).
  assert (IH' := IH (fun x Hx => H x (or_intror Hx))).
  destruct (g r) as [s|]; cbn [app aget]; [|exact IH'].
  assert (En : N.eqb t (col r C_towers_tower_id) = false) by (apply N.eqb_neq; congruence). rewrite En. exact IH'.
Qed.

Lemma aget_flat_map_rows (g : row -> option summary) rows t :
  NoDup (map (fun r => col r C_towers_tower_id) rows) ->
  aget (flat_map (fun tr => match g tr with Some s => [(col tr C_towers_tower_id, s)] | None => [] end) rows) t =
  match find (fun r => N.eqb (col r C_towers_tower_id) t) rows with Some tr => g tr | None => None end.
Proof.
  induction rows as [|r rows IH]; cbn [flat_map find map]; intros Hnd; [reflexivity|].
  inversion Hnd as [|? ? Hnin Hnd']; subst. specialize (IH Hnd').
  destruct (N.eqb (col r C_towers_tower_id) t) eqn:E.
  - apply N.eqb_eq in E. destruct (g r) as [s|] eqn:Eg; cbn [app aget].
    + rewrite <- E, N.eqb_refl. reflexivity.
    + apply aget_flat_map_none. intros x Hx Ex. apply Hnin. rewrite E, <- Ex.
      apply (in_map (fun r => col r C_towers_tower_id)). exact Hx.
  - destruct (g r) as [s|]; cbn [app aget]; [|exact IH].
    assert (En : N.eqb t (col r C_towers_tower_id) = false) by (rewrite N.eqb_sym; exact E). rewrite En. exact IH.
Qed.

Lemma towers_keys_nodup d : pk_ok CS d -> NoDup (map (fun r => col r C_towers_tower_id) (tbl d T_towers)).
Proof.
  intros H. specialize (H T_towers). cbn in H.
  rewrite <- (map_map (fun r => col r C_towers_tower_id) (fun x => [x])) in H. exact (NoDup_map_inv _ _ H).
Qed.

Lemma aget_load_towers d t : DbInv d ->
  aget (load_towers d) t = match find_pk CS d T_towers [t] with Some tr => load_summary d tr | None => None end.
Proof.
  intros [[_ Hpk] _]. unfold load_towers. rewrite find_pk_towers.
  apply (aget_flat_map_rows (load_summary d)). apply towers_keys_nodup. exact Hpk.
Qed.

Lemma max_receipt_some d t : has_receipt d t -> exists rr, max_receipt d t = Some rr.
Proof.
  intros [rr [Hrr E]]. rewrite max_receipt_fold.
  pose proof (fold_rr_spec t (tbl d T_registration_receipts) None) as H.
  destruct (fold_left (rr_step t) (tbl d T_registration_receipts) None) as [m|]; [eexists; reflexivity|].
  exfalso. destruct H as [_ H]; [intros b Hb; discriminate|]. exact (H rr Hrr E).
Qed.

Lemma load_towers_matches d t s : DbInv d -> aget (load_towers d) t = Some s ->
  summary_matches d t s /\ su_status s = db_status d t (pending_locators d t).
Proof.
  intros HD H. rewrite (aget_load_towers d t HD) in H.
  destruct (find_pk CS d T_towers [t]) as [tr|] eqn:A; [|discriminate].
  destruct (towers_row_facts _ _ _ HD A) as [Ek _]. unfold load_summary in H. rewrite Ek in H.
  destruct (max_receipt d t) as [rr|] eqn:B; [|discriminate]. injection H as <-. split; [|reflexivity].
  apply (summary_matches_intro d t _ tr rr); cbn; auto; intros x; tauto.
Qed.

Lemma Inv_reload c : DbInv (c_db c) -> Inv (wt_reload c).
Proof.
  intros HD. split; [exact HD|]. intros _. split; cbn [c_db c_towers wt_reload].
  - intros t s H. exact (proj1 (load_towers_matches _ t s HD H)).
  - intros t H. rewrite (aget_load_towers _ t HD) in H.
    destruct (find_pk CS (c_db c) T_towers [t]) as [tr|] eqn:A; [|reflexivity]. exfalso.
    destruct (towers_row_facts _ _ _ HD A) as [Ek [_ Hin]]. unfold load_summary in H. rewrite Ek in H.
    destruct HD as [_ [_ [_ Hrec]]]. specialize (Hrec tr Hin). rewrite Ek in Hrec.
    destruct (max_receipt_some _ _ Hrec) as [rr B]. rewrite B in H. discriminate.
Qed.

(* ---------- memory = disk in boolean form ---------- *)
Lemma subsetN_true a b : (forall x, In x a -> In x b) -> subsetN a b = true.
Proof.
  induction a as [|x a IH]; cbn; intros H; [reflexivity|]. apply andb_true_iff. split.
  - apply memN_In. apply H. left. reflexivity.
  - apply IH. intros y Hy. apply H. right. exact Hy.
Qed.

Lemma set_eqb_true a b : set_eq a b -> set_eqb a b = true.
Proof. intros H. unfold set_eqb. apply andb_true_iff. split; apply subsetN_true; intros x; apply H. Qed.

Lemma summary_matches_eqb d t s s' : DbInv d -> summary_matches d t s -> aget (load_towers d) t = Some s' ->
  summary_eqb_mod_status s s' = true /\ summary_eqb_mod_status s' s = true.
Proof.
  intros HD [tr [rr [A [B [C1 [C2 [C3 [C4 [C5 C6]]]]]]]]] H.
  rewrite (aget_load_towers d t HD), A in H. destruct (towers_row_facts _ _ _ HD A) as [Ek _].
  unfold load_summary in H. rewrite Ek, B in H. injection H as <-. unfold summary_eqb_mod_status. cbn.
  rewrite C1, C2, C3, C4, !N.eqb_refl. cbn. split; apply andb_true_iff; split; apply set_eqb_true; auto;
    intros x; [symmetry; apply C5|symmetry; apply C6].
Qed.

Lemma MemInv_key c k : DbInv (c_db c) -> MemInv c ->
  match aget (c_towers c) k, aget (load_towers (c_db c)) k with
  | Some a, Some b => summary_eqb_mod_status a b = true /\ summary_eqb_mod_status b a = true
  | None, None => True
  | _, _ => False
  end.
Proof.
  intros HD [M1 M2]. destruct (aget (c_towers c) k) as [s|] eqn:E.
  - pose proof (M1 k s E) as Hm. destruct Hm as [tr [rr Hm]].
    destruct (aget (load_towers (c_db c)) k) as [s'|] eqn:E'.
    + apply (summary_matches_eqb (c_db c) k); [exact HD| |exact E']. exists tr, rr. exact Hm.
    + rewrite (aget_load_towers _ k HD) in E'. destruct Hm as [A [B _]]. rewrite A in E'.
      destruct (towers_row_facts _ _ _ HD A) as [Ek _]. unfold load_summary in E'. rewrite Ek, B in E'. discriminate.
  - rewrite (aget_load_towers _ k HD), (M2 k E). exact I.
Qed.

Lemma MemInv_mem_eq_diskb c : DbInv (c_db c) -> MemInv c -> mem_eq_diskb c = true.
Proof.
  intros HD HM. unfold mem_eq_diskb, towers_eqb_mod_status. apply forallb_forall. intros k _.
  pose proof (MemInv_key c k HD HM) as H.
  destruct (aget (c_towers c) k), (aget (load_towers (c_db c)) k); tauto.
Qed.

Lemma MemInv_reload_eqb c : DbInv (c_db c) -> MemInv c -> towers_eqb_mod_status (c_towers (wt_reload c)) (c_towers c) = true.
Proof.
  intros HD HM. unfold towers_eqb_mod_status. apply forallb_forall. intros k _. cbn [c_towers wt_reload].
  pose proof (MemInv_key c k HD HM) as H.
  destruct (aget (c_towers c) k), (aget (load_towers (c_db c)) k); tauto.
Qed.

(* ---------- steps and runs ---------- *)
Lemma Inv_wt_new : Inv wt_new.
Proof.
  split; [exact DbInv_new|]. intros _. split; cbn.
  - intros t s H. discriminate.
  - intros t _. change (find_pk CS dbm_new T_towers [t] = None). rewrite dbm_new_eq. reflexivity.
Qed.

Lemma is_pending_row_ext d d' t l :
  tbl d' T_pending_appointments = tbl d T_pending_appointments -> is_pending_row d' t l = is_pending_row d t l.
Proof. unfold is_pending_row, has_pk. intros ->. reflexivity. Qed.

Lemma held_after_receipt c t l slots sb u g :
  c_poisoned c = false -> held_op c (SRemovePending t l) = true ->
  is_abort (snd (wt_add_appointment_receipt c t l slots sb u g)) = false ->
  c_poisoned (fst (wt_add_appointment_receipt c t l slots sb u g)) = false /\
  held_op (fst (wt_add_appointment_receipt c t l slots sb u g)) (SRemovePending t l) = true.
Proof.
  intros Hp Hh. unfold wt_add_appointment_receipt. cbn [held_op] in *.
  destruct (aget (c_towers c) t) as [s|] eqn:E; [|cbn; rewrite E; tauto].
  destruct (dbm_load_appointment_receipt (c_db c) t l); [cbn; rewrite E; tauto|].
  destruct (dbm_store_appointment_receipt (c_db c) t l slots sb u g) as [d'|e] eqn:Es; cbn [fst snd is_abort]; [|discriminate].
  intros _. split; [exact Hp|]. cbn [c_towers c_db with_db with_towers]. rewrite aget_aset, N.eqb_refl.
  unfold dbm_store_appointment_receipt in Es.
  destruct (db_insert CS (c_db c) T_appointment_receipts (receipt_row t l sb u g)) as [d1|e1] eqn:E1; [|discriminate].
  pose proof (tbl_insert CS _ _ _ d1 E1) as [_ [O1 _]]. pose proof (tbl_update CS d1 _ _ _ _ d' Es) as [O2 _].
  rewrite (is_pending_row_ext (c_db c) d'); [exact Hh|]. rewrite O2 by discriminate. apply O1. discriminate.
Qed.

Lemma held_after_invalid c t l b dl :
  c_poisoned c = false -> held_op c (SRemovePending t l) = true ->
  is_abort (snd (wt_add_invalid_appointment c t l b dl)) = false ->
  c_poisoned (fst (wt_add_invalid_appointment c t l b dl)) = false /\
  held_op (fst (wt_add_invalid_appointment c t l b dl)) (SRemovePending t l) = true.
Proof.
  intros Hp Hh. unfold wt_add_invalid_appointment. cbn [held_op] in *.
  destruct (aget (c_towers c) t) as [s|] eqn:E; [|cbn; rewrite E; tauto].
  destruct (memN l (su_invalid s)); [cbn; rewrite E; tauto|].
  destruct (dbm_store_invalid_appointment (c_db c) t l b dl) as [d'|e] eqn:Es; cbn [fst snd is_abort]; [|discriminate].
  intros _. split; [exact Hp|]. cbn [c_towers c_db with_db with_towers]. rewrite aget_aset, N.eqb_refl.
  unfold dbm_store_invalid_appointment in Es.
  destruct (exec_ignore_insert_frame (c_db c) T_appointments (body_row l b dl)) as [F1 _].
  pose proof (tbl_insert CS _ _ _ d' Es) as [_ [O2 _]].
  rewrite (is_pending_row_ext (c_db c) d'); [exact Hh|]. rewrite O2 by discriminate. apply F1. discriminate.
Qed.

Lemma Inv_sstep c o : Inv c -> (c_poisoned c = true \/ held_op c o = true) -> Inv (fst (sstep c o)).
Proof.
  intros HI Hh. destruct o; try (cbn [sstep fst]; apply Inv_reload; apply HI);
    unfold sstep; destruct (c_poisoned c) eqn:Hp; try exact HI;
    (destruct Hh as [Hh|Hh]; [discriminate|]).
  - apply Inv_add_update_tower; assumption.
  - apply Inv_add_receipt; assumption.
  - apply Inv_add_pending; assumption.
  - apply Inv_remove_pending; assumption.
  - apply Inv_add_invalid; assumption.
  - unfold seq2. destruct (is_abort (snd (wt_add_appointment_receipt c t l slots sb usig tsig))) eqn:Ea.
    + apply Inv_add_receipt; assumption.
    + destruct (held_after_receipt c t l slots sb usig tsig Hp Hh Ea) as [Hp1 Hh1].
      apply Inv_remove_pending; [apply Inv_add_receipt; assumption|exact Hp1|exact Hh1].
  - unfold seq2. destruct (is_abort (snd (wt_add_invalid_appointment c t l blob delay))) eqn:Ea.
    + apply Inv_add_invalid; assumption.
    + destruct (held_after_invalid c t l blob delay Hp Hh Ea) as [Hp1 Hh1].
      apply Inv_remove_pending; [apply Inv_add_invalid; assumption|exact Hp1|exact Hh1].
  - apply Inv_flag_misbehaving; assumption.
  - apply Inv_remove_tower; assumption.
  - cbn [fst]. apply Inv_set_status. exact HI.
Qed.

Lemma Inv_srun ops : forall c, Inv c -> held_ops c ops = true -> Inv (srun c ops).
Proof.
  induction ops as [|o ops IH]; intros c HI Hh; cbn in *; [exact HI|].
  apply andb_true_iff in Hh. destruct Hh as [H1 H2]. apply IH; [|exact H2].
  apply Inv_sstep; [exact HI|]. apply orb_true_iff in H1. exact H1.
Qed.

(* ---------- the database invariant needs no hypothesis on the sequence ---------- *)
Lemma DbInv_delete_pending d t l d' : DbInv d -> dbm_delete_pending_appointment d t l = DbOk d' -> DbInv d'.
Proof.
  intros [Hok [Har [L Hrec]]] H.
  assert (Hroot : exists root, db_delete_root CS d root = DbOk d' /\ (root = body_root l \/ root = pending_root t l)).
  { unfold dbm_delete_pending_appointment in H. destruct (Nat.eqb (ref_count d l) 1);
      apply db_delete_inv in H; destruct H as [H _]; eexists; split; try exact H; [left|right]; reflexivity. }
  destruct Hroot as [root [Hdel Hcase]].
  assert (Hfr : forall c, c = T_towers \/ c = T_registration_receipts -> tbl d' c = tbl d c).
  { intros c Hc. destruct Hcase as [-> | ->].
    - rewrite (body_delete_spec d l d' (proj1 Hok) Hdel). apply filter_all_true. intros r _.
      destruct Hc as [-> | ->]; reflexivity.
    - rewrite (pending_delete_spec d t l d' Hdel). apply filter_all_true. intros r _.
      destruct Hc as [-> | ->]; reflexivity. }
  split; [exact (delete_root_preserves_ok CS d root d' CS_wf Hok Hdel)|].
  split; [exact (delete_root_preserves_arity CS d root d' Har Hdel)|].
  split; [apply tbl_delete_root in Hdel; destruct Hdel as [_ Hl]; congruence|].
  intros tr Htr. rewrite Hfr in Htr by (left; reflexivity). destruct (Hrec tr Htr) as [rr [Hrr Err]].
  exists rr. split; [|exact Err]. rewrite Hfr by (right; reflexivity). exact Hrr.
Qed.

Lemma DbInv_add_update_tower c t a s b e g : DbInv (c_db c) -> DbInv (c_db (fst (wt_add_update_tower c t a s b e g))).
Proof.
  intros HD. unfold wt_add_update_tower.
  assert (Hs : DbInv (c_db (fst match dbm_store_tower_record (c_db c) t a s b e g with
             | DbOk d' => (with_towers (with_db c d') (aset (c_towers c) t (new_summary c t a s b e)), ROk)
             | DbErr _ => (poison c, RAbort Site_store_tower_record_unwrap) end))).
  { destruct (dbm_store_tower_record (c_db c) t a s b e g) as [d'|er] eqn:Es; cbn; [|exact HD].
    exact (proj1 (store_tower_spec _ _ _ _ _ _ _ _ HD Es)). }
  unfold new_summary in Hs.
  destruct (aget (c_towers c) t) as [su|]; [|exact Hs].
  destruct (N.leb e (su_expiry su)); [exact HD|].
  destruct (load_tower_record (c_db c) t) as [|info|st]; try exact HD.
  destruct (N.leb s (ti_slots info)); [exact HD|exact Hs].
Qed.

Lemma DbInv_add_receipt c t l s b u g : DbInv (c_db c) -> DbInv (c_db (fst (wt_add_appointment_receipt c t l s b u g))).
Proof.
  intros HD. unfold wt_add_appointment_receipt. destruct (aget (c_towers c) t); [|exact HD].
  destruct (dbm_load_appointment_receipt (c_db c) t l); [exact HD|].
  destruct (dbm_store_appointment_receipt (c_db c) t l s b u g) as [d'|e] eqn:Es; cbn; [|exact HD].
  exact (proj1 (store_receipt_spec _ _ _ _ _ _ _ _ HD Es)).
Qed.

Lemma DbInv_add_pending c t l b dl : DbInv (c_db c) -> DbInv (c_db (fst (wt_add_pending_appointment c t l b dl))).
Proof.
  intros HD. unfold wt_add_pending_appointment. destruct (aget (c_towers c) t) as [s|]; [|exact HD].
  destruct (memN l (su_pending s)); [exact HD|].
  destruct (dbm_store_pending_appointment (c_db c) t l b dl) as [d'|e] eqn:Es; cbn; [|exact HD].
  exact (proj1 (store_pending_spec _ _ _ _ _ _ HD Es)).
Qed.

Lemma DbInv_add_invalid c t l b dl : DbInv (c_db c) -> DbInv (c_db (fst (wt_add_invalid_appointment c t l b dl))).
Proof.
  intros HD. unfold wt_add_invalid_appointment. destruct (aget (c_towers c) t) as [s|]; [|exact HD].
  destruct (memN l (su_invalid s)); [exact HD|].
  destruct (dbm_store_invalid_appointment (c_db c) t l b dl) as [d'|e] eqn:Es; cbn; [|exact HD].
  exact (proj1 (store_invalid_spec _ _ _ _ _ _ HD Es)).
Qed.

Lemma DbInv_remove_pending c t l : DbInv (c_db c) -> DbInv (c_db (fst (wt_remove_pending_appointment c t l))).
Proof.
  intros HD. unfold wt_remove_pending_appointment. destruct (aget (c_towers c) t) as [s|]; [|exact HD].
  destruct (dbm_delete_pending_appointment (c_db c) t l) as [d'|e] eqn:Es; cbn; [|exact HD].
  exact (DbInv_delete_pending _ _ _ _ HD Es).
Qed.

Lemma DbInv_flag c t l b u g rc : DbInv (c_db c) -> DbInv (c_db (fst (wt_flag_misbehaving_tower c t l b u g rc))).
Proof.
  intros HD. unfold wt_flag_misbehaving_tower. destruct (aget (c_towers c) t) as [s|]; [|exact HD].
  destruct (flag_store (c_db c) t l b u g rc) as [d'|e] eqn:Es; cbn; [|exact HD].
  exact (proj1 (flag_store_spec _ _ _ _ _ _ _ _ HD Es)).
Qed.

Lemma DbInv_remove_tower c t : DbInv (c_db c) -> DbInv (c_db (fst (wt_remove_tower c t))).
Proof.
  intros HD. unfold wt_remove_tower. destruct (aget (c_towers c) t) as [s|]; [|exact HD].
  destruct (dbm_remove_tower_record (c_db c) t) as [d'|e] eqn:Es; cbn; [|exact HD].
  exact (proj1 (remove_tower_spec _ _ _ HD Es)).
Qed.

Lemma DbInv_set_status c t st : c_db (wt_set_tower_status c t st) = c_db c.
Proof. unfold wt_set_tower_status. destruct (aget (c_towers c) t); [destruct (_ && _)|]; reflexivity. Qed.

Lemma DbInv_sstep c o : DbInv (c_db c) -> DbInv (c_db (fst (sstep c o))).
Proof.
  intros HD. destruct o; try exact HD; unfold sstep; destruct (c_poisoned c); try exact HD.
  - apply DbInv_add_update_tower; exact HD.
  - apply DbInv_add_receipt; exact HD.
  - apply DbInv_add_pending; exact HD.
  - apply DbInv_remove_pending; exact HD.
  - apply DbInv_add_invalid; exact HD.
  - unfold seq2. destruct (is_abort _); [apply DbInv_add_receipt; exact HD|].
    apply DbInv_remove_pending. apply DbInv_add_receipt. exact HD.
  - unfold seq2. destruct (is_abort _); [apply DbInv_add_invalid; exact HD|].
    apply DbInv_remove_pending. apply DbInv_add_invalid. exact HD.
  - apply DbInv_flag; exact HD.
  - apply DbInv_remove_tower; exact HD.
  - cbn [fst]. rewrite DbInv_set_status. exact HD.
Qed.

Lemma DbInv_srun ops : forall c, DbInv (c_db c) -> DbInv (c_db (srun c ops)).
Proof.
  induction ops as [|o ops IH]; intros c HD; cbn; [exact HD|]. apply IH. apply DbInv_sstep. exact HD.
Qed.

(* ---------- the C18 theorems ---------- *)
Theorem mem_eq_disk ops :
  held_ops wt_new ops = true -> c_poisoned (srun wt_new ops) = false -> mem_eq_diskb (srun wt_new ops) = true.
Proof.
  intros Hh Hp. destruct (Inv_srun ops wt_new Inv_wt_new Hh) as [HD HM].
  apply MemInv_mem_eq_diskb; [exact HD|apply HM; exact Hp].
Qed.

Lemma load_towers_pending d t s : DbInv d -> aget (load_towers d) t = Some s ->
  su_pending s = pending_locators d t /\ su_invalid s = invalid_locators d t.
Proof.
  intros HD H. rewrite (aget_load_towers d t HD) in H.
  destruct (find_pk CS d T_towers [t]) as [tr|] eqn:A; [|discriminate].
  destruct (towers_row_facts _ _ _ HD A) as [Ek _]. unfold load_summary in H. rewrite Ek in H.
  destruct (max_receipt d t) as [rr|]; [|discriminate]. injection H as <-. split; reflexivity.
Qed.

(* whatever happened before (aborts, removals that were not held): a restart yields a client whose
   memory is what the file says, with the status recomputed by the rule *)
Theorem reload_consistent ops :
  let c := wt_reload (srun wt_new ops) in
  c_poisoned c = false /\ mem_eq_diskb c = true /\ wt_reload c = c /\
  (forall t s, aget (c_towers c) t = Some s ->
     su_status s = if exists_misbehaving_proof (c_db c) t then Misbehaving
                   else match su_pending s with [] => Reachable | _ => TemporaryUnreachable end).
Proof.
  cbn zeta. pose proof (DbInv_srun ops wt_new DbInv_new) as HD.
  destruct (Inv_reload _ HD) as [HD' HM]. split; [reflexivity|]. split; [|split; [reflexivity|]].
  - apply MemInv_mem_eq_diskb; [exact HD'|apply HM; reflexivity].
  - intros t s H. cbn [c_towers c_db wt_reload] in *.
    destruct (load_towers_matches _ t s HD H) as [_ Hs]. destruct (load_towers_pending _ t s HD H) as [Hpn _].
    rewrite Hs, Hpn. reflexivity.
Qed.

(* ... and when nothing aborted and the removals were held, these are the summaries the running
   client had (up to the status, which memory alone knows) *)
Theorem reload_reproduces ops :
  held_ops wt_new ops = true -> c_poisoned (srun wt_new ops) = false ->
  towers_eqb_mod_status (c_towers (wt_reload (srun wt_new ops))) (c_towers (srun wt_new ops)) = true.
Proof.
  intros Hh Hp. destruct (Inv_srun ops wt_new Inv_wt_new Hh) as [HD HM].
  apply MemInv_reload_eqb; [exact HD|apply HM; exact Hp].
Qed.

(* gettowerinfo (load_tower_record) reads the same tables *)
Lemma load_appointments_locs d locs :
  (forall l, In l locs -> exists b, find_pk CS d T_appointments [l] = Some b) ->
  map (fun b => col b C_appointments_locator) (load_appointments d locs) = locs.
Proof.
  induction locs as [|l locs IH]; cbn; intros H; [reflexivity|].
  destruct (H l (or_introl eq_refl)) as [b Hb]. rewrite Hb. cbn. f_equal.
  - apply find_pk_Some in Hb. destruct Hb as [_ Hk]. cbn in Hk. inversion Hk. reflexivity.
  - apply IH. intros x Hx. apply H. right. exact Hx.
Qed.

Theorem tower_info_agrees c t : Inv c -> c_poisoned c = false ->
  match aget (c_towers c) t with
  | Some s => exists i, load_tower_record (c_db c) t = LSome i /\
      ti_addr i = su_addr s /\ ti_slots i = su_slots s /\ ti_start i = su_start s /\ ti_expiry i = su_expiry s /\
      set_eq (su_pending s) (map (fun b => col b C_appointments_locator) (ti_pending i)) /\
      set_eq (su_invalid s) (map (fun b => col b C_appointments_locator) (ti_invalid i)) /\
      (ti_proof i = None <-> exists_misbehaving_proof (c_db c) t = false)
  | None => load_tower_record (c_db c) t = LNone
  end.
Proof.
  intros [HD HM] Hp. specialize (HM Hp). destruct HM as [M1 M2].
  destruct (aget (c_towers c) t) as [s|] eqn:E.
  - destruct (M1 t s E) as [tr [rr [A [B [C1 [C2 [C3 [C4 [C5 C6]]]]]]]]].
    destruct HD as [[Hfk Hpk] HD3].
    assert (Hp1 : map (fun b => col b C_appointments_locator) (load_appointments (c_db c) (pending_locators (c_db c) t)) = pending_locators (c_db c) t).
    { apply load_appointments_locs. intros l Hl. apply In_pending_locators in Hl. destruct Hl as [r [Hr [_ El]]].
      destruct (fk_pending_body _ r Hfk Hr) as [b [Hb Eb]]. exists b. apply find_pk_unique; auto. cbn. f_equal. rewrite <- El. exact Eb. }
    assert (Hp2 : map (fun b => col b C_appointments_locator) (load_appointments (c_db c) (invalid_locators (c_db c) t)) = invalid_locators (c_db c) t).
    { apply load_appointments_locs. intros l Hl. apply In_invalid_locators in Hl. destruct Hl as [r [Hr [_ El]]].
      destruct (fk_invalid_body _ r Hfk Hr) as [b [Hb Eb]]. exists b. apply find_pk_unique; auto. cbn. f_equal. rewrite <- El. exact Eb. }
    unfold load_tower_record. rewrite A, B. unfold exists_misbehaving_proof. rewrite has_pk_find.
    destruct (find_pk CS (c_db c) T_misbehaving_proofs [t]) as [prow|] eqn:Ep.
    + apply find_pk_Some in Ep. destruct Ep as [Hprow Hk]. cbn in Hk. injection Hk as Ek.
      destruct (fk_proof_receipt _ prow Hfk Hprow) as [rc [Hrc [E1 E2]]].
      assert (Hf : find_pk CS (c_db c) T_appointment_receipts [col prow C_misbehaving_proofs_locator; t] = Some rc).
      { apply find_pk_unique; auto. cbn. f_equal; [exact E1|f_equal]. rewrite <- Ek. exact E2. }
      rewrite Hf. eexists. split; [reflexivity|]. cbn. rewrite Hp1, Hp2.
      repeat (split; [congruence|]). split; [exact C5|]. split; [exact C6|]. split; discriminate.
    + eexists. split; [reflexivity|]. cbn. rewrite Hp1, Hp2.
      repeat (split; [congruence|]). split; [exact C5|]. split; [exact C6|]. split; reflexivity.
  - unfold load_tower_record. rewrite (M2 t E). reflexivity.
Qed.

(* abandon removes every row of the tower and nothing of another tower; a body stays iff a
   pending/invalid row (necessarily of another tower) still references it *)
Theorem abandon_exact c t : Inv c -> c_poisoned c = false -> amem (c_towers c) t = true ->
  snd (wt_remove_tower c t) = ROk /\
  let c' := fst (wt_remove_tower c t) in
  Inv c' /\ c_poisoned c' = false /\ aget (c_towers c') t = None /\
  (forall k, k <> t -> aget (c_towers c') k = aget (c_towers c) k) /\
  (forall tb r, tb <> T_appointments ->
     (In r (tbl (c_db c') tb) <-> In r (tbl (c_db c) tb) /\ row_of_tower tb t r = false)) /\
  (forall b, In b (tbl (c_db c') T_appointments) <->
     In b (tbl (c_db c) T_appointments) /\ ref_count (c_db c') (col b C_appointments_locator) <> 0).
Proof.
  intros HI Hp Hmem. pose proof (Inv_remove_tower c t HI Hp) as HI'. revert HI'.
  unfold wt_remove_tower, amem in *. destruct (aget (c_towers c) t) as [s|] eqn:E; [|discriminate].
  destruct HI as [HD HM]. specialize (HM Hp). destruct (proj1 HM t s E) as [tr0 [rr0 [A0 _]]].
  assert (Hhas : has_pk CS (c_db c) T_towers [t] = true) by (rewrite has_pk_find, A0; reflexivity).
  destruct (remove_tower_total _ _ Hhas) as [d' Es]. rewrite Es. cbn [fst snd]. intros HI'.
  destruct (remove_tower_spec _ _ _ HD Es) as [_ [Hfr [Hb _]]].
  split; [reflexivity|]. cbn zeta. split; [exact HI'|]. split; [exact Hp|]. cbn [c_towers c_db with_db with_towers].
  split; [rewrite aget_aremove, N.eqb_refl; reflexivity|]. split.
  - intros k Hk. rewrite aget_aremove. assert (En : N.eqb k t = false) by (apply N.eqb_neq; exact Hk). rewrite En. reflexivity.
  - split; [|exact Hb]. intros tb r Htb. rewrite (Hfr tb Htb), filter_In, negb_true_iff. tauto.
Qed.

(* delete_pending_appointment on a pending row: it never fails, removes that row only, and deletes the
   body iff the row was the last reference (the COUNT rule is right when the row is held) *)
Theorem refcount_correct_when_held d t l : DbInv d -> is_pending_row d t l = true ->
  exists d', dbm_delete_pending_appointment d t l = DbOk d' /\ DbInv d' /\
  (forall c, c <> T_appointments -> c <> T_pending_appointments -> tbl d' c = tbl d c) /\
  (forall r, In r (tbl d' T_pending_appointments) <->
             In r (tbl d T_pending_appointments) /\
             proj r [C_pending_appointments_locator; C_pending_appointments_tower_id] <> [l; t]) /\
  (forall b, In b (tbl d' T_appointments) <->
             In b (tbl d T_appointments) /\ (col b C_appointments_locator <> l \/ ref_count d l <> 1)).
Proof.
  intros HD Hh.
  assert (Ht : exists d', dbm_delete_pending_appointment d t l = DbOk d').
  { unfold dbm_delete_pending_appointment, db_delete. cbn [andb]. destruct (Nat.eqb (ref_count d l) 1); apply delete_root_total. }
  destruct Ht as [d' Es]. exists d'. split; [exact Es|]. exact (delete_pending_spec d t l d' HD Hh Es).
Qed.

(* every pending / invalid row has its body, in every reachable state (no hypothesis on the sequence) *)
Theorem shared_body_kept ops :
  let d := c_db (srun wt_new ops) in
  (forall r, In r (tbl d T_pending_appointments) -> has_body d (col r C_pending_appointments_locator) = true) /\
  (forall r, In r (tbl d T_invalid_appointments) -> has_body d (col r C_invalid_appointments_locator) = true).
Proof.
  cbn zeta. destruct (DbInv_srun ops wt_new DbInv_new) as [[Hfk _] _]. split; intros r Hr; unfold has_body; apply has_pk_true.
  - destruct (fk_pending_body _ r Hfk Hr) as [b [Hb E]]. exists b. split; [exact Hb|]. cbn. f_equal. exact E.
  - destruct (fk_invalid_body _ r Hfk Hr) as [b [Hb E]]. exists b. split; [exact Hb|]. cbn. f_equal. exact E.
Qed.

(* ---------- no appointment body without a reference (after fix 285a1a2), for every sequence ---------- *)
Definition referenced (d : db) (l : N) : Prop :=
  (exists r, In r (tbl d T_pending_appointments) /\ col r C_pending_appointments_locator = l) \/
  (exists r, In r (tbl d T_invalid_appointments) /\ col r C_invalid_appointments_locator = l).

Definition NoOrphan (d : db) : Prop := forall b, In b (tbl d T_appointments) -> referenced d (col b C_appointments_locator).

Lemma count_nonzero d tb c0 l : count_where d tb [c0] [l] <> 0 <-> exists r, In r (tbl d tb) /\ col r c0 = l.
Proof.
  unfold count_where, select_where. split.
  - intros H. destruct (filter _ _) as [|x rest] eqn:E; [contradiction|]. exists x.
    assert (Hx : In x (filter (fun r => key_eqb (proj r [c0]) [l]) (tbl d tb))) by (rewrite E; left; reflexivity).
    apply filter_In in Hx. destruct Hx as [Hx Hk]. apply key_eqb_eq in Hk. cbn in Hk. injection Hk as Hk. tauto.
  - intros [r [Hr E]]. assert (1 <= length (filter (fun r => key_eqb (proj r [c0]) [l]) (tbl d tb))); [|lia].
    apply (filter_one _ _ r Hr). apply key_eqb_eq. cbn. f_equal. exact E.
Qed.

Lemma ref_count_referenced d l : ref_count d l <> 0 <-> referenced d l.
Proof.
  unfold ref_count, referenced. rewrite <- !count_nonzero. lia.
Qed.

Lemma NoOrphan_b d : NoOrphan d -> no_orphan_bodiesb d = true.
Proof.
  intros H. unfold no_orphan_bodiesb. apply forallb_forall. intros b Hb. apply negb_true_iff, Nat.eqb_neq.
  apply ref_count_referenced. apply H. exact Hb.
Qed.

Lemma exec_ignore_insert_rows d tb r x :
  In x (tbl (exec_ignore CS d (SInsert tb r)) tb) -> In x (tbl d tb) \/ x = r.
Proof.
  unfold exec_ignore. cbn [exec]. destruct (db_insert CS d tb r) as [d1|e] eqn:E; [|tauto].
  apply tbl_insert in E. destruct E as [T _]. rewrite T, in_app_iff. cbn. intuition.
Qed.

Lemma NoOrphan_store_pending d t l b dl d' :
  NoOrphan d -> dbm_store_pending_appointment d t l b dl = DbOk d' -> NoOrphan d'.
Proof.
  intros HN H. unfold dbm_store_pending_appointment in H. rewrite mkrow_pending in H.
  destruct (exec_ignore_insert_frame d T_appointments (body_row l b dl)) as [F1 _].
  pose proof (tbl_insert CS _ _ _ d' H) as [Tt [To _]].
  assert (Hmono : forall x, referenced d x -> referenced d' x).
  { intros x [[r [Hr E]]|[r [Hr E]]]; [left|right]; exists r; split; auto.
    - rewrite Tt, F1 by discriminate. apply in_or_app. left. exact Hr.
    - rewrite To, F1 by discriminate. exact Hr. }
  intros x Hx. rewrite To in Hx by discriminate. apply exec_ignore_insert_rows in Hx. destruct Hx as [Hx| ->].
  - apply Hmono. apply HN. exact Hx.
  - left. exists [l; t]. split; [rewrite Tt; apply in_or_app; right; left; reflexivity|reflexivity].
Qed.

Lemma NoOrphan_store_invalid d t l b dl d' :
  NoOrphan d -> dbm_store_invalid_appointment d t l b dl = DbOk d' -> NoOrphan d'.
Proof.
  intros HN H. unfold dbm_store_invalid_appointment in H. rewrite mkrow_invalid in H.
  destruct (exec_ignore_insert_frame d T_appointments (body_row l b dl)) as [F1 _].
  pose proof (tbl_insert CS _ _ _ d' H) as [Tt [To _]].
  assert (Hmono : forall x, referenced d x -> referenced d' x).
  { intros x [[r [Hr E]]|[r [Hr E]]]; [left|right]; exists r; split; auto.
    - rewrite To, F1 by discriminate. exact Hr.
    - rewrite Tt, F1 by discriminate. apply in_or_app. left. exact Hr. }
  intros x Hx. rewrite To in Hx by discriminate. apply exec_ignore_insert_rows in Hx. destruct Hx as [Hx| ->].
  - apply Hmono. apply HN. exact Hx.
  - right. exists [l; t]. split; [rewrite Tt; apply in_or_app; right; left; reflexivity|reflexivity].
Qed.

Lemma NoOrphan_frame d d' :
  tbl d' T_appointments = tbl d T_appointments -> tbl d' T_pending_appointments = tbl d T_pending_appointments ->
  tbl d' T_invalid_appointments = tbl d T_invalid_appointments -> NoOrphan d -> NoOrphan d'.
Proof. unfold NoOrphan, referenced. intros -> -> ->. tauto. Qed.

Lemma two_in_filter {A} (f : A -> bool) (g : A -> key) l :
  NoDup (map g l) -> 2 <= length (filter f l) ->
  exists a b, In a l /\ In b l /\ f a = true /\ f b = true /\ g a <> g b.
Proof.
  intros Hnd Hlen. assert (Hnd' : NoDup (map g (filter f l))) by (apply NoDup_map_filter; exact Hnd).
  destruct (filter f l) as [|a [|b rest]] eqn:E; cbn in Hlen; try lia.
  assert (Ha : In a (filter f l)) by (rewrite E; left; reflexivity).
  assert (Hb : In b (filter f l)) by (rewrite E; right; left; reflexivity).
  apply filter_In in Ha, Hb. exists a, b. repeat split; try tauto.
  cbn in Hnd'. inversion Hnd' as [|? ? Hn _]. intros Eg. apply Hn. left. symmetry. exact Eg.
Qed.

Lemma NoOrphan_delete_pending d t l d' :
  DbInv d -> NoOrphan d -> dbm_delete_pending_appointment d t l = DbOk d' -> NoOrphan d'.
Proof.
  intros [[Hfk Hpk] _] HN H. unfold dbm_delete_pending_appointment in H.
  destruct (Nat.eqb (ref_count d l) 1) eqn:Ec; apply db_delete_inv in H; destruct H as [H _].
  - pose proof (body_delete_spec d l d' Hfk H) as Hs. intros b Hb. rewrite Hs in Hb. apply filter_In in Hb.
    destruct Hb as [Hb Hn]. unfold on_locator in Hn. cbn in Hn. apply negb_true_iff, N.eqb_neq in Hn.
    destruct (HN b Hb) as [[r [Hr E]]|[r [Hr E]]]; [left|right]; exists r; (split; [|exact E]); rewrite Hs;
      apply filter_In; (split; [exact Hr|]); unfold on_locator; cbn; apply negb_true_iff, N.eqb_neq;
      unfold col in E, Hn; autounfold with clschema in E; congruence.
  - apply Nat.eqb_neq in Ec. pose proof (pending_delete_spec d t l d' H) as Hs.
    assert (Hsame : forall c, c <> T_pending_appointments -> tbl d' c = tbl d c).
    { intros c Hc. rewrite Hs. apply filter_all_true. intros r _. unfold is_pending_key.
      destruct_table c; try (exfalso; apply Hc; reflexivity); reflexivity. }
    assert (Hkeep : forall r, In r (tbl d T_pending_appointments) ->
              proj r [C_pending_appointments_locator; C_pending_appointments_tower_id] <> [l; t] -> In r (tbl d' T_pending_appointments)).
    { intros r Hr Hn. rewrite Hs. apply filter_In. split; [exact Hr|]. unfold is_pending_key. cbn [Nat.eqb T_pending_appointments andb].
      apply negb_true_iff, key_eqb_neq. exact Hn. }
    intros b Hb. rewrite Hsame in Hb by discriminate.
    destruct (HN b Hb) as [[r [Hr E]]|[r [Hr E]]].
    + destruct (key_eqb (proj r [C_pending_appointments_locator; C_pending_appointments_tower_id]) [l; t]) eqn:Ek.
      * apply key_eqb_eq in Ek. cbn in Ek. injection Ek as E1 E2.
        assert (El : col b C_appointments_locator = l) by (rewrite <- E; exact E1).
        rewrite El.
        destruct (Nat.eq_dec (count_where d T_invalid_appointments [C_invalid_appointments_locator] [l]) 0) as [Hi|Hi].
        -- assert (Hp2 : 2 <= count_where d T_pending_appointments [C_pending_appointments_locator] [l]).
           { assert (1 <= count_where d T_pending_appointments [C_pending_appointments_locator] [l]).
             { unfold count_where, select_where. apply (filter_one _ _ r Hr). apply key_eqb_eq. cbn. f_equal. exact E1. }
             unfold ref_count in Ec. lia. }
           unfold count_where, select_where in Hp2.
           destruct (two_in_filter _ (fun r => proj r (ts_pk (tsch CS T_pending_appointments))) _ (Hpk T_pending_appointments) Hp2)
             as [x [y [Hx [Hy [Fx [Fy Hxy]]]]]].
           apply key_eqb_eq in Fx, Fy. cbn in Fx, Fy, Hxy. injection Fx as Fx. injection Fy as Fy.
           destruct (key_eqb (proj x [C_pending_appointments_locator; C_pending_appointments_tower_id]) [l; t]) eqn:Ex.
           ++ left. exists y. split; [|exact Fy]. apply Hkeep; [exact Hy|]. intros Ey. apply key_eqb_eq in Ex. apply Hxy.
              cbn in Ex, Ey |- *. autounfold with clschema in *. congruence.
           ++ left. exists x. split; [|exact Fx]. apply Hkeep; [exact Hx|]. apply key_eqb_neq. exact Ex.
        -- apply count_nonzero in Hi. destruct Hi as [r' [Hr' E']]. right. exists r'. split; [|exact E'].
           rewrite Hsame by discriminate. exact Hr'.
      * left. exists r. split; [|exact E]. apply Hkeep; [exact Hr|]. apply key_eqb_neq. exact Ek.
    + right. exists r. split; [|exact E]. rewrite Hsame by discriminate. exact Hr.
Qed.

Lemma NoOrphan_remove_tower d t d' : DbInv d -> dbm_remove_tower_record d t = DbOk d' -> NoOrphan d'.
Proof.
  intros HD H. destruct (remove_tower_spec _ _ _ HD H) as [_ [_ [Hb _]]].
  intros b Hbin. apply Hb in Hbin. apply ref_count_referenced. tauto.
Qed.

Lemma NoOrphan_sstep c o : DbInv (c_db c) -> NoOrphan (c_db c) -> NoOrphan (c_db (fst (sstep c o))).
Proof.
  intros HD HN.
  assert (Hrec : forall t l s b u g, NoOrphan (c_db (fst (wt_add_appointment_receipt c t l s b u g)))).
  { intros. unfold wt_add_appointment_receipt. destruct (aget (c_towers c) t); [|exact HN].
    destruct (dbm_load_appointment_receipt (c_db c) t l); [exact HN|].
    destruct (dbm_store_appointment_receipt (c_db c) t l s b u g) as [d'|e] eqn:Es; cbn; [|exact HN].
    destruct (store_receipt_spec _ _ _ _ _ _ _ _ HD Es) as [_ [_ Hfr]].
    apply (NoOrphan_frame (c_db c) d'); try (apply Hfr; discriminate). exact HN. }
  assert (Hinv : forall t l b dl, NoOrphan (c_db (fst (wt_add_invalid_appointment c t l b dl)))).
  { intros. unfold wt_add_invalid_appointment. destruct (aget (c_towers c) t) as [s|]; [|exact HN].
    destruct (memN l (su_invalid s)); [exact HN|].
    destruct (dbm_store_invalid_appointment (c_db c) t l b dl) as [d'|e] eqn:Es; cbn; [|exact HN].
    exact (NoOrphan_store_invalid _ _ _ _ _ _ HN Es). }
  assert (Hrem : forall c1 t l, DbInv (c_db c1) -> NoOrphan (c_db c1) -> NoOrphan (c_db (fst (wt_remove_pending_appointment c1 t l)))).
  { intros c1 t l HD1 HN1. unfold wt_remove_pending_appointment. destruct (aget (c_towers c1) t) as [s|]; [|exact HN1].
    destruct (dbm_delete_pending_appointment (c_db c1) t l) as [d'|e] eqn:Es; cbn; [|exact HN1].
    exact (NoOrphan_delete_pending _ _ _ _ HD1 HN1 Es). }
  destruct o; try exact HN; unfold sstep; destruct (c_poisoned c); try exact HN.
  - unfold wt_add_update_tower.
    assert (Hs : NoOrphan (c_db (fst match dbm_store_tower_record (c_db c) t addr slots start expiry sg with
             | DbOk d' => (with_towers (with_db c d') (aset (c_towers c) t (new_summary c t addr slots start expiry)), ROk)
             | DbErr _ => (poison c, RAbort Site_store_tower_record_unwrap) end))).
    { destruct (dbm_store_tower_record (c_db c) t addr slots start expiry sg) as [d'|er] eqn:Es; cbn; [|exact HN].
      destruct (store_tower_spec _ _ _ _ _ _ _ _ HD Es) as [_ [_ [_ Hfr]]].
      apply (NoOrphan_frame (c_db c) d'); try (apply Hfr; discriminate). exact HN. }
    unfold new_summary in Hs. destruct (aget (c_towers c) t) as [su|]; [|exact Hs].
    destruct (N.leb expiry (su_expiry su)); [exact HN|].
    destruct (load_tower_record (c_db c) t) as [|info|st]; try exact HN.
    destruct (N.leb slots (ti_slots info)); [exact HN|exact Hs].
  - apply Hrec.
  - unfold wt_add_pending_appointment. destruct (aget (c_towers c) t) as [s|]; [|exact HN].
    destruct (memN l (su_pending s)); [exact HN|].
    destruct (dbm_store_pending_appointment (c_db c) t l blob delay) as [d'|e] eqn:Es; cbn; [|exact HN].
    exact (NoOrphan_store_pending _ _ _ _ _ _ HN Es).
  - apply Hrem; assumption.
  - apply Hinv.
  - unfold seq2. destruct (is_abort _); [apply Hrec|]. apply Hrem; [apply DbInv_add_receipt; exact HD|apply Hrec].
  - unfold seq2. destruct (is_abort _); [apply Hinv|]. apply Hrem; [apply DbInv_add_invalid; exact HD|apply Hinv].
  - unfold wt_flag_misbehaving_tower. destruct (aget (c_towers c) t) as [s|]; [|exact HN].
    destruct (flag_store (c_db c) t l sb usig tsig recovered) as [d'|e] eqn:Es; cbn; [|exact HN].
    destruct (flag_store_spec _ _ _ _ _ _ _ _ HD Es) as [_ Hfr].
    apply (NoOrphan_frame (c_db c) d'); try (apply Hfr; discriminate). exact HN.
  - unfold wt_remove_tower. destruct (aget (c_towers c) t) as [s|]; [|exact HN].
    destruct (dbm_remove_tower_record (c_db c) t) as [d'|e] eqn:Es; cbn; [|exact HN].
    exact (NoOrphan_remove_tower _ _ _ HD Es).
  - cbn [fst]. rewrite DbInv_set_status. exact HN.
Qed.

Theorem no_orphan_bodies ops : no_orphan_bodiesb (c_db (srun wt_new ops)) = true.
Proof.
  apply NoOrphan_b.
  assert (H : forall c, DbInv (c_db c) -> NoOrphan (c_db c) -> NoOrphan (c_db (srun c ops))).
  { induction ops as [|o ops IH]; intros c HD HN; cbn; [exact HN|].
    apply IH; [apply DbInv_sstep; exact HD|apply NoOrphan_sstep; assumption]. }
  apply H; [exact DbInv_new|]. intros b Hb. change (In b (tbl dbm_new T_appointments)) in Hb. rewrite dbm_new_eq in Hb. destruct Hb.
Qed.
