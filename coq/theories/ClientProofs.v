(* ClientProofs.v — proofs about the store model Client.v (C18). *)
From TeosModel Require Import Base ListAux Db DbProofs Client.
Local Open Scope nat_scope.

Lemma CS_wf : schema_wf CS.
Proof. apply schema_wfb_sound. vm_compute. reflexivity. Qed.

Lemma CS_length : length CS = 8.
Proof. reflexivity. Qed.

(* the table / column index constants of the generated schema, for `autounfold with clschema` *)
Global Hint Unfold T_towers C_towers_tower_id C_towers_net_addr C_towers_available_slots T_appointments C_appointments_locator C_appointments_encrypted_blob C_appointments_to_self_delay T_pending_appointments C_pending_appointments_locator C_pending_appointments_tower_id T_invalid_appointments C_invalid_appointments_locator C_invalid_appointments_tower_id T_registration_receipts C_registration_receipts_tower_id C_registration_receipts_available_slots C_registration_receipts_subscription_start C_registration_receipts_subscription_expiry C_registration_receipts_signature T_appointment_receipts C_appointment_receipts_locator C_appointment_receipts_tower_id C_appointment_receipts_start_block C_appointment_receipts_user_signature C_appointment_receipts_tower_signature T_misbehaving_proofs C_misbehaving_proofs_tower_id C_misbehaving_proofs_locator C_misbehaving_proofs_recovered_id T_keys C_keys_id C_keys_key : clschema.

(* rows built by mkrow are the expected positional rows *)
Lemma mkrow_towers t a s :
  mkrow T_towers [(C_towers_tower_id, t); (C_towers_net_addr, a); (C_towers_available_slots, s)] = [t; a; s].
Proof. reflexivity. Qed.
Lemma mkrow_pending l t :
  mkrow T_pending_appointments [(C_pending_appointments_locator, l); (C_pending_appointments_tower_id, t)] = [l; t].
Proof. reflexivity. Qed.
Lemma mkrow_invalid l t :
  mkrow T_invalid_appointments [(C_invalid_appointments_locator, l); (C_invalid_appointments_tower_id, t)] = [l; t].
Proof. reflexivity. Qed.
Lemma mkrow_rr t s a e g :
  mkrow T_registration_receipts
         [(C_registration_receipts_tower_id, t); (C_registration_receipts_available_slots, s);
          (C_registration_receipts_subscription_start, a);
          (C_registration_receipts_subscription_expiry, e);
          (C_registration_receipts_signature, g)] = [t; s; a; e; g].
Proof. reflexivity. Qed.
Lemma receipt_row_eq t l sb u g : receipt_row t l sb u g = [l; t; sb; u; g].
Proof. reflexivity. Qed.
Lemma body_row_eq l b dl : body_row l b dl = [l; b; dl].
Proof. reflexivity. Qed.
Lemma mkrow_proof t l rc :
  mkrow T_misbehaving_proofs [(C_misbehaving_proofs_tower_id, t); (C_misbehaving_proofs_locator, l);
                              (C_misbehaving_proofs_recovered_id, rc)] = [t; l; rc].
Proof. reflexivity. Qed.

(* ---------- generic helpers ---------- *)
Lemma proj1_col r c : proj r [c] = [col r c].
Proof. reflexivity. Qed.
Lemma proj2_col r a b : proj r [a; b] = [col r a; col r b].
Proof. reflexivity. Qed.

Lemma key1_eqb a b : key_eqb [a] [b] = N.eqb a b.
Proof. cbn. apply andb_true_r. Qed.
Lemma key2_eqb a b c d : key_eqb [a; b] [c; d] = N.eqb a c && N.eqb b d.
Proof. cbn. rewrite andb_true_r. reflexivity. Qed.

Lemma filter_ext_in' {A} (f g : A -> bool) l : (forall x, In x l -> f x = g x) -> filter f l = filter g l.
Proof.
  induction l as [|x l IH]; cbn; intros H; [reflexivity|].
  rewrite (H x (or_introl eq_refl)), IH; [reflexivity|]. intros y Hy. apply H. right. exact Hy.
Qed.

Lemma filter_all_true {A} (f : A -> bool) l : (forall x, In x l -> f x = true) -> filter f l = l.
Proof.
  induction l as [|x l IH]; cbn; intros H; [reflexivity|].
  rewrite (H x (or_introl eq_refl)), IH; [reflexivity|]. intros y Hy. apply H. right. exact Hy.
Qed.

(* database-level invariant of the client: integrity, the eight tables, and every tower row has
   at least one registration receipt (store_tower_record writes both in one transaction) *)
Definition has_receipt (d : db) (t : N) : Prop :=
  exists rr, In rr (tbl d T_registration_receipts) /\ col rr C_registration_receipts_tower_id = t.

Definition DbInv (d : db) : Prop :=
  db_ok CS d /\ length d = 8 /\
  (forall tr, In tr (tbl d T_towers) -> has_receipt d (col tr C_towers_tower_id)).

Lemma dbm_new_eq : dbm_new = [[]; []; []; []; []; []; []; [[1%N; 1%N]]].
Proof. vm_compute. reflexivity. Qed.

Lemma DbInv_new : DbInv dbm_new.
Proof.
  rewrite dbm_new_eq. split; [|split; [reflexivity|intros tr []]].
  split; [apply fk_okb_sound|apply pk_okb_sound]; vm_compute; reflexivity.
Qed.

(* the parent rows the foreign keys of the client schema promise *)
Lemma fk_pending_tower d r : fk_ok CS d -> In r (tbl d T_pending_appointments) ->
  exists tr, In tr (tbl d T_towers) /\ col tr C_towers_tower_id = col r C_pending_appointments_tower_id.
Proof.
  intros H Hr. pose proof (H T_pending_appointments r (mk_fkey [1] 0 [0] true) Hr) as Hp.
  assert (Hin : In (mk_fkey [1] 0 [0] true) (ts_fks (tsch CS T_pending_appointments))) by (cbn; auto).
  apply Hp in Hin. apply parent_present_iff in Hin. destruct Hin as [tr [A B]]. exists tr. split; [exact A|].
  cbn in B. inversion B as [B1]. exact B1.
Qed.

Lemma fk_pending_body d r : fk_ok CS d -> In r (tbl d T_pending_appointments) ->
  exists b, In b (tbl d T_appointments) /\ col b C_appointments_locator = col r C_pending_appointments_locator.
Proof.
  intros H Hr. pose proof (H T_pending_appointments r (mk_fkey [0] 1 [0] true) Hr) as Hp.
  assert (Hin : In (mk_fkey [0] 1 [0] true) (ts_fks (tsch CS T_pending_appointments))) by (cbn; auto).
  apply Hp in Hin. apply parent_present_iff in Hin. destruct Hin as [tr [A B]]. exists tr. split; [exact A|].
  cbn in B. inversion B as [B1]. exact B1.
Qed.

Lemma fk_invalid_tower d r : fk_ok CS d -> In r (tbl d T_invalid_appointments) ->
  exists tr, In tr (tbl d T_towers) /\ col tr C_towers_tower_id = col r C_invalid_appointments_tower_id.
Proof.
  intros H Hr. pose proof (H T_invalid_appointments r (mk_fkey [1] 0 [0] true) Hr) as Hp.
  assert (Hin : In (mk_fkey [1] 0 [0] true) (ts_fks (tsch CS T_invalid_appointments))) by (cbn; auto).
  apply Hp in Hin. apply parent_present_iff in Hin. destruct Hin as [tr [A B]]. exists tr. split; [exact A|].
  cbn in B. inversion B as [B1]. exact B1.
Qed.

Lemma fk_invalid_body d r : fk_ok CS d -> In r (tbl d T_invalid_appointments) ->
  exists b, In b (tbl d T_appointments) /\ col b C_appointments_locator = col r C_invalid_appointments_locator.
Proof.
  intros H Hr. pose proof (H T_invalid_appointments r (mk_fkey [0] 1 [0] true) Hr) as Hp.
  assert (Hin : In (mk_fkey [0] 1 [0] true) (ts_fks (tsch CS T_invalid_appointments))) by (cbn; auto).
  apply Hp in Hin. apply parent_present_iff in Hin. destruct Hin as [tr [A B]]. exists tr. split; [exact A|].
  cbn in B. inversion B as [B1]. exact B1.
Qed.

Lemma fk_rr_tower d r : fk_ok CS d -> In r (tbl d T_registration_receipts) ->
  exists tr, In tr (tbl d T_towers) /\ col tr C_towers_tower_id = col r C_registration_receipts_tower_id.
Proof.
  intros H Hr. pose proof (H T_registration_receipts r (mk_fkey [0] 0 [0] true) Hr) as Hp.
  assert (Hin : In (mk_fkey [0] 0 [0] true) (ts_fks (tsch CS T_registration_receipts))) by (cbn; auto).
  apply Hp in Hin. apply parent_present_iff in Hin. destruct Hin as [tr [A B]]. exists tr. split; [exact A|].
  cbn in B. inversion B as [B1]. exact B1.
Qed.

Lemma fk_ar_tower d r : fk_ok CS d -> In r (tbl d T_appointment_receipts) ->
  exists tr, In tr (tbl d T_towers) /\ col tr C_towers_tower_id = col r C_appointment_receipts_tower_id.
Proof.
  intros H Hr. pose proof (H T_appointment_receipts r (mk_fkey [1] 0 [0] true) Hr) as Hp.
  assert (Hin : In (mk_fkey [1] 0 [0] true) (ts_fks (tsch CS T_appointment_receipts))) by (cbn; auto).
  apply Hp in Hin. apply parent_present_iff in Hin. destruct Hin as [tr [A B]]. exists tr. split; [exact A|].
  cbn in B. inversion B as [B1]. exact B1.
Qed.

Lemma fk_proof_receipt d r : fk_ok CS d -> In r (tbl d T_misbehaving_proofs) ->
  exists rc, In rc (tbl d T_appointment_receipts) /\
    col rc C_appointment_receipts_locator = col r C_misbehaving_proofs_locator /\
    col rc C_appointment_receipts_tower_id = col r C_misbehaving_proofs_tower_id.
Proof.
  intros H Hr. pose proof (H T_misbehaving_proofs r (mk_fkey [1; 0] 5 [0; 1] true) Hr) as Hp.
  assert (Hin : In (mk_fkey [1; 0] 5 [0; 1] true) (ts_fks (tsch CS T_misbehaving_proofs))) by (cbn; auto).
  apply Hp in Hin. apply parent_present_iff in Hin. destruct Hin as [tr [A B]]. exists tr. split; [exact A|].
  cbn in B. inversion B as [[B1 B2]]. split; [exact B1|exact B2].
Qed.

(* ---------- what the three DELETE statements of the client remove (cascade lemma, instantiated) ---------- *)
Definition abandon_root (t : N) := where_root T_towers [C_towers_tower_id] [t].

Lemma where_root_true t0 cols vals c r :
  where_root t0 cols vals c r = true <-> c = t0 /\ proj r cols = vals.
Proof.
  unfold where_root. rewrite andb_true_iff, Nat.eqb_eq, key_eqb_eq. tauto.
Qed.

Ltac destruct_table c :=
  destruct c as [|[|[|[|[|[|[|[|c]]]]]]]].

Lemma doomed_abandon_sound d t c r :
  Doomed CS d (abandon_root t) c r -> row_of_tower c t r = true.
Proof.
  intros HD. induction HD as [c r Hr Hroot|c r fk r' Hr Hfk Hc Hr' HD IH Hk].
  - apply where_root_true in Hroot. destruct Hroot as [-> Hp]. cbn in Hp. inversion Hp as [E].
    unfold row_of_tower. cbn. unfold col. cbn. apply N.eqb_refl.
  - destruct_table c; cbn in Hfk; try contradiction; try (destruct c; cbn in Hfk; contradiction);
      repeat (destruct Hfk as [<-|Hfk]); try contradiction;
      cbn in IH, Hk |- *; unfold row_of_tower, col in *; cbn in *; autounfold with clschema in *;
      try discriminate; inversion Hk; congruence.
Qed.

Lemma doomed_abandon_complete d t c r :
  fk_ok CS d -> In r (tbl d c) -> row_of_tower c t r = true -> Doomed CS d (abandon_root t) c r.
Proof.
  intros Hfk Hr Hrow.
  assert (Htow : forall tr, In tr (tbl d T_towers) -> col tr C_towers_tower_id = t -> Doomed CS d (abandon_root t) T_towers tr).
  { intros tr Htr E. apply Doomed_root; [exact Htr|]. apply where_root_true. split; [reflexivity|].
    cbn. f_equal. exact E. }
  assert (Har : forall rc, In rc (tbl d T_appointment_receipts) -> col rc C_appointment_receipts_tower_id = t ->
                           Doomed CS d (abandon_root t) T_appointment_receipts rc).
  { intros rc Hrc E. destruct (fk_ar_tower d rc Hfk Hrc) as [tr [Htr Et]].
    apply (Doomed_child CS d _ T_appointment_receipts rc (mk_fkey [1] 0 [0] true) tr); auto.
    - cbn. auto.
    - apply Htow; [exact Htr|congruence].
    - cbn. f_equal. exact Et. }
  unfold row_of_tower in Hrow. destruct_table c; cbn in Hrow; try discriminate; apply N.eqb_eq in Hrow.
  - apply Htow; assumption.
  - destruct (fk_pending_tower d r Hfk Hr) as [tr [Htr Et]].
    apply (Doomed_child CS d _ T_pending_appointments r (mk_fkey [1] 0 [0] true) tr); auto.
    + cbn. auto.
    + apply Htow; [exact Htr|congruence].
    + cbn. f_equal. exact Et.
  - destruct (fk_invalid_tower d r Hfk Hr) as [tr [Htr Et]].
    apply (Doomed_child CS d _ T_invalid_appointments r (mk_fkey [1] 0 [0] true) tr); auto.
    + cbn. auto.
    + apply Htow; [exact Htr|congruence].
    + cbn. f_equal. exact Et.
  - destruct (fk_rr_tower d r Hfk Hr) as [tr [Htr Et]].
    apply (Doomed_child CS d _ T_registration_receipts r (mk_fkey [0] 0 [0] true) tr); auto.
    + cbn. auto.
    + apply Htow; [exact Htr|congruence].
    + cbn. f_equal. exact Et.
  - apply Har; assumption.
  - destruct (fk_proof_receipt d r Hfk Hr) as [rc [Hrc [E1 E2]]].
    apply (Doomed_child CS d _ T_misbehaving_proofs r (mk_fkey [1; 0] 5 [0; 1] true) rc); auto.
    + cbn. auto.
    + apply Har; [exact Hrc|congruence].
    + cbn. f_equal; [exact E1|f_equal; exact E2].
Qed.

Lemma CS_all_cascade c fk : In fk (ts_fks (tsch CS c)) -> fk_cascade fk = true.
Proof.
  destruct_table c; cbn; try tauto; try (destruct c; cbn; tauto);
    intros H; repeat (destruct H as [<-|H]); try contradiction; reflexivity.
Qed.

Lemma existsb_all_false {A} (f : A -> bool) l : (forall x, In x l -> f x = false) -> existsb f l = false.
Proof.
  induction l as [|x l IH]; cbn; intros H; [reflexivity|].
  rewrite (H x (or_introl eq_refl)), IH; [reflexivity|]. intros y Hy. apply H. right. exact Hy.
Qed.

Lemma existsb_map_idx_from_all_false {A} (g : nat -> A -> bool) l i :
  (forall c x, g c x = false) -> existsb (fun x => x) (map_idx_from i g l) = false.
Proof.
  intros H. revert i. induction l as [|x l IH]; intros i; cbn; [reflexivity|]. rewrite H, IH. reflexivity.
Qed.

(* no foreign key of the client schema is NO ACTION: a DELETE never fails on a constraint *)
Lemma delete_root_total d root : exists d', db_delete_root CS d root = DbOk d'.
Proof.
  unfold db_delete_root, map_idx. rewrite existsb_map_idx_from_all_false; [eexists; reflexivity|].
  intros c rows. apply existsb_all_false. intros r _. unfold orphanedb. apply andb_false_iff. right.
  apply existsb_all_false. intros fk Hfk. rewrite (CS_all_cascade c fk Hfk). reflexivity.
Qed.

Lemma tbl_delete_root d root d' :
  db_delete_root CS d root = DbOk d' ->
  (forall c, tbl d' c = filter (fun r => negb (doomed CS d root c r)) (tbl d c)) /\ length d' = length d.
Proof. intros H. apply db_delete_root_inv in H. tauto. Qed.

(* a DELETE expressed with the set of rows it removes *)
Lemma delete_root_spec d root d' (P : nat -> row -> bool) :
  db_delete_root CS d root = DbOk d' ->
  (forall c r, In r (tbl d c) -> (Doomed CS d root c r <-> P c r = true)) ->
  forall c, tbl d' c = filter (fun r => negb (P c r)) (tbl d c).
Proof.
  intros H HP c. destruct (tbl_delete_root d root d' H) as [Ht _]. rewrite Ht.
  apply filter_ext_in'. intros r Hr. f_equal.
  destruct (doomed CS d root c r) eqn:E.
  - apply (doomed_iff CS d root CS_wf c r Hr) in E. apply HP in E; [|exact Hr]. symmetry. exact E.
  - destruct (P c r) eqn:E2; [|reflexivity]. apply HP in E2; [|exact Hr].
    apply (doomed_iff CS d root CS_wf c r Hr) in E2. congruence.
Qed.

(* abandon: the rows of tower t in the six tower-keyed tables, nothing else *)
Lemma abandon_delete_spec d t d' :
  fk_ok CS d -> db_delete_root CS d (abandon_root t) = DbOk d' ->
  forall c, tbl d' c = filter (fun r => negb (row_of_tower c t r)) (tbl d c).
Proof.
  intros Hfk H. apply (delete_root_spec d _ d' (fun c r => row_of_tower c t r) H).
  intros c r Hr. split; [apply doomed_abandon_sound|apply doomed_abandon_complete; assumption].
Qed.

(* DELETE FROM pending_appointments WHERE locator=l AND tower_id=t: that row only *)
Definition pending_root (t l : N) :=
  where_root T_pending_appointments [C_pending_appointments_locator; C_pending_appointments_tower_id] [l; t].
Definition is_pending_key (t l : N) (c : nat) (r : row) : bool :=
  Nat.eqb c T_pending_appointments &&
  key_eqb (proj r [C_pending_appointments_locator; C_pending_appointments_tower_id]) [l; t].

Lemma doomed_pending_row d t l c r :
  Doomed CS d (pending_root t l) c r <-> (In r (tbl d c) /\ is_pending_key t l c r = true).
Proof.
  split.
  - intros HD. induction HD as [c r Hr Hroot|c r fk r' Hr Hfk Hc Hr' HD IH Hk].
    + split; [exact Hr|exact Hroot].
    + destruct IH as [_ IH]. unfold is_pending_key in IH. apply andb_true_iff in IH. destruct IH as [IH _].
      apply Nat.eqb_eq in IH.
      destruct_table c; cbn in Hfk; try contradiction; try (destruct c; cbn in Hfk; contradiction);
        repeat (destruct Hfk as [<-|Hfk]); try contradiction; cbn in IH; discriminate.
  - intros [Hr H]. apply Doomed_root; assumption.
Qed.

Lemma pending_delete_spec d t l d' :
  db_delete_root CS d (pending_root t l) = DbOk d' ->
  forall c, tbl d' c = filter (fun r => negb (is_pending_key t l c r)) (tbl d c).
Proof.
  intros H. apply (delete_root_spec d _ d' (is_pending_key t l) H).
  intros c r Hr. rewrite doomed_pending_row. tauto.
Qed.

(* DELETE FROM appointments WHERE locator=l: the body and, by cascade, every pending / invalid row on l *)
Definition body_root (l : N) := where_root T_appointments [C_appointments_locator] [l].
Definition on_locator (l : N) (c : nat) (r : row) : bool :=
  (Nat.eqb c T_appointments || Nat.eqb c T_pending_appointments || Nat.eqb c T_invalid_appointments) &&
  N.eqb (nth 0 r 0%N) l.

Lemma doomed_body_sound d l c r : Doomed CS d (body_root l) c r -> on_locator l c r = true.
Proof.
  intros HD. induction HD as [c r Hr Hroot|c r fk r' Hr Hfk Hc Hr' HD IH Hk].
  - apply where_root_true in Hroot. destruct Hroot as [-> Hp]. cbn in Hp. inversion Hp as [E].
    unfold on_locator. cbn. apply N.eqb_refl.
  - unfold on_locator in *.
    destruct_table c; cbn in Hfk; try contradiction; try (destruct c; cbn in Hfk; contradiction);
      repeat (destruct Hfk as [<-|Hfk]); try contradiction;
      cbn in IH, Hk |- *; try discriminate; inversion Hk; congruence.
Qed.

Lemma doomed_body_complete d l c r :
  fk_ok CS d -> In r (tbl d c) -> on_locator l c r = true -> Doomed CS d (body_root l) c r.
Proof.
  intros Hfk Hr H. unfold on_locator in H. apply andb_true_iff in H. destruct H as [Hc Hl]. apply N.eqb_eq in Hl.
  assert (Hb : forall b, In b (tbl d T_appointments) -> col b C_appointments_locator = l ->
                         Doomed CS d (body_root l) T_appointments b).
  { intros b Hbin E. apply Doomed_root; [exact Hbin|]. apply where_root_true. split; [reflexivity|].
    cbn. f_equal. exact E. }
  destruct_table c; cbn in Hc; try discriminate.
  - apply Hb; assumption.
  - destruct (fk_pending_body d r Hfk Hr) as [b [Hbin E]].
    apply (Doomed_child CS d _ T_pending_appointments r (mk_fkey [0] 1 [0] true) b); auto.
    + cbn. auto.
    + apply Hb; [exact Hbin|]. rewrite E. exact Hl.
    + cbn. f_equal. exact E.
  - destruct (fk_invalid_body d r Hfk Hr) as [b [Hbin E]].
    apply (Doomed_child CS d _ T_invalid_appointments r (mk_fkey [0] 1 [0] true) b); auto.
    + cbn. auto.
    + apply Hb; [exact Hbin|]. rewrite E. exact Hl.
    + cbn. f_equal. exact E.
Qed.

Lemma body_delete_spec d l d' :
  fk_ok CS d -> db_delete_root CS d (body_root l) = DbOk d' ->
  forall c, tbl d' c = filter (fun r => negb (on_locator l c r)) (tbl d c).
Proof.
  intros Hfk H. apply (delete_root_spec d _ d' (on_locator l) H).
  intros c r Hr. split; [apply doomed_body_sound|apply doomed_body_complete; assumption].
Qed.

(* the garbage collection of remove_tower_record: the unreferenced bodies only *)
Lemma doomed_gc d0 d c r :
  (forall b, In b (tbl d T_appointments) -> unreferenced_root d0 T_appointments b = true ->
     (forall p, In p (tbl d T_pending_appointments) -> col p C_pending_appointments_locator <> col b C_appointments_locator) /\
     (forall p, In p (tbl d T_invalid_appointments) -> col p C_invalid_appointments_locator <> col b C_appointments_locator)) ->
  (Doomed CS d (unreferenced_root d0) c r <-> (In r (tbl d c) /\ unreferenced_root d0 c r = true)).
Proof.
  intros Hun. split.
  - intros HD. induction HD as [c r Hr Hroot|c r fk r' Hr Hfk Hc Hr' HD IH Hk].
    + tauto.
    + destruct IH as [Hin IH]. pose proof IH as IH0. unfold unreferenced_root in IH. apply andb_true_iff in IH.
      destruct IH as [IH _]. apply Nat.eqb_eq in IH.
      destruct_table c; cbn in Hfk; try contradiction; try (destruct c; cbn in Hfk; contradiction);
        repeat (destruct Hfk as [<-|Hfk]); try contradiction; cbn in IH; try discriminate; exfalso.
      * destruct (Hun r' Hr' IH0) as [A _]. apply (A r Hr). cbn in Hk. inversion Hk as [E]. symmetry. exact E.
      * destruct (Hun r' Hr' IH0) as [_ A]. apply (A r Hr). cbn in Hk. inversion Hk as [E]. symmetry. exact E.
  - intros [Hr H]. apply Doomed_root; assumption.
Qed.

(* ---------- association lists ---------- *)
Lemma aget_aretain {V} (p : N -> bool) (m : amap V) k :
  aget (aretain p m) k = if p k then aget m k else None.
Proof.
  unfold aretain. induction m as [|[k' v] m IH]; cbn; [destruct (p k); reflexivity|].
  destruct (N.eqb k k') eqn:E.
  - apply N.eqb_eq in E. subst k'. destruct (p k) eqn:Ep; cbn.
    + rewrite N.eqb_refl. reflexivity.
    + exact IH.
  - destruct (p k') eqn:Ep'; cbn; [rewrite E|]; exact IH.
Qed.

Lemma aget_aremove {V} (m : amap V) t k : aget (aremove m t) k = if N.eqb k t then None else aget m k.
Proof. unfold aremove. rewrite aget_aretain. destruct (N.eqb k t); reflexivity. Qed.

Lemma aget_aset {V} (m : amap V) t v k : aget (aset m t v) k = if N.eqb k t then Some v else aget m k.
Proof. unfold aset. cbn. destruct (N.eqb k t) eqn:E; [reflexivity|]. rewrite aget_aremove, E. reflexivity. Qed.

Lemma aget_In_fst {V} (m : amap V) k v : aget m k = Some v -> In k (map fst m).
Proof.
  induction m as [|[k' v'] m IH]; cbn; [discriminate|].
  destruct (N.eqb k k') eqn:E; [apply N.eqb_eq in E; auto|auto].
Qed.

Lemma aget_None_not_In {V} (m : amap V) k : aget m k = None -> ~ In k (map fst m).
Proof.
  induction m as [|[k' v'] m IH]; cbn; [tauto|].
  destruct (N.eqb k k') eqn:E; [discriminate|]. apply N.eqb_neq in E. intros H [A|A]; [congruence|]. exact (IH H A).
Qed.

(* ---------- find over tables ---------- *)
Lemma find_some_iff_unique {A} (f : A -> bool) (g : A -> key) l x :
  NoDup (map g l) -> (forall a b, f a = true -> f b = true -> g a = g b) ->
  In x l -> f x = true -> find f l = Some x.
Proof.
  induction l as [|y l IH]; cbn; intros Hnd Hg Hin Hf; [contradiction|].
  inversion Hnd as [|? ? Hny Hnd']; subst. destruct (f y) eqn:Ey.
  - destruct Hin as [->|Hin]; [reflexivity|]. exfalso. apply Hny. rewrite (Hg y x Ey Hf). apply in_map. exact Hin.
  - destruct Hin as [->|Hin]; [congruence|]. apply IH; assumption.
Qed.

Lemma find_none_iff {A} (f : A -> bool) l : find f l = None <-> forall x, In x l -> f x = false.
Proof.
  split.
  - intros H x Hx. exact (find_none f l H x Hx).
  - induction l as [|y l IH]; cbn; intros H; [reflexivity|].
    rewrite (H y (or_introl eq_refl)). apply IH. intros x Hx. apply H. right. exact Hx.
Qed.

Lemma find_pk_Some d tb k r : find_pk CS d tb k = Some r -> In r (tbl d tb) /\ proj r (ts_pk (tsch CS tb)) = k.
Proof. unfold find_pk. intros H. apply find_some in H. destruct H as [A B]. apply key_eqb_eq in B. tauto. Qed.

Lemma find_pk_unique d tb k r : pk_ok CS d -> In r (tbl d tb) -> proj r (ts_pk (tsch CS tb)) = k -> find_pk CS d tb k = Some r.
Proof.
  intros Hpk Hr Hk. unfold find_pk.
  apply (find_some_iff_unique _ (fun r => proj r (ts_pk (tsch CS tb)))).
  - apply Hpk.
  - intros a b Ha Hb. apply key_eqb_eq in Ha, Hb. congruence.
  - exact Hr.
  - apply key_eqb_eq. exact Hk.
Qed.

Lemma find_pk_None d tb k : find_pk CS d tb k = None <-> forall r, In r (tbl d tb) -> proj r (ts_pk (tsch CS tb)) <> k.
Proof.
  unfold find_pk. rewrite find_none_iff. split; intros H r Hr.
  - apply key_eqb_neq. apply H. exact Hr.
  - apply key_eqb_neq. apply H. exact Hr.
Qed.

Lemma existsb_find {A} (f : A -> bool) l : existsb f l = match find f l with Some _ => true | None => false end.
Proof. induction l as [|x l IH]; cbn; [reflexivity|]. destruct (f x); cbn; [reflexivity|exact IH]. Qed.

Lemma has_pk_find d tb k : has_pk CS d tb k = match find_pk CS d tb k with Some _ => true | None => false end.
Proof. unfold has_pk, find_pk. apply existsb_find. Qed.

(* find_pk depends on the table only *)
Lemma find_pk_ext d d' tb k : tbl d' tb = tbl d tb -> find_pk CS d' tb k = find_pk CS d tb k.
Proof. unfold find_pk. intros ->. reflexivity. Qed.

Lemma find_filter_keep {A} (f p : A -> bool) l :
  (forall x, In x l -> f x = true -> p x = true) -> find f (filter p l) = find f l.
Proof.
  induction l as [|y l IH]; cbn; intros H; [reflexivity|].
  destruct (p y) eqn:Ep; cbn.
  - destruct (f y); [reflexivity|]. apply IH. intros x Hx. apply H. right. exact Hx.
  - destruct (f y) eqn:Ef; [rewrite (H y (or_introl eq_refl) Ef) in Ep; discriminate|].
    apply IH. intros x Hx. apply H. right. exact Hx.
Qed.

Lemma find_map_key {A} (f : A -> bool) (g : A -> A) l :
  (forall x, f (g x) = f x) -> find f (map g l) = option_map g (find f l).
Proof.
  intros H. induction l as [|y l IH]; cbn; [reflexivity|]. rewrite H. destruct (f y); [reflexivity|exact IH].
Qed.

(* ---------- the views a summary is computed from ---------- *)
Lemma max_receipt_ext d d' t : tbl d' T_registration_receipts = tbl d T_registration_receipts -> max_receipt d' t = max_receipt d t.
Proof. unfold max_receipt. intros ->. reflexivity. Qed.
Lemma pending_locators_ext d d' t : tbl d' T_pending_appointments = tbl d T_pending_appointments -> pending_locators d' t = pending_locators d t.
Proof. unfold pending_locators. intros ->. reflexivity. Qed.
Lemma invalid_locators_ext d d' t : tbl d' T_invalid_appointments = tbl d T_invalid_appointments -> invalid_locators d' t = invalid_locators d t.
Proof. unfold invalid_locators. intros ->. reflexivity. Qed.

Definition rr_step (t : N) (best : option row) (r : row) : option row :=
  if N.eqb (col r C_registration_receipts_tower_id) t then
    match best with
    | None => Some r
    | Some b => if N.ltb (col b C_registration_receipts_subscription_expiry)
                         (col r C_registration_receipts_subscription_expiry)
                then Some r else Some b
    end
  else best.

Lemma max_receipt_fold d t : max_receipt d t = fold_left (rr_step t) (tbl d T_registration_receipts) None.
Proof. reflexivity. Qed.

Lemma fold_rr_filter t p l acc :
  (forall r, In r l -> col r C_registration_receipts_tower_id = t -> p r = true) ->
  fold_left (rr_step t) (filter p l) acc = fold_left (rr_step t) l acc.
Proof.
  revert acc. induction l as [|r l IH]; cbn; intros acc H; [reflexivity|].
  destruct (p r) eqn:Ep; cbn.
  - apply IH. intros x Hx. apply H. right. exact Hx.
  - rewrite IH by (intros x Hx; apply H; right; exact Hx). f_equal. unfold rr_step.
    destruct (N.eqb (col r C_registration_receipts_tower_id) t) eqn:E; [|reflexivity].
    apply N.eqb_eq in E. rewrite (H r (or_introl eq_refl) E) in Ep. discriminate.
Qed.

Lemma fold_rr_none t l : (forall r, In r l -> col r C_registration_receipts_tower_id <> t) -> fold_left (rr_step t) l None = None.
Proof.
  induction l as [|r l IH]; cbn; intros H; [reflexivity|].
  unfold rr_step at 2. destruct (N.eqb (col r C_registration_receipts_tower_id) t) eqn:E.
  - apply N.eqb_eq in E. exfalso. exact (H r (or_introl eq_refl) E).
  - apply IH. intros x Hx. apply H. right. exact Hx.
Qed.

(* the fold returns a receipt of t whose expiry is maximal *)
Lemma fold_rr_spec t l : forall acc,
  (forall b, acc = Some b -> col b C_registration_receipts_tower_id = t) ->
  match fold_left (rr_step t) l acc with
  | Some m => col m C_registration_receipts_tower_id = t /\ (acc = Some m \/ In m l) /\
              (forall b, acc = Some b -> (col b C_registration_receipts_subscription_expiry <= col m C_registration_receipts_subscription_expiry)%N) /\
              (forall r, In r l -> col r C_registration_receipts_tower_id = t ->
                         (col r C_registration_receipts_subscription_expiry <= col m C_registration_receipts_subscription_expiry)%N)
  | None => acc = None /\ forall r, In r l -> col r C_registration_receipts_tower_id <> t
  end.
Proof.
  induction l as [|r l IH]; intros acc Hacc; cbn [fold_left].
  - destruct acc as [b|]; [|split; [reflexivity|intros r []]].
    split; [apply Hacc; reflexivity|]. split; [left; reflexivity|]. split; [|intros r []].
    intros b' E. injection E as <-. apply N.le_refl.
  - assert (Hacc' : forall b, rr_step t acc r = Some b -> col b C_registration_receipts_tower_id = t).
    { intros b. unfold rr_step. destruct (N.eqb (col r C_registration_receipts_tower_id) t) eqn:E.
      - apply N.eqb_eq in E. destruct acc as [b0|].
        + destruct (N.ltb _ _); intros H; injection H as <-; [exact E|apply Hacc; reflexivity].
        + intros H; injection H as <-; exact E.
      - apply Hacc. }
    specialize (IH (rr_step t acc r) Hacc'). destruct (fold_left (rr_step t) l (rr_step t acc r)) as [m|].
    + destruct IH as [Hm [Hsrc [Hge Hall]]]. split; [exact Hm|].
      unfold rr_step in Hsrc, Hge. destruct (N.eqb (col r C_registration_receipts_tower_id) t) eqn:E.
      * destruct acc as [b0|].
        -- destruct (N.ltb (col b0 C_registration_receipts_subscription_expiry) (col r C_registration_receipts_subscription_expiry)) eqn:El.
           ++ apply N.ltb_lt in El. split; [destruct Hsrc as [Hs|Hs]; [injection Hs as ->; right; left; reflexivity|right; right; exact Hs]|].
              split.
              ** intros b Eb. injection Eb as <-. specialize (Hge r eq_refl). lia.
              ** intros x [<-|Hx] Ex; [apply Hge; reflexivity|apply Hall; assumption].
           ++ apply N.ltb_ge in El. split; [destruct Hsrc as [Hs|Hs]; [left; exact Hs|right; right; exact Hs]|].
              split.
              ** intros b Eb. injection Eb as <-. apply Hge. reflexivity.
              ** intros x [<-|Hx] Ex; [specialize (Hge b0 eq_refl); lia|apply Hall; assumption].
        -- split; [destruct Hsrc as [Hs|Hs]; [injection Hs as ->; right; left; reflexivity|right; right; exact Hs]|].
           split; [intros b Eb; discriminate|].
           intros x [<-|Hx] Ex; [apply Hge; reflexivity|apply Hall; assumption].
      * apply N.eqb_neq in E. split; [destruct Hsrc as [Hs|Hs]; [left; exact Hs|right; right; exact Hs]|].
        split; [exact Hge|]. intros x [<-|Hx] Ex; [contradiction|apply Hall; assumption].
    + destruct IH as [Hn Hall]. unfold rr_step in Hn.
      destruct (N.eqb (col r C_registration_receipts_tower_id) t) eqn:E.
      * destruct acc as [b0|]; [destruct (N.ltb _ _); discriminate|discriminate].
      * apply N.eqb_neq in E. split; [exact Hn|]. intros x [<-|Hx]; [exact E|apply Hall; exact Hx].
Qed.
