(* ClientProofs.v — proofs about the store model Client.v (C18). *)
From TeosModel Require Import Base ListAux Db DbProofs Client.
Local Open Scope nat_scope.

Lemma CS_wf : schema_wf CS.
Proof. apply schema_wfb_sound. vm_compute. reflexivity. Qed.

Lemma CS_length : length CS = 8.
Proof. reflexivity. Qed.

(* rows built by mkrow are the expected positional rows *)
Lemma mkrow_towers t a s :
  mkrow T_towers [(C_towers_tower_id, t); (C_towers_net_addr, a); (C_towers_available_slots, s)] = [t; a; s].
Proof. reflexivity. Qed.
Lemma mkrow_pending l t :
  mkrow T_pending_appointments [(C_pending_appointments_locator, l); (C_pending_appointments_tower_id, t)] = [l; t].
Proof. reflexivity. Qed.
Lemma mkrow_invalid l t :
  mkrow T_invalid_appointments [(C_invalid_appointments_locator, l); (C_invalid_appointments_tower_id, t)] = [l; t].
Proof. reflexivity. Qed.
Lemma mkrow_rr t s a e g :
  mkrow T_registration_receipts
         [(C_registration_receipts_tower_id, t); (C_registration_receipts_available_slots, s);
          (C_registration_receipts_subscription_start, a);
          (C_registration_receipts_subscription_expiry, e);
          (C_registration_receipts_signature, g)] = [t; s; a; e; g].
Proof. reflexivity. Qed.
Lemma receipt_row_eq t l sb u g : receipt_row t l sb u g = [l; t; sb; u; g].
Proof. reflexivity. Qed.
Lemma body_row_eq l b dl : body_row l b dl = [l; b; dl].
Proof. reflexivity. Qed.
Lemma mkrow_proof t l rc :
  mkrow T_misbehaving_proofs [(C_misbehaving_proofs_tower_id, t); (C_misbehaving_proofs_locator, l);
                              (C_misbehaving_proofs_recovered_id, rc)] = [t; l; rc].
Proof. reflexivity. Qed.

(* ---------- generic helpers ---------- *)
Lemma proj1_col r c : proj r [c] = [col r c].
Proof. reflexivity. Qed.
Lemma proj2_col r a b : proj r [a; b] = [col r a; col r b].
Proof. reflexivity. Qed.

Lemma key1_eqb a b : key_eqb [a] [b] = N.eqb a b.
Proof. cbn. apply andb_true_r. Qed.
Lemma key2_eqb a b c d : key_eqb [a; b] [c; d] = N.eqb a c && N.eqb b d.
Proof. cbn. rewrite andb_true_r. reflexivity. Qed.

Lemma filter_ext_in' {A} (f g : A -> bool) l : (forall x, In x l -> f x = g x) -> filter f l = filter g l.
Proof.
  induction l as [|x l IH]; cbn; intros H; [reflexivity|].
  rewrite (H x (or_introl eq_refl)), IH; [reflexivity|]. intros y Hy. apply H. right. exact Hy.
Qed.

Lemma filter_all_true {A} (f : A -> bool) l : (forall x, In x l -> f x = true) -> filter f l = l.
Proof.
  induction l as [|x l IH]; cbn; intros H; [reflexivity|].
  rewrite (H x (or_introl eq_refl)), IH; [reflexivity|]. intros y Hy. apply H. right. exact Hy.
Qed.

(* database-level invariant of the client: integrity, the eight tables, and every tower row has
   at least one registration receipt (store_tower_record writes both in one transaction) *)
Definition has_receipt (d : db) (t : N) : Prop :=
  exists rr, In rr (tbl d T_registration_receipts) /\ col rr C_registration_receipts_tower_id = t.

Definition DbInv (d : db) : Prop :=
  db_ok CS d /\ length d = 8 /\
  (forall tr, In tr (tbl d T_towers) -> has_receipt d (col tr C_towers_tower_id)).

Lemma dbm_new_eq : dbm_new = [[]; []; []; []; []; []; []; [[1%N; 1%N]]].
Proof. vm_compute. reflexivity. Qed.

Lemma DbInv_new : DbInv dbm_new.
Proof.
  rewrite dbm_new_eq. split; [|split; [reflexivity|intros tr []]].
  split; [apply fk_okb_sound|apply pk_okb_sound]; vm_compute; reflexivity.
Qed.

(* the parent rows the foreign keys of the client schema promise *)
Lemma fk_pending_tower d r : fk_ok CS d -> In r (tbl d T_pending_appointments) ->
  exists tr, In tr (tbl d T_towers) /\ col tr C_towers_tower_id = col r C_pending_appointments_tower_id.
Proof.
  intros H Hr. pose proof (H T_pending_appointments r (mk_fkey [1] 0 [0] true) Hr) as Hp.
  assert (Hin : In (mk_fkey [1] 0 [0] true) (ts_fks (tsch CS T_pending_appointments))) by (cbn; auto).
  apply Hp in Hin. apply parent_present_iff in Hin. destruct Hin as [tr [A B]]. exists tr. split; [exact A|].
  cbn in B. inversion B as [B1]. exact B1.
Qed.

Lemma fk_pending_body d r : fk_ok CS d -> In r (tbl d T_pending_appointments) ->
  exists b, In b (tbl d T_appointments) /\ col b C_appointments_locator = col r C_pending_appointments_locator.
Proof.
  intros H Hr. pose proof (H T_pending_appointments r (mk_fkey [0] 1 [0] true) Hr) as Hp.
  assert (Hin : In (mk_fkey [0] 1 [0] true) (ts_fks (tsch CS T_pending_appointments))) by (cbn; auto).
  apply Hp in Hin. apply parent_present_iff in Hin. destruct Hin as [tr [A B]]. exists tr. split; [exact A|].
  cbn in B. inversion B as [B1]. exact B1.
Qed.

Lemma fk_invalid_tower d r : fk_ok CS d -> In r (tbl d T_invalid_appointments) ->
  exists tr, In tr (tbl d T_towers) /\ col tr C_towers_tower_id = col r C_invalid_appointments_tower_id.
Proof.
  intros H Hr. pose proof (H T_invalid_appointments r (mk_fkey [1] 0 [0] true) Hr) as Hp.
  assert (Hin : In (mk_fkey [1] 0 [0] true) (ts_fks (tsch CS T_invalid_appointments))) by (cbn; auto).
  apply Hp in Hin. apply parent_present_iff in Hin. destruct Hin as [tr [A B]]. exists tr. split; [exact A|].
  cbn in B. inversion B as [B1]. exact B1.
Qed.

Lemma fk_invalid_body d r : fk_ok CS d -> In r (tbl d T_invalid_appointments) ->
  exists b, In b (tbl d T_appointments) /\ col b C_appointments_locator = col r C_invalid_appointments_locator.
Proof.
  intros H Hr. pose proof (H T_invalid_appointments r (mk_fkey [0] 1 [0] true) Hr) as Hp.
  assert (Hin : In (mk_fkey [0] 1 [0] true) (ts_fks (tsch CS T_invalid_appointments))) by (cbn; auto).
  apply Hp in Hin. apply parent_present_iff in Hin. destruct Hin as [tr [A B]]. exists tr. split; [exact A|].
  cbn in B. inversion B as [B1]. exact B1.
Qed.

Lemma fk_rr_tower d r : fk_ok CS d -> In r (tbl d T_registration_receipts) ->
  exists tr, In tr (tbl d T_towers) /\ col tr C_towers_tower_id = col r C_registration_receipts_tower_id.
Proof.
  intros H Hr. pose proof (H T_registration_receipts r (mk_fkey [0] 0 [0] true) Hr) as Hp.
  assert (Hin : In (mk_fkey [0] 0 [0] true) (ts_fks (tsch CS T_registration_receipts))) by (cbn; auto).
  apply Hp in Hin. apply parent_present_iff in Hin. destruct Hin as [tr [A B]]. exists tr. split; [exact A|].
  cbn in B. inversion B as [B1]. exact B1.
Qed.

Lemma fk_ar_tower d r : fk_ok CS d -> In r (tbl d T_appointment_receipts) ->
  exists tr, In tr (tbl d T_towers) /\ col tr C_towers_tower_id = col r C_appointment_receipts_tower_id.
Proof.
  intros H Hr. pose proof (H T_appointment_receipts r (mk_fkey [1] 0 [0] true) Hr) as Hp.
  assert (Hin : In (mk_fkey [1] 0 [0] true) (ts_fks (tsch CS T_appointment_receipts))) by (cbn; auto).
  apply Hp in Hin. apply parent_present_iff in Hin. destruct Hin as [tr [A B]]. exists tr. split; [exact A|].
  cbn in B. inversion B as [B1]. exact B1.
Qed.

Lemma fk_proof_receipt d r : fk_ok CS d -> In r (tbl d T_misbehaving_proofs) ->
  exists rc, In rc (tbl d T_appointment_receipts) /\
    col rc C_appointment_receipts_locator = col r C_misbehaving_proofs_locator /\
    col rc C_appointment_receipts_tower_id = col r C_misbehaving_proofs_tower_id.
Proof.
  intros H Hr. pose proof (H T_misbehaving_proofs r (mk_fkey [1; 0] 5 [0; 1] true) Hr) as Hp.
  assert (Hin : In (mk_fkey [1; 0] 5 [0; 1] true) (ts_fks (tsch CS T_misbehaving_proofs))) by (cbn; auto).
  apply Hp in Hin. apply parent_present_iff in Hin. destruct Hin as [tr [A B]]. exists tr. split; [exact A|].
  cbn in B. inversion B as [[B1 B2]]. split; [exact B1|exact B2].
Qed.

(* ---------- what the three DELETE statements of the client remove (cascade lemma, instantiated) ---------- *)
Definition abandon_root (t : N) := where_root T_towers [C_towers_tower_id] [t].

Lemma where_root_true t0 cols vals c r :
  where_root t0 cols vals c r = true <-> c = t0 /\ proj r cols = vals.
Proof.
  unfold where_root. rewrite andb_true_iff, Nat.eqb_eq, key_eqb_eq. tauto.
Qed.

Ltac destruct_table c :=
  destruct c as [|[|[|[|[|[|[|[|c]]]]]]]].

Lemma doomed_abandon_sound d t c r :
  Doomed CS d (abandon_root t) c r -> row_of_tower c t r = true.
Proof.
  intros HD. induction HD as [c r Hr Hroot|c r fk r' Hr Hfk Hc Hr' HD IH Hk].
  - apply where_root_true in Hroot. destruct Hroot as [-> Hp]. cbn in Hp. inversion Hp as [E].
    unfold row_of_tower. cbn. unfold col. cbn. apply N.eqb_refl.
  - destruct_table c; cbn in Hfk; try contradiction;
      repeat (destruct Hfk as [<-|Hfk]); try contradiction;
      cbn in IH, Hk |- *; try discriminate IH;
      unfold row_of_tower, col in *; cbn in *; inversion Hk; congruence.
Qed.

Lemma doomed_abandon_complete d t c r :
  fk_ok CS d -> In r (tbl d c) -> row_of_tower c t r = true -> Doomed CS d (abandon_root t) c r.
Proof.
  intros Hfk Hr Hrow.
  assert (Htow : forall tr, In tr (tbl d T_towers) -> col tr C_towers_tower_id = t -> Doomed CS d (abandon_root t) T_towers tr).
  { intros tr Htr E. apply Doomed_root; [exact Htr|]. apply where_root_true. split; [reflexivity|]. cbn. unfold col in E. cbn in E. rewrite E. reflexivity. }
  assert (Har : forall rc, In rc (tbl d T_appointment_receipts) -> col rc C_appointment_receipts_tower_id = t ->
                           Doomed CS d (abandon_root t) T_appointment_receipts rc).
  { intros rc Hrc E. destruct (fk_ar_tower d rc Hfk Hrc) as [tr [Htr Et]].
    apply (Doomed_child CS d _ T_appointment_receipts rc (mk_fkey [1] 0 [0] true) tr); auto.
    - cbn. auto.
    - apply Htow; [exact Htr|congruence].
    - cbn. unfold col in Et. cbn in Et. rewrite Et. reflexivity. }
  unfold row_of_tower in Hrow. destruct_table c; cbn in Hrow; try discriminate; apply N.eqb_eq in Hrow.
  - apply Htow; assumption.
  - destruct (fk_pending_tower d r Hfk Hr) as [tr [Htr Et]].
    apply (Doomed_child CS d _ T_pending_appointments r (mk_fkey [1] 0 [0] true) tr); auto.
    + cbn. auto.
    + apply Htow; [exact Htr|congruence].
    + cbn. unfold col in Et. cbn in Et. rewrite Et. reflexivity.
  - destruct (fk_invalid_tower d r Hfk Hr) as [tr [Htr Et]].
    apply (Doomed_child CS d _ T_invalid_appointments r (mk_fkey [1] 0 [0] true) tr); auto.
    + cbn. auto.
    + apply Htow; [exact Htr|congruence].
    + cbn. unfold col in Et. cbn in Et. rewrite Et. reflexivity.
  - destruct (fk_rr_tower d r Hfk Hr) as [tr [Htr Et]].
    apply (Doomed_child CS d _ T_registration_receipts r (mk_fkey [0] 0 [0] true) tr); auto.
    + cbn. auto.
    + apply Htow; [exact Htr|congruence].
    + cbn. unfold col in Et. cbn in Et. rewrite Et. reflexivity.
  - apply Har; assumption.
  - destruct (fk_proof_receipt d r Hfk Hr) as [rc [Hrc [E1 E2]]].
    apply (Doomed_child CS d _ T_misbehaving_proofs r (mk_fkey [1; 0] 5 [0; 1] true) rc); auto.
    + cbn. auto.
    + apply Har; [exact Hrc|congruence].
    + cbn. unfold col in E1, E2. cbn in E1, E2. rewrite E1, E2. reflexivity.
Qed.
