(* ClientFlowProofs.v — proofs about ClientFlow.v (C05, C14, C13). *)
From TeosModel Require Import Base ListAux Db DbProofs Client ClientProofs ClientFlow.

(* ---------- witnesses (vm_compute) ---------- *)
Definition w_good (g : N) : rreply := RReceipt (100 + 10 * g) 10 (1000 + 100 * g) true.
Definition w_att (adds : list areply) (more : bool) : attempt :=
  {| at_reg := w_good 9; at_adds := adds; at_order := []; at_more := more |}.

(* two towers down; revocation 5 pending for both, both retriers running; abandon tower 0, register with it again;
   its retrier (stale set {5}) delivers 5: tower 1 loses its pending row *)
Definition w_c05_ops : list fop :=
  [FRegister 0 (w_good 1); FRegister 1 (w_good 1); FRevocation 5 [] [(0, AConnErr); (1, AConnErr)];
   FManagerTick []; FManagerTick []; FManagerTick [];
   FRetrierRun 0 [w_att [] true]; FAbandon 0; FRegister 0 (w_good 1); FRetrierRun 0 [w_att [AAccept 110] true]].

Lemma recorded_exactly_one_refuted :
  exists ops t l, let s := frun f_init ops in
    poisoned s = false /\ owed s t l = true /\ record_count (c_db (f_c s)) t l = 0%nat.
Proof. exists w_c05_ops, 1, 5. vm_compute. repeat split; reflexivity. Qed.

(* C14: a tower proven misbehaving is sent appointments again after `registertower` against it failed to connect
   (status overwritten with temporary unreachable); a second wrong-key reply then aborts on the duplicate proof *)
Definition w_c14_ops : list fop :=
  [FRegister 0 (w_good 1); FRevocation 0 [] [(0, AWrongKey)]; FRegister 0 RConnErr; FRevocation 1 [] [];
   FManagerTick []; FManagerTick []; FRetrierRun 0 [w_att [AAccept 110] true]].

Definition is_add_to (t : N) (r : req) : bool := match r with ReqAdd t' _ => N.eqb t' t | _ => false end.

Lemma misbehaviour_flagged_refuted :
  exists ops1 ops2 t, let s1 := frun f_init ops1 in let s2 := frun s1 ops2 in
    exists_misbehaving_proof (c_db (f_c s1)) t = true /\
    existsb (is_add_to t) (skipn (length (f_log s1)) (f_log s2)) = true.
Proof. exists (firstn 2 w_c14_ops), (skipn 2 w_c14_ops), 0. vm_compute. split; reflexivity. Qed.

Lemma no_reply_aborts_refuted :
  exists ops l, snd (fstep (frun f_init ops) (FRevocation l [] [(0, AWrongKey)])) = OPanic (SClient Site_store_misbehaving_proof_unwrap).
Proof. exists w_c14_ops, 2. vm_compute. reflexivity. Qed.
