(* ClientFlowProofs.v — proofs about ClientFlow.v (C05, C14, C13). *)
From TeosModel Require Import Base ListAux Db DbProofs Client ClientProofs ClientFlow.

(* ---------- witnesses (vm_compute) ---------- *)
Definition w_good (g : N) : rreply := RReceipt (100 + 10 * g) 10 (1000 + 100 * g) true.
Definition w_att (adds : list areply) (more : bool) : attempt :=
  {| at_reg := w_good 9; at_adds := adds; at_order := []; at_more := more |}.

(* the former counterexamples (defects D1, D2, D4, repaired in the plugin): kept as regression witnesses.
   D1: two towers down; revocation 5 pending for both, both retriers running; abandon tower 0, register with it again;
   its retrier (stale set {5}) used to deliver 5 and delete the body tower 1's pending row hangs on *)
Definition w_c05_ops : list fop :=
  [FRegister 0 (w_good 1); FRegister 1 (w_good 1); FRevocation 5 [] [(0, AConnErr); (1, AConnErr)];
   FManagerTick []; FManagerTick []; FManagerTick [];
   FRetrierRun 0 [w_att [] true]; FAbandon 0; FRegister 0 (w_good 1); FRetrierRun 0 [w_att [AAccept 110] true]].

(* D2 + D4: a tower proven misbehaving, `registertower` against it fails to connect (the status used to be overwritten
   with temporary unreachable), further revocations, a second wrong-key reply (used to abort on the duplicate proof) *)
Definition w_c14_ops : list fop :=
  [FRegister 0 (w_good 1); FRevocation 0 [] [(0, AWrongKey)]; FRegister 0 RConnErr; FRevocation 1 [] [];
   FManagerTick []; FManagerTick []; FRetrierRun 0 [w_att [AAccept 110] true]].

Definition is_add_to (t : N) (r : req) : bool := match r with ReqAdd t' _ => N.eqb t' t | _ => false end.

(* ====================================================================== *)
(* generic helpers                                                        *)
(* ====================================================================== *)
Ltac dmatch :=
  repeat match goal with
         | |- context [match ?x with _ => _ end] => destruct x eqn:?
         | |- context [if ?x then _ else _] => destruct x eqn:?
         end.

Lemma aget_aset_same {V} (m : amap V) t v : aget (aset m t v) t = Some v.
Proof. rewrite aget_aset, N.eqb_refl. reflexivity. Qed.
Lemma aget_aset_other {V} (m : amap V) t v k : k <> t -> aget (aset m t v) k = aget m k.
Proof. intros H. rewrite aget_aset. apply N.eqb_neq in H. rewrite H. reflexivity. Qed.

Lemma remove_one_In x y l : In y (remove_one x l) -> In y l.
Proof.
  induction l as [|z l IH]; cbn; [tauto|]. destruct (N.eqb z x); [tauto|]. cbn. intros [->|H]; [tauto|]. right. apply IH, H.
Qed.
Lemma remove_one_NoDup x l : NoDup l -> NoDup (remove_one x l) /\ ~ In x (remove_one x l).
Proof.
  induction 1 as [|z l Hz Hl IH]; cbn; [split; [constructor|tauto]|].
  destruct (N.eqb z x) eqn:E.
  - apply N.eqb_eq in E. subst. split; assumption.
  - apply N.eqb_neq in E. destruct IH as [A B]. split.
    + constructor; [|exact A]. intros H. apply Hz. eapply remove_one_In, H.
    + intros [H|H]; [congruence|tauto].
Qed.

(* the status of every retrier of the manager *)
Definition rstat (s : fstate) (t : N) : option rstatus := option_map r_status (aget (f_mgr s) t).

(* ====================================================================== *)
(* C13 single_retrier: one retry loop per tower                           *)
(* ====================================================================== *)
Definition TaskInv (s : fstate) : Prop :=
  NoDup (f_tasks s) /\ forall t, In t (f_tasks s) -> rstat s t = Some RRunning.

Lemma TaskInv_same s s' : f_tasks s' = f_tasks s -> (forall t, rstat s' t = rstat s t) -> TaskInv s -> TaskInv s'.
Proof. intros E1 E2 [A B]. split; [rewrite E1; exact A|]. intros t Ht. rewrite E2. apply B. rewrite <- E1. exact Ht. Qed.

(* ---- operations that do not touch the manager's retriers nor the tasks ---- *)
Lemma flag_unreachable_mgr s t : f_tasks (flag_unreachable s t) = f_tasks s /\ f_mgr (flag_unreachable s t) = f_mgr s.
Proof. unfold flag_unreachable. dmatch; cbn; split; reflexivity. Qed.

Lemma f_register_mgr s t a rp : f_tasks (fst (f_register s t a rp)) = f_tasks s /\ f_mgr (fst (f_register s t a rp)) = f_mgr s.
Proof.
  unfold f_register. dmatch; cbn [fst]; try (split; reflexivity).
  destruct (flag_unreachable_mgr (log_req s (ReqRegister t)) t) as [-> ->]. split; reflexivity.
Qed.

Lemma send_to_retrier_mgr s t l : f_tasks (send_to_retrier s t l) = f_tasks s /\ f_mgr (send_to_retrier s t l) = f_mgr s.
Proof. unfold send_to_retrier. dmatch; cbn; split; reflexivity. Qed.

Lemma rev_pend_mgr s l t b : f_tasks (fst (rev_pend s l t b)) = f_tasks s /\ f_mgr (fst (rev_pend s l t b)) = f_mgr s.
Proof.
  unfold rev_pend. dmatch; cbn [fst]; try (split; reflexivity);
    match goal with |- context [send_to_retrier ?x ?y ?z] => destruct (send_to_retrier_mgr x y z) as [-> ->] end; split; reflexivity.
Qed.

Lemma rev_tower_mgr s l t st rp : f_tasks (fst (rev_tower s l t st rp)) = f_tasks s /\ f_mgr (fst (rev_tower s l t st rp)) = f_mgr s.
Proof.
  unfold rev_tower. dmatch; cbn [fst]; try (split; reflexivity);
    match goal with |- context [rev_pend ?x ?y ?z ?w] => destruct (rev_pend_mgr x y z w) as [-> ->] end; split; reflexivity.
Qed.

Lemma rev_loop_mgr l replies snap : forall s, f_tasks (fst (rev_loop s l snap replies)) = f_tasks s /\ f_mgr (fst (rev_loop s l snap replies)) = f_mgr s.
Proof.
  induction snap as [|[t st] snap IH]; intros s; cbn; [split; reflexivity|].
  destruct (rev_tower s l t st (reply_for replies t)) as [s1 o] eqn:E.
  pose proof (rev_tower_mgr s l t st (reply_for replies t)) as H. rewrite E in H. cbn in H. destruct H as [H1 H2].
  destruct o; cbn; [split; assumption|]. destruct (IH s1) as [A B]. split; congruence.
Qed.

Lemma f_revocation_mgr s l order replies :
  f_tasks (fst (f_revocation s l order replies)) = f_tasks s /\ f_mgr (fst (f_revocation s l order replies)) = f_mgr s.
Proof.
  unfold f_revocation. destruct (poisoned s); [split; reflexivity|].
  match goal with |- context [rev_loop s l ?sn replies] => pose proof (rev_loop_mgr l replies sn s) as H; destruct (rev_loop s l sn replies) as [s1 o] end.
  cbn in H. destruct o; cbn; exact H.
Qed.

Lemma f_manual_retry_mgr s t : f_tasks (fst (f_manual_retry s t)) = f_tasks s /\ f_mgr (fst (f_manual_retry s t)) = f_mgr s.
Proof. unfold f_manual_retry. dmatch; cbn; split; reflexivity. Qed.

Lemma f_abandon_mgr s t : f_tasks (fst (f_abandon s t)) = f_tasks s /\ f_mgr (fst (f_abandon s t)) = f_mgr s.
Proof. unfold f_abandon. dmatch; cbn; split; reflexivity. Qed.

(* ---- the manager ---- *)
Lemma rstat_put s t r k : rstat (put_retrier s t r) k = if N.eqb k t then Some (r_status r) else rstat s k.
Proof. unfold rstat, put_retrier, set_mgr. cbn [f_mgr]. rewrite aget_aset. destruct (N.eqb k t); reflexivity. Qed.

Lemma rstat_set_c s c k : rstat (set_c s c) k = rstat s k.  Proof. reflexivity. Qed.
Lemma rstat_wr_c s c k : rstat (wr_c s c) k = rstat s k.  Proof. reflexivity. Qed.

Lemma TaskInv_put_not_task s t r :
  TaskInv s -> ~ In t (f_tasks s) -> TaskInv (put_retrier s t r).
Proof.
  intros [A B] Hn. split; [exact A|]. intros k Hk. cbn in Hk. rewrite rstat_put.
  destruct (N.eqb k t) eqn:E; [apply N.eqb_eq in E; subst; contradiction|]. apply B, Hk.
Qed.

Lemma TaskInv_put_same_status s t r r0 :
  TaskInv s -> aget (f_mgr s) t = Some r0 -> r_status r = r_status r0 -> TaskInv (put_retrier s t r).
Proof.
  intros [A B] H0 Hs. split; [exact A|]. intros k Hk. cbn in Hk. rewrite rstat_put.
  destruct (N.eqb k t) eqn:E; [|apply B, Hk]. apply N.eqb_eq in E. subst. rewrite Hs. specialize (B t Hk).
  unfold rstat in B. rewrite H0 in B. exact B.
Qed.

Lemma not_task_if_not_running s t r :
  TaskInv s -> aget (f_mgr s) t = Some r -> r_status r <> RRunning -> ~ In t (f_tasks s).
Proof. intros [_ B] H Hn Hin. specialize (B t Hin). unfold rstat in B. rewrite H in B. cbn in B. congruence. Qed.

Lemma not_task_if_absent s t : TaskInv s -> aget (f_mgr s) t = None -> ~ In t (f_tasks s).
Proof. intros [_ B] H Hin. specialize (B t Hin). unfold rstat in B. rewrite H in B. discriminate. Qed.

Lemma TaskInv_wake s t r : TaskInv s -> aget (f_mgr s) t = Some r -> r_status r = RIdle -> TaskInv (wake s t r).
Proof.
  intros HT H Hi. unfold wake. apply TaskInv_put_not_task.
  - apply (TaskInv_same s); [reflexivity|reflexivity|exact HT].
  - cbn. eapply not_task_if_not_running; eauto. congruence.
Qed.

Lemma TaskInv_add_pending s t locs : TaskInv s -> TaskInv (add_pending_appointments s t locs).
Proof.
  intros HT. unfold add_pending_appointments. destruct (aget (f_mgr s) t) as [r|] eqn:E.
  - eapply TaskInv_put_same_status; eauto.
  - apply TaskInv_put_not_task; [exact HT|]. apply not_task_if_absent; assumption.
Qed.

Lemma TaskInv_start s t r s' :
  TaskInv s -> aget (f_mgr s) t = Some r -> r_status r = RStopped -> retrier_start s t r = (s', None) -> TaskInv s'.
Proof.
  intros HT H Hs. unfold retrier_start.
  assert (Hn : ~ In t (f_tasks s)) by (eapply not_task_if_not_running; eauto; congruence).
  destruct (aget (c_towers (f_c s)) t) as [su|]; [|intros E; inversion E; apply TaskInv_put_not_task; assumption].
  destruct (is_misbehaving (su_status su)); [intros E; inversion E; apply TaskInv_put_not_task; assumption|].
  intros E. inversion E. subst s'. clear E.
  destruct HT as [A B]. split.
  - cbn. apply NoDup_app_iff. split; [exact A|]. split; [constructor; [tauto|constructor]|].
    intros x Hx [<-|[]]. contradiction.
  - intros k Hk. cbn in Hk. unfold rstat. cbn [f_mgr set_tasks put_retrier set_mgr]. rewrite aget_aset.
    destruct (N.eqb k t) eqn:Ek; [reflexivity|]. apply in_app_or in Hk. destruct Hk as [Hk|[<-|[]]].
    + apply (B k Hk).
    + rewrite N.eqb_refl in Ek. discriminate.
Qed.

(* Retrier::start has no panic site left (fixes 29264ec, 9d6311c) *)
Lemma retrier_start_no_abort s t r : snd (retrier_start s t r) = None.
Proof. unfold retrier_start. destruct (aget (c_towers (f_c s)) t) as [su|]; [destruct (is_misbehaving (su_status su))|]; reflexivity. Qed.

Lemma retrier_start_abort_tasks s t r s' site : retrier_start s t r = (s', Some site) -> f_tasks s' = f_tasks s /\ f_mgr s' = f_mgr s.
Proof. intros E. pose proof (retrier_start_no_abort s t r) as H. rewrite E in H. discriminate. Qed.

Lemma TaskInv_sweep elapsed : forall keys s started woke, TaskInv s -> TaskInv (fst (fst (fst (sweep s keys elapsed started woke)))).
Proof.
  induction keys as [|t keys IH]; intros s started woke HT; cbn; [exact HT|].
  destruct (aget (f_mgr s) t) as [r|] eqn:E; [|apply IH, HT].
  destruct (should_start r) eqn:Ess.
  - destruct (retrier_start s t r) as [s1 [site|]] eqn:Es.
    + cbn. destruct (retrier_start_abort_tasks _ _ _ _ _ Es) as [E1 E2].
      apply (TaskInv_same s); [exact E1| |exact HT]. intros k. unfold rstat. rewrite E2. reflexivity.
    + apply IH. eapply TaskInv_start; eauto. unfold should_start in Ess. apply andb_true_iff in Ess.
      destruct Ess as [Ess _]. destruct (r_status r); try discriminate. reflexivity.
  - destruct (is_idle (r_status r) && memN t elapsed) eqn:Ei; [|apply IH, HT].
    apply IH. apply TaskInv_wake; [exact HT|exact E|]. apply andb_true_iff in Ei. destruct Ei as [Ei _].
    destruct (r_status r); try discriminate. reflexivity.
Qed.

Lemma aget_filter_keep {V} (p : N * V -> bool) (m : amap V) t v :
  aget m t = Some v -> p (t, v) = true -> aget (filter p m) t = Some v.
Proof.
  induction m as [|[k w] m IH]; cbn; [discriminate|]. intros H Hp.
  destruct (N.eqb t k) eqn:E.
  - apply N.eqb_eq in E. subst. inversion H. subst. rewrite Hp. cbn. rewrite N.eqb_refl. reflexivity.
  - destruct (p (k, w)); [cbn; rewrite E|]; apply IH; assumption.
Qed.

Lemma aget_filter_Some {V} (p : N * V -> bool) (m : amap V) t v : aget (filter p m) t = Some v -> In (t, v) m /\ p (t, v) = true.
Proof.
  induction m as [|[k w] m IH]; cbn; [discriminate|]. destruct (p (k, w)) eqn:Ep.
  - cbn. destruct (N.eqb t k) eqn:E.
    + apply N.eqb_eq in E. subst. intros H. inversion H. subst. split; [left; reflexivity|exact Ep].
    + intros H. destruct (IH H). split; [right|]; assumption.
  - intros H. destruct (IH H). split; [right|]; assumption.
Qed.

Lemma TaskInv_retain s : TaskInv s -> TaskInv (retain_state s).
Proof.
  intros [A B]. split; [exact A|]. intros k Hk. cbn in Hk. specialize (B k Hk). unfold rstat in *. cbn [f_mgr retain_state set_mgr].
  rewrite aget_aretain. unfold retrier_kept.
  destruct (aget (f_mgr s) k) as [r|] eqn:E; [|discriminate]. cbn in B. inversion B as [Br].
  unfold keep_retrier. rewrite Br. cbn. rewrite orb_true_r. cbn. rewrite Br. reflexivity.
Qed.

Lemma TaskInv_mgr_sweep s elapsed : TaskInv s -> TaskInv (fst (mgr_sweep s elapsed)).
Proof.
  intros HT. unfold mgr_sweep.
  match goal with |- context [if ?b then _ else _] => destruct b end; [exact HT|]. cbv zeta.
  pose proof (TaskInv_retain s HT) as HT1.
  match goal with |- context [if ?b then _ else _] => destruct b end; [exact HT1|].
  pose proof (TaskInv_sweep elapsed (map fst (f_mgr (retain_state s))) (retain_state s) [] [] HT1) as H.
  destruct (sweep (retain_state s) (map fst (f_mgr (retain_state s))) elapsed [] []) as [[[s2 st] wk] [site|]]; exact H.
Qed.

Lemma TaskInv_mgr_receive s t data : TaskInv s -> TaskInv (fst (mgr_receive s t data)).
Proof.
  intros HT. unfold mgr_receive.
  match goal with |- context [if ?b then _ else _] => destruct b end; [exact HT|].
  match goal with |- context [if ?b then _ else _] => destruct b end; [exact HT|].
  destruct (aget (f_mgr s) t) as [r|] eqn:E.
  - destruct (is_idle (r_status r)) eqn:Ei.
    + destruct (rdata_is_none data); cbn [fst]; [|exact HT].
      apply TaskInv_wake; [exact HT|exact E|]. destruct (r_status r); try discriminate. reflexivity.
    + cbn [fst]. apply TaskInv_add_pending. exact HT.
  - cbn [fst]. apply TaskInv_add_pending. exact HT.
Qed.

Lemma TaskInv_manager_tick s elapsed : TaskInv s -> TaskInv (fst (f_manager_tick s elapsed)).
Proof.
  intros HT. unfold f_manager_tick. destruct (f_mgr_dead s); [exact HT|].
  destruct (f_chan s) as [|[t data] rest] eqn:Ec.
  - apply TaskInv_mgr_sweep, HT.
  - apply TaskInv_mgr_receive. exact HT.
Qed.

(* ---- the retry task ---- *)
Lemma retrier_drop_rstat s t l k : rstat (retrier_drop s t l) k = rstat s k.
Proof.
  unfold retrier_drop. destruct (aget (f_mgr s) t) as [r|] eqn:E; [|reflexivity].
  rewrite rstat_put. destruct (N.eqb k t) eqn:Ek; [|reflexivity]. apply N.eqb_eq in Ek. subst. unfold rstat. rewrite E. reflexivity.
Qed.
Lemma retrier_drop_tasks s t l : f_tasks (retrier_drop s t l) = f_tasks s.
Proof. unfold retrier_drop. destruct (aget (f_mgr s) t); reflexivity. Qed.

Definition same_tasks (s s' : fstate) : Prop := f_tasks s' = f_tasks s /\ forall k, rstat s' k = rstat s k.
Lemma same_tasks_refl s : same_tasks s s.  Proof. split; reflexivity. Qed.
Lemma same_tasks_trans a b c : same_tasks a b -> same_tasks b c -> same_tasks a c.
Proof. intros [A1 A2] [B1 B2]. split; [congruence|]. intros k. rewrite B2. apply A2. Qed.
Lemma same_tasks_drop s t l : same_tasks s (retrier_drop s t l).
Proof. split; [apply retrier_drop_tasks|apply retrier_drop_rstat]. Qed.

Lemma st_drop a s t l : same_tasks a s -> same_tasks a (retrier_drop s t l).
Proof. intros H. eapply same_tasks_trans; [exact H|apply same_tasks_drop]. Qed.
Lemma st_wr a s c : same_tasks a s -> same_tasks a (wr_c s c).  Proof. intros H. exact H. Qed.
Lemma st_setc a s c : same_tasks a s -> same_tasks a (set_c s c).  Proof. intros H. exact H. Qed.
Lemma st_log a s r : same_tasks a s -> same_tasks a (log_req s r).  Proof. intros H. exact H. Qed.
Ltac st := repeat first [ apply same_tasks_refl | apply st_wr | apply st_setc | apply st_log | apply st_drop ].

Lemma run_for_same' t : forall locs a s adds, same_tasks a s -> same_tasks a (fst (fst (run_for s t locs adds))).
Proof.
  induction locs as [|l locs IH]; intros a s adds Ha; cbn [run_for]; [exact Ha|].
  destruct (poisoned s); [exact Ha|].
  destruct (load_pending (f_c s) t l) as [body|]; [|apply IH, st_drop, Ha].
  destruct (next_reply adds) as [rp adds'].
  destruct rp; cbn [fst]; try exact Ha.
  - destruct (wt_add_appointment_receipt _ _ _ _ _ _ _) as [c2 r2].
    destruct (lift_site r2); cbn [fst]; [apply st_wr, st_drop, st_log, Ha|].
    destruct (wt_remove_pending_appointment c2 t l) as [c3 r3].
    destruct (lift_site r3); cbn [fst]; [apply st_wr, st_wr, st_drop, st_log, Ha|].
    apply IH. apply st_wr, st_wr, st_drop, st_log, Ha.
  - destruct (wt_add_invalid_appointment _ _ _ _ _) as [c2 r2].
    destruct (lift_site r2); cbn [fst]; [apply st_wr, st_drop, st_log, Ha|].
    destruct (wt_remove_pending_appointment c2 t l) as [c3 r3].
    destruct (lift_site r3); cbn [fst]; [apply st_wr, st_wr, st_drop, st_log, Ha|].
    apply IH. apply st_wr, st_wr, st_drop, st_log, Ha.
Qed.
Lemma run_for_same t locs s adds : same_tasks s (fst (fst (run_for s t locs adds))).
Proof. apply run_for_same', same_tasks_refl. Qed.

Lemma same_tasks_pick_up s t : same_tasks s (pick_up s t).
Proof.
  unfold pick_up. destruct (aget (f_mgr s) t) as [r|] eqn:E; [|apply same_tasks_refl]. split; [reflexivity|].
  intros k. rewrite rstat_put. destruct (N.eqb k t) eqn:Ek; [|reflexivity]. apply N.eqb_eq in Ek. subst. unfold rstat. rewrite E. reflexivity.
Qed.

Lemma run_while_same t hint : forall fuel picked s adds, same_tasks s (fst (run_while fuel picked s t hint adds)).
Proof.
  induction fuel as [|f IH]; intros picked s adds; cbn [run_while]; [apply same_tasks_refl|].
  destruct (retrier_pending s t) as [|x p].
  { destruct picked; [apply same_tasks_refl|]. destruct (poisoned s); [apply same_tasks_refl|].
    destruct (retrier_pending (pick_up s t) t); cbn [fst]; [apply same_tasks_pick_up|].
    eapply same_tasks_trans; [apply same_tasks_pick_up|apply IH]. }
  pose proof (run_for_same t (reorder hint (x :: p)) s adds) as H.
  destruct (run_for s t (reorder hint (x :: p)) adds) as [[s1 adds1] [r|]]; cbn [fst] in *; [exact H|].
  eapply same_tasks_trans; [exact H|apply IH].
Qed.

Lemma run_attempt_same s t a : same_tasks s (fst (run_attempt s t a)).
Proof.
  unfold run_attempt. destruct (poisoned s); [apply same_tasks_refl|].
  destruct (aget (c_towers (f_c s)) t) as [su|]; [|apply same_tasks_refl].
  destruct (is_misbehaving (su_status su)); [apply same_tasks_refl|].
  destruct (is_subscription_error (su_status su)); [|apply run_while_same].
  destruct (at_reg a); try (split; reflexivity).
  destruct (negb sig_ok); [split; reflexivity|].
  destruct (wt_add_update_tower _ _ _ _ _ _ _) as [c' r]. destruct r; try (split; reflexivity).
  eapply same_tasks_trans; [|apply run_while_same]. split; reflexivity.
Qed.

Lemma TaskInv_same_tasks s s' : same_tasks s s' -> TaskInv s -> TaskInv s'.
Proof. intros [A B]. apply TaskInv_same; assumption. Qed.

Lemma rstat_retrier_set_status s t st k :
  rstat (retrier_set_status s t st) k = if N.eqb k t then option_map (fun _ => st) (rstat s t) else rstat s k.
Proof.
  unfold retrier_set_status. destruct (aget (f_mgr s) t) as [r|] eqn:E.
  - rewrite rstat_put. destruct (N.eqb k t); [|reflexivity]. unfold rstat. rewrite E. reflexivity.
  - destruct (N.eqb k t) eqn:Ek; [|reflexivity]. apply N.eqb_eq in Ek. subst. unfold rstat. rewrite E. reflexivity.
Qed.
Lemma rstat_retrier_clear s t k : rstat (retrier_clear s t) k = rstat s k.
Proof.
  unfold retrier_clear. destruct (aget (f_mgr s) t) as [r|] eqn:E; [|reflexivity].
  rewrite rstat_put. destruct (N.eqb k t) eqn:Ek; [|reflexivity]. apply N.eqb_eq in Ek. subst. unfold rstat. rewrite E. reflexivity.
Qed.

Lemma retrier_set_status_tasks s t st : f_tasks (retrier_set_status s t st) = f_tasks s.
Proof. unfold retrier_set_status. destruct (aget (f_mgr s) t); reflexivity. Qed.
Lemma retrier_clear_tasks s t : f_tasks (retrier_clear s t) = f_tasks s.
Proof. unfold retrier_clear. destruct (aget (f_mgr s) t); reflexivity. Qed.

(* ending the task of t: whatever the new status of t's retrier *)
Lemma TaskInv_end_task s s' t :
  TaskInv s -> f_tasks s' = f_tasks s -> (forall k, k <> t -> rstat s' k = rstat s k) -> TaskInv (end_task s' t).
Proof.
  intros [A B] E1 E2. destruct (remove_one_NoDup t (f_tasks s) A) as [N1 N2]. split.
  - cbn. rewrite E1. exact N1.
  - intros k Hk. cbn in Hk. rewrite E1 in Hk.
    assert (k <> t) by (intros ->; contradiction).
    change (rstat (end_task s' t) k) with (rstat s' k). rewrite E2 by assumption. apply B. eapply remove_one_In, Hk.
Qed.

Lemma TaskInv_task_step s t r more : TaskInv s -> TaskInv (fst (task_step s t r more)).
Proof.
  intros HT. unfold task_step. destruct r as [|e|site|].
  - cbn [fst]. apply (TaskInv_end_task s); [exact HT|rewrite retrier_set_status_tasks; reflexivity|].
    intros k Hk. rewrite rstat_retrier_set_status. apply N.eqb_neq in Hk. rewrite Hk. reflexivity.
  - destruct (negb (is_permanent e) && more); [exact HT|].
    set (s1 := if is_permanent e then retrier_set_status s t RFailed else s).
    assert (H1 : f_tasks s1 = f_tasks s /\ forall k, k <> t -> rstat s1 k = rstat s k).
    { unfold s1. destruct (is_permanent e); [|split; reflexivity]. split.
      - apply retrier_set_status_tasks.
      - intros k Hk. rewrite rstat_retrier_set_status. apply N.eqb_neq in Hk. rewrite Hk. reflexivity. }
    destruct H1 as [H1 H2].
    destruct e as [[|]| |l| |]; cbn [fst].
    + apply (TaskInv_end_task s); [exact HT|exact H1|exact H2].
    + apply (TaskInv_end_task s); [exact HT| |].
      * rewrite retrier_clear_tasks, retrier_set_status_tasks. exact H1.
      * intros k Hk. rewrite rstat_retrier_clear, rstat_retrier_set_status. apply N.eqb_neq in Hk. rewrite Hk.
        apply N.eqb_neq in Hk. apply (H2 k Hk).
    + apply (TaskInv_end_task s); [exact HT| |].
      * rewrite retrier_clear_tasks, retrier_set_status_tasks. exact H1.
      * intros k Hk. rewrite rstat_retrier_clear, rstat_retrier_set_status. apply N.eqb_neq in Hk. rewrite Hk.
        apply N.eqb_neq in Hk. apply (H2 k Hk).
    + destruct (wt_flag_misbehaving_tower _ _ _ _ _ _ _) as [c2 r2]. destruct (lift_site r2); cbn [fst];
        (apply (TaskInv_end_task s); [exact HT|exact H1|exact H2]).
    + apply (TaskInv_end_task s); [exact HT|exact H1|exact H2].
    + apply (TaskInv_end_task s); [exact HT|exact H1|exact H2].
  - cbn [fst]. apply (TaskInv_end_task s); [exact HT|reflexivity|reflexivity].
  - exact HT.
Qed.

Lemma TaskInv_retrier_run t : forall atts s, TaskInv s -> TaskInv (fst (f_retrier_run s t atts)).
Proof.
  induction atts as [|a atts IH]; intros s HT; cbn [f_retrier_run]; [exact HT|].
  destruct (negb (memN t (f_tasks s))); [exact HT|].
  pose proof (run_attempt_same s t a) as Hs. destruct (run_attempt s t a) as [s1 r]. cbn [fst] in Hs.
  pose proof (TaskInv_task_step s1 t r (at_more a) (TaskInv_same_tasks _ _ Hs HT)) as H2.
  destruct (task_step s1 t r (at_more a)) as [s2 o]. cbn [fst] in H2.
  destruct o; try exact H2. destruct atts; [exact H2|]. apply IH. exact H2.
Qed.

Lemma TaskInv_restart s d : TaskInv (restart_with s d).
Proof. split; [constructor|]. intros t []. Qed.

Lemma TaskInv_init : TaskInv f_init.
Proof. split; [constructor|]. intros t []. Qed.

Lemma TaskInv_fstep s o : TaskInv s -> TaskInv (fst (fstep s o)).
Proof.
  intros HT. destruct o; cbn [fstep].
  - destruct (f_register_mgr s t t rp) as [A B]. apply (TaskInv_same s); [exact A| |exact HT]. intros k. unfold rstat. rewrite B. reflexivity.
  - destruct (f_revocation_mgr s l order replies) as [A B]. apply (TaskInv_same s); [exact A| |exact HT]. intros k. unfold rstat. rewrite B. reflexivity.
  - apply TaskInv_manager_tick, HT.
  - pose proof (TaskInv_retrier_run t atts s HT) as H. destruct (f_retrier_run s t atts). exact H.
  - destruct (f_manual_retry_mgr s t) as [A B]. apply (TaskInv_same s); [exact A| |exact HT]. intros k. unfold rstat. rewrite B. reflexivity.
  - destruct (f_abandon_mgr s t) as [A B]. apply (TaskInv_same s); [exact A| |exact HT]. intros k. unfold rstat. rewrite B. reflexivity.
  - apply TaskInv_restart.
Qed.

Lemma TaskInv_frun ops : forall s, TaskInv s -> TaskInv (frun s ops).
Proof. induction ops as [|o ops IH]; intros s HT; cbn; [exact HT|]. apply IH, TaskInv_fstep, HT. Qed.

(* C13 single_retrier *)
Theorem single_retrier ops :
  let s := frun f_init ops in
  NoDup (f_tasks s) /\ (forall t, In t (f_tasks s) -> rstat s t = Some RRunning).
Proof. exact (TaskInv_frun ops f_init TaskInv_init). Qed.

(* ... and the manager only ever starts a retrier that is Stopped: every tower `started` by a sweep had a Stopped
   retrier (with data) in the state the sweep ran on, and no live task *)
Lemma sweep_started_stopped elapsed : forall keys s started woke s' started' woke' o,
  sweep s keys elapsed started woke = (s', started', woke', o) ->
  (forall t, In t started -> In t keys -> False) -> NoDup keys ->
  forall t, In t started' -> In t started \/ (In t keys /\ exists r, aget (f_mgr s) t = Some r /\ should_start r = true).
Proof.
  induction keys as [|k keys IH]; intros s started woke s' started' woke' o H Hd Hn t Ht; cbn in H.
  - inversion H. subst. left. exact Ht.
  - inversion Hn as [|? ? Hk Hn']. subst.
    assert (Hother : forall s1 r1, (forall x, x <> k -> aget (f_mgr s1) x = aget (f_mgr s) x) ->
              forall started1 woke1, sweep s1 keys elapsed started1 woke1 = (s', started', woke', o) ->
              (forall x, In x started1 -> In x started \/ (x = k /\ aget (f_mgr s) k = Some r1 /\ should_start r1 = true)) ->
              In t started \/ (In t (k :: keys) /\ exists r, aget (f_mgr s) t = Some r /\ should_start r = true)).
    { intros s1 r1 Hsame started1 woke1 Hsw Hst.
      assert (Hd1 : forall x, In x started1 -> In x keys -> False).
      { intros x Hx Hxk. destruct (Hst x Hx) as [Hx'|[-> _]]; [apply (Hd x Hx'); right; exact Hxk|contradiction]. }
      destruct (IH s1 started1 woke1 s' started' woke' o Hsw Hd1 Hn' t Ht) as [Hin|[Hin [r [Hr Hss]]]].
      - destruct (Hst t Hin) as [Hx|[-> [Hr Hss]]]; [left; exact Hx|]. right. split; [left; reflexivity|]. exists r1. split; assumption.
      - right. split; [right; exact Hin|]. exists r. split; [|exact Hss]. rewrite <- Hsame; [exact Hr|]. intros ->. contradiction. }
    destruct (aget (f_mgr s) k) as [r|] eqn:E.
    + destruct (should_start r) eqn:Ess.
      * destruct (retrier_start s k r) as [s1 [site|]] eqn:Es.
        -- inversion H. subst. left. exact Ht.
        -- eapply (Hother s1 r); [|exact H|].
           ++ intros x Hx. unfold retrier_start in Es.
              destruct (aget (c_towers (f_c s)) k) as [su|]; [destruct (is_misbehaving (su_status su))|];
                inversion Es; cbn; apply aget_aset_other; exact Hx.
           ++ intros x Hx. apply in_app_or in Hx. destruct Hx as [Hx|[<-|[]]]; [left; exact Hx|]. right. repeat split; assumption.
      * destruct (is_idle (r_status r) && memN k elapsed).
        -- eapply (Hother (wake s k r) r); [|exact H|intros x Hx; left; exact Hx].
           intros x Hx. unfold wake. cbn. apply aget_aset_other. exact Hx.
        -- eapply (Hother s r); [reflexivity|exact H|intros x Hx; left; exact Hx].
    + eapply (Hother s (mk_retrier RStopped [])); [reflexivity|exact H|intros x Hx; left; exact Hx].
Qed.

(* ====================================================================== *)
(* C13 manual_retry_gate                                                  *)
(* ====================================================================== *)
(* retrytower is accepted exactly when the mutex is healthy, the tower is known and either its retrier is idle
   or it has no retrier (in WTClient::retriers) and its status is unreachable / subscription error *)
Definition retry_allowed (s : fstate) (t : N) : bool :=
  negb (poisoned s) &&
  match aget (c_towers (f_c s)) t with
  | None => false
  | Some su => match aget (c_retriers (f_c s)) t with
               | Some st => is_idle st
               | None => is_retryable (su_status su)
               end
  end.

Theorem manual_retry_gate s t :
  (snd (f_manual_retry s t) = OOk <-> retry_allowed s t = true) /\
  (retry_allowed s t = false -> fst (f_manual_retry s t) = s) /\
  (retry_allowed s t = true -> exists d, fst (f_manual_retry s t) = push_chan s t d /\
     (d = DNone \/ exists su, aget (c_towers (f_c s)) t = Some su /\ d = DStale (su_pending su))).
Proof.
  unfold f_manual_retry, retry_allowed. destruct (poisoned s); cbn [negb andb].
  - repeat split; try discriminate; intros; discriminate.
  - destruct (aget (c_towers (f_c s)) t) as [su|]; [|repeat split; try discriminate; intros; discriminate].
    destruct (aget (c_retriers (f_c s)) t) as [st|].
    + destruct (is_idle st); cbn; repeat split; try discriminate; try reflexivity; intros _.
      exists DNone. split; [reflexivity|left; reflexivity].
    + destruct (is_retryable (su_status su)); cbn; repeat split; try discriminate; try reflexivity; intros _.
      exists (DStale (su_pending su)). split; [reflexivity|]. right. exists su. split; reflexivity.
Qed.

(* WTClient::retriers mirrors the manager: a Running retrier of the manager is Running there, an Idle one Idle;
   an entry that is Idle there is an Idle retrier of the manager *)
Definition SyncInv (s : fstate) : Prop :=
  (forall t, rstat s t = Some RRunning -> aget (c_retriers (f_c s)) t = Some RRunning) /\
  (forall t, rstat s t = Some RIdle <-> aget (c_retriers (f_c s)) t = Some RIdle) /\
  (forall t, aget (c_retriers (f_c s)) t = Some RStopped \/ aget (c_retriers (f_c s)) t = Some RFailed -> False).

(* ====================================================================== *)
(* the three records of C05 as predicates on the raw tables               *)
(* ====================================================================== *)
Definition Rrow (d : db) (t l : N) : Prop :=
  exists r, In r (tbl d T_appointment_receipts) /\ col r C_appointment_receipts_locator = l /\ col r C_appointment_receipts_tower_id = t.
Definition Prow (d : db) (t l : N) : Prop :=
  exists r, In r (tbl d T_pending_appointments) /\ col r C_pending_appointments_locator = l /\ col r C_pending_appointments_tower_id = t.
Definition Irow (d : db) (t l : N) : Prop :=
  exists r, In r (tbl d T_invalid_appointments) /\ col r C_invalid_appointments_locator = l /\ col r C_invalid_appointments_tower_id = t.
Definition Mrow (d : db) (t : N) : Prop :=
  exists r, In r (tbl d T_misbehaving_proofs) /\ col r C_misbehaving_proofs_tower_id = t.
Definition Trow (d : db) (t : N) : Prop :=
  exists r, In r (tbl d T_towers) /\ col r C_towers_tower_id = t.

Lemma has_receipt_row_iff d t l : has_receipt_row d t l = true <-> Rrow d t l.
Proof.
  unfold has_receipt_row, Rrow. rewrite has_pk_true. cbn [ts_pk tsch CS client_schema nth T_appointment_receipts].
  split; intros [r [A B]]; exists r; (split; [exact A|]).
  - rewrite proj2_col in B. inversion B. split; reflexivity.
  - rewrite proj2_col. destruct B as [<- <-]. reflexivity.
Qed.
Lemma has_pending_row_iff d t l : has_pending_row d t l = true <-> Prow d t l.
Proof.
  unfold has_pending_row, Prow. rewrite has_pk_true. cbn [ts_pk tsch CS client_schema nth T_pending_appointments].
  split; intros [r [A B]]; exists r; (split; [exact A|]).
  - rewrite proj2_col in B. inversion B. split; reflexivity.
  - rewrite proj2_col. destruct B as [<- <-]. reflexivity.
Qed.
Lemma has_invalid_row_iff d t l : has_invalid_row d t l = true <-> Irow d t l.
Proof.
  unfold has_invalid_row, Irow. rewrite has_pk_true. cbn [ts_pk tsch CS client_schema nth T_invalid_appointments].
  split; intros [r [A B]]; exists r; (split; [exact A|]).
  - rewrite proj2_col in B. inversion B. split; reflexivity.
  - rewrite proj2_col. destruct B as [<- <-]. reflexivity.
Qed.
Lemma proof_iff d t : exists_misbehaving_proof d t = true <-> Mrow d t.
Proof.
  unfold exists_misbehaving_proof, Mrow. rewrite has_pk_true. cbn [ts_pk tsch CS client_schema nth T_misbehaving_proofs].
  split; intros [r [A B]]; exists r; (split; [exact A|]).
  - rewrite proj1_col in B. inversion B. reflexivity.
  - rewrite proj1_col. rewrite <- B. reflexivity.
Qed.
Lemma tower_row_iff d t : tower_row d t = true <-> Trow d t.
Proof.
  unfold tower_row, Trow. rewrite has_pk_true. cbn [ts_pk tsch CS client_schema nth T_towers].
  split; intros [r [A B]]; exists r; (split; [exact A|]).
  - rewrite proj1_col in B. inversion B. reflexivity.
  - rewrite proj1_col. rewrite <- B. reflexivity.
Qed.
Lemma is_pending_row_iff d t l : is_pending_row d t l = true <-> Prow d t l.
Proof. apply has_pending_row_iff. Qed.

(* each predicate reads one table *)
Lemma Rrow_ext d d' t l : tbl d' T_appointment_receipts = tbl d T_appointment_receipts -> (Rrow d' t l <-> Rrow d t l).
Proof. unfold Rrow. intros ->. tauto. Qed.
Lemma Prow_ext d d' t l : tbl d' T_pending_appointments = tbl d T_pending_appointments -> (Prow d' t l <-> Prow d t l).
Proof. unfold Prow. intros ->. tauto. Qed.
Lemma Irow_ext d d' t l : tbl d' T_invalid_appointments = tbl d T_invalid_appointments -> (Irow d' t l <-> Irow d t l).
Proof. unfold Irow. intros ->. tauto. Qed.
Lemma Mrow_ext d d' t : tbl d' T_misbehaving_proofs = tbl d T_misbehaving_proofs -> (Mrow d' t <-> Mrow d t).
Proof. unfold Mrow. intros ->. tauto. Qed.
Lemma Trow_ext d d' t : tbl d' T_towers = tbl d T_towers -> (Trow d' t <-> Trow d t).
Proof. unfold Trow. intros ->. tauto. Qed.

Lemma Rrow_app d d' t0 l0 sb u g t l :
  tbl d' T_appointment_receipts = tbl d T_appointment_receipts ++ [[l0; t0; sb; u; g]] ->
  (Rrow d' t l <-> Rrow d t l \/ (t = t0 /\ l = l0)).
Proof.
  unfold Rrow. intros ->. split.
  - intros [r [A [B C]]]. apply in_app_or in A. destruct A as [A|[<-|[]]]; [left; exists r; auto|right]. cbn in *. split; congruence.
  - intros [[r [A [B C]]]|[-> ->]]; [exists r; split; [apply in_or_app; left; exact A|auto]|].
    exists [l0; t0; sb; u; g]. split; [apply in_or_app; right; left; reflexivity|split; reflexivity].
Qed.
Lemma Prow_app d d' t0 l0 t l :
  tbl d' T_pending_appointments = tbl d T_pending_appointments ++ [[l0; t0]] ->
  (Prow d' t l <-> Prow d t l \/ (t = t0 /\ l = l0)).
Proof.
  unfold Prow. intros ->. split.
  - intros [r [A [B C]]]. apply in_app_or in A. destruct A as [A|[<-|[]]]; [left; exists r; auto|right]. cbn in *. split; congruence.
  - intros [[r [A [B C]]]|[-> ->]]; [exists r; split; [apply in_or_app; left; exact A|auto]|].
    exists [l0; t0]. split; [apply in_or_app; right; left; reflexivity|split; reflexivity].
Qed.
Lemma Irow_app d d' t0 l0 t l :
  tbl d' T_invalid_appointments = tbl d T_invalid_appointments ++ [[l0; t0]] ->
  (Irow d' t l <-> Irow d t l \/ (t = t0 /\ l = l0)).
Proof.
  unfold Irow. intros ->. split.
  - intros [r [A [B C]]]. apply in_app_or in A. destruct A as [A|[<-|[]]]; [left; exists r; auto|right]. cbn in *. split; congruence.
  - intros [[r [A [B C]]]|[-> ->]]; [exists r; split; [apply in_or_app; left; exact A|auto]|].
    exists [l0; t0]. split; [apply in_or_app; right; left; reflexivity|split; reflexivity].
Qed.
Lemma Mrow_app d d' t0 l0 rc t :
  tbl d' T_misbehaving_proofs = tbl d T_misbehaving_proofs ++ [[t0; l0; rc]] -> (Mrow d' t <-> Mrow d t \/ t = t0).
Proof.
  unfold Mrow. intros ->. split.
  - intros [r [A B]]. apply in_app_or in A. destruct A as [A|[<-|[]]]; [left; exists r; auto|right]. cbn in *. congruence.
  - intros [[r [A B]]| ->]; [exists r; split; [apply in_or_app; left; exact A|auto]|].
    exists [t0; l0; rc]. split; [apply in_or_app; right; left; reflexivity|reflexivity].
Qed.

(* the exact effect of the store statements on the tables (beyond ClientProofs' *_spec) *)
Lemma store_receipt_rows d t l slots sb u g d' :
  dbm_store_appointment_receipt d t l slots sb u g = DbOk d' ->
  tbl d' T_appointment_receipts = tbl d T_appointment_receipts ++ [[l; t; sb; u; g]].
Proof.
  unfold dbm_store_appointment_receipt. rewrite receipt_row_eq.
  destruct (db_insert CS d T_appointment_receipts [l; t; sb; u; g]) as [d1|] eqn:E1; [|discriminate]. intros H.
  pose proof (tbl_insert CS d _ _ d1 E1) as [T1 _]. pose proof (tbl_update CS d1 _ _ _ _ d' H) as [O2 _].
  rewrite O2 by discriminate. exact T1.
Qed.
Lemma store_proof_rows d t l sb u g rc d' :
  dbm_store_misbehaving_proof d t l sb u g rc = DbOk d' ->
  tbl d' T_appointment_receipts = tbl d T_appointment_receipts ++ [[l; t; sb; u; g]] /\
  tbl d' T_misbehaving_proofs = tbl d T_misbehaving_proofs ++ [[t; l; rc]].
Proof.
  unfold dbm_store_misbehaving_proof, proof_row. rewrite receipt_row_eq, mkrow_proof.
  destruct (db_insert CS d T_appointment_receipts [l; t; sb; u; g]) as [d1|] eqn:E1; [|discriminate]. intros H.
  pose proof (tbl_insert CS d _ _ d1 E1) as [T1 [O1 _]]. pose proof (tbl_insert CS d1 _ _ d' H) as [T2 [O2 _]].
  split; [rewrite O2 by discriminate; exact T1|]. rewrite T2, O1 by discriminate. reflexivity.
Qed.

(* store_misbehaving_proof_over_receipt: the receipt of (tower, locator) keeps its key, the proof row is appended *)
Definition upd_receipt (t l sb u g : N) (r : row) : row :=
  if key_eqb (proj r (ts_pk (tsch CS T_appointment_receipts))) [l; t]
  then apply_sets r [(C_appointment_receipts_start_block, sb); (C_appointment_receipts_user_signature, u);
                     (C_appointment_receipts_tower_signature, g)] else r.

Lemma upd_receipt_key t l sb u g r :
  col (upd_receipt t l sb u g r) C_appointment_receipts_locator = col r C_appointment_receipts_locator /\
  col (upd_receipt t l sb u g r) C_appointment_receipts_tower_id = col r C_appointment_receipts_tower_id.
Proof.
  unfold upd_receipt. destruct (key_eqb _ _); [|split; reflexivity]. cbn. unfold col.
  split; repeat rewrite nth_set_col by discriminate; reflexivity.
Qed.

Lemma store_proof_over_receipt_rows d t l sb u g rc d' :
  length d = 8%nat -> dbm_store_misbehaving_proof_over_receipt d t l sb u g rc = DbOk d' ->
  tbl d' T_appointment_receipts = map (upd_receipt t l sb u g) (tbl d T_appointment_receipts) /\
  tbl d' T_misbehaving_proofs = tbl d T_misbehaving_proofs ++ [[t; l; rc]].
Proof.
  intros L. unfold dbm_store_misbehaving_proof_over_receipt, proof_row. rewrite mkrow_proof.
  destruct (db_update CS d T_appointment_receipts [l; t] _ false) as [d1|] eqn:E1; [|discriminate]. intros H.
  pose proof (tbl_update CS d _ _ _ _ d1 E1) as [O1 [_ T1]]. pose proof (tbl_insert CS d1 _ _ d' H) as [T2 [O2 _]].
  split; [rewrite O2 by discriminate; apply T1; rewrite L; unfold T_appointment_receipts; lia|].
  rewrite T2, O1 by discriminate. reflexivity.
Qed.

Lemma Rrow_map d d' f t l :
  tbl d' T_appointment_receipts = map f (tbl d T_appointment_receipts) ->
  (forall r, col (f r) C_appointment_receipts_locator = col r C_appointment_receipts_locator /\
             col (f r) C_appointment_receipts_tower_id = col r C_appointment_receipts_tower_id) ->
  (Rrow d' t l <-> Rrow d t l).
Proof.
  unfold Rrow. intros -> Hf. split.
  - intros [r [A [B C]]]. apply in_map_iff in A. destruct A as [r0 [<- A]]. destruct (Hf r0) as [F1 F2].
    exists r0. split; [exact A|]. split; congruence.
  - intros [r [A [B C]]]. destruct (Hf r) as [F1 F2]. exists (f r). split; [apply in_map; exact A|]. split; congruence.
Qed.

(* what flag_misbehaving_tower's store (fix d35e2bc) does to the tables, whichever of its three branches runs *)
Lemma flag_store_rows d t l sb u g rc d' :
  DbInv d -> flag_store d t l sb u g rc = DbOk d' ->
  Mrow d' t /\ (forall k, Mrow d' k <-> Mrow d k \/ k = t) /\
  (forall k x, Rrow d' k x <-> Rrow d k x \/ (k = t /\ x = l /\ ~ Mrow d t)) /\
  (forall tb, tb <> T_misbehaving_proofs -> tb <> T_appointment_receipts -> tbl d' tb = tbl d tb).
Proof.
  intros HD. unfold flag_store. destruct (exists_misbehaving_proof d t) eqn:Em.
  - intros H. inversion H. subst d'. apply proof_iff in Em. split; [exact Em|]. split; [|split; [|reflexivity]].
    + intros k. split; [tauto|]. intros [H0| ->]; assumption.
    + intros k x. split; [tauto|]. intros [H0|[_ [_ H0]]]; [exact H0|contradiction].
  - assert (Hn : ~ Mrow d t) by (intros H; apply proof_iff in H; congruence).
    destruct (dbm_load_appointment_receipt d t l) as [rc0|] eqn:El; intros H.
    + destruct (store_proof_over_receipt_spec _ _ _ _ _ _ _ _ HD H) as [_ Hfr].
      destruct HD as [_ [_ [L _]]].
      destruct (store_proof_over_receipt_rows _ _ _ _ _ _ _ _ L H) as [T5 T6].
      assert (HR : Rrow d t l).
      { unfold dbm_load_appointment_receipt in El. apply find_pk_Some in El. destruct El as [A B].
        cbn in B. exists rc0. split; [exact A|]. inversion B. split; reflexivity. }
      split; [apply (proj2 (Mrow_app _ _ _ _ _ t T6)); right; reflexivity|]. split; [intros k; apply (Mrow_app _ _ _ _ _ k T6)|].
      split; [|exact Hfr]. intros k x. rewrite (Rrow_map _ _ _ k x T5 (upd_receipt_key t l sb u g)).
      split; [tauto|]. intros [H0|[-> [-> _]]]; assumption.
    + destruct (store_proof_spec _ _ _ _ _ _ _ _ HD H) as [_ Hfr].
      destruct (store_proof_rows _ _ _ _ _ _ _ _ H) as [T5 T6].
      split; [apply (proj2 (Mrow_app _ _ _ _ _ t T6)); right; reflexivity|]. split; [intros k; apply (Mrow_app _ _ _ _ _ k T6)|].
      split; [|exact Hfr]. intros k x. rewrite (Rrow_app _ _ _ _ _ _ _ k x T5). split; [|tauto].
      intros [H0|[-> ->]]; [left; exact H0|right; auto].
Qed.

Lemma Trow_map d d' f t :
  tbl d' T_towers = map f (tbl d T_towers) -> (forall r, col (f r) C_towers_tower_id = col r C_towers_tower_id) ->
  (Trow d' t <-> Trow d t).
Proof.
  unfold Trow. intros -> Hf. split.
  - intros [r [A B]]. apply in_map_iff in A. destruct A as [r0 [<- A]]. exists r0. split; [exact A|]. rewrite <- Hf. exact B.
  - intros [r [A B]]. exists (f r). split; [apply in_map; exact A|]. rewrite Hf. exact B.
Qed.

(* ====================================================================== *)
(* the primitives of Client.v as seen by the flow proofs                   *)
(* ====================================================================== *)
Definition stat (c : client) (k : N) : option tower_status := option_map su_status (aget (c_towers c) k).
Definition knownc (c : client) (k : N) : Prop := amem (c_towers c) k = true.

Lemma stat_known c c' : (forall k, stat c' k = stat c k) -> forall k, amem (c_towers c') k = amem (c_towers c) k.
Proof.
  intros H k. specialize (H k). unfold stat, amem in *.
  destruct (aget (c_towers c') k), (aget (c_towers c) k); cbn in H; congruence.
Qed.

Lemma stat_aset_same_status c t su su' k :
  aget (c_towers c) t = Some su -> su_status su' = su_status su ->
  option_map su_status (aget (aset (c_towers c) t su') k) = stat c k.
Proof.
  intros H E. unfold stat. rewrite aget_aset. destruct (N.eqb k t) eqn:Ek; [|reflexivity].
  apply N.eqb_eq in Ek. subst. rewrite H. cbn. congruence.
Qed.

(* the shape every primitive result has: either the database is untouched (skipped, or the transaction failed
   and the mutex is poisoned), or the write happened and the mutex is healthy *)
Definition healthy_or_abort (c' : client) (r : cres) : Prop := c_poisoned c' = if is_abort r then true else false.

Lemma prim_add_receipt c t l slots sb u g c' r :
  Inv c -> c_poisoned c = false -> wt_add_appointment_receipt c t l slots sb u g = (c', r) ->
  Inv c' /\ c_retriers c' = c_retriers c /\ (forall k, stat c' k = stat c k) /\ healthy_or_abort c' r /\
  (c_db c' = c_db c \/
   (r = ROk /\ c_poisoned c' = false /\ knownc c t /\ ~ Rrow (c_db c) t l /\
    tbl (c_db c') T_appointment_receipts = tbl (c_db c) T_appointment_receipts ++ [[l; t; sb; u; g]] /\
    tbl (c_db c') T_towers = map (upd_slots t slots) (tbl (c_db c) T_towers) /\
    (forall tb, tb <> T_towers -> tb <> T_appointment_receipts -> tbl (c_db c') tb = tbl (c_db c) tb))) /\
  (r = ROk -> knownc c t -> Rrow (c_db c') t l).
Proof.
  intros HI Hp E. pose proof (Inv_add_receipt c t l slots sb u g HI Hp) as HI'. rewrite E in HI'. cbn [fst] in HI'.
  split; [exact HI'|]. revert E. unfold wt_add_appointment_receipt.
  destruct (aget (c_towers c) t) as [su|] eqn:Et.
  2:{ intros E. inversion E. subst. unfold healthy_or_abort; cbn [is_abort]. repeat split; auto; try (left; assumption). intros _ Hk. unfold knownc, amem in Hk. rewrite Et in Hk. discriminate. }
  destruct (dbm_load_appointment_receipt (c_db c) t l) as [rc|] eqn:El.
  { intros E. inversion E. subst. unfold healthy_or_abort; cbn [is_abort]. repeat split; auto; try (left; assumption). intros _ _.
    unfold dbm_load_appointment_receipt in El. apply find_pk_Some in El. destruct El as [A B].
    cbn in B. exists rc. split; [exact A|]. inversion B. split; reflexivity. }
  destruct (dbm_store_appointment_receipt (c_db c) t l slots sb u g) as [d'|e] eqn:Es; intros E; inversion E; subst; clear E.
  - cbn [c_retriers c_db c_towers c_poisoned with_db with_towers]. split; [reflexivity|]. split.
    { intros k. unfold stat. cbn [c_towers with_db with_towers]. eapply stat_aset_same_status; [exact Et|reflexivity]. }
    split; [exact Hp|].
    destruct (store_receipt_spec _ _ _ _ _ _ _ _ (proj1 HI) Es) as [_ [T0 Hfr]].
    pose proof (store_receipt_rows _ _ _ _ _ _ _ _ Es) as T5.
    split.
    + right. repeat split; auto.
      * unfold knownc, amem. rewrite Et. reflexivity.
      * intros [rc [A [B C]]]. unfold dbm_load_appointment_receipt in El.
        apply (proj1 (find_pk_None (c_db c) T_appointment_receipts [l; t]) El rc A). rewrite <- B, <- C. reflexivity.
    + intros _ _. apply (proj2 (Rrow_app _ _ _ _ _ _ _ t l T5)). right. split; reflexivity.
  - cbn [c_retriers c_db c_towers c_poisoned poison with_towers]. split; [reflexivity|]. split.
    { intros k. unfold stat. cbn [c_towers poison with_towers]. eapply stat_aset_same_status; [exact Et|reflexivity]. }
    split; [reflexivity|]. split; [left; reflexivity|discriminate].
Qed.

Lemma prim_add_pending c t l b dl c' r :
  Inv c -> c_poisoned c = false -> wt_add_pending_appointment c t l b dl = (c', r) ->
  Inv c' /\ c_retriers c' = c_retriers c /\ (forall k, stat c' k = stat c k) /\ healthy_or_abort c' r /\
  (c_db c' = c_db c \/
   (r = ROk /\ c_poisoned c' = false /\ knownc c t /\
    tbl (c_db c') T_pending_appointments = tbl (c_db c) T_pending_appointments ++ [[l; t]] /\
    (forall tb, tb <> T_pending_appointments -> tb <> T_appointments -> tbl (c_db c') tb = tbl (c_db c) tb))) /\
  (r = ROk -> knownc c t -> Prow (c_db c') t l).
Proof.
  intros HI Hp E. pose proof (Inv_add_pending c t l b dl HI Hp) as HI'. rewrite E in HI'. cbn [fst] in HI'.
  split; [exact HI'|]. revert E. unfold wt_add_pending_appointment.
  destruct (aget (c_towers c) t) as [su|] eqn:Et.
  2:{ intros E. inversion E. subst. unfold healthy_or_abort; cbn [is_abort]. repeat split; auto; try (left; assumption). intros _ Hk. unfold knownc, amem in Hk. rewrite Et in Hk. discriminate. }
  destruct (memN l (su_pending su)) eqn:Em.
  { intros E. inversion E. subst. unfold healthy_or_abort; cbn [is_abort]. repeat split; auto; try (left; assumption). intros _ _.
    destruct HI as [HD HM]. destruct (proj1 (HM Hp) t su Et) as [tr [rr [_ [_ [_ [_ [_ [_ [C5 _]]]]]]]]].
    apply memN_In in Em. apply C5 in Em. apply In_pending_locators in Em. destruct Em as [row [A [B C]]].
    exists row. repeat split; assumption. }
  destruct (dbm_store_pending_appointment (c_db c) t l b dl) as [d'|e] eqn:Es; intros E; inversion E; subst; clear E.
  - cbn [c_retriers c_db c_towers c_poisoned with_db with_towers]. split; [reflexivity|]. split.
    { intros k. unfold stat. cbn [c_towers with_db with_towers]. eapply stat_aset_same_status; [exact Et|reflexivity]. }
    split; [exact Hp|].
    destruct (store_pending_spec _ _ _ _ _ _ (proj1 HI) Es) as [_ [T2 Hfr]].
    split.
    + right. repeat split; auto. unfold knownc, amem. rewrite Et. reflexivity.
    + intros _ _. apply (proj2 (Prow_app _ _ _ _ t l T2)). right. split; reflexivity.
  - cbn [c_retriers c_db c_towers c_poisoned poison with_towers]. split; [reflexivity|]. split.
    { intros k. unfold stat. cbn [c_towers poison with_towers]. eapply stat_aset_same_status; [exact Et|reflexivity]. }
    split; [reflexivity|]. split; [left; reflexivity|discriminate].
Qed.

Lemma prim_add_invalid c t l b dl c' r :
  Inv c -> c_poisoned c = false -> wt_add_invalid_appointment c t l b dl = (c', r) ->
  Inv c' /\ c_retriers c' = c_retriers c /\ (forall k, stat c' k = stat c k) /\ healthy_or_abort c' r /\
  (c_db c' = c_db c \/
   (r = ROk /\ c_poisoned c' = false /\ knownc c t /\
    tbl (c_db c') T_invalid_appointments = tbl (c_db c) T_invalid_appointments ++ [[l; t]] /\
    (forall tb, tb <> T_invalid_appointments -> tb <> T_appointments -> tbl (c_db c') tb = tbl (c_db c) tb))) /\
  (r = ROk -> knownc c t -> Irow (c_db c') t l).
Proof.
  intros HI Hp E. pose proof (Inv_add_invalid c t l b dl HI Hp) as HI'. rewrite E in HI'. cbn [fst] in HI'.
  split; [exact HI'|]. revert E. unfold wt_add_invalid_appointment.
  destruct (aget (c_towers c) t) as [su|] eqn:Et.
  2:{ intros E. inversion E. subst. unfold healthy_or_abort; cbn [is_abort]. repeat split; auto; try (left; assumption). intros _ Hk. unfold knownc, amem in Hk. rewrite Et in Hk. discriminate. }
  destruct (memN l (su_invalid su)) eqn:Em.
  { intros E. inversion E. subst. unfold healthy_or_abort; cbn [is_abort]. repeat split; auto; try (left; assumption). intros _ _.
    destruct HI as [HD HM]. destruct (proj1 (HM Hp) t su Et) as [tr [rr [_ [_ [_ [_ [_ [_ [_ C6]]]]]]]]].
    apply memN_In in Em. apply C6 in Em. apply In_invalid_locators in Em. destruct Em as [row [A [B C]]].
    exists row. repeat split; assumption. }
  destruct (dbm_store_invalid_appointment (c_db c) t l b dl) as [d'|e] eqn:Es; intros E; inversion E; subst; clear E.
  - cbn [c_retriers c_db c_towers c_poisoned with_db with_towers]. split; [reflexivity|]. split.
    { intros k. unfold stat. cbn [c_towers with_db with_towers]. eapply stat_aset_same_status; [exact Et|reflexivity]. }
    split; [exact Hp|].
    destruct (store_invalid_spec _ _ _ _ _ _ (proj1 HI) Es) as [_ [T2 Hfr]].
    split.
    + right. repeat split; auto. unfold knownc, amem. rewrite Et. reflexivity.
    + intros _ _. apply (proj2 (Irow_app _ _ _ _ t l T2)). right. split; reflexivity.
  - cbn [c_retriers c_db c_towers c_poisoned poison with_towers]. split; [reflexivity|]. split.
    { intros k. unfold stat. cbn [c_towers poison with_towers]. eapply stat_aset_same_status; [exact Et|reflexivity]. }
    split; [reflexivity|]. split; [left; reflexivity|discriminate].
Qed.

(* remove_pending_appointment of a pending row: never aborts *)
Lemma delete_pending_total d t l : exists d', dbm_delete_pending_appointment d t l = DbOk d'.
Proof.
  unfold dbm_delete_pending_appointment, db_delete. cbn [andb]. destruct (Nat.eqb (ref_count d l) 1); apply delete_root_total.
Qed.

Lemma prim_remove_pending c t l c' r :
  Inv c -> c_poisoned c = false -> knownc c t -> Prow (c_db c) t l -> wt_remove_pending_appointment c t l = (c', r) ->
  Inv c' /\ c_retriers c' = c_retriers c /\ (forall k, stat c' k = stat c k) /\ r = ROk /\ c_poisoned c' = false /\
  (forall x, In x (tbl (c_db c') T_pending_appointments) <->
             In x (tbl (c_db c) T_pending_appointments) /\ proj x [C_pending_appointments_locator; C_pending_appointments_tower_id] <> [l; t]) /\
  (forall tb, tb <> T_pending_appointments -> tb <> T_appointments -> tbl (c_db c') tb = tbl (c_db c) tb).
Proof.
  intros HI Hp Hk Hrow E.
  assert (Hheld : held_op c (SRemovePending t l) = true).
  { cbn. unfold knownc, amem in Hk. destruct (aget (c_towers c) t); [|discriminate]. apply is_pending_row_iff. exact Hrow. }
  pose proof (Inv_remove_pending c t l HI Hp Hheld) as HI'. rewrite E in HI'. cbn [fst] in HI'.
  split; [exact HI'|]. revert E. unfold wt_remove_pending_appointment.
  unfold knownc, amem in Hk. destruct (aget (c_towers c) t) as [su|] eqn:Et; [|discriminate].
  destruct (delete_pending_total (c_db c) t l) as [d' Es]. rewrite Es. intros E. inversion E. subst. clear E.
  cbn [c_retriers c_db c_towers c_poisoned with_db with_towers]. split; [reflexivity|]. split.
  { intros k. unfold stat. cbn [c_towers with_db with_towers]. eapply stat_aset_same_status; [exact Et|reflexivity]. }
  split; [reflexivity|]. split; [exact Hp|].
  apply is_pending_row_iff in Hrow.
  destruct (delete_pending_spec _ _ _ _ (proj1 HI) Hrow Es) as [_ [Hfr [HP _]]].
  split; [exact HP|]. intros tb H1 H2. apply Hfr; assumption.
Qed.

Lemma prim_flag c t l sb u g rc c' r :
  Inv c -> c_poisoned c = false -> wt_flag_misbehaving_tower c t l sb u g rc = (c', r) ->
  Inv c' /\ c_retriers c' = c_retriers c /\ healthy_or_abort c' r /\
  ((c_db c' = c_db c /\ (forall k, stat c' k = stat c k) /\ r <> ROk) \/
   (r = ROk /\ c_poisoned c' = false /\ knownc c t /\
    (forall k, stat c' k = if N.eqb k t then Some Misbehaving else stat c k) /\
    Mrow (c_db c') t /\ (forall k, Mrow (c_db c') k <-> Mrow (c_db c) k \/ k = t) /\
    (forall k x, Rrow (c_db c') k x <-> Rrow (c_db c) k x \/ (k = t /\ x = l /\ ~ Mrow (c_db c) t)) /\
    (forall tb, tb <> T_misbehaving_proofs -> tb <> T_appointment_receipts -> tbl (c_db c') tb = tbl (c_db c) tb))).
Proof.
  intros HI Hp E. pose proof (Inv_flag_misbehaving c t l sb u g rc HI Hp) as HI'. rewrite E in HI'. cbn [fst] in HI'.
  split; [exact HI'|]. revert E. unfold wt_flag_misbehaving_tower.
  destruct (aget (c_towers c) t) as [su|] eqn:Et.
  2:{ intros E. inversion E. subst. split; [reflexivity|]. split; [exact Hp|]. left. repeat split; discriminate. }
  destruct (flag_store (c_db c) t l sb u g rc) as [d'|e] eqn:Es; intros E; inversion E; subst; clear E.
  - cbn [c_retriers c_db c_towers c_poisoned with_db with_towers]. split; [reflexivity|]. split; [exact Hp|].
    right. destruct (flag_store_rows _ _ _ _ _ _ _ _ (proj1 HI) Es) as [M1 [M2 [R1 Hfr]]].
    repeat split; auto; try (apply M2); try (apply R1).
    + unfold knownc, amem. rewrite Et. reflexivity.
    + intros k. unfold stat. cbn [c_towers with_db with_towers]. rewrite aget_aset. destruct (N.eqb k t); reflexivity.
  - cbn [c_retriers c_db c_towers c_poisoned poison]. split; [reflexivity|]. split; [reflexivity|].
    left. repeat split; discriminate.
Qed.

Lemma flag_result c t l sb u g rc : knownc c t ->
  snd (wt_flag_misbehaving_tower c t l sb u g rc) = ROk \/ exists st, snd (wt_flag_misbehaving_tower c t l sb u g rc) = RAbort st.
Proof.
  unfold knownc, amem, wt_flag_misbehaving_tower. destruct (aget (c_towers c) t); [|discriminate]. intros _.
  destruct (flag_store (c_db c) t l sb u g rc); [left|right; eexists]; reflexivity.
Qed.

(* set_tower_status (fix 70d4134): misbehaving is never left *)
Definition sticky (old st : tower_status) : tower_status :=
  if is_misbehaving old && negb (is_misbehaving st) then old else st.
Lemma sticky_misbehaving old st : sticky old st = Misbehaving <-> old = Misbehaving \/ st = Misbehaving.
Proof. unfold sticky. destruct old, st; cbn; intuition congruence. Qed.
Lemma sticky_other old st : old <> Misbehaving -> sticky old st = st.
Proof. unfold sticky. destruct old; cbn; congruence. Qed.

Lemma prim_set_status c t st :
  Inv c -> Inv (wt_set_tower_status c t st) /\ c_db (wt_set_tower_status c t st) = c_db c /\
  c_retriers (wt_set_tower_status c t st) = c_retriers c /\ c_poisoned (wt_set_tower_status c t st) = c_poisoned c /\
  (forall k, stat (wt_set_tower_status c t st) k = if N.eqb k t then option_map (fun old => sticky old st) (stat c t) else stat c k) /\
  (forall k su', aget (c_towers (wt_set_tower_status c t st)) k = Some su' ->
     exists su, aget (c_towers c) k = Some su /\ su_pending su' = su_pending su /\ su_invalid su' = su_invalid su).
Proof.
  intros HI. split; [apply Inv_set_status; exact HI|]. unfold wt_set_tower_status.
  destruct (aget (c_towers c) t) as [su|] eqn:Et.
  - destruct (is_misbehaving (su_status su) && negb (is_misbehaving st)) eqn:Eb.
    { repeat split.
      + intros k. destruct (N.eqb k t) eqn:Ek; [|reflexivity]. apply N.eqb_eq in Ek. subst. unfold stat. rewrite Et. cbn.
        unfold sticky. rewrite Eb. reflexivity.
      + intros k su' H. exists su'. repeat split; auto. }
    split; [reflexivity|]. split; [reflexivity|]. split; [reflexivity|]. split.
    + intros k. unfold stat. cbn [c_towers with_towers]. rewrite aget_aset. destruct (N.eqb k t) eqn:Ek; [|reflexivity]. rewrite Et. cbn.
      unfold sticky. rewrite Eb. reflexivity.
    + intros k su'. cbn [c_towers with_towers]. rewrite aget_aset. destruct (N.eqb k t) eqn:Ek.
      * apply N.eqb_eq in Ek. subst. intros H. inversion H. exists su. repeat split; auto.
      * intros H. exists su'. repeat split; auto.
  - repeat split.
    + intros k. destruct (N.eqb k t) eqn:Ek; [|reflexivity]. apply N.eqb_eq in Ek. subst. unfold stat. rewrite Et. reflexivity.
    + intros k su' H. exists su'. repeat split; auto.
Qed.

Lemma prim_add_update_tower c t addr slots start expiry sg c' r :
  Inv c -> c_poisoned c = false -> wt_add_update_tower c t addr slots start expiry sg = (c', r) ->
  Inv c' /\ c_retriers c' = c_retriers c /\ healthy_or_abort c' r /\
  ((c_db c' = c_db c /\ forall k, stat c' k = stat c k) \/
   (r = ROk /\ c_poisoned c' = false /\
    (forall k, stat c' k = if N.eqb k t then Some (match stat c t with Some st => st | None => Reachable end) else stat c k) /\
    tbl (c_db c') T_registration_receipts = tbl (c_db c) T_registration_receipts ++ [[t; slots; start; expiry; sg]] /\
    (forall k, Trow (c_db c') k <-> Trow (c_db c) k \/ k = t) /\
    (forall tb, tb <> T_towers -> tb <> T_registration_receipts -> tbl (c_db c') tb = tbl (c_db c) tb))).
Proof.
  intros HI Hp E. pose proof (Inv_add_update_tower c t addr slots start expiry sg HI Hp) as HI'. rewrite E in HI'. cbn [fst] in HI'.
  split; [exact HI'|]. revert E. unfold wt_add_update_tower.
  set (store := match dbm_store_tower_record (c_db c) t addr slots start expiry sg with DbOk _ => _ | DbErr _ => _ end).
  assert (Hstore : store = (c', r) ->
    c_retriers c' = c_retriers c /\ healthy_or_abort c' r /\
    ((c_db c' = c_db c /\ forall k, stat c' k = stat c k) \/
     (r = ROk /\ c_poisoned c' = false /\
      (forall k, stat c' k = if N.eqb k t then Some (match stat c t with Some st => st | None => Reachable end) else stat c k) /\
      tbl (c_db c') T_registration_receipts = tbl (c_db c) T_registration_receipts ++ [[t; slots; start; expiry; sg]] /\
      (forall k, Trow (c_db c') k <-> Trow (c_db c) k \/ k = t) /\
      (forall tb, tb <> T_towers -> tb <> T_registration_receipts -> tbl (c_db c') tb = tbl (c_db c) tb)))).
  { unfold store. destruct (dbm_store_tower_record (c_db c) t addr slots start expiry sg) as [d'|e] eqn:Es; intros E; inversion E; subst; clear E.
    - cbn [c_retriers c_db c_towers c_poisoned with_db with_towers]. split; [reflexivity|]. split; [exact Hp|]. right.
      destruct (store_tower_spec _ _ _ _ _ _ _ _ (proj1 HI) Es) as [_ [T4 [T0 Hfr]]].
      repeat split; auto.
      + intros k. unfold stat. cbn [c_towers with_db with_towers]. rewrite aget_aset. destruct (N.eqb k t); [|reflexivity].
        destruct (aget (c_towers c) t); reflexivity.
      + destruct (has_pk CS (c_db c) T_towers [t]) eqn:Eh.
        * intros H. left. apply (Trow_map _ _ _ k T0 (upd_tower_key t addr slots)). exact H.
        * unfold Trow. rewrite T0. intros [row [A B]]. apply in_app_or in A. destruct A as [A|[<-|[]]]; [left; exists row; auto|right].
          cbn in B. congruence.
      + destruct (has_pk CS (c_db c) T_towers [t]) eqn:Eh.
        * intros [H| ->]; [apply (Trow_map _ _ _ k T0 (upd_tower_key t addr slots)); exact H|].
          apply (Trow_map _ _ _ t T0 (upd_tower_key t addr slots)). apply tower_row_iff. exact Eh.
        * unfold Trow. rewrite T0. intros [[row [A B]]| ->]; [exists row; split; [apply in_or_app; left; exact A|exact B]|].
          exists [t; addr; slots]. split; [apply in_or_app; right; left; reflexivity|reflexivity].
    - cbn [c_retriers c_db c_poisoned poison]. split; [reflexivity|]. split; [reflexivity|]. left. split; reflexivity. }
  destruct (aget (c_towers c) t) as [su|] eqn:Et; [|exact Hstore].
  destruct (N.leb expiry (su_expiry su)).
  { intros E. inversion E. subst. split; [reflexivity|]. split; [exact Hp|]. left. split; reflexivity. }
  destruct (load_tower_record (c_db c) t) as [|info|st].
  - intros E. inversion E. subst. split; [reflexivity|]. split; [reflexivity|]. left. split; reflexivity.
  - destruct (N.leb slots (ti_slots info)); [|exact Hstore].
    intros E. inversion E. subst. split; [reflexivity|]. split; [exact Hp|]. left. split; reflexivity.
  - intros E. inversion E. subst. split; [reflexivity|]. split; [reflexivity|]. left. split; reflexivity.
Qed.

Lemma prim_remove_tower c t c' r :
  Inv c -> c_poisoned c = false -> knownc c t -> wt_remove_tower c t = (c', r) ->
  Inv c' /\ c_retriers c' = c_retriers c /\ r = ROk /\ c_poisoned c' = false /\
  (forall k, stat c' k = if N.eqb k t then None else stat c k) /\
  (forall tb, tb <> T_appointments -> tbl (c_db c') tb = filter (fun row => negb (row_of_tower tb t row)) (tbl (c_db c) tb)).
Proof.
  intros HI Hp Hk E. pose proof (Inv_remove_tower c t HI Hp) as HI'. rewrite E in HI'. cbn [fst] in HI'.
  split; [exact HI'|]. revert E. unfold wt_remove_tower. unfold knownc, amem in Hk.
  destruct (aget (c_towers c) t) as [su|] eqn:Et; [|discriminate].
  destruct HI as [HD HM]. destruct (proj1 (HM Hp) t su Et) as [tr0 [rr0 [A0 _]]].
  assert (Hhas : has_pk CS (c_db c) T_towers [t] = true) by (rewrite has_pk_find, A0; reflexivity).
  destruct (remove_tower_total _ _ Hhas) as [d' Es]. rewrite Es. intros E. inversion E. subst. clear E.
  cbn [c_retriers c_db c_towers c_poisoned with_db with_towers]. split; [reflexivity|]. split; [reflexivity|]. split; [exact Hp|].
  destruct (remove_tower_spec _ _ _ HD Es) as [_ [Hfr _]]. split; [|exact Hfr].
  intros k. unfold stat. cbn [c_towers with_db with_towers]. rewrite aget_aremove. destruct (N.eqb k t); reflexivity.
Qed.

(* ====================================================================== *)
(* the invariant of the flow                                              *)
(* ====================================================================== *)
Definition excl3 (a b c : Prop) : Prop := ~ (a /\ b) /\ ~ (a /\ c) /\ ~ (b /\ c).

(* durable part: about the database (and the ghost set of owed pairs) only; holds in every state, also a poisoned one *)
Definition DurInv (d : db) (due : list (N * N)) : Prop :=
  DbInv d /\
  (forall t l, ~ Mrow d t -> excl3 (Rrow d t l) (Prow d t l) (Irow d t l)) /\
  (forall t l, In (t, l) due -> Trow d t /\ (~ Mrow d t -> Rrow d t l \/ Prow d t l \/ Irow d t l)).

(* volatile part: holds while the mutex is healthy.  misbehaving in memory <-> a proof is stored (the second
   direction is what the repairs 70d4134 / d35e2bc buy); a retrier's set has no duplicates; a Running retrier of the
   manager is Running in WTClient::retriers.
   NOTHING relates a retrier's set to the pending rows any more: Retrier::run checks every locator (fix 8108569). *)
Definition VolInv (s : fstate) : Prop :=
  (forall t, stat (f_c s) t = Some Misbehaving -> Mrow (c_db (f_c s)) t) /\
  (forall t, knownc (f_c s) t -> Mrow (c_db (f_c s)) t -> stat (f_c s) t = Some Misbehaving) /\
  (forall t r, aget (f_mgr s) t = Some r -> NoDup (r_pending r)) /\
  (forall t, rstat s t = Some RRunning -> aget (c_retriers (f_c s)) t = Some RRunning).

Definition FInv (s : fstate) : Prop :=
  Inv (f_c s) /\ DurInv (c_db (f_c s)) (f_due s) /\ (poisoned s = false -> VolInv s) /\ TaskInv s.

(* known towers = tower rows (memory = disk) *)
Lemma known_iff_Trow c t : Inv c -> c_poisoned c = false -> (knownc c t <-> Trow (c_db c) t).
Proof.
  intros [HD HM] Hp. destruct (HM Hp) as [M1 M2]. unfold knownc, amem. split.
  - destruct (aget (c_towers c) t) as [su|] eqn:E; [|discriminate]. intros _.
    destruct (M1 t su E) as [tr [rr [A _]]]. apply tower_row_iff. unfold tower_row. rewrite has_pk_find, A. reflexivity.
  - intros H. destruct (aget (c_towers c) t) eqn:E; [reflexivity|]. apply M2 in E. apply tower_row_iff in H.
    unfold tower_row in H. rewrite has_pk_find, E in H. discriminate.
Qed.

(* what memory says about a (tower, locator): has_appointment = some record exists *)
Lemma has_appointment_iff c t l : Inv c -> c_poisoned c = false -> knownc c t ->
  (wt_has_appointment c t l = true <-> Rrow (c_db c) t l \/ Prow (c_db c) t l \/ Irow (c_db c) t l).
Proof.
  intros [HD HM] Hp Hk. destruct (HM Hp) as [M1 _]. unfold wt_has_appointment. unfold knownc, amem in Hk.
  destruct (aget (c_towers c) t) as [su|] eqn:E; [|discriminate].
  destruct (M1 t su E) as [tr [rr [_ [_ [_ [_ [_ [_ [C5 C6]]]]]]]]].
  rewrite !orb_true_iff, !memN_In.
  assert (HP : In l (su_pending su) <-> Prow (c_db c) t l).
  { rewrite (C5 l), In_pending_locators. unfold Prow. split; intros [r0 [A [B C]]]; exists r0; auto. }
  assert (HIv : In l (su_invalid su) <-> Irow (c_db c) t l).
  { rewrite (C6 l), In_invalid_locators. unfold Irow. split; intros [r0 [A [B C]]]; exists r0; auto. }
  assert (HR : (match dbm_load_appointment_receipt (c_db c) t l with Some _ => true | None => false end) = true <-> Rrow (c_db c) t l).
  { unfold dbm_load_appointment_receipt. rewrite <- has_pk_find. apply has_receipt_row_iff. }
  rewrite HP, HIv, HR. tauto.
Qed.

(* ---- frame lemmas for FInv ---- *)
Lemma FInv_core s s' :
  f_c s' = f_c s -> f_mgr s' = f_mgr s -> f_tasks s' = f_tasks s -> f_due s' = f_due s ->
  FInv s -> FInv s'.
Proof.
  intros E1 E2 E4 E5 HF. unfold FInv, VolInv, poisoned, TaskInv, rstat in *.
  rewrite E1, E2, E4, E5. exact HF.
Qed.

(* a step that only replaces the client *)
Lemma FInv_client s c' :
  FInv s -> Inv c' -> DurInv (c_db c') (f_due s) ->
  (c_poisoned c' = false -> poisoned s = false /\
     (forall t, stat c' t = Some Misbehaving -> Mrow (c_db c') t) /\
     (forall t, knownc c' t -> Mrow (c_db c') t -> stat c' t = Some Misbehaving) /\
     c_retriers c' = c_retriers (f_c s)) ->
  FInv (set_c s c').
Proof.
  intros [HI [HD [HV HT]]] HI' HD' H. split; [exact HI'|]. split; [exact HD'|]. split; [|exact HT].
  intros Hp. change (poisoned (set_c s c')) with (c_poisoned c') in Hp. destruct (H Hp) as [Hp0 [A [B C]]].
  destruct (HV Hp0) as [V1 [V2 [V4 V5]]].
  split; [exact A|]. split; [exact B|]. split; [exact V4|].
  intros t Ht. cbn [f_c set_c]. rewrite C. apply V5. exact Ht.
Qed.

Lemma DurInv_same_tables d d' due :
  DbInv d' ->
  tbl d' T_appointment_receipts = tbl d T_appointment_receipts ->
  tbl d' T_pending_appointments = tbl d T_pending_appointments ->
  tbl d' T_invalid_appointments = tbl d T_invalid_appointments ->
  tbl d' T_misbehaving_proofs = tbl d T_misbehaving_proofs ->
  (forall t, Trow d t -> Trow d' t) ->
  DurInv d due -> DurInv d' due.
Proof.
  intros HD E5 E2 E3 E6 HT [_ [U E]]. split; [exact HD|]. split.
  - intros t l Hm. unfold excl3. rewrite (Rrow_ext d d' t l E5), (Prow_ext d d' t l E2), (Irow_ext d d' t l E3). apply U.
    rewrite <- (Mrow_ext d d' t E6). exact Hm.
  - intros t l Hin. destruct (E t l Hin) as [A B]. split; [apply HT, A|].
    rewrite (Rrow_ext d d' t l E5), (Prow_ext d d' t l E2), (Irow_ext d d' t l E3), (Mrow_ext d d' t E6). exact B.
Qed.

Lemma FInv_poisoned_same_db s c' :
  FInv s -> Inv c' -> c_db c' = c_db (f_c s) -> c_poisoned c' = true -> FInv (set_c s c').
Proof.
  intros HF HI' Ed Hp. apply FInv_client; [exact HF|exact HI'| |].
  - rewrite Ed. apply HF.
  - rewrite Hp. discriminate.
Qed.

Lemma Mrow_Trow d t : DbInv d -> Mrow d t -> Trow d t.
Proof.
  intros [[Hfk _] _] [r [A B]]. destruct (fk_proof_receipt d r Hfk A) as [rc [A1 [_ B1]]].
  destruct (fk_ar_tower d rc Hfk A1) as [tr [A2 B2]]. exists tr. split; [exact A2|]. congruence.
Qed.

Lemma knownc_stat c c' : (forall k, stat c' k = stat c k) -> forall k, knownc c' k <-> knownc c k.
Proof. intros H k. unfold knownc. rewrite (stat_known c c' H k). tauto. Qed.

Lemma knownc_set_status c t st k : knownc (wt_set_tower_status c t st) k <-> knownc c k.
Proof.
  unfold knownc, amem, wt_set_tower_status. destruct (aget (c_towers c) t) as [su|] eqn:E; [|tauto].
  destruct (is_misbehaving (su_status su) && negb (is_misbehaving st)); [tauto|].
  cbn [c_towers with_towers]. rewrite aget_aset. destruct (N.eqb k t) eqn:Ek; [|tauto]. apply N.eqb_eq in Ek. subst. rewrite E. tauto.
Qed.
Lemma poisoned_set_status c t st : c_poisoned (wt_set_tower_status c t st) = c_poisoned c.
Proof. unfold wt_set_tower_status. destruct (aget (c_towers c) t); [destruct (_ && _)|]; reflexivity. Qed.
Lemma retriers_set_status c t st : c_retriers (wt_set_tower_status c t st) = c_retriers c.
Proof. unfold wt_set_tower_status. destruct (aget (c_towers c) t); [destruct (_ && _)|]; reflexivity. Qed.

Lemma FInv_set_status s t st :
  FInv s -> poisoned s = false -> st <> Misbehaving -> FInv (set_c s (wt_set_tower_status (f_c s) t st)).
Proof.
  intros HF Hp Hst. pose proof HF as [HI [HD [HV HT]]]. destruct (HV Hp) as [V1 [V2 _]].
  destruct (prim_set_status (f_c s) t st HI) as [HI' [Ed [Hret [Hpo [Hs _]]]]].
  apply FInv_client; [exact HF|exact HI'|rewrite Ed; exact HD|]. intros _. split; [exact Hp|]. split; [|split; [|exact Hret]].
  - intros k Hk. rewrite Ed. apply V1. rewrite Hs in Hk. destruct (N.eqb k t) eqn:Ek; [|exact Hk]. apply N.eqb_eq in Ek. subst k.
    destruct (stat (f_c s) t) as [old|]; cbn in Hk; [|discriminate]. injection Hk as Hk'.
    apply sticky_misbehaving in Hk'. destruct Hk' as [Hk'|Hk']; [rewrite Hk'; reflexivity|contradiction].
  - intros k Hk Hm. rewrite Ed in Hm. apply (proj1 (knownc_set_status _ t st k)) in Hk. specialize (V2 k Hk Hm). rewrite Hs.
    destruct (N.eqb k t) eqn:Ek; [|exact V2]. apply N.eqb_eq in Ek. subst k. rewrite V2. cbn. f_equal.
    apply sticky_misbehaving. left. reflexivity.
Qed.

(* pushing a message: the client and the retriers are untouched *)
Lemma FInv_push s t d : FInv s -> FInv (push_chan s t d).
Proof. intros [HI [HD [HV HT]]]. split; [exact HI|]. split; [exact HD|]. split; [exact HV|exact HT]. Qed.

Lemma FInv_flag_unreachable s t : FInv s -> poisoned s = false -> FInv (flag_unreachable s t).
Proof.
  intros HF Hp. unfold flag_unreachable. destruct (aget (c_towers (f_c s)) t) as [su|]; [|exact HF].
  destruct (_ && _); [|exact HF]. apply FInv_push. apply FInv_set_status; [exact HF|exact Hp|discriminate].
Qed.

(* ---- registertower ---- *)
Lemma FInv_register s t rp : FInv s -> FInv (fst (f_register s t t rp)).
Proof.
  intros HF. unfold f_register. destruct (poisoned s) eqn:Hp; [exact HF|].
  assert (HF1 : FInv (log_req s (ReqRegister t))) by (apply (FInv_core s); auto).
  set (s1 := log_req s (ReqRegister t)) in *.
  assert (Hp1 : poisoned s1 = false) by exact Hp.
  destruct rp as [slots start expiry sig_ok| | | |]; cbn [fst]; try exact HF1.
  - destruct (negb sig_ok); [exact HF1|].
    destruct (wt_add_update_tower (f_c s1) t t slots start expiry REG_SIG) as [c' r] eqn:E.
    destruct HF1 as [HI [HD [HV HT]]]. destruct (HV Hp1) as [V1 [V2 [V4 V5]]].
    destruct (prim_add_update_tower _ _ _ _ _ _ _ _ _ HI Hp1 E) as [HI' [Hret [Hh Heff]]].
    assert (Hgoal : FInv (set_c s1 c')).
    { apply FInv_client; [exact (conj HI (conj HD (conj HV HT)))|exact HI'| |].
      - destruct Heff as [[Ed _]|[_ [_ [_ [T4 [HTr Hfr]]]]]]; [rewrite Ed; exact HD|].
        apply (DurInv_same_tables (c_db (f_c s1))); try (apply Hfr; discriminate); [apply HI'| |exact HD].
        intros k Hk. apply HTr. left. exact Hk.
      - intros Hp'. split; [exact Hp1|]. destruct Heff as [[Ed Hst]|[_ [_ [Hst [T4 [HTr Hfr]]]]]].
        + split; [intros k Hk; rewrite Ed; apply V1; rewrite <- Hst; exact Hk|]. split; [|exact Hret].
          intros k Hk Hm. rewrite Hst. apply V2; [apply (knownc_stat _ _ Hst), Hk|rewrite <- Ed; exact Hm].
        + split.
          { intros k Hk. rewrite (Mrow_ext _ _ k (Hfr T_misbehaving_proofs ltac:(discriminate) ltac:(discriminate))). apply V1.
            rewrite Hst in Hk. destruct (N.eqb k t) eqn:Ek; [|exact Hk]. apply N.eqb_eq in Ek. subst k.
            destruct (stat (f_c s1) t); [exact Hk|discriminate]. }
          split; [|exact Hret].
          (* a tower with a proof row has a tower row, so it was known: its status is kept *)
          intros k Hk Hm. rewrite (Mrow_ext _ _ k (Hfr T_misbehaving_proofs ltac:(discriminate) ltac:(discriminate))) in Hm.
          assert (Hk0 : knownc (f_c s1) k) by (apply (known_iff_Trow _ k HI Hp1), (Mrow_Trow _ _ (proj1 HI) Hm)).
          specialize (V2 k Hk0 Hm). rewrite Hst. destruct (N.eqb k t) eqn:Ek; [|exact V2].
          apply N.eqb_eq in Ek. subst k. rewrite V2. reflexivity. }
    destruct r; cbn [fst]; exact Hgoal.
  - (* connection error *)
    destruct (amem (c_towers (f_c s1)) t) eqn:Ek; [|exact HF1]. apply FInv_flag_unreachable; assumption.
Qed.

(* ---- sets ---- *)
Lemma In_set_union a : forall b x, In x (set_union b a) <-> In x b \/ In x a.
Proof.
  induction a as [|y a IH]; intros b x; cbn; [tauto|]. rewrite IH, In_set_add. intuition congruence.
Qed.
Lemma NoDup_set_add x l : NoDup l -> NoDup (set_add x l).
Proof.
  intros H. unfold set_add. destruct (memN x l) eqn:E; [exact H|].
  apply NoDup_app_iff. split; [exact H|]. split; [constructor; [tauto|constructor]|].
  intros y Hy [<-|[]]. apply memN_In in Hy. congruence.
Qed.
Lemma NoDup_set_union a : forall b, NoDup b -> NoDup (set_union b a).
Proof. induction a as [|y a IH]; intros b H; cbn; [exact H|]. apply IH, NoDup_set_add, H. Qed.
Lemma NoDup_set_remove x l : NoDup l -> NoDup (set_remove x l).
Proof. intros H. unfold set_remove. apply NoDup_filter. exact H. Qed.
Lemma NoDup_rdata_set d : NoDup (rdata_set d).
Proof. destruct d; cbn; [constructor; [tauto|constructor]|apply NoDup_set_union; constructor|constructor]. Qed.

(* ---- retrytower ---- *)
Lemma su_pending_rows c t su l : Inv c -> c_poisoned c = false -> aget (c_towers c) t = Some su -> In l (su_pending su) -> Prow (c_db c) t l.
Proof.
  intros [HD HM] Hp E Hl. destruct (proj1 (HM Hp) t su E) as [tr [rr [_ [_ [_ [_ [_ [_ [C5 _]]]]]]]]].
  apply C5, In_pending_locators in Hl. destruct Hl as [row [A [B C]]]. exists row. auto.
Qed.

Lemma FInv_manual_retry s t : FInv s -> FInv (fst (f_manual_retry s t)).
Proof.
  intros HF. unfold f_manual_retry. destruct (poisoned s) eqn:Hp; [exact HF|].
  destruct (aget (c_towers (f_c s)) t) as [su|] eqn:Et; [|exact HF].
  destruct (aget (c_retriers (f_c s)) t) as [st|] eqn:Er.
  - destruct (is_idle st); [|exact HF]. cbn [fst]. apply FInv_push. exact HF.
  - destruct (is_retryable (su_status su)); [|exact HF]. cbn [fst]. apply FInv_push. exact HF.
Qed.

(* ---- restart ---- *)
Lemma reload_retries_In c t ls : In (t, ls) (reload_retries c) -> exists su, In (t, su) (c_towers c) /\ ls = su_pending su.
Proof.
  unfold reload_retries. rewrite in_flat_map. intros [[k su] [A B]]. cbn in B.
  destruct (is_temporary_unreachable (su_status su)); [|contradiction]. destruct B as [B|[]]. inversion B. subst. exists su. auto.
Qed.

Lemma load_towers_In d k su : In (k, su) (load_towers d) ->
  su_pending su = pending_locators d k /\ su_status su = db_status d k (pending_locators d k).
Proof.
  unfold load_towers. rewrite in_flat_map. intros [tr [A B]]. unfold load_summary in B.
  destruct (max_receipt d (col tr C_towers_tower_id)); [|contradiction]. destruct B as [B|[]]. inversion B. subst. cbn. split; reflexivity.
Qed.

Lemma aget_In {V} (m : amap V) k v : aget m k = Some v -> In (k, v) m.
Proof.
  induction m as [|[k' v'] m IH]; cbn; [discriminate|]. destruct (N.eqb k k') eqn:E.
  - apply N.eqb_eq in E. subst. intros H. inversion H. left. reflexivity.
  - intros H. right. apply IH, H.
Qed.

Lemma FInv_restart_with s d : FInv s -> DurInv d (f_due s) -> FInv (restart_with s d).
Proof.
  intros HF HD. assert (HDb : DbInv d) by apply HD.
  assert (HI' : Inv (wt_reload (with_db (f_c s) d))) by (apply Inv_reload; exact HDb).
  split; [exact HI'|]. split; [exact HD|]. split; [|apply TaskInv_restart].
  intros _. split; [|split; [|split]].
  - intros t Ht. unfold stat, restart_with in *. cbn [f_c c_towers wt_reload c_db with_db] in *.
    destruct (aget (load_towers d) t) as [su|] eqn:E; [|cbn in Ht; discriminate]. cbn in Ht. inversion Ht as [Hs].
    apply aget_In, load_towers_In in E. destruct E as [_ Est]. rewrite Est in Hs. unfold db_status in Hs.
    destruct (exists_misbehaving_proof d t) eqn:Ep; [apply proof_iff; exact Ep|].
    destruct (pending_locators d t); discriminate.
  - intros t Hk Hm. unfold stat, knownc, amem, restart_with in *. cbn [f_c c_towers wt_reload c_db with_db] in *.
    destruct (aget (load_towers d) t) as [su|] eqn:E; [|discriminate]. cbn. f_equal.
    apply aget_In, load_towers_In in E. destruct E as [_ Est]. rewrite Est. unfold db_status.
    apply proof_iff in Hm. rewrite Hm. reflexivity.
  - intros t r Ht. discriminate.
  - intros t Ht. discriminate.
Qed.

Lemma FInv_restart s : FInv s -> FInv (f_restart s).
Proof. intros HF. apply FInv_restart_with; [exact HF|apply HF]. Qed.

(* ---- abandontower ---- *)
Lemma Rrow_filter d d' t k l :
  tbl d' T_appointment_receipts = filter (fun row => negb (row_of_tower T_appointment_receipts t row)) (tbl d T_appointment_receipts) ->
  (Rrow d' k l <-> Rrow d k l /\ k <> t).
Proof.
  unfold Rrow. intros ->. unfold row_of_tower. cbn [tower_col Nat.eqb T_towers T_pending_appointments T_invalid_appointments T_registration_receipts T_appointment_receipts].
  split.
  - intros [r [A [B C]]]. apply filter_In in A. destruct A as [A1 A2]. split; [exists r; auto|].
    intros ->. rewrite C, N.eqb_refl in A2. discriminate.
  - intros [[r [A [B C]]] Hn]. exists r. split; [|auto]. apply filter_In. split; [exact A|]. rewrite C. apply negb_true_iff, N.eqb_neq. exact Hn.
Qed.
Lemma Prow_filter d d' t k l :
  tbl d' T_pending_appointments = filter (fun row => negb (row_of_tower T_pending_appointments t row)) (tbl d T_pending_appointments) ->
  (Prow d' k l <-> Prow d k l /\ k <> t).
Proof.
  unfold Prow. intros ->. unfold row_of_tower. cbn [tower_col Nat.eqb T_towers T_pending_appointments].
  split.
  - intros [r [A [B C]]]. apply filter_In in A. destruct A as [A1 A2]. split; [exists r; auto|].
    intros ->. rewrite C, N.eqb_refl in A2. discriminate.
  - intros [[r [A [B C]]] Hn]. exists r. split; [|auto]. apply filter_In. split; [exact A|]. rewrite C. apply negb_true_iff, N.eqb_neq. exact Hn.
Qed.
Lemma Irow_filter d d' t k l :
  tbl d' T_invalid_appointments = filter (fun row => negb (row_of_tower T_invalid_appointments t row)) (tbl d T_invalid_appointments) ->
  (Irow d' k l <-> Irow d k l /\ k <> t).
Proof.
  unfold Irow. intros ->. unfold row_of_tower. cbn [tower_col Nat.eqb T_towers T_pending_appointments T_invalid_appointments].
  split.
  - intros [r [A [B C]]]. apply filter_In in A. destruct A as [A1 A2]. split; [exists r; auto|].
    intros ->. rewrite C, N.eqb_refl in A2. discriminate.
  - intros [[r [A [B C]]] Hn]. exists r. split; [|auto]. apply filter_In. split; [exact A|]. rewrite C. apply negb_true_iff, N.eqb_neq. exact Hn.
Qed.
Lemma Mrow_filter d d' t k :
  tbl d' T_misbehaving_proofs = filter (fun row => negb (row_of_tower T_misbehaving_proofs t row)) (tbl d T_misbehaving_proofs) ->
  (Mrow d' k <-> Mrow d k /\ k <> t).
Proof.
  unfold Mrow. intros ->. unfold row_of_tower.
  cbn [tower_col Nat.eqb T_towers T_pending_appointments T_invalid_appointments T_registration_receipts T_appointment_receipts T_misbehaving_proofs].
  split.
  - intros [r [A C]]. apply filter_In in A. destruct A as [A1 A2]. split; [exists r; auto|].
    intros ->. rewrite C, N.eqb_refl in A2. discriminate.
  - intros [[r [A C]] Hn]. exists r. split; [|auto]. apply filter_In. split; [exact A|]. rewrite C. apply negb_true_iff, N.eqb_neq. exact Hn.
Qed.
Lemma Trow_filter d d' t k :
  tbl d' T_towers = filter (fun row => negb (row_of_tower T_towers t row)) (tbl d T_towers) ->
  (Trow d' k <-> Trow d k /\ k <> t).
Proof.
  unfold Trow. intros ->. unfold row_of_tower. cbn [tower_col Nat.eqb T_towers].
  split.
  - intros [r [A C]]. apply filter_In in A. destruct A as [A1 A2]. split; [exists r; auto|].
    intros ->. rewrite C, N.eqb_refl in A2. discriminate.
  - intros [[r [A C]] Hn]. exists r. split; [|auto]. apply filter_In. split; [exact A|]. rewrite C. apply negb_true_iff, N.eqb_neq. exact Hn.
Qed.

Lemma FInv_abandon s t : FInv s -> FInv (fst (f_abandon s t)).
Proof.
  intros HF. unfold f_abandon. destruct (poisoned s) eqn:Hp; [exact HF|].
  destruct (amem (c_towers (f_c s)) t) eqn:Ek; [|exact HF].
  set (s0 := match db_delete CS (c_db (f_c s)) T_towers [C_towers_tower_id] [t] true with DbOk d1 => note_db s d1 | DbErr _ => s end).
  assert (HF0 : FInv s0 /\ f_c s0 = f_c s /\ f_due s0 = f_due s /\ f_mgr s0 = f_mgr s /\ f_chan s0 = f_chan s /\ f_tasks s0 = f_tasks s).
  { unfold s0. destruct (db_delete CS (c_db (f_c s)) T_towers [C_towers_tower_id] [t] true);
      (split; [first [exact HF|apply (FInv_core s); auto]|repeat split; reflexivity]). }
  destruct HF0 as [HF0 [Ec [Ed [Em [Ech Et]]]]]. rewrite Ec.
  destruct (wt_remove_tower (f_c s) t) as [c' r] eqn:E.
  destruct HF as [HI [HD [HV HT]]]. destruct (HV Hp) as [V1 [V2 [V4 V5]]].
  destruct (prim_remove_tower _ _ _ _ HI Hp Ek E) as [HI' [Hret [-> [Hp' [Hst Hfr]]]]].
  cbn [fst]. rewrite Ed.
  assert (R : forall k l, Rrow (c_db c') k l <-> Rrow (c_db (f_c s)) k l /\ k <> t) by (intros; apply Rrow_filter, Hfr; discriminate).
  assert (P : forall k l, Prow (c_db c') k l <-> Prow (c_db (f_c s)) k l /\ k <> t) by (intros; apply Prow_filter, Hfr; discriminate).
  assert (I : forall k l, Irow (c_db c') k l <-> Irow (c_db (f_c s)) k l /\ k <> t) by (intros; apply Irow_filter, Hfr; discriminate).
  assert (M : forall k, Mrow (c_db c') k <-> Mrow (c_db (f_c s)) k /\ k <> t) by (intros; apply Mrow_filter, Hfr; discriminate).
  assert (T : forall k, Trow (c_db c') k <-> Trow (c_db (f_c s)) k /\ k <> t) by (intros; apply Trow_filter, Hfr; discriminate).
  destruct HD as [_ [U E0]].
  split; [exact HI'|]. split; [|split].
  - split; [apply HI'|]. split.
    + intros k l Hm. unfold excl3. rewrite !R, !P, !I. destruct (N.eq_dec k t) as [->|Hn]; [tauto|].
      assert (Hm0 : ~ Mrow (c_db (f_c s)) k) by (intros H; apply Hm, M; tauto). destruct (U k l Hm0) as [A [B C]]. tauto.
    + intros k l Hin. cbn [f_due set_due] in Hin. apply filter_In in Hin. destruct Hin as [Hin Hn]. cbn in Hn.
      apply negb_true_iff, N.eqb_neq in Hn. destruct (E0 k l Hin) as [A B]. split; [apply T; tauto|].
      intros Hm. rewrite R, P, I. assert (Hm0 : ~ Mrow (c_db (f_c s)) k) by (intros H; apply Hm, M; tauto). specialize (B Hm0). tauto.
  - intros _. cbn [f_c set_due wr_c]. split; [|split; [|split]].
    + intros k Hk. rewrite Hst in Hk. destruct (N.eqb k t) eqn:Ekt; [discriminate Hk|]. apply N.eqb_neq in Ekt. apply M. split; [apply V1, Hk|exact Ekt].
    + intros k Hk Hm. apply M in Hm. destruct Hm as [Hm Hkt]. apply N.eqb_neq in Hkt.
      assert (Hkn : knownc (f_c s) k).
      { unfold knownc, amem in *. cbn [f_c set_due wr_c] in Hk. pose proof (Hst k) as Hs. unfold stat in Hs. rewrite Hkt in Hs.
        destruct (aget (c_towers c') k), (aget (c_towers (f_c s)) k); cbn in Hs; try discriminate Hs; try discriminate Hk; reflexivity. }
      rewrite Hst, Hkt. apply V2; assumption.
    + intros k r0 Hk. cbn [f_mgr set_due wr_c] in Hk. rewrite Em in Hk. eapply V4, Hk.
    + intros k Hk. unfold rstat in *. cbn [f_mgr set_due wr_c] in Hk. rewrite Em in Hk. cbn [f_c set_due wr_c]. rewrite Hret. apply V5, Hk.
  - apply (TaskInv_same s); [exact Et| |exact HT]. intros k. unfold rstat. cbn [f_mgr set_due wr_c]. rewrite Em. reflexivity.
Qed.

(* ---- commitment_revocation ---- *)
Definition grows (d d' : db) : Prop :=
  (forall k x, Rrow d k x -> Rrow d' k x) /\ (forall k x, Prow d k x -> Prow d' k x) /\
  (forall k x, Irow d k x -> Irow d' k x) /\ (forall k, Mrow d k -> Mrow d' k) /\ (forall k, Trow d k <-> Trow d' k).
Lemma grows_refl d : grows d d.  Proof. repeat split; auto. Qed.
Lemma grows_trans a b c : grows a b -> grows b c -> grows a c.
Proof.
  intros [A1 [A2 [A3 [A4 A5]]]] [B1 [B2 [B3 [B4 B5]]]]. repeat split; auto.
  - intros H. apply B5, A5, H.
  - intros H. apply A5, B5, H.
Qed.
Lemma grows_eq d d' : d' = d -> grows d d'.  Proof. intros ->. apply grows_refl. Qed.

Lemma add_pending_result c t l b dl : knownc c t ->
  snd (wt_add_pending_appointment c t l b dl) = ROk \/ exists st, snd (wt_add_pending_appointment c t l b dl) = RAbort st.
Proof.
  unfold knownc, amem, wt_add_pending_appointment. destruct (aget (c_towers c) t); [|discriminate]. intros _.
  destruct (memN l (su_pending s)); [left; reflexivity|]. destruct (dbm_store_pending_appointment (c_db c) t l b dl); [left|right; eexists]; reflexivity.
Qed.

Lemma FInv_rev_pend s l t send s' o :
  FInv s -> poisoned s = false -> knownc (f_c s) t ->
  ~ Prow (c_db (f_c s)) t l -> (~ Mrow (c_db (f_c s)) t -> ~ Rrow (c_db (f_c s)) t l /\ ~ Irow (c_db (f_c s)) t l) ->
  rev_pend s l t send = (s', o) ->
  FInv s' /\ f_due s' = f_due s /\ grows (c_db (f_c s)) (c_db (f_c s')) /\ (forall k, stat (f_c s') k = stat (f_c s) k) /\
  (o = None -> Prow (c_db (f_c s')) t l /\ poisoned s' = false).
Proof.
  intros HF Hp Hk HnP HnRI. unfold rev_pend.
  destruct (wt_add_pending_appointment (f_c s) t l BLOB DELAY) as [c2 r] eqn:E.
  pose proof HF as [HI [HD [HV HT]]]. destruct (HV Hp) as [V1 [V2 [V4 V5]]].
  destruct (prim_add_pending _ _ _ _ _ _ _ HI Hp E) as [HI' [Hret [Hst [Hh [Heff Hrow]]]]].
  pose proof (add_pending_result (f_c s) t l BLOB DELAY Hk) as Hres. rewrite E in Hres. cbn [snd] in Hres.
  (* the database effect, uniformly *)
  assert (Hdb : grows (c_db (f_c s)) (c_db c2) /\ DurInv (c_db c2) (f_due s) /\
                (c_poisoned c2 = false -> (forall k x, Prow (c_db c2) k x <-> Prow (c_db (f_c s)) k x \/ (k = t /\ x = l)) /\
                                          (forall k, Mrow (c_db c2) k <-> Mrow (c_db (f_c s)) k))).
  { destruct Heff as [Ed|[-> [Hp2 [_ [T2 Hfr]]]]].
    - rewrite Ed. split; [apply grows_refl|]. split; [exact HD|]. intros Hp2. split; [|tauto].
      intros k x. split; [tauto|]. intros [H|[-> ->]]; [exact H|].
      destruct Hres as [->|[st ->]]; [rewrite <- Ed; apply Hrow; auto|]. unfold healthy_or_abort in Hh. cbn in Hh. congruence.
    - assert (ER : forall k x, Rrow (c_db c2) k x <-> Rrow (c_db (f_c s)) k x) by (intros; apply Rrow_ext, Hfr; discriminate).
      assert (EI : forall k x, Irow (c_db c2) k x <-> Irow (c_db (f_c s)) k x) by (intros; apply Irow_ext, Hfr; discriminate).
      assert (EM : forall k, Mrow (c_db c2) k <-> Mrow (c_db (f_c s)) k) by (intros; apply Mrow_ext, Hfr; discriminate).
      assert (ET : forall k, Trow (c_db c2) k <-> Trow (c_db (f_c s)) k) by (intros; apply Trow_ext, Hfr; discriminate).
      assert (EP : forall k x, Prow (c_db c2) k x <-> Prow (c_db (f_c s)) k x \/ (k = t /\ x = l)) by (intros; apply Prow_app, T2).
      split; [|split; [|intros _; split; assumption]].
      + repeat split; intros; try (apply ER; assumption); try (apply EI; assumption); try (apply EM; assumption); try (apply ET; assumption).
        apply EP. left. assumption.
      + destruct HD as [_ [U E0]]. split; [apply HI'|]. split.
        * intros k x Hm. unfold excl3. rewrite !ER, !EI, !EP. assert (Hm0 : ~ Mrow (c_db (f_c s)) k) by (intros H; apply Hm, EM, H).
          destruct (U k x Hm0) as [A [B C]]. repeat split; try tauto.
          -- intros [H1 [H2|[-> ->]]]; [tauto|]. destruct (HnRI Hm0) as [N1 N2]. tauto.
          -- intros [[H2|[-> ->]] H3]; [tauto|]. destruct (HnRI Hm0) as [N1 N2]. tauto.
        * intros k x Hin. destruct (E0 k x Hin) as [A B]. split; [apply ET, A|]. intros Hm. rewrite ER, EI, EP.
          assert (Hm0 : ~ Mrow (c_db (f_c s)) k) by (intros H; apply Hm, EM, H). specialize (B Hm0). tauto. }
  destruct Hdb as [Hg [HD2 Hrows]].
  assert (HF2 : FInv (set_c s c2)).
  { apply FInv_client; [exact HF|exact HI'|exact HD2|]. intros Hp2. destruct (Hrows Hp2) as [EP EM].
    split; [exact Hp|]. split; [|split; [|exact Hret]].
    - intros k Hk'. apply EM, V1. rewrite <- Hst. exact Hk'.
    - intros k Hk' Hm'. rewrite Hst. apply V2; [apply (knownc_stat _ _ Hst), Hk'|apply EM, Hm']. }
  destruct r; inversion 1; subst; clear H; try (destruct Hres as [Hres|[st Hres]]; discriminate).
  - (* stored: maybe hand it to the retrier *)
    assert (Hp2 : c_poisoned c2 = false) by exact Hh.
    destruct (Hrows Hp2) as [EP EM].
    assert (Hrowl : Prow (c_db c2) t l) by (apply EP; right; split; reflexivity).
    assert (Hpush : FInv (send_to_retrier (wr_c s c2) t l)).
    { unfold send_to_retrier.
      assert (Hgo : FInv (push_chan (wr_c s c2) t (DFresh l))).
      { apply FInv_push. exact HF2. }
      destruct (aget (c_retriers (f_c (wr_c s c2))) t) as [st|]; [destruct (is_running st)|]; try exact Hgo; exact HF2. }
    split; [destruct send; [exact Hpush|exact HF2]|].
    split; [destruct send; [unfold send_to_retrier; dmatch|]; reflexivity|].
    split; [destruct send; [unfold send_to_retrier; dmatch|]; exact Hg|].
    split; [destruct send; [unfold send_to_retrier; dmatch|]; exact Hst|].
    intros _. split; destruct send; try (unfold send_to_retrier; dmatch); assumption.
  - (* the store aborted *)
    split; [exact HF2|]. split; [reflexivity|]. split; [exact Hg|]. split; [exact Hst|discriminate].
Qed.

Lemma DurInv_add d d' due t l (kind : nat) :
  DbInv d' ->
  (forall k x, Rrow d' k x <-> Rrow d k x \/ (kind = 0%nat /\ k = t /\ x = l)) ->
  (forall k x, Prow d' k x <-> Prow d k x \/ (kind = 1%nat /\ k = t /\ x = l)) ->
  (forall k x, Irow d' k x <-> Irow d k x \/ (kind = 2%nat /\ k = t /\ x = l)) ->
  (forall k, Mrow d' k <-> Mrow d k) -> (forall k, Trow d' k <-> Trow d k) ->
  (~ Mrow d t -> ~ Rrow d t l /\ ~ Prow d t l /\ ~ Irow d t l) ->
  DurInv d due -> DurInv d' due /\ grows d d'.
Proof.
  intros HD ER EP EI EM ET Hnone [_ [U E0]]. split.
  - split; [exact HD|]. split.
    + intros k x Hm. unfold excl3. rewrite !ER, !EP, !EI. assert (Hm0 : ~ Mrow d k) by (intros H; apply Hm, EM, H).
      destruct (U k x Hm0) as [A [B C]].
      repeat split; intros [[H1|[K1 [-> ->]]] [H2|[K2 [Ht Hx]]]]; try tauto; try lia; subst; destruct (Hnone Hm0) as [N1 [N2 N3]]; tauto.
    + intros k x Hin. destruct (E0 k x Hin) as [A B]. split; [apply ET, A|]. intros Hm. rewrite ER, EP, EI.
      assert (Hm0 : ~ Mrow d k) by (intros H; apply Hm, EM, H). specialize (B Hm0). tauto.
  - repeat split; intros; try (apply ER; tauto); try (apply EP; tauto); try (apply EI; tauto); try (apply EM; tauto); apply ET; tauto.
Qed.

Lemma add_receipt_result c t l slots sb u g : knownc c t ->
  snd (wt_add_appointment_receipt c t l slots sb u g) = ROk \/ exists st, snd (wt_add_appointment_receipt c t l slots sb u g) = RAbort st.
Proof.
  unfold knownc, amem, wt_add_appointment_receipt. destruct (aget (c_towers c) t); [|discriminate]. intros _.
  destruct (dbm_load_appointment_receipt (c_db c) t l); [left; reflexivity|].
  destruct (dbm_store_appointment_receipt (c_db c) t l slots sb u g); [left|right; eexists]; reflexivity.
Qed.
Lemma add_invalid_result c t l b dl : knownc c t ->
  snd (wt_add_invalid_appointment c t l b dl) = ROk \/ exists st, snd (wt_add_invalid_appointment c t l b dl) = RAbort st.
Proof.
  unfold knownc, amem, wt_add_invalid_appointment. destruct (aget (c_towers c) t); [|discriminate]. intros _.
  destruct (memN l (su_invalid s)); [left; reflexivity|]. destruct (dbm_store_invalid_appointment (c_db c) t l b dl); [left|right; eexists]; reflexivity.
Qed.

(* the volatile facts survive a primitive that keeps the statuses and the proof rows *)
Lemma FInv_client_grow s c' :
  FInv s -> poisoned s = false -> Inv c' -> DurInv (c_db c') (f_due s) ->
  (forall k, stat c' k = stat (f_c s) k) -> c_retriers c' = c_retriers (f_c s) ->
  (forall k, Mrow (c_db c') k <-> Mrow (c_db (f_c s)) k) ->
  FInv (set_c s c').
Proof.
  intros HF Hp HI' HD' Hst Hret HM. pose proof HF as [_ [_ [HV _]]]. destruct (HV Hp) as [V1 [V2 _]].
  apply FInv_client; [exact HF|exact HI'|exact HD'|]. intros _. split; [exact Hp|]. split; [|split; [|exact Hret]].
  - intros k Hk. apply HM, V1. rewrite <- Hst. exact Hk.
  - intros k Hk Hm. rewrite Hst. apply V2; [apply (knownc_stat _ _ Hst), Hk|apply HM, Hm].
Qed.

Lemma FInv_rev_tower s l t st rp s' o :
  FInv s -> knownc (f_c s) t -> (st = Misbehaving -> Mrow (c_db (f_c s)) t) ->
  rev_tower s l t st rp = (s', o) ->
  FInv s' /\ f_due s' = f_due s /\ grows (c_db (f_c s)) (c_db (f_c s')) /\ (forall k, knownc (f_c s') k <-> knownc (f_c s) k) /\
  (o = None -> poisoned s' = false /\ Trow (c_db (f_c s')) t /\
               (~ Mrow (c_db (f_c s')) t -> Rrow (c_db (f_c s')) t l \/ Prow (c_db (f_c s')) t l \/ Irow (c_db (f_c s')) t l)).
Proof.
  intros HF Hk Hsnap. unfold rev_tower. destruct (poisoned s) eqn:Hp.
  { intros E. inversion E. subst. split; [exact HF|]. split; [reflexivity|]. split; [apply grows_refl|]. split; [tauto|]. intros H0; discriminate H0. }
  pose proof HF as [HI [HD [HV HT]]]. destruct (HV Hp) as [V1 [V2 [V4 V5]]].
  pose proof (proj1 (known_iff_Trow _ t HI Hp) Hk) as HTr.
  pose proof (has_appointment_iff _ t l HI Hp Hk) as Hha.
  destruct (wt_has_appointment (f_c s) t l) eqn:Eha.
  { intros E. inversion E. subst. split; [exact HF|]. split; [reflexivity|]. split; [apply grows_refl|]. split; [tauto|].
    intros _. split; [exact Hp|]. split; [exact HTr|]. intros _. apply Hha. reflexivity. }
  assert (Hnone : ~ Rrow (c_db (f_c s)) t l /\ ~ Prow (c_db (f_c s)) t l /\ ~ Irow (c_db (f_c s)) t l).
  { repeat split; intros H; assert (false = true) by (apply Hha; tauto); discriminate. }
  destruct Hnone as [NR [NP NI]].
  set (s1 := log_req s (ReqAdd t l)).
  assert (HF1 : FInv s1) by (apply (FInv_core s); auto).
  destruct (is_reachable st) eqn:Ereach.
  - destruct rp as [slots| | | | | | |].
    + (* accepted *)
      destruct (wt_add_appointment_receipt (f_c s1) t l slots START_BLOCK USER_SIG SIG_TOWER) as [c2 r] eqn:E.
      destruct (prim_add_receipt _ _ _ _ _ _ _ _ _ HI Hp E) as [HI' [Hret [Hst [Hh [Heff Hrow]]]]].
      pose proof (add_receipt_result (f_c s1) t l slots START_BLOCK USER_SIG SIG_TOWER Hk) as Hres. rewrite E in Hres. cbn [snd] in Hres.
      assert (Hdb : DurInv (c_db c2) (f_due s) /\ grows (c_db (f_c s)) (c_db c2)).
      { destruct Heff as [Ed|[_ [_ [_ [_ [T5 [T0 Hfr]]]]]]]; [rewrite Ed; split; [exact HD|apply grows_refl]|].
        apply (DurInv_add _ _ _ t l 0); try exact HD; try apply HI'.
        - intros k x. rewrite (Rrow_app _ _ _ _ _ _ _ k x T5). tauto.
        - intros k x. rewrite (Prow_ext _ _ k x (Hfr T_pending_appointments ltac:(discriminate) ltac:(discriminate))). split; [tauto|intros [H|[H _]]; [exact H|discriminate]].
        - intros k x. rewrite (Irow_ext _ _ k x (Hfr T_invalid_appointments ltac:(discriminate) ltac:(discriminate))). split; [tauto|intros [H|[H _]]; [exact H|discriminate]].
        - intros k. apply Mrow_ext, Hfr; discriminate.
        - intros k. apply (Trow_map _ _ _ k T0 (upd_slots_key t slots)).
        - tauto. }
      destruct Hdb as [HD2 Hg].
      assert (HM2 : forall k, Mrow (c_db c2) k <-> Mrow (c_db (f_c s)) k).
      { destruct Heff as [Ed|[_ [_ [_ [_ [T5 [T0 Hfr]]]]]]]; [intros k; rewrite Ed; tauto|]. intros k. apply Mrow_ext, Hfr; discriminate. }
      assert (HF2 : FInv (set_c s1 c2)).
      { apply FInv_client_grow; [exact HF1|exact Hp|exact HI'|exact HD2|exact Hst|exact Hret|exact HM2]. }
      intros E2. inversion E2. subst. clear E2.
      split; [exact HF2|]. split; [reflexivity|]. split; [exact Hg|]. split; [apply (knownc_stat _ _ Hst)|].
      intros Ho. destruct Hres as [->|[st0 ->]]; [|discriminate]. split; [exact Hh|]. split; [apply Hg, HTr|].
      intros _. left. apply Hrow; auto.
    + (* a signature of another key: the tower is flagged *)
      destruct (wt_flag_misbehaving_tower (f_c s1) t l START_BLOCK USER_SIG SIG_OTHER (other_id t)) as [c2 r] eqn:E.
      destruct (prim_flag _ _ _ _ _ _ _ _ _ HI Hp E) as [HI' [Hret [Hh Heff]]].
      intros E2. inversion E2. subst. clear E2.
      destruct Heff as [[Ed [Hst Hne]]|[-> [Hp2 [_ [Hst [M1 [EM [ER Hfr]]]]]]]].
      * assert (HF2 : FInv (set_c s1 c2)).
        { apply FInv_client_grow; [exact HF1|exact Hp|exact HI'|rewrite Ed; exact HD|exact Hst|exact Hret|intros k; rewrite Ed; tauto]. }
        split; [exact HF2|]. split; [reflexivity|]. split; [apply grows_eq, Ed|]. split; [apply (knownc_stat _ _ Hst)|].
        intros Ho. exfalso. pose proof (flag_result (f_c s1) t l START_BLOCK USER_SIG SIG_OTHER (other_id t) Hk) as Hr.
        rewrite E in Hr. cbn [snd] in Hr. destruct Hr as [->|[st0 ->]]; [apply Hne; reflexivity|discriminate Ho].
      * assert (EPr : forall k x, Prow (c_db c2) k x <-> Prow (c_db (f_c s)) k x) by (intros; apply Prow_ext, Hfr; discriminate).
        assert (EI : forall k x, Irow (c_db c2) k x <-> Irow (c_db (f_c s)) k x) by (intros; apply Irow_ext, Hfr; discriminate).
        assert (ET : forall k, Trow (c_db c2) k <-> Trow (c_db (f_c s)) k) by (intros; apply Trow_ext, Hfr; discriminate).
        assert (Hg : grows (c_db (f_c s)) (c_db c2)).
        { split; [intros k x H; apply ER; tauto|]. split; [intros k x H; apply EPr; tauto|]. split; [intros k x H; apply EI; tauto|].
          split; [intros k H; apply EM; tauto|]. intros k. symmetry. apply ET. }
        assert (HD2 : DurInv (c_db c2) (f_due s)).
        { destruct HD as [_ [U E0]]. split; [apply HI'|]. split.
          - intros k x Hm. assert (Hkt : k <> t) by (intros ->; apply Hm, EM; tauto).
            assert (Hm0 : ~ Mrow (c_db (f_c s)) k) by (intros H; apply Hm, EM; tauto).
            unfold excl3. rewrite !ER, !EPr, !EI. destruct (U k x Hm0) as [A [B C]]. tauto.
          - intros k x Hin. destruct (E0 k x Hin) as [A B]. split; [apply ET, A|]. intros Hm.
            assert (Hm0 : ~ Mrow (c_db (f_c s)) k) by (intros H; apply Hm, EM; tauto). rewrite ER, EPr, EI. specialize (B Hm0). tauto. }
        assert (HF2 : FInv (set_c s1 c2)).
        { apply FInv_client; [exact HF1|exact HI'|exact HD2|]. intros _. split; [exact Hp|]. split; [|split; [|exact Hret]].
          - intros k Hk'. apply EM. rewrite Hst in Hk'. destruct (N.eqb k t) eqn:Ekt; [right; apply N.eqb_eq; exact Ekt|left; apply V1, Hk'].
          - intros k Hk' Hm'. rewrite Hst. destruct (N.eqb k t) eqn:Ekt; [reflexivity|]. apply V2.
            + unfold knownc, amem in *. pose proof (Hst k) as Hs. unfold stat in Hs. rewrite Ekt in Hs. change (f_c s1) with (f_c s) in *.
              destruct (aget (c_towers c2) k), (aget (c_towers (f_c s)) k); cbn in Hs; try discriminate; auto.
            + apply EM in Hm'. destruct Hm' as [H|H]; [exact H|]. apply N.eqb_neq in Ekt. contradiction. }
        split; [exact HF2|]. split; [reflexivity|]. split; [exact Hg|]. split.
        { intros k. unfold knownc, amem. specialize (Hst k). unfold stat in Hst. change (f_c s1) with (f_c s) in *. cbn [f_c set_c wr_c]. destruct (N.eqb k t) eqn:Ekt.
          - apply N.eqb_eq in Ekt. subst k. unfold knownc, amem in Hk. destruct (aget (c_towers c2) t), (aget (c_towers (f_c s)) t); cbn in Hst; try discriminate; intuition congruence.
          - destruct (aget (c_towers c2) k), (aget (c_towers (f_c s)) k); cbn in Hst; try discriminate; intuition congruence. }
        intros _. split; [exact Hp2|]. split; [apply ET, HTr|]. intros Hm. exfalso. apply Hm, EM. tauto.
    + (* undecodable signature: the request failed: pending, status, retrier *)
      intros E. set (s2 := set_c s1 (wt_set_tower_status (f_c s1) t TemporaryUnreachable)) in *.
      assert (HF2 : FInv s2) by (apply FInv_set_status; [exact HF1|exact Hp|discriminate]).
      assert (Ed2 : c_db (f_c s2) = c_db (f_c s)) by (apply DbInv_set_status).
      assert (Hp2 : poisoned s2 = false) by (unfold s2, poisoned; cbn [f_c set_c]; rewrite poisoned_set_status; exact Hp).
      assert (Hk2 : knownc (f_c s2) t) by (apply knownc_set_status; exact Hk).
      destruct (FInv_rev_pend s2 l t true s' o HF2 Hp2 Hk2) as [HF' [Hdue [Hg [Hst' Hok]]]]; try (rewrite Ed2; tauto); [exact E|].
      split; [exact HF'|]. split; [exact Hdue|]. split; [rewrite <- Ed2; exact Hg|]. split.
      { intros k. rewrite (knownc_stat _ _ Hst' k). apply knownc_set_status. }
      intros Ho. destruct (Hok Ho) as [Hrow Hpo]. split; [exact Hpo|]. split; [apply Hg; rewrite Ed2; exact HTr|]. intros _. right. left. exact Hrow.
    + (* connection error: the request failed: pending, status, retrier *)
      intros E. set (s2 := set_c s1 (wt_set_tower_status (f_c s1) t TemporaryUnreachable)) in *.
      assert (HF2 : FInv s2) by (apply FInv_set_status; [exact HF1|exact Hp|discriminate]).
      assert (Ed2 : c_db (f_c s2) = c_db (f_c s)) by (apply DbInv_set_status).
      assert (Hp2 : poisoned s2 = false) by (unfold s2, poisoned; cbn [f_c set_c]; rewrite poisoned_set_status; exact Hp).
      assert (Hk2 : knownc (f_c s2) t) by (apply knownc_set_status; exact Hk).
      destruct (FInv_rev_pend s2 l t true s' o HF2 Hp2 Hk2) as [HF' [Hdue [Hg [Hst' Hok]]]]; try (rewrite Ed2; tauto); [exact E|].
      split; [exact HF'|]. split; [exact Hdue|]. split; [rewrite <- Ed2; exact Hg|]. split.
      { intros k. rewrite (knownc_stat _ _ Hst' k). apply knownc_set_status. }
      intros Ho. destruct (Hok Ho) as [Hrow Hpo]. split; [exact Hpo|]. split; [apply Hg; rewrite Ed2; exact HTr|]. intros _. right. left. exact Hrow.
    + (* undecodable body: the request failed: pending, status, retrier *)
      intros E. set (s2 := set_c s1 (wt_set_tower_status (f_c s1) t TemporaryUnreachable)) in *.
      assert (HF2 : FInv s2) by (apply FInv_set_status; [exact HF1|exact Hp|discriminate]).
      assert (Ed2 : c_db (f_c s2) = c_db (f_c s)) by (apply DbInv_set_status).
      assert (Hp2 : poisoned s2 = false) by (unfold s2, poisoned; cbn [f_c set_c]; rewrite poisoned_set_status; exact Hp).
      assert (Hk2 : knownc (f_c s2) t) by (apply knownc_set_status; exact Hk).
      destruct (FInv_rev_pend s2 l t true s' o HF2 Hp2 Hk2) as [HF' [Hdue [Hg [Hst' Hok]]]]; try (rewrite Ed2; tauto); [exact E|].
      split; [exact HF'|]. split; [exact Hdue|]. split; [rewrite <- Ed2; exact Hg|]. split.
      { intros k. rewrite (knownc_stat _ _ Hst' k). apply knownc_set_status. }
      intros Ho. destruct (Hok Ho) as [Hrow Hpo]. split; [exact Hpo|]. split; [apply Hg; rewrite Ed2; exact HTr|]. intros _. right. left. exact Hrow.
    + (* unexpected: the request failed: pending, status, retrier *)
      intros E. set (s2 := set_c s1 (wt_set_tower_status (f_c s1) t TemporaryUnreachable)) in *.
      assert (HF2 : FInv s2) by (apply FInv_set_status; [exact HF1|exact Hp|discriminate]).
      assert (Ed2 : c_db (f_c s2) = c_db (f_c s)) by (apply DbInv_set_status).
      assert (Hp2 : poisoned s2 = false) by (unfold s2, poisoned; cbn [f_c set_c]; rewrite poisoned_set_status; exact Hp).
      assert (Hk2 : knownc (f_c s2) t) by (apply knownc_set_status; exact Hk).
      destruct (FInv_rev_pend s2 l t true s' o HF2 Hp2 Hk2) as [HF' [Hdue [Hg [Hst' Hok]]]]; try (rewrite Ed2; tauto); [exact E|].
      split; [exact HF'|]. split; [exact Hdue|]. split; [rewrite <- Ed2; exact Hg|]. split.
      { intros k. rewrite (knownc_stat _ _ Hst' k). apply knownc_set_status. }
      intros Ho. destruct (Hok Ho) as [Hrow Hpo]. split; [exact Hpo|]. split; [apply Hg; rewrite Ed2; exact HTr|]. intros _. right. left. exact Hrow.
    + (* subscription error: the request failed: pending, status, retrier *)
      intros E. set (s2 := set_c s1 (wt_set_tower_status (f_c s1) t SubscriptionError)) in *.
      assert (HF2 : FInv s2) by (apply FInv_set_status; [exact HF1|exact Hp|discriminate]).
      assert (Ed2 : c_db (f_c s2) = c_db (f_c s)) by (apply DbInv_set_status).
      assert (Hp2 : poisoned s2 = false) by (unfold s2, poisoned; cbn [f_c set_c]; rewrite poisoned_set_status; exact Hp).
      assert (Hk2 : knownc (f_c s2) t) by (apply knownc_set_status; exact Hk).
      destruct (FInv_rev_pend s2 l t true s' o HF2 Hp2 Hk2) as [HF' [Hdue [Hg [Hst' Hok]]]]; try (rewrite Ed2; tauto); [exact E|].
      split; [exact HF'|]. split; [exact Hdue|]. split; [rewrite <- Ed2; exact Hg|]. split.
      { intros k. rewrite (knownc_stat _ _ Hst' k). apply knownc_set_status. }
      intros Ho. destruct (Hok Ho) as [Hrow Hpo]. split; [exact Hpo|]. split; [apply Hg; rewrite Ed2; exact HTr|]. intros _. right. left. exact Hrow.
    + (* rejected: invalid *)
      destruct (wt_add_invalid_appointment (f_c s1) t l BLOB DELAY) as [c2 r] eqn:E.
      destruct (prim_add_invalid _ _ _ _ _ _ _ HI Hp E) as [HI' [Hret [Hst [Hh [Heff Hrow]]]]].
      pose proof (add_invalid_result (f_c s1) t l BLOB DELAY Hk) as Hres. rewrite E in Hres. cbn [snd] in Hres.
      assert (Hdb : DurInv (c_db c2) (f_due s) /\ grows (c_db (f_c s)) (c_db c2)).
      { destruct Heff as [Ed|[_ [_ [_ [T3 Hfr]]]]]; [rewrite Ed; split; [exact HD|apply grows_refl]|].
        apply (DurInv_add _ _ _ t l 2); try exact HD; try apply HI'.
        - intros k x. rewrite (Rrow_ext _ _ k x (Hfr T_appointment_receipts ltac:(discriminate) ltac:(discriminate))). split; [tauto|intros [H|[H _]]; [exact H|discriminate]].
        - intros k x. rewrite (Prow_ext _ _ k x (Hfr T_pending_appointments ltac:(discriminate) ltac:(discriminate))). split; [tauto|intros [H|[H _]]; [exact H|discriminate]].
        - intros k x. rewrite (Irow_app _ _ _ _ k x T3). tauto.
        - intros k. apply Mrow_ext, Hfr; discriminate.
        - intros k. apply Trow_ext, Hfr; discriminate.
        - tauto. }
      destruct Hdb as [HD2 Hg].
      assert (HM2 : forall k, Mrow (c_db c2) k <-> Mrow (c_db (f_c s)) k).
      { destruct Heff as [Ed|[_ [_ [_ [T3 Hfr]]]]]; [intros k; rewrite Ed; tauto|]. intros k. apply Mrow_ext, Hfr; discriminate. }
      assert (HF2 : FInv (set_c s1 c2)).
      { apply FInv_client_grow; [exact HF1|exact Hp|exact HI'|exact HD2|exact Hst|exact Hret|exact HM2]. }
      intros E2. inversion E2. subst. clear E2.
      split; [exact HF2|]. split; [reflexivity|]. split; [exact Hg|]. split; [apply (knownc_stat _ _ Hst)|].
      intros Ho. destruct Hres as [->|[st0 ->]]; [|discriminate]. split; [exact Hh|]. split; [apply Hg, HTr|].
      intros _. right. right. apply Hrow; auto.
  - destruct (is_misbehaving st) eqn:Emis.
    + intros E. inversion E. subst. split; [exact HF|]. split; [reflexivity|]. split; [apply grows_refl|]. split; [tauto|].
      intros _. split; [exact Hp|]. split; [exact HTr|]. intros Hm. exfalso. apply Hm, Hsnap. destruct st; try discriminate. reflexivity.
    + intros E.
      destruct (FInv_rev_pend s l t (negb (is_unreachable st)) s' o HF Hp Hk) as [HF' [Hdue [Hg [Hst' Hok]]]]; try tauto.
      split; [exact HF'|]. split; [exact Hdue|]. split; [exact Hg|]. split; [apply (knownc_stat _ _ Hst')|].
      intros Ho. destruct (Hok Ho) as [Hrow Hpo]. split; [exact Hpo|]. split; [apply Hg; exact HTr|]. intros _. right. left. exact Hrow.
Qed.


Lemma towers_snapshot_In c t st : In (t, st) (towers_snapshot c) -> stat c t = Some st.
Proof.
  unfold towers_snapshot. rewrite in_flat_map. intros [k [_ H]]. unfold stat.
  destruct (aget (c_towers c) k) as [su|] eqn:E; [|contradiction]. destruct H as [H|[]]. inversion H. subst. rewrite E. reflexivity.
Qed.

Lemma reorder_towers_In order snap t st : In (t, st) (reorder_towers order snap) -> In (t, st) snap.
Proof.
  unfold reorder_towers. intros H. apply in_app_or in H. destruct H as [H|H].
  - apply in_flat_map in H. destruct H as [k [_ H]]. destruct (aget snap k) as [x|] eqn:E; [|contradiction].
    destruct H as [H|[]]. inversion H. subst. apply aget_In, E.
  - apply filter_In in H. tauto.
Qed.

Definition recd (d : db) (t l : N) : Prop := Trow d t /\ (~ Mrow d t -> Rrow d t l \/ Prow d t l \/ Irow d t l).
Lemma recd_grows d d' t l : grows d d' -> recd d t l -> recd d' t l.
Proof.
  intros [G1 [G2 [G3 [G4 G5]]]] [A B]. split; [apply G5, A|]. intros Hm.
  assert (Hm0 : ~ Mrow d t) by (intros H; apply Hm, G4, H). destruct (B Hm0) as [H|[H|H]]; auto.
Qed.

Lemma FInv_rev_loop l replies : forall snap s s' o,
  FInv s ->
  (forall t st, In (t, st) snap -> knownc (f_c s) t /\ (st = Misbehaving -> Mrow (c_db (f_c s)) t)) ->
  rev_loop s l snap replies = (s', o) ->
  FInv s' /\ f_due s' = f_due s /\ grows (c_db (f_c s)) (c_db (f_c s')) /\
  (o = None -> forall t st, In (t, st) snap -> recd (c_db (f_c s')) t l).
Proof.
  induction snap as [|[t st] snap IH]; intros s s' o HF Hsn E; cbn [rev_loop] in E.
  - inversion E. subst. split; [exact HF|]. split; [reflexivity|]. split; [apply grows_refl|]. intros _ t st [].
  - destruct (rev_tower s l t st (reply_for replies t)) as [s1 o1] eqn:E1.
    destruct (Hsn t st (or_introl eq_refl)) as [Hk Hm].
    destruct (FInv_rev_tower s l t st _ s1 o1 HF Hk Hm E1) as [HF1 [Hd1 [Hg1 [Hkn1 Hok1]]]].
    destruct o1 as [site|].
    + inversion E. subst. split; [exact HF1|]. split; [exact Hd1|]. split; [exact Hg1|]. intros H0; discriminate H0.
    + assert (Hsn1 : forall t0 st0, In (t0, st0) snap -> knownc (f_c s1) t0 /\ (st0 = Misbehaving -> Mrow (c_db (f_c s1)) t0)).
      { intros t0 st0 Hin. destruct (Hsn t0 st0 (or_intror Hin)) as [A B]. split; [apply Hkn1, A|]. intros H. apply Hg1, B, H. }
      destruct (IH s1 s' o HF1 Hsn1 E) as [HF' [Hd' [Hg' Hok']]].
      split; [exact HF'|]. split; [congruence|]. split; [eapply grows_trans; eassumption|].
      intros Ho t0 st0 [Heq|Hin].
      * inversion Heq. subst. apply (recd_grows _ _ _ _ Hg'). destruct (Hok1 eq_refl) as [_ [A B]]. split; assumption.
      * eapply Hok'; eauto.
Qed.

Lemma In_fold_due_add l : forall snap (d : list (N * N)) t x,
  In (t, x) (fold_left (fun d kv => due_add d (fst kv, l)) snap d) <->
  In (t, x) d \/ (x = l /\ exists st : tower_status, In (t, st) snap).
Proof.
  induction snap as [|[k st] snap IH]; intros d t x; cbn [fold_left].
  - split; [tauto|]. intros [H|[_ [st []]]]. exact H.
  - rewrite IH. cbn [fst]. unfold due_add. split.
    + intros [H|[-> [st0 H]]].
      * destruct (existsb (pairN_eqb (k, l)) d); [left; exact H|]. apply in_app_or in H. destruct H as [H|[H|[]]]; [left; exact H|].
        inversion H. subst. right. split; [reflexivity|]. exists st. left. reflexivity.
      * right. split; [reflexivity|]. exists st0. right. exact H.
    + intros [H|[-> [st0 [H|H]]]].
      * left. destruct (existsb (pairN_eqb (k, l)) d); [exact H|]. apply in_or_app. left. exact H.
      * inversion H. subst. left. destruct (existsb (pairN_eqb (t, l)) d) eqn:Ee.
        -- apply existsb_exists in Ee. destruct Ee as [[a b] [Hin Heq]]. unfold pairN_eqb in Heq. cbn in Heq.
           apply andb_true_iff in Heq. destruct Heq as [H1 H2]. apply N.eqb_eq in H1, H2. subst. exact Hin.
        -- apply in_or_app. right. left. reflexivity.
      * right. split; [reflexivity|]. exists st0. exact H.
Qed.

Lemma FInv_revocation s l order replies : FInv s -> FInv (fst (f_revocation s l order replies)).
Proof.
  intros HF. unfold f_revocation. destruct (poisoned s) eqn:Hp; [exact HF|].
  set (snap := reorder_towers order (towers_snapshot (f_c s))).
  assert (Hsn : forall t st, In (t, st) snap -> knownc (f_c s) t /\ (st = Misbehaving -> Mrow (c_db (f_c s)) t)).
  { intros t st Hin. apply reorder_towers_In, towers_snapshot_In in Hin. destruct HF as [_ [_ [HV _]]]. destruct (HV Hp) as [V1 _].
    split; [|intros ->; apply V1, Hin]. unfold knownc, amem. unfold stat in Hin. destruct (aget (c_towers (f_c s)) t); [reflexivity|discriminate]. }
  destruct (rev_loop s l snap replies) as [s1 o] eqn:E.
  destruct (FInv_rev_loop l replies snap s s1 o HF Hsn E) as [HF1 [Hd1 [Hg1 Hok]]].
  destruct o as [site|]; cbn [fst]; [exact HF1|].
  destruct HF1 as [HI [HD [HV HT]]]. split; [exact HI|]. split; [|split; [exact HV|exact HT]].
  cbn [f_c f_due set_due]. destruct HD as [HDb [U E0]]. split; [exact HDb|]. split; [exact U|].
  intros t x Hin. apply In_fold_due_add in Hin. destruct Hin as [Hin|[-> [st Hin]]]; [apply E0, Hin|].
  apply (Hok eq_refl t st Hin).
Qed.

(* ---- the retry manager ---- *)
Lemma Inv_with_retriers c m : Inv c -> Inv (with_retriers c m).
Proof. intros H. exact H. Qed.

Lemma retrier_pending_put s t r k : retrier_pending (put_retrier s t r) k = if N.eqb k t then r_pending r else retrier_pending s k.
Proof. unfold retrier_pending, put_retrier, set_mgr. cbn [f_mgr]. rewrite aget_aset. destruct (N.eqb k t); reflexivity. Qed.

(* replacing the retrier of tower t (the client untouched) *)
Lemma FInv_put s t r :
  FInv s ->
  (poisoned s = false -> r_status r = RRunning -> aget (c_retriers (f_c s)) t = Some RRunning) ->
  (poisoned s = false -> NoDup (r_pending r)) ->
  TaskInv (put_retrier s t r) ->
  FInv (put_retrier s t r).
Proof.
  intros [HI [HD [HV HT]]] H2 H3 HT'. split; [exact HI|]. split; [exact HD|]. split; [|exact HT'].
  intros Hp. change (poisoned (put_retrier s t r)) with (poisoned s) in Hp. destruct (HV Hp) as [V1 [V2 [V4 V5]]].
  split; [exact V1|]. split; [exact V2|]. split.
  - intros k r0 Hk. unfold put_retrier, set_mgr in Hk. cbn [f_mgr] in Hk. rewrite aget_aset in Hk. destruct (N.eqb k t).
    + inversion Hk. subst. exact (H3 Hp).
    + eapply V4, Hk.
  - intros k Hk. rewrite rstat_put in Hk. change (f_c (put_retrier s t r)) with (f_c s). destruct (N.eqb k t) eqn:E.
    + apply N.eqb_eq in E. subst k. assert (Hs : r_status r = RRunning) by congruence. apply (H2 Hp Hs).
    + apply V5, Hk.
Qed.

(* taking the head of the channel away *)
Lemma FInv_pop s t data rest : FInv s -> f_chan s = (t, data) :: rest -> FInv (set_chan s rest).
Proof. intros HF _. apply (FInv_core s); auto. Qed.

Lemma FInv_kill_mgr s : FInv s -> FInv (kill_mgr s).
Proof. apply FInv_core; reflexivity. Qed.

Lemma FInv_wake s t r :
  FInv s -> poisoned s = false -> aget (f_mgr s) t = Some r -> r_status r = RIdle -> FInv (wake s t r).
Proof.
  intros HF Hp Hr Hi. unfold wake.
  set (c1 := with_retriers (f_c s) (aremove (c_retriers (f_c s)) t)).
  assert (HF1 : FInv (set_c s c1)).
  { pose proof HF as [HI [HD [HV HT]]]. destruct (HV Hp) as [V1 [V2 [V4 V5]]].
    split; [exact HI|]. split; [exact HD|]. split; [|exact HT]. intros _.
    split; [exact V1|]. split; [exact V2|]. split; [exact V4|].
    intros k Hk. cbn [f_c set_c c_retriers with_retriers c1]. unfold c1. cbn [c_retriers with_retriers]. rewrite aget_aremove.
    destruct (N.eqb k t) eqn:E; [|apply V5, Hk]. apply N.eqb_eq in E. subst k. unfold rstat in Hk. cbn [f_mgr set_c] in Hk. rewrite Hr in Hk. cbn in Hk. congruence. }
  pose proof HF as [HI [_ [HV _]]]. destruct (HV Hp) as [_ [_ [V4 _]]].
  apply FInv_put; [exact HF1| | |].
  - intros _ H. discriminate H.
  - intros _. cbn [r_pending]. apply NoDup_set_union. eapply V4, Hr.
  - apply TaskInv_put_not_task; [apply HF1|]. cbn. eapply not_task_if_not_running; [apply HF|exact Hr|congruence].
Qed.

(* the receive branch: `s0` is the state with the message already taken from the channel *)
Lemma FInv_add_pending s0 t locs :
  FInv s0 -> poisoned s0 = false -> NoDup locs -> FInv (add_pending_appointments s0 t locs).
Proof.
  intros HF Hp H2. unfold add_pending_appointments.
  pose proof HF as [HI [HD [HV HT]]]. destruct (HV Hp) as [V1 [V2 [V4 V5]]].
  destruct (aget (f_mgr s0) t) as [r|] eqn:Er.
  - apply FInv_put; [exact HF| | |].
    + intros _ Hs. cbn [r_status r_pending] in *. apply V5. unfold rstat. rewrite Er. cbn. congruence.
    + intros _. cbn [r_pending]. apply NoDup_set_union. eapply V4, Er.
    + eapply TaskInv_put_same_status; [exact HT|exact Er|reflexivity].
  - apply FInv_put; [exact HF| | |].
    + intros _ Hs. discriminate Hs.
    + intros _. exact H2.
    + apply TaskInv_put_not_task; [exact HT|]. apply not_task_if_absent; assumption.
Qed.

Lemma FInv_mgr_receive s t data rest :
  FInv s -> f_chan s = (t, data) :: rest -> FInv (fst (mgr_receive (set_chan s rest) t data)).
Proof.
  intros HF Ec. pose proof (FInv_pop s t data rest HF Ec) as HF0. set (s0 := set_chan s rest) in *.
  unfold mgr_receive. destruct (poisoned s0) eqn:Hp; [apply FInv_kill_mgr, HF0|].
  destruct (negb (amem (c_towers (f_c s0)) t)) eqn:Ek; [exact HF0|].
  destruct (aget (f_mgr s0) t) as [r|] eqn:Er.
  - destruct (is_idle (r_status r)) eqn:Ei.
    + destruct (rdata_is_none data); cbn [fst]; [|exact HF0].
      apply FInv_wake; [exact HF0|exact Hp|exact Er|]. destruct (r_status r); try discriminate. reflexivity.
    + cbn [fst]. apply FInv_add_pending; [exact HF0|exact Hp|apply NoDup_rdata_set].
  - cbn [fst]. apply FInv_add_pending; [exact HF0|exact Hp|apply NoDup_rdata_set].
Qed.

(* the Empty branch *)
Lemma retrier_pending_retain s k :
  retrier_pending (retain_state s) k = if retrier_kept s k then retrier_pending s k else [].
Proof. unfold retrier_pending, retain_state, set_mgr. cbn [f_mgr]. rewrite aget_aretain. destruct (retrier_kept s k); reflexivity. Qed.

Lemma rstat_retain s k : rstat (retain_state s) k = if retrier_kept s k then rstat s k else None.
Proof. unfold rstat, retain_state, set_mgr. cbn [f_mgr]. rewrite aget_aretain. destruct (retrier_kept s k); reflexivity. Qed.

Lemma FInv_retain s : FInv s -> FInv (retain_state s).
Proof.
  intros [HI [HD [HV HT]]]. split; [exact HI|]. split; [exact HD|]. split; [|apply TaskInv_retain, HT].
  intros Hp. change (poisoned (retain_state s)) with (poisoned s) in Hp. destruct (HV Hp) as [V1 [V2 [V4 V5]]].
  split; [exact V1|]. split; [exact V2|]. split.
  - intros k r Hk. unfold retain_state, set_mgr in Hk. cbn [f_mgr] in Hk. rewrite aget_aretain in Hk.
    destruct (retrier_kept s k); [eapply V4, Hk|discriminate].
  - intros k Hk. rewrite rstat_retain in Hk. destruct (retrier_kept s k) eqn:Ek; [|discriminate].
    unfold retain_state. cbn [f_c set_mgr set_c c_retriers with_retriers]. rewrite aget_aretain.
    unfold retrier_failed. unfold rstat in Hk. destruct (aget (f_mgr s) k) as [r|] eqn:Er; [|discriminate]. cbn in Hk. inversion Hk as [Hs].
    rewrite Hs. cbn. apply V5. unfold rstat. rewrite Er. cbn. congruence.
Qed.

Lemma FInv_set_tasks x ts : FInv x -> TaskInv (set_tasks x ts) -> FInv (set_tasks x ts).
Proof. intros [HI [HD [HV _]]] HT. split; [exact HI|]. split; [exact HD|]. split; [exact HV|exact HT]. Qed.

Lemma FInv_retrier_start s t r s' o :
  FInv s -> aget (f_mgr s) t = Some r -> should_start r = true -> poisoned s = false ->
  retrier_start s t r = (s', o) -> FInv s' /\ f_chan s' = f_chan s /\ o = None /\ poisoned s' = false.
Proof.
  intros HF Er Hss Hp E.
  assert (Hstop : r_status r = RStopped).
  { unfold should_start in Hss. apply andb_true_iff in Hss. destruct Hss as [Hss _]. destruct (r_status r); try discriminate. reflexivity. }
  pose proof HF as [HI [HD [HV HT]]]. destruct (HV Hp) as [V1 [V2 [V4 V5]]].
  assert (Hfail : FInv (put_retrier s t {| r_status := RFailed; r_pending := r_pending r |})).
  { apply FInv_put; [exact HF| | |].
    - intros _ H. discriminate H.
    - intros _. cbn [r_pending]. eapply V4, Er.
    - apply TaskInv_put_not_task; [exact HT|]. eapply not_task_if_not_running; [exact HT|exact Er|congruence]. }
  revert E. unfold retrier_start. destruct (aget (c_towers (f_c s)) t) as [su|] eqn:Et.
  2:{ intros E. inversion E. subst s' o. split; [exact Hfail|split; [reflexivity|split; [reflexivity|exact Hp]]]. }
  destruct (is_misbehaving (su_status su)) eqn:Emis.
  { intros E. inversion E. subst s' o. split; [exact Hfail|split; [reflexivity|split; [reflexivity|exact Hp]]]. }
  intros E. inversion E. subst s' o. clear E. split; [|split; [reflexivity|split; [reflexivity|]]].
  2:{ unfold poisoned in *. cbn [f_c set_tasks put_retrier set_mgr set_c c_poisoned with_retriers].
      destruct (is_subscription_error (su_status su)); [exact Hp|]. rewrite poisoned_set_status. exact Hp. }
  set (c1 := if is_subscription_error (su_status su) then f_c s else wt_set_tower_status (f_c s) t TemporaryUnreachable).
  assert (HF1 : FInv (set_c s c1) /\ c_retriers c1 = c_retriers (f_c s)).
  { unfold c1. destruct (is_subscription_error (su_status su)).
    - split; [apply (FInv_core s); auto|reflexivity].
    - split; [apply FInv_set_status; [exact HF|exact Hp|discriminate]|apply retriers_set_status]. }
  destruct HF1 as [HF1 Hret1].
  set (c2 := with_retriers c1 (aset (c_retriers c1) t RRunning)).
  assert (HF2 : FInv (set_c s c2)).
  { destruct HF1 as [HI1 [HD1 [HV1 HT1]]]. split; [exact HI1|]. split; [exact HD1|]. split; [|exact HT1].
    intros Hp2. destruct (HV1 Hp2) as [W1 [W2 [W4 W5]]]. split; [exact W1|]. split; [exact W2|]. split; [exact W4|].
    intros k Hk. cbn [f_c set_c c2 c_retriers with_retriers]. unfold c2. cbn [c_retriers with_retriers]. rewrite aget_aset.
    destruct (N.eqb k t); [reflexivity|]. apply W5, Hk. }
  apply FInv_set_tasks.
  + apply FInv_put; [exact HF2| | |].
    * intros _ _. cbn [f_c set_c]. unfold c2. cbn [c_retriers with_retriers]. apply aget_aset_same.
    * intros _. cbn [r_pending]. eapply V4, Er.
    * apply TaskInv_put_not_task; [apply HF2|]. cbn. eapply not_task_if_not_running; [exact HT|exact Er|congruence].
  + assert (Es : retrier_start s t r = (set_tasks (put_retrier (set_c s c2) t {| r_status := RRunning; r_pending := r_pending r |}) (f_tasks s ++ [t]), None)).
    { unfold retrier_start. rewrite Et, Emis. reflexivity. }
    exact (TaskInv_start s t r _ HT Er Hstop Es).
Qed.

Lemma FInv_sweep elapsed : forall keys s started woke,
  FInv s -> poisoned s = false -> FInv (fst (fst (fst (sweep s keys elapsed started woke)))).
Proof.
  induction keys as [|t keys IH]; intros s started woke HF Hp; cbn [sweep]; [exact HF|].
  destruct (aget (f_mgr s) t) as [r|] eqn:Er; [|apply IH; assumption].
  destruct (should_start r) eqn:Ess.
  - destruct (retrier_start s t r) as [s1 o] eqn:Es.
    destruct (FInv_retrier_start s t r s1 o HF Er Ess Hp Es) as [HF1 [_ [-> Hp1]]].
    apply IH; auto.
  - destruct (is_idle (r_status r) && memN t elapsed) eqn:Ei; [|apply IH; assumption].
    apply IH; [|exact Hp]. apply FInv_wake; [exact HF|exact Hp|exact Er|].
    apply andb_true_iff in Ei. destruct Ei as [Ei _]. destruct (r_status r); try discriminate. reflexivity.
Qed.

(* nothing to start and nothing to wake: the loop leaves the state alone *)
Lemma sweep_noop elapsed : forall keys s started woke,
  (forall k r, In k keys -> aget (f_mgr s) k = Some r -> should_start r || (is_idle (r_status r) && memN k elapsed) = false) ->
  sweep s keys elapsed started woke = (s, started, woke, None).
Proof.
  induction keys as [|t keys IH]; intros s started woke H; cbn [sweep]; [reflexivity|].
  destruct (aget (f_mgr s) t) as [r|] eqn:Er.
  - specialize (H t r (or_introl eq_refl) Er) as Hb. apply orb_false_iff in Hb. destruct Hb as [-> ->].
    apply IH. intros k r0 Hk. apply H. right. exact Hk.
  - apply IH. intros k r0 Hk. apply H. right. exact Hk.
Qed.

Lemma FInv_mgr_sweep s elapsed : FInv s -> FInv (fst (mgr_sweep s elapsed)).
Proof.
  intros HF. unfold mgr_sweep.
  match goal with |- context [if ?b then _ else _] => destruct b end; [apply FInv_kill_mgr, HF|]. cbv zeta.
  pose proof (FInv_retain s HF) as HF1.
  destruct (poisoned (retain_state s)) eqn:Hp; cbn [andb].
  - (* poisoned: the loop runs only when there is nothing to do *)
    match goal with |- context [if ?b then _ else _] => destruct b eqn:Etodo end; [apply FInv_kill_mgr, HF1|].
    rewrite sweep_noop; [exact HF1|]. intros k r Hk Hr.
    destruct (should_start r || is_idle (r_status r) && memN k elapsed) eqn:Eb; [|reflexivity].
    assert (existsb (fun kv : N * retrier => should_start (snd kv) || is_idle (r_status (snd kv)) && memN (fst kv) elapsed) (f_mgr (retain_state s)) = true); [|congruence].
    apply existsb_exists. exists (k, r). split; [apply aget_In, Hr|exact Eb].
  - pose proof (FInv_sweep elapsed (map fst (f_mgr (retain_state s))) (retain_state s) [] [] HF1 Hp) as H.
    destruct (sweep (retain_state s) (map fst (f_mgr (retain_state s))) elapsed [] []) as [[[s2 st] wk] [site|]]; exact H.
Qed.

Lemma FInv_manager_tick s elapsed : FInv s -> FInv (fst (f_manager_tick s elapsed)).
Proof.
  intros HF. unfold f_manager_tick. destruct (f_mgr_dead s); [exact HF|].
  destruct (f_chan s) as [|[t data] rest] eqn:Ec.
  - apply FInv_mgr_sweep; assumption.
  - apply (FInv_mgr_receive s t data rest HF Ec).
Qed.

(* ---- the retry task ---- *)
Lemma Prow_remove d d' t l :
  (forall x, In x (tbl d' T_pending_appointments) <->
             In x (tbl d T_pending_appointments) /\ proj x [C_pending_appointments_locator; C_pending_appointments_tower_id] <> [l; t]) ->
  forall k x, Prow d' k x <-> Prow d k x /\ ~ (k = t /\ x = l).
Proof.
  intros H k x. unfold Prow. split.
  - intros [row [A [B C]]]. apply H in A. destruct A as [A1 A2]. split; [exists row; auto|].
    intros [-> ->]. apply A2. rewrite proj2_col, B, C. reflexivity.
  - intros [[row [A [B C]]] Hn]. exists row. split; [|auto]. apply H. split; [exact A|].
    intros E. rewrite proj2_col in E. inversion E. apply Hn. split; congruence.
Qed.

Lemma retrier_pending_drop s t l k :
  retrier_pending (retrier_drop s t l) k = if N.eqb k t then set_remove l (retrier_pending s t) else retrier_pending s k.
Proof.
  unfold retrier_drop. destruct (aget (f_mgr s) t) as [r|] eqn:E.
  - rewrite retrier_pending_put. cbn [r_pending]. unfold retrier_pending at 2. rewrite E. reflexivity.
  - destruct (N.eqb k t) eqn:Ek; [|reflexivity]. apply N.eqb_eq in Ek. subst. unfold retrier_pending. rewrite E. reflexivity.
Qed.

Lemma FInv_retrier_drop s t l : FInv s -> FInv (retrier_drop s t l).
Proof.
  intros HF. unfold retrier_drop. destruct (aget (f_mgr s) t) as [r|] eqn:Er; [|exact HF].
  pose proof HF as [HI [HD [HV HT]]].
  apply FInv_put; [exact HF| | |].
  - intros Hp Hs. cbn [r_status r_pending] in *. destruct (HV Hp) as [_ [_ [_ V5]]]. apply V5. unfold rstat. rewrite Er. cbn. congruence.
  - intros Hp. cbn [r_pending]. apply NoDup_set_remove. destruct (HV Hp) as [_ [_ [V4 _]]]. eapply V4, Er.
  - eapply TaskInv_put_same_status; [exact HT|exact Er|reflexivity].
Qed.

(* the two-statement move pending -> accepted (kind 0) / pending -> invalid (kind 2) of a held pending row *)
Lemma DurInv_move d d1 d3 due t l (kind : nat) :
  DbInv d3 -> (kind = 0%nat \/ kind = 2%nat) ->
  Prow d t l ->
  (forall k x, Rrow d1 k x <-> Rrow d k x \/ (kind = 0%nat /\ k = t /\ x = l)) ->
  (forall k x, Irow d1 k x <-> Irow d k x \/ (kind = 2%nat /\ k = t /\ x = l)) ->
  (forall k x, Rrow d3 k x <-> Rrow d1 k x) -> (forall k x, Irow d3 k x <-> Irow d1 k x) ->
  (forall k x, Prow d3 k x <-> Prow d k x /\ ~ (k = t /\ x = l)) ->
  (forall k, Mrow d3 k <-> Mrow d k) -> (forall k, Trow d3 k <-> Trow d k) ->
  DurInv d due -> DurInv d3 due.
Proof.
  intros HD Hkind HP ER EI ER3 EI3 EP EM ET [_ [U E0]]. split; [exact HD|]. split.
  - intros k x Hm. assert (Hm0 : ~ Mrow d k) by (intros H; apply Hm, EM, H). destruct (U k x Hm0) as [A [B C]].
    unfold excl3. rewrite !ER3, !EI3, !ER, !EI, !EP.
    destruct (N.eq_dec k t) as [->|Hk]; [destruct (N.eq_dec x l) as [->|Hx]|].
    + (* the moved pair *) repeat split; try tauto. intros [[H1|[K1 _]] [H2|[K2 _]]]; try tauto; lia.
    + repeat split; tauto.
    + repeat split; tauto.
  - intros k x Hin. destruct (E0 k x Hin) as [A B]. split; [apply ET, A|]. intros Hm.
    assert (Hm0 : ~ Mrow d k) by (intros H; apply Hm, EM, H). specialize (B Hm0). rewrite ER3, EI3, ER, EI, EP.
    destruct (N.eq_dec k t) as [->|Hk]; [destruct (N.eq_dec x l) as [->|Hx]|]; try tauto.
    all: destruct Hkind as [->| ->]; [left|right; right]; right; repeat split; reflexivity.
Qed.

Definition recorded (d : db) (k x : N) : Prop := Rrow d k x \/ Prow d k x \/ Irow d k x.
Definition keeps (d d' : db) : Prop := forall k x, recorded d k x -> recorded d' k x.
Lemma keeps_refl d : keeps d d.  Proof. intros k x H. exact H. Qed.
Lemma keeps_trans a b c : keeps a b -> keeps b c -> keeps a c.
Proof. intros H1 H2 k x H. apply H2, H1, H. Qed.
Lemma keeps_grows d d' : grows d d' -> keeps d d'.
Proof. intros [G1 [G2 [G3 _]]] k x [H|[H|H]]; [left; apply G1, H|right; left; apply G2, H|right; right; apply G3, H]. Qed.

Lemma FInv_move_generic s t l (kind : nat) c2 r2 :
  FInv s -> poisoned s = false -> knownc (f_c s) t -> Prow (c_db (f_c s)) t l ->
  (kind = 0%nat \/ kind = 2%nat) ->
  Inv c2 -> c_retriers c2 = c_retriers (f_c s) -> (forall k, stat c2 k = stat (f_c s) k) -> healthy_or_abort c2 r2 ->
  (r2 = ROk \/ exists st, r2 = RAbort st) ->
  (is_abort r2 = true -> c_db c2 = c_db (f_c s)) ->
  (r2 = ROk ->
     (forall k x, Rrow (c_db c2) k x <-> Rrow (c_db (f_c s)) k x \/ (kind = 0%nat /\ k = t /\ x = l)) /\
     (forall k x, Irow (c_db c2) k x <-> Irow (c_db (f_c s)) k x \/ (kind = 2%nat /\ k = t /\ x = l)) /\
     tbl (c_db c2) T_pending_appointments = tbl (c_db (f_c s)) T_pending_appointments /\
     (forall k, Mrow (c_db c2) k <-> Mrow (c_db (f_c s)) k) /\ (forall k, Trow (c_db c2) k <-> Trow (c_db (f_c s)) k)) ->
  match lift_site r2 with
  | Some _ => FInv (set_c (retrier_drop s t l) c2)
  | None => lift_site (snd (wt_remove_pending_appointment c2 t l)) = None /\
            FInv (set_c (retrier_drop s t l) (fst (wt_remove_pending_appointment c2 t l))) /\
            c_poisoned (fst (wt_remove_pending_appointment c2 t l)) = false /\
            (forall k, stat (fst (wt_remove_pending_appointment c2 t l)) k = stat (f_c s) k) /\
            keeps (c_db (f_c s)) (c_db (fst (wt_remove_pending_appointment c2 t l))) /\
            (forall k x, Prow (c_db (fst (wt_remove_pending_appointment c2 t l))) k x <-> Prow (c_db (f_c s)) k x /\ ~ (k = t /\ x = l))
  end.
Proof.
  intros HF Hp Hk HPl Hkind HI2 Hret2 Hst2 Hh2 Hres2 Habort Hok.
  pose proof HF as [HI [HD [HV HT]]]. destruct (HV Hp) as [V1 [V2 [V4 V5]]].
  pose proof (FInv_retrier_drop s t l HF) as HF2. set (s2 := retrier_drop s t l) in *.
  assert (Ec2 : f_c s2 = f_c s) by (unfold s2, retrier_drop; destruct (aget (f_mgr s) t); reflexivity).
  assert (Ed2 : f_due s2 = f_due s) by (unfold s2, retrier_drop; destruct (aget (f_mgr s) t); reflexivity).
  destruct Hres2 as [->|[st0 ->]]; cbn [lift_site].
  2:{ apply FInv_poisoned_same_db; [exact HF2|exact HI2|rewrite Ec2; apply Habort; reflexivity|exact Hh2]. }
  destruct (Hok eq_refl) as [ER [EI [EPt [EM ET]]]].
  assert (Hp2 : c_poisoned c2 = false) by exact Hh2.
  assert (Hk2 : knownc c2 t) by (apply (knownc_stat _ _ Hst2), Hk).
  assert (HP2 : Prow (c_db c2) t l) by (apply (Prow_ext _ _ t l EPt), HPl).
  destruct (wt_remove_pending_appointment c2 t l) as [c3 r3] eqn:E3. cbn [fst snd].
  destruct (prim_remove_pending _ _ _ _ _ HI2 Hp2 Hk2 HP2 E3) as [HI3 [Hret3 [Hst3 [-> [Hp3 [HPr Hfr]]]]]].
  split; [reflexivity|]. pose proof (Prow_remove _ _ t l HPr) as EP3.
  assert (EP0 : forall k x, Prow (c_db c3) k x <-> Prow (c_db (f_c s)) k x /\ ~ (k = t /\ x = l)).
  { intros k x. rewrite EP3, (Prow_ext _ _ k x EPt). tauto. }
  assert (ER0 : forall k x, Rrow (c_db c3) k x <-> Rrow (c_db c2) k x) by (intros; apply Rrow_ext, Hfr; discriminate).
  assert (EI0 : forall k x, Irow (c_db c3) k x <-> Irow (c_db c2) k x) by (intros; apply Irow_ext, Hfr; discriminate).
  split; [|split; [exact Hp3|split; [intros k; rewrite Hst3; apply Hst2|split; [|exact EP0]]]].
  2:{ intros k x [H|[H|H]].
      - left. apply ER0, ER. left. exact H.
      - destruct (N.eq_dec k t) as [->|Hkt]; [destruct (N.eq_dec x l) as [->|Hxl]|].
        + destruct Hkind as [->| ->]; [left; apply ER0, ER; right; auto|right; right; apply EI0, EI; right; auto].
        + right. left. apply EP0. split; [exact H|]. intros [_ ?]. contradiction.
        + right. left. apply EP0. split; [exact H|]. intros [? _]. contradiction.
      - right. right. apply EI0, EI. left. exact H. }
  assert (EP : forall k x, Prow (c_db c3) k x <-> Prow (c_db (f_c s)) k x /\ ~ (k = t /\ x = l)).
  { intros k x. rewrite EP3, (Prow_ext _ _ k x EPt). tauto. }
  assert (EM3 : forall k, Mrow (c_db c3) k <-> Mrow (c_db (f_c s)) k).
  { intros k. rewrite (Mrow_ext _ _ k (Hfr T_misbehaving_proofs ltac:(discriminate) ltac:(discriminate))). apply EM. }
  apply FInv_client; [exact HF2|exact HI3| |].
  - rewrite Ed2.
    assert (ET3 : forall k, Trow (c_db c3) k <-> Trow (c_db (f_c s)) k).
    { intros k. rewrite (Trow_ext _ _ k (Hfr T_towers ltac:(discriminate) ltac:(discriminate))). apply ET. }
    exact (DurInv_move (c_db (f_c s)) (c_db c2) (c_db c3) (f_due s) t l kind (proj1 HI3) Hkind HPl ER EI ER0 EI0 EP EM3 ET3 HD).
  - intros _. split; [unfold poisoned; rewrite Ec2; exact Hp|]. split; [|split].
    + intros k Hk'. apply EM3, V1. rewrite <- Hst2, <- Hst3. exact Hk'.
    + intros k Hk' Hm'. rewrite Hst3, Hst2.
      apply V2; [apply (knownc_stat _ _ Hst2), (knownc_stat _ _ Hst3), Hk'|apply EM3, Hm'].
    + rewrite Hret3, Hret2, Ec2. reflexivity.
Qed.

Definition RunPre (s : fstate) (t : N) : Prop :=
  FInv s /\ poisoned s = false /\ knownc (f_c s) t /\ rstat s t = Some RRunning.

Definition no_abort (res : option run_res) : Prop := match res with Some (RunAbort _) => False | _ => True end.

Lemma add_receipt_spec_for_move c t l slots c2 r2 :
  Inv c -> c_poisoned c = false -> knownc c t ->
  wt_add_appointment_receipt c t l slots START_BLOCK USER_SIG SIG_TOWER = (c2, r2) ->
  Inv c2 /\ c_retriers c2 = c_retriers c /\ (forall k, stat c2 k = stat c k) /\ healthy_or_abort c2 r2 /\
  (r2 = ROk \/ exists st, r2 = RAbort st) /\ (is_abort r2 = true -> c_db c2 = c_db c) /\
  (r2 = ROk ->
     (forall k x, Rrow (c_db c2) k x <-> Rrow (c_db c) k x \/ (0%nat = 0%nat /\ k = t /\ x = l)) /\
     (forall k x, Irow (c_db c2) k x <-> Irow (c_db c) k x \/ (0%nat = 2%nat /\ k = t /\ x = l)) /\
     tbl (c_db c2) T_pending_appointments = tbl (c_db c) T_pending_appointments /\
     (forall k, Mrow (c_db c2) k <-> Mrow (c_db c) k) /\ (forall k, Trow (c_db c2) k <-> Trow (c_db c) k)).
Proof.
  intros HI Hp Hk E. destruct (prim_add_receipt _ _ _ _ _ _ _ _ _ HI Hp E) as [HI' [Hret [Hst [Hh [Heff Hrow]]]]].
  pose proof (add_receipt_result c t l slots START_BLOCK USER_SIG SIG_TOWER Hk) as Hres. rewrite E in Hres. cbn [snd] in Hres.
  split; [exact HI'|]. split; [exact Hret|]. split; [exact Hst|]. split; [exact Hh|]. split; [exact Hres|]. split.
  - intros Ha. destruct Heff as [Ed|[-> _]]; [exact Ed|discriminate].
  - intros ->. destruct Heff as [Ed|[_ [_ [_ [_ [T5 [T0 Hfr]]]]]]].
    + rewrite Ed. repeat split; try tauto; try (intros [H|[H _]]; [exact H|discriminate]).
      intros [H|[_ [-> ->]]]; [exact H|]. rewrite <- Ed. apply Hrow; auto.
    + split; [intros k x; rewrite (Rrow_app _ _ _ _ _ _ _ k x T5); tauto|].
      split; [intros k x; rewrite (Irow_ext _ _ k x (Hfr T_invalid_appointments ltac:(discriminate) ltac:(discriminate))); split; [tauto|intros [H|[H _]]; [exact H|discriminate]]|].
      split; [apply Hfr; discriminate|]. split; [intros k; apply Mrow_ext, Hfr; discriminate|].
      intros k. apply (Trow_map _ _ _ k T0 (upd_slots_key t slots)).
Qed.

Lemma add_invalid_spec_for_move c t l b dl c2 r2 :
  Inv c -> c_poisoned c = false -> knownc c t ->
  wt_add_invalid_appointment c t l b dl = (c2, r2) ->
  Inv c2 /\ c_retriers c2 = c_retriers c /\ (forall k, stat c2 k = stat c k) /\ healthy_or_abort c2 r2 /\
  (r2 = ROk \/ exists st, r2 = RAbort st) /\ (is_abort r2 = true -> c_db c2 = c_db c) /\
  (r2 = ROk ->
     (forall k x, Rrow (c_db c2) k x <-> Rrow (c_db c) k x \/ (2%nat = 0%nat /\ k = t /\ x = l)) /\
     (forall k x, Irow (c_db c2) k x <-> Irow (c_db c) k x \/ (2%nat = 2%nat /\ k = t /\ x = l)) /\
     tbl (c_db c2) T_pending_appointments = tbl (c_db c) T_pending_appointments /\
     (forall k, Mrow (c_db c2) k <-> Mrow (c_db c) k) /\ (forall k, Trow (c_db c2) k <-> Trow (c_db c) k)).
Proof.
  intros HI Hp Hk E. destruct (prim_add_invalid _ _ _ _ _ _ _ HI Hp E) as [HI' [Hret [Hst [Hh [Heff Hrow]]]]].
  pose proof (add_invalid_result c t l b dl Hk) as Hres. rewrite E in Hres. cbn [snd] in Hres.
  split; [exact HI'|]. split; [exact Hret|]. split; [exact Hst|]. split; [exact Hh|]. split; [exact Hres|]. split.
  - intros Ha. destruct Heff as [Ed|[-> _]]; [exact Ed|discriminate].
  - intros ->. destruct Heff as [Ed|[_ [_ [_ [T3 Hfr]]]]].
    + rewrite Ed. repeat split; try tauto; try (intros [H|[H _]]; [exact H|discriminate]).
      intros [H|[_ [-> ->]]]; [exact H|]. rewrite <- Ed. apply Hrow; auto.
    + split; [intros k x; rewrite (Rrow_ext _ _ k x (Hfr T_appointment_receipts ltac:(discriminate) ltac:(discriminate))); split; [tauto|intros [H|[H _]]; [exact H|discriminate]]|].
      split; [intros k x; rewrite (Irow_app _ _ _ _ k x T3); tauto|].
      split; [apply Hfr; discriminate|]. split; [intros k; apply Mrow_ext, Hfr; discriminate|].
      intros k. apply Trow_ext, Hfr; discriminate.
Qed.

Lemma f_c_retrier_drop s t l : f_c (retrier_drop s t l) = f_c s.
Proof. unfold retrier_drop. destruct (aget (f_mgr s) t); reflexivity. Qed.

(* Retrier::run's check (fix 8108569): a body is loaded exactly for a locator that is a pending row of this (known) tower *)
Lemma load_pending_spec c t l : Inv c -> c_poisoned c = false ->
  match load_pending c t l with
  | Some _ => knownc c t /\ Prow (c_db c) t l
  | None => ~ Prow (c_db c) t l
  end.
Proof.
  intros HI Hp. pose proof HI as [HD HM]. destruct (HM Hp) as [M1 M2]. unfold load_pending, still_pending.
  destruct (aget (c_towers c) t) as [su|] eqn:Et.
  - destruct (M1 t su Et) as [tr [rr [_ [_ [_ [_ [_ [_ [C5 _]]]]]]]]].
    assert (HP : In l (su_pending su) <-> Prow (c_db c) t l).
    { rewrite (C5 l), In_pending_locators. unfold Prow. split; intros [r0 [A [B C]]]; exists r0; auto. }
    destruct (memN l (su_pending su)) eqn:Em.
    + apply memN_In, HP in Em. destruct (dbm_load_appointment (c_db c) l) as [body|] eqn:El.
      * split; [unfold knownc, amem; rewrite Et; reflexivity|exact Em].
      * exfalso. destruct Em as [r0 [A [B C]]]. destruct HD as [[Hfk _] _].
        destruct (fk_pending_body _ r0 Hfk A) as [b [Hb Eb]]. unfold dbm_load_appointment in El.
        apply (proj1 (find_pk_None (c_db c) T_appointments [l]) El b Hb). cbn [ts_pk tsch CS client_schema nth T_appointments]. rewrite proj1_col. f_equal. etransitivity; [exact Eb|exact B].
    + intros H. apply HP, memN_In in H. congruence.
  - intros [r0 [A [B C]]]. destruct HD as [[Hfk _] _]. destruct (fk_pending_tower _ r0 Hfk A) as [tr [A1 B1]].
    assert (Hk : knownc c t) by (apply (known_iff_Trow c t HI Hp); exists tr; split; [exact A1|congruence]).
    unfold knownc, amem in Hk. rewrite Et in Hk. discriminate.
Qed.

Lemma FInv_run_for t : forall locs s adds s' adds' res,
  RunPre s t -> NoDup locs -> (forall l, In l locs -> In l (retrier_pending s t)) ->
  run_for s t locs adds = (s', adds', res) ->
  FInv s' /\ (no_abort res -> poisoned s' = false /\ (forall k, knownc (f_c s') k <-> knownc (f_c s) k)) /\
  (res = None -> forall l, In l locs -> ~ In l (retrier_pending s' t)) /\
  (forall x, In x (retrier_pending s' t) -> In x (retrier_pending s t)) /\ res <> Some RunFuel /\
  keeps (c_db (f_c s)) (c_db (f_c s')) /\
  (forall k x, Prow (c_db (f_c s')) k x -> Prow (c_db (f_c s)) k x) /\
  (res = None -> forall l, In l locs -> ~ Prow (c_db (f_c s')) t l).
Proof.
  induction locs as [|l locs IH]; intros s adds s' adds' res [HF [Hp [Hk Hrun]]] Hnd Hsub E; cbn [run_for] in E.
  { inversion E. subst. split; [exact HF|]. split; [intros _; split; [exact Hp|tauto]|]. split; [intros _ x []|]. split; [auto|split; [discriminate|split; [apply keeps_refl|split; [auto|intros _ x []]]]]. }
  unfold poisoned in Hp. pose proof Hp as Hp'. unfold poisoned in E. rewrite Hp in E.
  inversion Hnd as [|? ? Hnl Hnd']. subst.
  pose proof HF as [HI [HD [HV HT]]].
  pose proof (load_pending_spec (f_c s) t l HI Hp') as Hlp.
  (* the continuation after the locator has left the set (dropped, or its move completed) *)
  assert (Hcont : forall adds1 (c3 : client) (s3 : fstate), True ->
            forall sX, FInv sX -> poisoned sX = false -> (forall k, knownc (f_c sX) k <-> knownc (f_c s) k) -> rstat sX t = Some RRunning ->
            (forall x, In x (retrier_pending sX t) <-> In x (retrier_pending s t) /\ x <> l) -> keeps (c_db (f_c s)) (c_db (f_c sX)) ->
            (forall k x, Prow (c_db (f_c sX)) k x <-> Prow (c_db (f_c s)) k x /\ ~ (k = t /\ x = l)) ->
            run_for sX t locs adds1 = (s', adds', res) ->
            FInv s' /\ (no_abort res -> poisoned s' = false /\ (forall k, knownc (f_c s') k <-> knownc (f_c s) k)) /\
            (res = None -> forall x, In x (l :: locs) -> ~ In x (retrier_pending s' t)) /\
            (forall x, In x (retrier_pending s' t) -> In x (retrier_pending s t)) /\ res <> Some RunFuel /\ keeps (c_db (f_c s)) (c_db (f_c s')) /\
            (forall k x, Prow (c_db (f_c s')) k x -> Prow (c_db (f_c s)) k x) /\
            (res = None -> forall x, In x (l :: locs) -> ~ Prow (c_db (f_c s')) t x)).
  { intros adds1 _ _ _ sX HFX HpX HkX HrX HpendX HkeepX HPX EX.
    destruct (IH sX adds1 s' adds' res) as [A [B [C [D [F [G [PA PN]]]]]]]; [exact (conj HFX (conj HpX (conj (proj2 (HkX t) Hk) HrX)))|exact Hnd'| |exact EX|].
    - intros x Hx. apply HpendX. split; [apply Hsub; right; exact Hx|]. intros ->. contradiction.
    - split; [exact A|]. split; [intros Hna; destruct (B Hna) as [B1 B2]; split; [exact B1|intros k; rewrite B2; apply HkX]|].
      split; [|split; [intros x Hx; apply HpendX, D, Hx|split; [exact F|split; [eapply keeps_trans; eassumption|split]]]].
      * intros Hr x [<-|Hx]; [|apply C; assumption]. intros Hin. apply D, HpendX in Hin. tauto.
      * intros k x Hx. apply PA, HPX in Hx. tauto.
      * intros Hr x [<-|Hx]; [|apply PN; assumption]. intros Hx. apply PA, HPX in Hx. tauto. }
  destruct (load_pending (f_c s) t l) as [body|].
  2:{ (* not pending for the tower any more: dropped from the set, nothing sent *)
      eapply (Hcont adds (f_c s) s I (retrier_drop s t l)); [apply FInv_retrier_drop, HF| | | | | | |exact E].
      - unfold poisoned. rewrite f_c_retrier_drop. exact Hp'.
      - intros k. rewrite f_c_retrier_drop. tauto.
      - rewrite retrier_drop_rstat. exact Hrun.
      - intros x. rewrite retrier_pending_drop, N.eqb_refl, In_set_remove. reflexivity.
      - rewrite f_c_retrier_drop. apply keeps_refl.
      - intros k x. rewrite f_c_retrier_drop. split; [|tauto]. intros H. split; [exact H|]. intros [-> ->]. contradiction. }
  destruct Hlp as [_ HPl].
  set (s1 := log_req s (ReqAdd t l)) in *.
  assert (HF1 : FInv s1) by (apply (FInv_core s); auto).
  destruct (next_reply adds) as [rp adds1].
  assert (Hpend_drop : forall sX, (forall k, retrier_pending sX k = retrier_pending (retrier_drop s1 t l) k) ->
            forall x, In x (retrier_pending sX t) <-> In x (retrier_pending s t) /\ x <> l).
  { intros sX HX x. rewrite HX, retrier_pending_drop, N.eqb_refl, In_set_remove. reflexivity. }
  destruct rp as [slots| | | | | | |].
  - (* accepted *)
    rewrite f_c_retrier_drop in E.
    destruct (wt_add_appointment_receipt (f_c s1) t l slots START_BLOCK USER_SIG SIG_TOWER) as [c2 r2] eqn:E2.
    destruct (add_receipt_spec_for_move _ _ _ _ _ _ HI Hp' Hk E2) as [S1 [S2 [S3 [S4 [S5 [S6 S7]]]]]].
    pose proof (FInv_move_generic s1 t l 0 c2 r2 HF1 Hp' Hk HPl (or_introl eq_refl) S1 S2 S3 S4 S5 S6 S7) as Hmove.
    destruct (lift_site r2) as [site|] eqn:El2.
    + inversion E. subst. split; [exact Hmove|]. split; [intros []|]. split; [discriminate|]. split; [|split; [discriminate|]].
      * intros x Hx. change (retrier_pending (wr_c (retrier_drop s1 t l) c2) t) with (retrier_pending (retrier_drop s1 t l) t) in Hx.
        rewrite retrier_pending_drop, N.eqb_refl in Hx. apply In_set_remove in Hx. tauto.
      * cbn [f_c wr_c]. assert (Edb : c_db c2 = c_db (f_c s)) by (apply S6; destruct S5 as [->|[st0 ->]]; [discriminate El2|reflexivity]).
        rewrite Edb. split; [apply keeps_refl|split; [auto|discriminate]].
    + destruct (wt_remove_pending_appointment c2 t l) as [c3 r3] eqn:E3. cbn [fst snd] in Hmove. destruct Hmove as [M1 [M2 [M3 [M4 [M5 M6]]]]].
      rewrite M1 in E. eapply (Hcont adds1 c3 (set_c s c3) I (wr_c (wr_c (retrier_drop s1 t l) c2) c3)); [exact M2|exact M3| | | |exact M5|exact M6|exact E].
      * intros k. cbn [f_c wr_c]. apply (knownc_stat _ _ M4).
      * change (rstat (wr_c (wr_c (retrier_drop s1 t l) c2) c3) t) with (rstat (retrier_drop s1 t l) t). rewrite retrier_drop_rstat. exact Hrun.
      * apply Hpend_drop. reflexivity.
  - inversion E. subst. split; [exact HF1|]. split; [intros _; split; [exact Hp'|tauto]|]. split; [discriminate|]. split; [auto|split; [discriminate|split; [apply keeps_refl|split; [auto|discriminate]]]].
  - inversion E. subst. split; [exact HF1|]. split; [intros _; split; [exact Hp'|tauto]|]. split; [discriminate|]. split; [auto|split; [discriminate|split; [apply keeps_refl|split; [auto|discriminate]]]].
  - inversion E. subst. split; [exact HF1|]. split; [intros _; split; [exact Hp'|tauto]|]. split; [discriminate|]. split; [auto|split; [discriminate|split; [apply keeps_refl|split; [auto|discriminate]]]].
  - inversion E. subst. split; [exact HF1|]. split; [intros _; split; [exact Hp'|tauto]|]. split; [discriminate|]. split; [auto|split; [discriminate|split; [apply keeps_refl|split; [auto|discriminate]]]].
  - inversion E. subst. split; [exact HF1|]. split; [intros _; split; [exact Hp'|tauto]|]. split; [discriminate|]. split; [auto|split; [discriminate|split; [apply keeps_refl|split; [auto|discriminate]]]].
  - (* subscription error *)
    inversion E. subst. split; [refine (FInv_set_status s1 t SubscriptionError HF1 Hp' _); discriminate|].
    split; [|split; [discriminate|split; [auto|split; [discriminate|cbn [f_c set_c]; rewrite DbInv_set_status; split; [apply keeps_refl|split; [auto|discriminate]]]]]].
    intros _. split.
    + unfold poisoned. cbn [f_c set_c]. destruct (prim_set_status (f_c s) t SubscriptionError HI) as [_ [_ [_ [Hpo _]]]]. rewrite Hpo. exact Hp'.
    + intros k. apply knownc_set_status.
  - (* rejected *)
    rewrite f_c_retrier_drop in E.
    destruct (wt_add_invalid_appointment (f_c s1) t l (col body C_appointments_encrypted_blob) (col body C_appointments_to_self_delay)) as [c2 r2] eqn:E2.
    destruct (add_invalid_spec_for_move _ _ _ _ _ _ _ HI Hp' Hk E2) as [S1 [S2 [S3 [S4 [S5 [S6 S7]]]]]].
    pose proof (FInv_move_generic s1 t l 2 c2 r2 HF1 Hp' Hk HPl (or_intror eq_refl) S1 S2 S3 S4 S5 S6 S7) as Hmove.
    destruct (lift_site r2) as [site|] eqn:El2.
    + inversion E. subst. split; [exact Hmove|]. split; [intros []|]. split; [discriminate|]. split; [|split; [discriminate|]].
      * intros x Hx. change (retrier_pending (wr_c (retrier_drop s1 t l) c2) t) with (retrier_pending (retrier_drop s1 t l) t) in Hx.
        rewrite retrier_pending_drop, N.eqb_refl in Hx. apply In_set_remove in Hx. tauto.
      * cbn [f_c wr_c]. assert (Edb : c_db c2 = c_db (f_c s)) by (apply S6; destruct S5 as [->|[st0 ->]]; [discriminate El2|reflexivity]).
        rewrite Edb. split; [apply keeps_refl|split; [auto|discriminate]].
    + destruct (wt_remove_pending_appointment c2 t l) as [c3 r3] eqn:E3. cbn [fst snd] in Hmove. destruct Hmove as [M1 [M2 [M3 [M4 [M5 M6]]]]].
      rewrite M1 in E. eapply (Hcont adds1 c3 (set_c s c3) I (wr_c (wr_c (retrier_drop s1 t l) c2) c3)); [exact M2|exact M3| | | |exact M5|exact M6|exact E].
      * intros k. cbn [f_c wr_c]. apply (knownc_stat _ _ M4).
      * change (rstat (wr_c (wr_c (retrier_drop s1 t l) c2) c3) t) with (rstat (retrier_drop s1 t l) t). rewrite retrier_drop_rstat. exact Hrun.
      * apply Hpend_drop. reflexivity.
Qed.

(* ---- nodupN / reorder ---- *)
Lemma In_nodupN x l : In x (nodupN l) <-> In x l.
Proof.
  induction l as [|y l IH]; cbn; [tauto|]. rewrite filter_In, IH, negb_true_iff, N.eqb_neq.
  destruct (N.eq_dec y x) as [->|Hn]; [tauto|]. split; [tauto|]. intros [H|H]; [contradiction|]. right. split; [exact H|congruence].
Qed.
Lemma NoDup_nodupN l : NoDup (nodupN l).
Proof.
  induction l as [|y l IH]; cbn; [constructor|]. constructor.
  - rewrite filter_In, negb_true_iff, N.eqb_neq. tauto.
  - apply NoDup_filter, IH.
Qed.
Lemma In_reorder hint p x : In x (reorder hint p) <-> In x p.
Proof.
  unfold reorder. rewrite in_app_iff, !filter_In, In_nodupN, memN_In, negb_true_iff.
  destruct (memN x hint) eqn:E.
  - apply memN_In in E. split; [tauto|]. intros H. left. tauto.
  - split; [tauto|]. intros H. right. tauto.
Qed.
Lemma NoDup_reorder hint p : NoDup p -> NoDup (reorder hint p).
Proof.
  intros H. unfold reorder. apply NoDup_app_iff. split; [apply NoDup_filter, NoDup_nodupN|]. split; [apply NoDup_filter, H|].
  intros x Hx Hy. apply filter_In in Hx. apply filter_In in Hy. destruct Hx as [Hx _]. destruct Hy as [_ Hy].
  apply (proj1 (In_nodupN x hint)) in Hx. apply (proj2 (memN_In x hint)) in Hx. rewrite Hx in Hy. discriminate.
Qed.

Lemma run_for_not_ok t : forall locs s adds s1 adds1 r, run_for s t locs adds = (s1, adds1, Some r) -> r <> RunOk /\ r <> RunFuel.
Proof.
  induction locs as [|l0 l IHl]; intros s adds s1 adds1 r E1; cbn [run_for] in E1; [discriminate|].
  destruct (poisoned s); [inversion E1; split; discriminate|]. destruct (load_pending (f_c s) t l0); [|eapply IHl, E1].
  destruct (next_reply adds) as [rp adds']. destruct rp; try (inversion E1; split; discriminate).
  - destruct (wt_add_appointment_receipt _ _ _ _ _ _ _) as [c2 r2]. destruct (lift_site r2); [inversion E1; split; discriminate|].
    destruct (wt_remove_pending_appointment c2 t l0) as [c3 r3]. destruct (lift_site r3); [inversion E1; split; discriminate|]. eapply IHl, E1.
  - destruct (wt_add_invalid_appointment _ _ _ _ _) as [c2 r2]. destruct (lift_site r2); [inversion E1; split; discriminate|].
    destruct (wt_remove_pending_appointment c2 t l0) as [c3 r3]. destruct (lift_site r3); [inversion E1; split; discriminate|]. eapply IHl, E1.
Qed.

(* Retrier::pick_up_pending (fix D7) *)
Lemma f_c_pick_up s t : f_c (pick_up s t) = f_c s.
Proof. unfold pick_up. destruct (aget (f_mgr s) t); reflexivity. Qed.
Lemma f_log_pick_up s t : f_log (pick_up s t) = f_log s.
Proof. unfold pick_up. destruct (aget (f_mgr s) t); reflexivity. Qed.
Lemma f_dbs_pick_up s t : f_dbs (pick_up s t) = f_dbs s.
Proof. unfold pick_up. destruct (aget (f_mgr s) t); reflexivity. Qed.
Lemma f_due_pick_up s t : f_due (pick_up s t) = f_due s.
Proof. unfold pick_up. destruct (aget (f_mgr s) t); reflexivity. Qed.

Lemma FInv_pick_up s t : FInv s -> FInv (pick_up s t).
Proof.
  intros HF. unfold pick_up. destruct (aget (f_mgr s) t) as [r|] eqn:Er; [|exact HF].
  pose proof HF as [HI [HD [HV HT]]].
  apply FInv_put; [exact HF| | |].
  - intros Hp Hs. cbn [r_status r_pending] in *. destruct (HV Hp) as [_ [_ [_ V5]]]. apply V5. unfold rstat. rewrite Er. cbn. congruence.
  - intros Hp. cbn [r_pending]. apply NoDup_set_union. destruct (HV Hp) as [_ [_ [V4 _]]]. eapply V4, Er.
  - eapply TaskInv_put_same_status; [exact HT|exact Er|reflexivity].
Qed.

Lemma RunPre_pick_up s t : RunPre s t -> RunPre (pick_up s t) t.
Proof.
  intros [HF [Hp [Hk Hrun]]]. split; [apply FInv_pick_up, HF|]. unfold poisoned. rewrite f_c_pick_up.
  split; [exact Hp|]. split; [exact Hk|]. pose proof (same_tasks_pick_up s t) as [_ Hs]. rewrite Hs. exact Hrun.
Qed.

(* after the pick-up the retrier's set holds every pending row of the (known) tower *)
Lemma pick_up_covers s t l :
  RunPre s t -> Prow (c_db (f_c s)) t l -> In l (retrier_pending (pick_up s t) t).
Proof.
  intros [HF [Hp [Hk Hrun]]] HP. unfold rstat in Hrun. destruct (aget (f_mgr s) t) as [r|] eqn:Er; [|discriminate].
  unfold pick_up. rewrite Er, retrier_pending_put, N.eqb_refl. cbn [r_pending]. apply In_set_union. right.
  pose proof HF as [[HD HM] _]. unfold knownc, amem in Hk. unfold tower_pending. destruct (aget (c_towers (f_c s)) t) as [su|] eqn:Et; [|discriminate].
  destruct (proj1 (HM Hp) t su Et) as [tr [rr [_ [_ [_ [_ [_ [_ [C5 _]]]]]]]]].
  apply C5, In_pending_locators. destruct HP as [row [A [B C]]]. exists row. auto.
Qed.

Lemma FInv_run_while t hint : forall fuel picked s adds s' res,
  RunPre s t -> run_while fuel picked s t hint adds = (s', res) ->
  FInv s' /\ (match res with RunAbort _ => False | _ => True end -> poisoned s' = false /\ (forall k, knownc (f_c s') k <-> knownc (f_c s) k)) /\
  (res = RunOk -> retrier_pending s' t = []) /\ keeps (c_db (f_c s)) (c_db (f_c s')) /\
  (forall k x, Prow (c_db (f_c s')) k x -> Prow (c_db (f_c s)) k x) /\
  (res = RunOk -> forall l, In l (retrier_pending s t) \/ picked = false -> ~ Prow (c_db (f_c s')) t l).
Proof.
  induction fuel as [|f IH]; intros picked s adds s' res Hpre E; cbn [run_while] in E.
  { inversion E. subst. destruct Hpre as [HF [Hp _]]. split; [exact HF|]. split; [intros _; split; [exact Hp|tauto]|split; [discriminate|split; [apply keeps_refl|split; [auto|discriminate]]]]. }
  destruct (retrier_pending s t) as [|x p] eqn:Ep.
  { destruct picked.
    { inversion E. subst. destruct Hpre as [HF [Hp _]]. split; [exact HF|]. split; [intros _; split; [exact Hp|tauto]|split; [intros _; exact Ep|split; [apply keeps_refl|split; [auto|]]]].
      intros _ l [[]|H]; discriminate H. }
    pose proof Hpre as [HF [Hp _]]. rewrite Hp in E.
    pose proof (RunPre_pick_up s t Hpre) as Hpre1. set (s1 := pick_up s t) in *.
    assert (Ec : f_c s1 = f_c s) by apply f_c_pick_up.
    destruct (retrier_pending s1 t) as [|y q] eqn:Ep1.
    - inversion E. subst. split; [apply Hpre1|]. split; [intros _; split; [apply Hpre1|rewrite Ec; tauto]|]. rewrite Ec. split; [intros _; exact Ep1|]. split; [apply keeps_refl|]. split; [auto|].
      intros _ l _ HP. pose proof (pick_up_covers s t l Hpre HP) as Hin. fold s1 in Hin. rewrite Ep1 in Hin. contradiction.
    - destruct (IH true s1 adds s' res Hpre1 E) as [A' [B' [C' [K' [PA' PN']]]]]. rewrite Ec in *.
      split; [exact A'|]. split; [exact B'|]. split; [exact C'|]. split; [exact K'|]. split; [exact PA'|].
      intros Hr l _ HP. apply (PN' Hr l); [|exact HP]. left. apply (pick_up_covers s t l Hpre). apply PA', HP. }
  destruct (run_for s t (reorder hint (x :: p)) adds) as [[s1 adds1] r1] eqn:E1.
  pose proof Hpre as [HF [Hp [Hk Hrun]]].
  assert (Hnd : NoDup (x :: p)).
  { destruct HF as [_ [_ [HV _]]]. destruct (HV Hp) as [_ [_ [V4 _]]]. unfold retrier_pending in Ep.
    destruct (aget (f_mgr s) t) as [r|] eqn:Er; [|discriminate]. rewrite <- Ep. eapply V4, Er. }
  destruct (FInv_run_for t _ s adds s1 adds1 r1 Hpre (NoDup_reorder hint _ Hnd)) as [A [B [C [D [F [G [PA PN]]]]]]]; [|exact E1|].
  { intros l Hl. rewrite Ep. apply In_reorder in Hl. exact Hl. }
  destruct r1 as [r|].
  - destruct (run_for_not_ok t _ _ _ _ _ _ E1) as [Hnok _]. inversion E. subst. split; [exact A|]. split; [|split; [intros ->; exfalso; apply Hnok; reflexivity|split; [exact G|split; [exact PA|intros ->; exfalso; apply Hnok; reflexivity]]]].
    intros Hna. apply B. destruct res; auto.
  - destruct (B I) as [Hp1 Hk1].
    assert (Hpre1 : RunPre s1 t).
    { split; [exact A|]. split; [exact Hp1|]. split; [apply Hk1, Hk|].
      pose proof (run_for_same t (reorder hint (x :: p)) s adds) as [_ Hs]. rewrite E1 in Hs. cbn [fst] in Hs. rewrite Hs. exact Hrun. }
    destruct (IH picked s1 adds1 s' res Hpre1 E) as [A' [B' [C' [K' [PA' PN']]]]]. split; [exact A'|]. split; [|split; [exact C'|split; [eapply keeps_trans; eassumption|split]]].
    + intros Hna. destruct (B' Hna) as [X Y]. split; [exact X|]. intros k. rewrite Y. apply Hk1.
    + intros k y Hy. apply PA, PA', Hy.
    + intros Hr l [Hl|Hpk] Hrow.
      * apply PA' in Hrow. apply (PN eq_refl l); [|exact Hrow]. apply In_reorder. exact Hl.
      * apply (PN' Hr l); [right; exact Hpk|exact Hrow].
Qed.

(* a renewal of the subscription of a KNOWN tower *)
Lemma FInv_renew s t addr slots start expiry sg c' r :
  FInv s -> poisoned s = false -> knownc (f_c s) t ->
  wt_add_update_tower (f_c s) t addr slots start expiry sg = (c', r) ->
  FInv (set_c s c') /\ (is_abort r = false -> c_poisoned c' = false /\ (forall k, knownc c' k <-> knownc (f_c s) k)).
Proof.
  intros HF Hp Hk E. pose proof HF as [HI [HD [HV HT]]]. destruct (HV Hp) as [V1 [V2 [V4 V5]]].
  destruct (prim_add_update_tower _ _ _ _ _ _ _ _ _ HI Hp E) as [HI' [Hret [Hh Heff]]].
  assert (Hkn : forall k, knownc c' k <-> knownc (f_c s) k).
  { destruct Heff as [[_ Hst]|[_ [_ [Hst _]]]]; [apply (knownc_stat _ _ Hst)|].
    intros k. unfold knownc, amem in *. specialize (Hst k). unfold stat in Hst. destruct (N.eqb k t) eqn:Ek.
    - apply N.eqb_eq in Ek. subst k. destruct (aget (c_towers c') t), (aget (c_towers (f_c s)) t); cbn in Hst; try discriminate; tauto.
    - destruct (aget (c_towers c') k), (aget (c_towers (f_c s)) k); cbn in Hst; try discriminate; tauto. }
  split.
  - apply FInv_client; [exact HF|exact HI'| |].
    + destruct Heff as [[Ed _]|[_ [_ [_ [T4 [HTr Hfr]]]]]]; [rewrite Ed; exact HD|].
      apply (DurInv_same_tables (c_db (f_c s))); try (apply Hfr; discriminate); [apply HI'| |exact HD].
      intros k Hk'. apply HTr. left. exact Hk'.
    + intros _. split; [exact Hp|]. destruct Heff as [[Ed Hst]|[_ [_ [Hst [T4 [HTr Hfr]]]]]].
      * split; [intros k Hk'; rewrite Ed; apply V1; rewrite <- Hst; exact Hk'|]. split; [|exact Hret].
        intros k Hk' Hm'. rewrite Hst. apply V2; [apply Hkn, Hk'|rewrite <- Ed; exact Hm'].
      * split.
        { intros k Hk'. rewrite (Mrow_ext _ _ k (Hfr T_misbehaving_proofs ltac:(discriminate) ltac:(discriminate))). apply V1.
          rewrite Hst in Hk'. destruct (N.eqb k t) eqn:Ek; [|exact Hk']. apply N.eqb_eq in Ek. subst k.
          destruct (stat (f_c s) t) eqn:Es; [exact Hk'|]. unfold knownc, amem in Hk. unfold stat in Es. destruct (aget (c_towers (f_c s)) t); discriminate. }
        split; [|exact Hret].
        intros k Hk' Hm'. rewrite (Mrow_ext _ _ k (Hfr T_misbehaving_proofs ltac:(discriminate) ltac:(discriminate))) in Hm'.
        specialize (V2 k (proj1 (Hkn k) Hk') Hm'). rewrite Hst. destruct (N.eqb k t) eqn:Ek; [|exact V2].
        apply N.eqb_eq in Ek. subst k. rewrite V2. reflexivity.
  - intros Ha. unfold healthy_or_abort in Hh. rewrite Ha in Hh. split; [exact Hh|exact Hkn].
Qed.

Lemma FInv_run_attempt s t a s' res :
  FInv s -> rstat s t = Some RRunning -> run_attempt s t a = (s', res) ->
  FInv s' /\ (match res with RunAbort _ => False | _ => True end -> poisoned s' = false) /\
  (res = RunOk -> retrier_pending s' t = [] /\ knownc (f_c s') t) /\ keeps (c_db (f_c s)) (c_db (f_c s')) /\
  (forall k x, Prow (c_db (f_c s')) k x -> Prow (c_db (f_c s)) k x) /\
  (res = RunOk -> forall l, ~ Prow (c_db (f_c s')) t l).
Proof.
  intros HF Hrun E. unfold run_attempt in E. destruct (poisoned s) eqn:Hp.
  { inversion E. subst. split; [exact HF|]. split; [intros []|split; [discriminate|split; [apply keeps_refl|split; [auto|discriminate]]]]. }
  destruct (aget (c_towers (f_c s)) t) as [su|] eqn:Et.
  2:{ inversion E. subst. split; [exact HF|]. split; [intros _; exact Hp|split; [discriminate|split; [apply keeps_refl|split; [auto|discriminate]]]]. }
  assert (Hk : knownc (f_c s) t) by (unfold knownc, amem; rewrite Et; reflexivity).
  destruct (is_misbehaving (su_status su)).
  { inversion E. subst. split; [exact HF|]. split; [intros _; exact Hp|split; [discriminate|split; [apply keeps_refl|split; [auto|discriminate]]]]. }
  assert (Hgo : forall s0, FInv s0 -> poisoned s0 = false -> knownc (f_c s0) t -> rstat s0 t = Some RRunning ->
            run_while (run_fuel s0 t) false s0 t (at_order a) (at_adds a) = (s', res) ->
            FInv s' /\ (match res with RunAbort _ => False | _ => True end -> poisoned s' = false) /\
            (res = RunOk -> retrier_pending s' t = [] /\ knownc (f_c s') t) /\ keeps (c_db (f_c s0)) (c_db (f_c s')) /\
            (forall k x, Prow (c_db (f_c s')) k x -> Prow (c_db (f_c s0)) k x) /\
            (res = RunOk -> forall l, ~ Prow (c_db (f_c s')) t l)).
  { intros s0 H0 Hp0 Hk0 Hr0 E0.
    destruct (FInv_run_while t (at_order a) _ false s0 (at_adds a) s' res (conj H0 (conj Hp0 (conj Hk0 Hr0))) E0) as [A [B [C [K [PA PN]]]]].
    split; [exact A|]. split; [intros Hna; apply B, Hna|]. split; [|split; [exact K|split; [exact PA|intros Hr l; apply (PN Hr l); right; reflexivity]]]. intros ->. split; [apply C; reflexivity|]. apply (proj2 (B I)). exact Hk0. }
  destruct (is_subscription_error (su_status su)); [|apply (Hgo s HF Hp Hk Hrun E)].
  set (s1 := log_req s (ReqRegister t)) in *.
  assert (HF1 : FInv s1) by (apply (FInv_core s); auto).
  destruct (at_reg a) as [slots start expiry sig_ok| | | |];
    try (inversion E; subst; split; [exact HF1|]; split; [intros _; exact Hp|split; [discriminate|split; [apply keeps_refl|split; [auto|discriminate]]]]).
  destruct (negb sig_ok); [inversion E; subst; split; [exact HF1|]; split; [intros _; exact Hp|split; [discriminate|split; [apply keeps_refl|split; [auto|discriminate]]]]|].
  destruct (wt_add_update_tower (f_c s1) t (su_addr su) slots start expiry REG_SIG) as [c' r] eqn:Eu.
  destruct (FInv_renew s1 t _ _ _ _ _ c' r HF1 Hp Hk Eu) as [HF2 Hok].
  assert (Hkeep : keeps (c_db (f_c s)) (c_db c') /\ (forall k x, Prow (c_db c') k x <-> Prow (c_db (f_c s)) k x)).
  { pose proof HF as [HI _]. destruct (prim_add_update_tower _ _ _ _ _ _ _ _ _ HI Hp Eu) as [_ [_ [_ [[Ed _]|[_ [_ [_ [_ [_ Hfr]]]]]]]]].
    - rewrite Ed. split; [apply keeps_refl|tauto].
    - split; [|intros k x; apply (Prow_ext _ _ k x (Hfr T_pending_appointments ltac:(discriminate) ltac:(discriminate)))].
      intros k x [H|[H|H]]; [left; apply (Rrow_ext _ _ k x (Hfr T_appointment_receipts ltac:(discriminate) ltac:(discriminate))), H
        |right; left; apply (Prow_ext _ _ k x (Hfr T_pending_appointments ltac:(discriminate) ltac:(discriminate))), H
        |right; right; apply (Irow_ext _ _ k x (Hfr T_invalid_appointments ltac:(discriminate) ltac:(discriminate))), H]. }
  destruct Hkeep as [Hkeep HPeq].
  destruct r; try (inversion E; subst; split; [exact HF2|]; split; [intros _; apply Hok; reflexivity|split; [discriminate|split; [exact Hkeep|split; [intros k x Hx; apply HPeq, Hx|discriminate]]]]).
  - destruct (Hok eq_refl) as [Hp2 Hkn2].
    destruct (Hgo (wr_c s1 c')) as [A [B [C [K [PA PN]]]]]; [exact HF2|exact Hp2|apply Hkn2, Hk|exact Hrun|exact E|].
    split; [exact A|]. split; [exact B|]. split; [exact C|]. split; [eapply keeps_trans; [exact Hkeep|exact K]|].
    split; [intros k x Hx; apply HPeq, PA, Hx|exact PN].
  - inversion E. subst. split; [exact HF2|]. split; [intros []|split; [discriminate|split; [exact Hkeep|split; [intros k x Hx; apply HPeq, Hx|discriminate]]]].
Qed.

(* ---- the arms after retry_notify ---- *)
Definition CInv (s : fstate) : Prop :=
  Inv (f_c s) /\ DurInv (c_db (f_c s)) (f_due s) /\ (poisoned s = false -> VolInv s).
Lemma FInv_split s : FInv s <-> CInv s /\ TaskInv s.
Proof. unfold FInv, CInv. tauto. Qed.
Definition notasks (s : fstate) : fstate := set_tasks s [].
Lemma TaskInv_notasks s : TaskInv (notasks s).
Proof. split; [constructor|intros t []]. Qed.
Lemma CInv_FInv_notasks s : CInv s <-> FInv (notasks s).
Proof. rewrite FInv_split. split; [intros H; split; [exact H|apply TaskInv_notasks]|intros [H _]; exact H]. Qed.

(* flagging a tower (both paths) *)
Lemma FInv_flag s t l c2 r :
  FInv s -> poisoned s = false ->
  wt_flag_misbehaving_tower (f_c s) t l START_BLOCK USER_SIG SIG_OTHER (other_id t) = (c2, r) ->
  FInv (set_c s c2).
Proof.
  intros HF Hp E. pose proof HF as [HI [HD [HV HT]]]. destruct (HV Hp) as [V1 [V2 [V4 V5]]].
  destruct (prim_flag _ _ _ _ _ _ _ _ _ HI Hp E) as [HI' [Hret [Hh Heff]]].
  destruct Heff as [[Ed [Hst Hne]]|[-> [Hp2 [Hk [Hst [M1 [EM [ER Hfr]]]]]]]].
  - apply FInv_client_grow; [exact HF|exact Hp|exact HI'|rewrite Ed; exact HD|exact Hst|exact Hret|intros k; rewrite Ed; tauto].
  - assert (EPr : forall k x, Prow (c_db c2) k x <-> Prow (c_db (f_c s)) k x) by (intros; apply Prow_ext, Hfr; discriminate).
    assert (EI : forall k x, Irow (c_db c2) k x <-> Irow (c_db (f_c s)) k x) by (intros; apply Irow_ext, Hfr; discriminate).
    assert (ET : forall k, Trow (c_db c2) k <-> Trow (c_db (f_c s)) k) by (intros; apply Trow_ext, Hfr; discriminate).
    assert (HD2 : DurInv (c_db c2) (f_due s)).
    { destruct HD as [_ [U E0]]. split; [apply HI'|]. split.
      - intros k x Hm. assert (Hkt : k <> t) by (intros ->; apply Hm, EM; tauto).
        assert (Hm0 : ~ Mrow (c_db (f_c s)) k) by (intros H; apply Hm, EM; tauto).
        unfold excl3. rewrite !ER, !EPr, !EI. destruct (U k x Hm0) as [A [B C]]. tauto.
      - intros k x Hin. destruct (E0 k x Hin) as [A B]. split; [apply ET, A|]. intros Hm.
        assert (Hm0 : ~ Mrow (c_db (f_c s)) k) by (intros H; apply Hm, EM; tauto). rewrite ER, EPr, EI. specialize (B Hm0). tauto. }
    apply FInv_client; [exact HF|exact HI'|exact HD2|]. intros _. split; [exact Hp|]. split; [|split; [|exact Hret]].
    + intros k Hk'. apply EM. rewrite Hst in Hk'. destruct (N.eqb k t) eqn:Ekt; [right; apply N.eqb_eq; exact Ekt|left; apply V1, Hk'].
    + intros k Hk' Hm'. rewrite Hst. destruct (N.eqb k t) eqn:Ekt; [reflexivity|]. apply V2.
      * unfold knownc, amem in *. pose proof (Hst k) as Hs. unfold stat in Hs. rewrite Ekt in Hs.
        destruct (aget (c_towers c2) k), (aget (c_towers (f_c s)) k); cbn in Hs; try discriminate Hs; try discriminate Hk'; reflexivity.
      * apply EM in Hm'. destruct Hm' as [H|H]; [exact H|]. apply N.eqb_neq in Ekt. contradiction.
Qed.

(* changing the status of t's retrier to a status that is not Running, possibly clearing its set *)
Lemma CInv_retrier_update s t (st : rstatus) (clear : bool) r :
  CInv s -> aget (f_mgr s) t = Some r -> st <> RRunning ->
  CInv (put_retrier s t {| r_status := st; r_pending := if clear then [] else r_pending r |}).
Proof.
  intros HC Hr Hst. apply CInv_FInv_notasks in HC. apply CInv_FInv_notasks.
  change (notasks (put_retrier s t {| r_status := st; r_pending := if clear then [] else r_pending r |}))
    with (put_retrier (notasks s) t {| r_status := st; r_pending := if clear then [] else r_pending r |}).
  pose proof HC as [HI [HD [HV HT]]].
  apply FInv_put; [exact HC| | |].
  - intros _ H. cbn in H. congruence.
  - intros Hp. cbn [r_pending]. destruct clear; [constructor|]. destruct (HV Hp) as [_ [_ [V4 _]]]. eapply (V4 t r). exact Hr.
  - split; [constructor|intros k []].
Qed.

Lemma CInv_retriers_change s m :
  CInv s -> (forall k, rstat s k = Some RRunning -> aget m k = Some RRunning) ->
  CInv (set_c s (with_retriers (f_c s) m)).
Proof.
  intros [HI [HD HV]] H. split; [exact HI|]. split; [exact HD|]. intros Hp. destruct (HV Hp) as [V1 [V2 [V4 V5]]].
  split; [exact V1|]. split; [exact V2|]. split; [exact V4|]. intros k Hk. apply H, Hk.
Qed.

Lemma CInv_set_status s t st : CInv s -> poisoned s = false -> st <> Misbehaving -> CInv (set_c s (wt_set_tower_status (f_c s) t st)).
Proof.
  intros HC Hp Hst. apply CInv_FInv_notasks in HC. apply CInv_FInv_notasks.
  exact (FInv_set_status (notasks s) t st HC Hp Hst).
Qed.

Lemma retrier_set_status_eq s t st r : aget (f_mgr s) t = Some r ->
  retrier_set_status s t st = put_retrier s t {| r_status := st; r_pending := r_pending r |}.
Proof. intros H. unfold retrier_set_status. rewrite H. reflexivity. Qed.
Lemma retrier_clear_eq s t r : aget (f_mgr s) t = Some r ->
  retrier_clear s t = put_retrier s t {| r_status := r_status r; r_pending := [] |}.
Proof. intros H. unfold retrier_clear. rewrite H. reflexivity. Qed.

Lemma CInv_end_task s t : CInv s -> CInv (end_task s t).
Proof. intros H. exact H. Qed.

Lemma CInv_task_step s t r more :
  CInv s -> rstat s t = Some RRunning -> (match r with RunAbort _ => False | _ => True end -> poisoned s = false) ->
  CInv (fst (task_step s t r more)).
Proof.
  intros HC Hrun Hnp. unfold rstat in Hrun. destruct (aget (f_mgr s) t) as [r0|] eqn:Er; [|discriminate]. cbn in Hrun. inversion Hrun as [Hs0].
  unfold task_step. destruct r as [|e|site|].
  - (* Ok arm *)
    cbn [fst]. apply CInv_end_task. specialize (Hnp I).
    match goal with |- CInv (retrier_set_status ?x t RStopped) => rewrite (retrier_set_status_eq x t RStopped r0 Er) end.
    pose proof (CInv_retrier_update s t RStopped false r0 HC Er ltac:(discriminate)) as H1. cbn [r_pending] in H1.
    set (sa := put_retrier s t {| r_status := RStopped; r_pending := r_pending r0 |}) in *.
    pose proof (CInv_set_status sa t Reachable H1 Hnp ltac:(discriminate)) as H2.
    set (sb := set_c sa (wt_set_tower_status (f_c sa) t Reachable)) in *.
    assert (H3 : CInv (set_c sb (with_retriers (f_c sb) (aremove (c_retriers (f_c sb)) t)))).
    { apply CInv_retriers_change; [exact H2|]. intros k Hk. rewrite aget_aremove.
      change (rstat sb k) with (rstat sa k) in Hk. unfold sa in Hk. rewrite rstat_put in Hk. destruct (N.eqb k t) eqn:Ek; [discriminate|].
      destruct H2 as [_ [_ HV2]].
      assert (Hpb : poisoned sb = false) by (unfold sb, poisoned; cbn [f_c set_c]; rewrite poisoned_set_status; exact Hnp).
      destruct (HV2 Hpb) as [_ [_ [_ V5]]]. apply V5.
      change (rstat sb k) with (rstat sa k). unfold sa. rewrite rstat_put, Ek. exact Hk. }
    exact H3.
  - destruct (negb (is_permanent e) && more); [exact HC|]. specialize (Hnp I).
    set (s1 := if is_permanent e then retrier_set_status s t RFailed else s).
    assert (H1 : CInv s1 /\ poisoned s1 = false /\ f_c s1 = f_c s /\
                 exists r1, aget (f_mgr s1) t = Some r1 /\ r_pending r1 = r_pending r0 /\ (is_permanent e = false -> s1 = s)).
    { unfold s1. destruct (is_permanent e).
      - rewrite (retrier_set_status_eq s t RFailed r0 Er). split; [apply (CInv_retrier_update s t RFailed false r0 HC Er); discriminate|].
        split; [exact Hnp|]. split; [reflexivity|]. eexists. split; [unfold put_retrier, set_mgr; cbn [f_mgr]; apply aget_aset_same|]. split; [reflexivity|discriminate].
      - split; [exact HC|]. split; [exact Hnp|]. split; [reflexivity|]. exists r0. auto. }
    destruct H1 as [HC1 [Hp1 [Ec1 [r1 [Er1 [Epend Hsame]]]]]].
    destruct e as [[|]| |l| |]; cbn [fst].
    + apply CInv_end_task. apply CInv_set_status; [exact HC1|exact Hp1|discriminate].
    + (* gave up: idle *)
      apply CInv_end_task. specialize (Hsame eq_refl). subst s1.
      match goal with |- CInv (retrier_clear (retrier_set_status ?x t RIdle) t) =>
        rewrite (retrier_set_status_eq x t RIdle r0 Er);
        rewrite (retrier_clear_eq (put_retrier x t {| r_status := RIdle; r_pending := r_pending r0 |}) t {| r_status := RIdle; r_pending := r_pending r0 |})
          by (unfold put_retrier, set_mgr; cbn [f_mgr]; apply aget_aset_same) end.
      cbn [r_status].
      pose proof (CInv_retrier_update s t RIdle false r0 HC Er ltac:(discriminate)) as Ha. cbn [r_pending] in Ha.
      set (sa := put_retrier s t {| r_status := RIdle; r_pending := r_pending r0 |}) in *.
      assert (Era : aget (f_mgr sa) t = Some {| r_status := RIdle; r_pending := r_pending r0 |}) by (unfold sa, put_retrier, set_mgr; cbn [f_mgr]; apply aget_aset_same).
      pose proof (CInv_retrier_update sa t RIdle true _ Ha Era ltac:(discriminate)) as Hb. cbn [r_pending] in Hb.
      set (sb := put_retrier sa t {| r_status := RIdle; r_pending := [] |}) in *.
      assert (Hc : CInv (set_c sb (with_retriers (f_c sb) (aset (c_retriers (f_c sb)) t RIdle)))).
      { apply CInv_retriers_change; [exact Hb|]. intros k Hk. rewrite aget_aset. unfold sb in Hk. rewrite rstat_put in Hk.
        destruct (N.eqb k t) eqn:Ek; [discriminate|]. destruct Ha as [_ [_ HVa]]. destruct (HVa Hnp) as [_ [_ [_ V5]]]. apply V5. exact Hk. }
      set (sc := set_c sb (with_retriers (f_c sb) (aset (c_retriers (f_c sb)) t RIdle))) in *.
      exact (CInv_set_status sc t Unreachable Hc Hnp ltac:(discriminate)).
    + apply CInv_end_task. specialize (Hsame eq_refl). subst s1.
      match goal with |- CInv (retrier_clear (retrier_set_status ?x t RIdle) t) =>
        rewrite (retrier_set_status_eq x t RIdle r0 Er);
        rewrite (retrier_clear_eq (put_retrier x t {| r_status := RIdle; r_pending := r_pending r0 |}) t {| r_status := RIdle; r_pending := r_pending r0 |})
          by (unfold put_retrier, set_mgr; cbn [f_mgr]; apply aget_aset_same) end.
      cbn [r_status].
      pose proof (CInv_retrier_update s t RIdle false r0 HC Er ltac:(discriminate)) as Ha. cbn [r_pending] in Ha.
      set (sa := put_retrier s t {| r_status := RIdle; r_pending := r_pending r0 |}) in *.
      assert (Era : aget (f_mgr sa) t = Some {| r_status := RIdle; r_pending := r_pending r0 |}) by (unfold sa, put_retrier, set_mgr; cbn [f_mgr]; apply aget_aset_same).
      pose proof (CInv_retrier_update sa t RIdle true _ Ha Era ltac:(discriminate)) as Hb. cbn [r_pending] in Hb.
      set (sb := put_retrier sa t {| r_status := RIdle; r_pending := [] |}) in *.
      assert (Hc : CInv (set_c sb (with_retriers (f_c sb) (aset (c_retriers (f_c sb)) t RIdle)))).
      { apply CInv_retriers_change; [exact Hb|]. intros k Hk. rewrite aget_aset. unfold sb in Hk. rewrite rstat_put in Hk.
        destruct (N.eqb k t) eqn:Ek; [discriminate|]. destruct Ha as [_ [_ HVa]]. destruct (HVa Hnp) as [_ [_ [_ V5]]]. apply V5. exact Hk. }
      set (sc := set_c sb (with_retriers (f_c sb) (aset (c_retriers (f_c sb)) t RIdle))) in *.
      exact (CInv_set_status sc t Unreachable Hc Hnp ltac:(discriminate)).
    + (* misbehaving *)
      destruct (wt_flag_misbehaving_tower (f_c s1) t l START_BLOCK USER_SIG SIG_OTHER (other_id t)) as [c2 r2] eqn:E2.
      assert (H2 : CInv (set_c s1 c2)).
      { apply CInv_FInv_notasks. apply CInv_FInv_notasks in HC1. exact (FInv_flag (notasks s1) t l c2 r2 HC1 Hp1 E2). }
      destruct (lift_site r2); cbn [fst]; apply CInv_end_task; exact H2.
    + apply CInv_end_task. exact HC1.
    + apply CInv_end_task. exact HC1.
  - cbn [fst]. apply CInv_end_task. exact HC.
  - exact HC.
Qed.

Lemma FInv_task_step s t r more :
  FInv s -> rstat s t = Some RRunning -> (match r with RunAbort _ => False | _ => True end -> poisoned s = false) ->
  FInv (fst (task_step s t r more)).
Proof.
  intros HF Hrun Hnp. apply FInv_split in HF. destruct HF as [HC HT]. apply FInv_split. split.
  - apply CInv_task_step; assumption.
  - apply TaskInv_task_step, HT.
Qed.

Lemma FInv_retrier_run t : forall atts s, FInv s -> FInv (fst (f_retrier_run s t atts)).
Proof.
  induction atts as [|a atts IH]; intros s HF; cbn [f_retrier_run]; [exact HF|].
  destruct (memN t (f_tasks s)) eqn:Em; cbn [negb]; [|exact HF].
  assert (Hrun : rstat s t = Some RRunning) by (apply HF, memN_In, Em).
  destruct (run_attempt s t a) as [s1 r] eqn:E1.
  destruct (FInv_run_attempt s t a s1 r HF Hrun E1) as [HF1 [Hnp _]].
  assert (Hrun1 : rstat s1 t = Some RRunning).
  { pose proof (run_attempt_same s t a) as [_ Hs]. rewrite E1 in Hs. cbn [fst] in Hs. rewrite Hs. exact Hrun. }
  pose proof (FInv_task_step s1 t r (at_more a) HF1 Hrun1 Hnp) as HF2.
  destruct (task_step s1 t r (at_more a)) as [s2 o]. cbn [fst] in HF2.
  destruct o; try exact HF2. destruct atts; [exact HF2|]. apply IH, HF2.
Qed.

(* ---- every operation ---- *)
Lemma FInv_fstep s o : FInv s -> FInv (fst (fstep s o)).
Proof.
  intros HF. destruct o; cbn [fstep].
  - apply FInv_register; assumption.
  - apply FInv_revocation, HF.
  - apply FInv_manager_tick, HF.
  - pose proof (FInv_retrier_run t atts s HF) as H. destruct (f_retrier_run s t atts). exact H.
  - apply FInv_manual_retry, HF.
  - apply FInv_abandon, HF.
  - apply FInv_restart, HF.
Qed.

Lemma FInv_init : FInv f_init.
Proof.
  split; [apply Inv_wt_new|]. split; [|split; [|apply TaskInv_init]].
  - split; [apply Inv_wt_new|]. split.
    + intros t l _. repeat split; intros [[r [[] _]] _].
    + intros t l [].
  - intros _. split; [intros t Ht; discriminate Ht|]. split; [intros t Ht; discriminate Ht|].
    split; [intros t r Ht; discriminate Ht|intros t Ht; discriminate Ht].
Qed.

(* EVERY operation sequence keeps the invariant: no guard is left *)
Lemma FInv_frun ops : forall s, FInv s -> FInv (frun s ops).
Proof. induction ops as [|o ops IH]; intros s HF; cbn in *; [exact HF|]. apply IH, FInv_fstep, HF. Qed.

(* ====================================================================== *)
(* C05 recorded_exactly_one                                               *)
(* ====================================================================== *)
Lemma record_count_one d t l :
  excl3 (Rrow d t l) (Prow d t l) (Irow d t l) -> Rrow d t l \/ Prow d t l \/ Irow d t l -> record_count d t l = 1%nat.
Proof.
  intros [A [B C]] H. unfold record_count.
  destruct (has_receipt_row d t l) eqn:ER, (has_pending_row d t l) eqn:EP, (has_invalid_row d t l) eqn:EI; cbn; try reflexivity; exfalso;
    repeat match goal with
           | H : has_receipt_row _ _ _ = true |- _ => apply has_receipt_row_iff in H
           | H : has_pending_row _ _ _ = true |- _ => apply has_pending_row_iff in H
           | H : has_invalid_row _ _ _ = true |- _ => apply has_invalid_row_iff in H
           end; try tauto.
  destruct H as [H|[H|H]]; [apply has_receipt_row_iff in H|apply has_pending_row_iff in H|apply has_invalid_row_iff in H]; congruence.
Qed.

Lemma owed_spec s t l : owed s t l = true ->
  In (t, l) (f_due s) /\ Trow (c_db (f_c s)) t /\ ~ Mrow (c_db (f_c s)) t.
Proof.
  unfold owed. rewrite !andb_true_iff, negb_true_iff. intros [[A B] C]. split; [|split].
  - apply existsb_exists in A. destruct A as [[a b] [Hin Heq]]. unfold pairN_eqb in Heq. cbn in Heq. apply andb_true_iff in Heq.
    destruct Heq as [H1 H2]. apply N.eqb_eq in H1, H2. subst. exact Hin.
  - apply tower_row_iff, B.
  - intros H. apply proof_iff in H. congruence.
Qed.

(* after every completed operation of EVERY sequence: exactly one record per owed (tower, locator) *)
Theorem recorded_exactly_one ops :
  let s := frun f_init ops in
  forall t l, owed s t l = true -> record_count (c_db (f_c s)) t l = 1%nat.
Proof.
  intros s t l Ho. pose proof (FInv_frun ops f_init FInv_init) as [_ [[_ [U E]] _]]. fold s in U, E.
  destruct (owed_spec s t l Ho) as [Hin [HT HM]]. apply record_count_one; [apply U, HM|]. apply (E t l Hin), HM.
Qed.

(* ====================================================================== *)
(* C14 registration_gate                                                  *)
(* ====================================================================== *)
(* what add_update_tower compares a receipt with: the expiry the client holds in memory and the slots of the tower's row *)
Definition reg_extends (c : client) (t slots expiry : N) : bool :=
  match aget (c_towers c) t with
  | None => true
  | Some su => N.ltb (su_expiry su) expiry &&
               match load_tower_record (c_db c) t with LSome info => N.ltb (ti_slots info) slots | _ => false end
  end.

Lemma store_tower_rows d t addr slots start expiry sg d' :
  dbm_store_tower_record d t addr slots start expiry sg = DbOk d' ->
  tbl d' T_registration_receipts = tbl d T_registration_receipts ++ [[t; slots; start; expiry; sg]].
Proof.
  unfold dbm_store_tower_record. rewrite mkrow_rr.
  destruct (has_pk CS d T_towers [t]).
  - destruct (db_update CS d T_towers [t] _ false) as [d1|] eqn:E1; [|discriminate]. intros H.
    pose proof (tbl_update CS d _ _ _ _ d1 E1) as [O1 _]. pose proof (tbl_insert CS d1 _ _ d' H) as [T2 _].
    rewrite T2, O1 by discriminate. reflexivity.
  - destruct (db_insert CS d T_towers _) as [d1|] eqn:E1; [|discriminate]. intros H.
    pose proof (tbl_insert CS d _ _ d1 E1) as [_ [O1 _]]. pose proof (tbl_insert CS d1 _ _ d' H) as [T2 _].
    rewrite T2, O1 by discriminate. reflexivity.
Qed.

Lemma add_update_tower_cases c t addr slots start expiry sg :
  (snd (wt_add_update_tower c t addr slots start expiry sg) = ROk /\ reg_extends c t slots expiry = true /\
   exists d', dbm_store_tower_record (c_db c) t addr slots start expiry sg = DbOk d' /\ c_db (fst (wt_add_update_tower c t addr slots start expiry sg)) = d') \/
  (snd (wt_add_update_tower c t addr slots start expiry sg) <> ROk /\ c_db (fst (wt_add_update_tower c t addr slots start expiry sg)) = c_db c /\
   (reg_extends c t slots expiry = true -> exists st, snd (wt_add_update_tower c t addr slots start expiry sg) = RAbort st)).
Proof.
  unfold wt_add_update_tower, reg_extends.
  set (store := match dbm_store_tower_record (c_db c) t addr slots start expiry sg with DbOk _ => _ | DbErr _ => _ end).
  assert (Hstore : (snd store = ROk /\ exists d', dbm_store_tower_record (c_db c) t addr slots start expiry sg = DbOk d' /\ c_db (fst store) = d') \/
                   (snd store <> ROk /\ c_db (fst store) = c_db c /\ exists st, snd store = RAbort st)).
  { unfold store. destruct (dbm_store_tower_record (c_db c) t addr slots start expiry sg) as [d'|e]; cbn.
    - left. split; [reflexivity|]. exists d'. split; reflexivity.
    - right. split; [discriminate|]. split; [reflexivity|eexists; reflexivity]. }
  destruct (aget (c_towers c) t) as [su|] eqn:Et.
  - destruct (N.leb expiry (su_expiry su)) eqn:El.
    { right. cbn. apply N.leb_le in El. split; [discriminate|]. split; [reflexivity|]. intros Hx.
      apply andb_true_iff in Hx. destruct Hx as [Hx _]. apply N.ltb_lt in Hx. lia. }
    apply N.leb_gt in El. apply N.ltb_lt in El. rewrite El. cbn [andb].
    destruct (load_tower_record (c_db c) t) as [|info|st].
    + right. cbn. split; [discriminate|]. split; [reflexivity|discriminate].
    + destruct (N.leb slots (ti_slots info)) eqn:Esl.
      { right. cbn. apply N.leb_le in Esl. split; [discriminate|]. split; [reflexivity|]. intros Hx. apply N.ltb_lt in Hx. lia. }
      apply N.leb_gt in Esl. apply N.ltb_lt in Esl. rewrite Esl.
      destruct Hstore as [[A B]|[A [B C]]]; [left; tauto|right; split; [exact A|split; [exact B|intros _; exact C]]].
    + right. cbn. split; [discriminate|]. split; [reflexivity|discriminate].
  - destruct Hstore as [[A B]|[A [B C]]]; [left; tauto|right; split; [exact A|split; [exact B|intros _; exact C]]].
Qed.

Lemma flag_unreachable_db s t : c_db (f_c (flag_unreachable s t)) = c_db (f_c s).
Proof.
  unfold flag_unreachable. destruct (aget (c_towers (f_c s)) t) as [su|]; [|reflexivity].
  destruct (_ && _); [|reflexivity]. cbn [f_c push_chan set_chan set_c]. apply DbInv_set_status.
Qed.

Theorem registration_gate s t rp :
  (snd (f_register s t t rp) = OOk ->
     exists slots start expiry, rp = RReceipt slots start expiry true /\ reg_extends (f_c s) t slots expiry = true /\ poisoned s = false /\
       tbl (c_db (f_c (fst (f_register s t t rp)))) T_registration_receipts =
       tbl (c_db (f_c s)) T_registration_receipts ++ [[t; slots; start; expiry; REG_SIG]]) /\
  (snd (f_register s t t rp) <> OOk -> c_db (f_c (fst (f_register s t t rp))) = c_db (f_c s)) /\
  (forall slots start expiry, rp = RReceipt slots start expiry true -> reg_extends (f_c s) t slots expiry = true -> poisoned s = false ->
     snd (f_register s t t rp) = OOk \/ exists site, snd (f_register s t t rp) = OPanic site).
Proof.
  unfold f_register. destruct (poisoned s) eqn:Hp.
  { cbn. split; [discriminate|]. split; [reflexivity|]. intros; discriminate. }
  destruct rp as [slots start expiry sig_ok| | | |]; cbn [fst snd];
    try (split; [discriminate|]; split; [intros _; try destruct (amem _ _); reflexivity|intros; discriminate]).
  destruct sig_ok; cbn [negb].
  2:{ cbn. split; [discriminate|]. split; [reflexivity|]. intros ? ? ? H. inversion H. }
  change (f_c (log_req s (ReqRegister t))) with (f_c s).
  pose proof (add_update_tower_cases (f_c s) t t slots start expiry REG_SIG) as Hc.
  destruct (wt_add_update_tower (f_c s) t t slots start expiry REG_SIG) as [c' r]. cbn [fst snd] in Hc.
  destruct Hc as [[-> [Hext [d' [Es Ed]]]]|[Hne [Ed Hab]]].
  - cbn [fst snd f_c wr_c]. split; [|split; [intros H; contradiction|intros; left; reflexivity]].
    intros _. exists slots, start, expiry. split; [reflexivity|]. split; [exact Hext|]. split; [reflexivity|].
    rewrite Ed. exact (store_tower_rows _ _ _ _ _ _ _ _ Es).
  - destruct r; try contradiction; cbn [fst snd f_c set_c]; (split; [discriminate|]; split; [intros _; exact Ed|]);
      intros ? ? ? H Hx _; inversion H; subst; destruct (Hab Hx) as [st Hst]; try discriminate.
    right. eexists. reflexivity.
  - (* connection error *)
    split; [discriminate|]. split; [|intros; discriminate]. intros _.
    destruct (amem (c_towers (f_c (log_req s (ReqRegister t)))) t); [|reflexivity]. exact (flag_unreachable_db (log_req s (ReqRegister t)) t).
Qed.

(* ====================================================================== *)
(* C13 run_bounded                                                        *)
(* ====================================================================== *)
Lemma f_log_retrier_drop s t l : f_log (retrier_drop s t l) = f_log s.
Proof. unfold retrier_drop. destruct (aget (f_mgr s) t); reflexivity. Qed.

(* the for loop emits one add_appointment per locator it sends (the ones still pending for the tower), in order *)
Lemma run_for_log t : forall locs s adds s' adds' res,
  run_for s t locs adds = (s', adds', res) ->
  exists sent, f_log s' = f_log s ++ map (ReqAdd t) sent /\ incl sent locs /\ (NoDup locs -> NoDup sent).
Proof.
  induction locs as [|l locs IH]; intros s adds s' adds' res E; cbn [run_for] in E.
  { inversion E. subst. exists []. cbn. rewrite app_nil_r. repeat split; [intros y []|constructor]. }
  assert (Hnone : forall sx, f_log sx = f_log s -> forall rx, (sx, adds, Some rx) = (s', adds', res) ->
            exists sent, f_log s' = f_log s ++ map (ReqAdd t) sent /\ incl sent (l :: locs) /\ (NoDup (l :: locs) -> NoDup sent)).
  { intros sx Hx rx Hr. inversion Hr. subst. exists []. cbn. rewrite app_nil_r. repeat split; [exact Hx|intros y []|constructor]. }
  destruct (poisoned s); [eapply Hnone; [|exact E]; reflexivity|].
  destruct (load_pending (f_c s) t l).
  2:{ destruct (IH _ _ _ _ _ E) as [sent [A [B C]]]. exists sent. rewrite f_log_retrier_drop in A.
      split; [exact A|]. split; [intros y Hy; right; apply B, Hy|]. intros Hnd. inversion Hnd. auto. }
  destruct (next_reply adds) as [rp adds1].
  assert (Hstop : forall sx, f_log sx = f_log s ++ [ReqAdd t l] -> forall rx, (sx, adds1, Some rx) = (s', adds', res) ->
            exists sent, f_log s' = f_log s ++ map (ReqAdd t) sent /\ incl sent (l :: locs) /\ (NoDup (l :: locs) -> NoDup sent)).
  { intros sx Hx rx Hr. inversion Hr. subst. exists [l]. cbn. repeat split; [exact Hx|intros y [<-|[]]; left; reflexivity|].
    intros _. constructor; [intros []|constructor]. }
  assert (Hgo : forall sx, f_log sx = f_log s ++ [ReqAdd t l] -> run_for sx t locs adds1 = (s', adds', res) ->
            exists sent, f_log s' = f_log s ++ map (ReqAdd t) sent /\ incl sent (l :: locs) /\ (NoDup (l :: locs) -> NoDup sent)).
  { intros sx Hx Hr. destruct (IH sx adds1 s' adds' res Hr) as [dn [A [B C]]]. exists (l :: dn).
    split; [rewrite A, Hx; cbn; rewrite <- app_assoc; reflexivity|]. split.
    - intros y [<-|Hy]; [left; reflexivity|right; apply B, Hy].
    - intros Hnd. inversion Hnd as [|? ? Hnl Hnd']. subst. constructor; [intros Hin; apply Hnl, B, Hin|apply C, Hnd']. }
  destruct rp.
  - destruct (wt_add_appointment_receipt _ _ _ _ _ _ _) as [c2 r2]. destruct (lift_site r2).
    + eapply Hstop; [|exact E]. cbn [f_log wr_c]. rewrite f_log_retrier_drop. reflexivity.
    + destruct (wt_remove_pending_appointment c2 t l) as [c3 r3]. destruct (lift_site r3).
      * eapply Hstop; [|exact E]. cbn [f_log wr_c]. rewrite f_log_retrier_drop. reflexivity.
      * eapply Hgo; [|exact E]. cbn [f_log wr_c]. rewrite f_log_retrier_drop. reflexivity.
  - eapply Hstop; [|exact E]. reflexivity.
  - eapply Hstop; [|exact E]. reflexivity.
  - eapply Hstop; [|exact E]. reflexivity.
  - eapply Hstop; [|exact E]. reflexivity.
  - eapply Hstop; [|exact E]. reflexivity.
  - eapply Hstop; [|exact E]. reflexivity.
  - destruct (wt_add_invalid_appointment _ _ _ _ _) as [c2 r2]. destruct (lift_site r2).
    + eapply Hstop; [|exact E]. cbn [f_log wr_c]. rewrite f_log_retrier_drop. reflexivity.
    + destruct (wt_remove_pending_appointment c2 t l) as [c3 r3]. destruct (lift_site r3).
      * eapply Hstop; [|exact E]. cbn [f_log wr_c]. rewrite f_log_retrier_drop. reflexivity.
      * eapply Hgo; [|exact E]. cbn [f_log wr_c]. rewrite f_log_retrier_drop. reflexivity.
Qed.

(* one round of the for loop over the whole set of the retrier *)
Lemma run_round t hint s adds x p s1 adds1 r1 :
  RunPre s t -> retrier_pending s t = x :: p -> run_for s t (reorder hint (x :: p)) adds = (s1, adds1, r1) ->
  (exists dn, f_log s1 = f_log s ++ map (ReqAdd t) dn /\ NoDup dn /\ incl dn (x :: p)) /\
  (forall r, r1 = Some r -> r <> RunOk /\ r <> RunFuel) /\
  (r1 = None -> RunPre s1 t /\ retrier_pending s1 t = [] /\ (forall l, In l (x :: p) -> ~ Prow (c_db (f_c s1)) t l) /\
                (forall l, Prow (c_db (f_c s1)) t l -> Prow (c_db (f_c s)) t l)).
Proof.
  intros Hpre Ep E1. pose proof Hpre as [HF [Hp [Hk Hrun]]].
  assert (Hnd : NoDup (x :: p)).
  { destruct HF as [_ [_ [HV _]]]. destruct (HV Hp) as [_ [_ [V4 _]]]. unfold retrier_pending in Ep.
    destruct (aget (f_mgr s) t) as [r|] eqn:Er; [|discriminate]. rewrite <- Ep. eapply V4, Er. }
  pose proof (NoDup_reorder hint _ Hnd) as Hndr.
  destruct (FInv_run_for t _ s adds s1 adds1 r1 Hpre Hndr) as [A [B [C [D [F [G [PA PN]]]]]]]; [|exact E1|].
  { intros l Hl. rewrite Ep. apply In_reorder in Hl. exact Hl. }
  destruct (run_for_log t _ s adds s1 adds1 r1 E1) as [dn [Hlog [Hincl Hnds]]].
  split; [exists dn; split; [exact Hlog|split; [apply Hnds, Hndr|intros y Hy; apply (In_reorder hint), Hincl, Hy]]|].
  split; [intros r ->; apply (run_for_not_ok t _ _ _ _ _ _ E1)|].
  intros ->. destruct (B I) as [Hp1 Hk1]. split; [|split; [|split]].
  - split; [exact A|]. split; [exact Hp1|]. split; [apply Hk1, Hk|].
    pose proof (run_for_same t (reorder hint (x :: p)) s adds) as [_ Hs]. rewrite E1 in Hs. cbn [fst] in Hs. rewrite Hs. exact Hrun.
  - assert (Hno : forall y, ~ In y (retrier_pending s1 t)).
    { intros y Hy. apply (C eq_refl y); [|exact Hy]. apply In_reorder. rewrite <- Ep. apply D, Hy. }
    destruct (retrier_pending s1 t) as [|y q]; [reflexivity|]. exfalso. apply (Hno y). left. reflexivity.
  - intros l Hl. apply (PN eq_refl l). apply In_reorder. exact Hl.
  - intros l Hl. apply (PA t l Hl).
Qed.

Lemma pick_up_sound s t l :
  RunPre s t -> retrier_pending s t = [] -> In l (retrier_pending (pick_up s t) t) -> Prow (c_db (f_c s)) t l.
Proof.
  intros [HF [Hp [Hk Hrun]]] Ep Hl. unfold retrier_pending in Ep. unfold pick_up in Hl.
  destruct (aget (f_mgr s) t) as [r|] eqn:Er.
  - rewrite retrier_pending_put, N.eqb_refl in Hl. cbn [r_pending] in Hl. rewrite Ep in Hl. apply In_set_union in Hl. destruct Hl as [[]|Hl].
    unfold tower_pending in Hl. destruct (aget (c_towers (f_c s)) t) as [su|] eqn:Et; [|contradiction].
    eapply su_pending_rows; [apply HF|exact Hp|exact Et|exact Hl].
  - unfold retrier_pending in Hl. rewrite Er in Hl. contradiction.
Qed.

Lemma run_while_S f picked s t hint adds :
  run_while (S f) picked s t hint adds =
  match retrier_pending s t with
  | [] => if picked then (s, RunOk) else if poisoned s then (s, RunAbort (SClient Site_poisoned)) else
          let s1 := pick_up s t in match retrier_pending s1 t with [] => (s1, RunOk) | _ => run_while f true s1 t hint adds end
  | p => match run_for s t (reorder hint p) adds with
         | (s1, _, Some r) => (s1, r)
         | (s1, adds1, None) => run_while f picked s1 t hint adds1
         end
  end.
Proof. reflexivity. Qed.

(* after the pick-up: at most one more round *)
Lemma run_while_bounded_picked t hint fuel s adds s' res :
  RunPre s t -> run_while (S (S fuel)) true s t hint adds = (s', res) ->
  res <> RunFuel /\ exists sent, f_log s' = f_log s ++ map (ReqAdd t) sent /\ NoDup sent /\ incl sent (retrier_pending s t).
Proof.
  intros Hpre E. rewrite run_while_S in E.
  destruct (retrier_pending s t) as [|x p] eqn:Ep.
  { inversion E. subst. split; [discriminate|]. exists []. cbn. rewrite app_nil_r. repeat split; [constructor|intros y []]. }
  destruct (run_for s t (reorder hint (x :: p)) adds) as [[s1 adds1] r1] eqn:E1.
  destruct (run_round t hint s adds x p s1 adds1 r1 Hpre Ep E1) as [[dn [Hlog Hsent]] [Hsome Hnone]].
  destruct r1 as [r|].
  - inversion E. subst. split; [apply (Hsome res eq_refl)|]. exists dn. split; [exact Hlog|exact Hsent].
  - destruct (Hnone eq_refl) as [_ [Hempty _]]. rewrite run_while_S, Hempty in E. inversion E. subst. split; [discriminate|]. exists dn. split; [exact Hlog|exact Hsent].
Qed.

(* from an empty set: the pick-up, then at most one round *)
Lemma run_while_bounded_empty t hint fuel s adds s' res :
  RunPre s t -> retrier_pending s t = [] -> run_while (S (S (S fuel))) false s t hint adds = (s', res) ->
  res <> RunFuel /\ exists sent, f_log s' = f_log s ++ map (ReqAdd t) sent /\ NoDup sent /\ (forall l, In l sent -> Prow (c_db (f_c s)) t l).
Proof.
  intros Hpre Ep E. rewrite run_while_S, Ep in E. pose proof Hpre as [_ [Hp _]]. rewrite Hp in E. cbv zeta in E.
  pose proof (RunPre_pick_up s t Hpre) as Hpre1.
  destruct (retrier_pending (pick_up s t) t) as [|y q] eqn:Ep1.
  { inversion E. subst. split; [discriminate|]. exists []. cbn. rewrite app_nil_r, f_log_pick_up. repeat split; [constructor|intros y []]. }
  destruct (run_while_bounded_picked t hint fuel (pick_up s t) adds s' res Hpre1 E) as [A [sent [B [C D]]]].
  split; [exact A|]. exists sent. rewrite f_log_pick_up in B. split; [exact B|]. split; [exact C|].
  intros l Hl. apply (pick_up_sound s t l Hpre Ep). apply D, Hl.
Qed.

(* in a state of the invariant the while loop needs at most four iterations: the retrier's set, the pick-up of what else is
   pending for the tower, that set, and the final test; no locator is sent twice *)
Lemma run_while_bounded t hint : forall fuel s adds s' res,
  RunPre s t -> run_while (S (S (S (S fuel)))) false s t hint adds = (s', res) ->
  res <> RunFuel /\ exists sent, f_log s' = f_log s ++ map (ReqAdd t) sent /\ NoDup sent /\
    (forall l, In l sent -> In l (retrier_pending s t) \/ Prow (c_db (f_c s)) t l).
Proof.
  intros fuel s adds s' res Hpre E.
  destruct (retrier_pending s t) as [|x p] eqn:Ep.
  { destruct (run_while_bounded_empty t hint (S fuel) s adds s' res Hpre Ep E) as [A [sent [B [C D]]]].
    split; [exact A|]. exists sent. split; [exact B|]. split; [exact C|]. intros l Hl. right. apply D, Hl. }
  rewrite run_while_S in E.
  rewrite Ep in E.
  destruct (run_for s t (reorder hint (x :: p)) adds) as [[s1 adds1] r1] eqn:E1.
  destruct (run_round t hint s adds x p s1 adds1 r1 Hpre Ep E1) as [[dn [Hlog [Hnd Hincl]]] [Hsome Hnone]].
  destruct r1 as [r|].
  - inversion E. subst. split; [apply (Hsome res eq_refl)|]. exists dn. split; [exact Hlog|]. split; [exact Hnd|]. intros l Hl. left. apply Hincl, Hl.
  - destruct (Hnone eq_refl) as [Hpre1 [Hempty [Hgone Hback]]].
    destruct (run_while_bounded_empty t hint fuel s1 adds1 s' res Hpre1 Hempty E) as [A [sent2 [B [C D]]]].
    split; [exact A|]. exists (dn ++ sent2). split; [rewrite B, Hlog, map_app, app_assoc; reflexivity|]. split.
    + apply NoDup_app_iff. split; [exact Hnd|]. split; [exact C|]. intros l H1 H2. apply (Hgone l (Hincl l H1)). apply D, H2.
    + intros l Hl. apply in_app_or in Hl. destruct Hl as [Hl|Hl]; [left; apply Hincl, Hl|right; apply Hback, D, Hl].
Qed.

Theorem run_bounded ops t a :
  let s := frun f_init ops in
  In t (f_tasks s) ->
  fst (run_attempt s t a) = fst (run_attempt s t a) /\
  snd (run_attempt s t a) <> RunFuel /\
  exists reg sent, f_log (fst (run_attempt s t a)) = f_log s ++ reg ++ map (ReqAdd t) sent /\
                   (reg = [] \/ reg = [ReqRegister t]) /\ NoDup sent /\
                   (forall l, In l sent -> In l (retrier_pending s t) \/ Prow (c_db (f_c s)) t l).
Proof.
  intros s Hin. split; [reflexivity|].
  pose proof (FInv_frun ops f_init FInv_init) as HF. fold s in HF.
  assert (Hrun : rstat s t = Some RRunning) by (apply HF, Hin).
  unfold run_attempt. destruct (poisoned s) eqn:Hp.
  { cbn. split; [discriminate|]. exists [], []. cbn. rewrite app_nil_r. repeat split; [left; reflexivity|constructor|intros y []]. }
  destruct (aget (c_towers (f_c s)) t) as [su|] eqn:Et.
  2:{ cbn. split; [discriminate|]. exists [], []. cbn. rewrite app_nil_r. repeat split; [left; reflexivity|constructor|intros y []]. }
  assert (Hk : knownc (f_c s) t) by (unfold knownc, amem; rewrite Et; reflexivity).
  destruct (is_misbehaving (su_status su)).
  { cbn. split; [discriminate|]. exists [], []. cbn. rewrite app_nil_r. repeat split; [left; reflexivity|constructor|intros y []]. }
  assert (Hgo : forall s0 reg, FInv s0 -> poisoned s0 = false -> knownc (f_c s0) t -> rstat s0 t = Some RRunning ->
            f_log s0 = f_log s ++ reg -> retrier_pending s0 t = retrier_pending s t ->
            (forall l, Prow (c_db (f_c s0)) t l -> Prow (c_db (f_c s)) t l) ->
            snd (run_while (run_fuel s0 t) false s0 t (at_order a) (at_adds a)) <> RunFuel /\
            exists sent, f_log (fst (run_while (run_fuel s0 t) false s0 t (at_order a) (at_adds a))) = f_log s ++ reg ++ map (ReqAdd t) sent /\
                         NoDup sent /\ (forall l, In l sent -> In l (retrier_pending s t) \/ Prow (c_db (f_c s)) t l)).
  { intros s0 reg H0 Hp0 Hk0 Hr0 Hl0 Hpe0 HP0. unfold run_fuel.
    destruct (run_while (S (S (S (S (length (retrier_pending s0 t)))))) false s0 t (at_order a) (at_adds a)) as [sx rx] eqn:Ex.
    destruct (run_while_bounded t (at_order a) _ s0 (at_adds a) sx rx (conj H0 (conj Hp0 (conj Hk0 Hr0))) Ex) as [A [sent [B [C D]]]].
    cbn [fst snd]. split; [exact A|]. exists sent. split; [rewrite B, Hl0, <- app_assoc; reflexivity|]. split; [exact C|].
    intros l Hl. destruct (D l Hl) as [H|H]; [left; rewrite <- Hpe0; exact H|right; apply HP0, H]. }
  destruct (is_subscription_error (su_status su)).
  2:{ destruct (Hgo s [] HF Hp Hk Hrun) as [A [sent [B C]]]; [rewrite app_nil_r; reflexivity|reflexivity|auto|].
      split; [exact A|]. exists [], sent. split; [exact B|]. split; [left; reflexivity|exact C]. }
  set (s1 := log_req s (ReqRegister t)).
  assert (HF1 : FInv s1) by (apply (FInv_core s); auto).
  assert (Hnone : forall e, (s1, RunErr e) = (s1, RunErr e) -> RunErr e <> RunFuel /\
            exists reg sent, f_log s1 = f_log s ++ reg ++ map (ReqAdd t) sent /\ (reg = [] \/ reg = [ReqRegister t]) /\ NoDup sent /\
              (forall l, In l sent -> In l (retrier_pending s t) \/ Prow (c_db (f_c s)) t l)).
  { intros e _. split; [discriminate|]. exists [ReqRegister t], []. cbn. repeat split; [right; reflexivity|constructor|intros y []]. }
  destruct (at_reg a) as [slots start expiry sig_ok| | | |]; cbn [fst snd]; try (apply (Hnone _ eq_refl)).
  destruct (negb sig_ok); cbn [fst snd]; [apply (Hnone _ eq_refl)|].
  destruct (wt_add_update_tower (f_c s1) t (su_addr su) slots start expiry REG_SIG) as [c' r] eqn:Eu.
  destruct (FInv_renew s1 t _ _ _ _ _ c' r HF1 Hp Hk Eu) as [HF2 Hok].
  assert (HPeq : forall l, Prow (c_db c') t l -> Prow (c_db (f_c s)) t l).
  { pose proof HF as [HI _]. destruct (prim_add_update_tower _ _ _ _ _ _ _ _ _ HI Hp Eu) as [_ [_ [_ [[Ed _]|[_ [_ [_ [_ [_ Hfr]]]]]]]]].
    - rewrite Ed. auto.
    - intros l. apply (Prow_ext _ _ t l (Hfr T_pending_appointments ltac:(discriminate) ltac:(discriminate))). }
  destruct r; cbn [fst snd]; try (split; [discriminate|]; exists [ReqRegister t], []; cbn; repeat split; [right; reflexivity|constructor|intros y []]).
  destruct (Hok eq_refl) as [Hp2 Hkn2].
  destruct (Hgo (wr_c s1 c') [ReqRegister t] HF2 Hp2 (proj2 (Hkn2 t) Hk) Hrun eq_refl eq_refl HPeq) as [A [sent [B C]]].
  split; [exact A|]. exists [ReqRegister t], sent. split; [exact B|]. split; [right; reflexivity|exact C].
Qed.

(* ====================================================================== *)
(* C05 no_record_lost_by_retry                                            *)
(* ====================================================================== *)
Lemma c_db_retrier_set_status s t st : c_db (f_c (retrier_set_status s t st)) = c_db (f_c s).
Proof. unfold retrier_set_status. destruct (aget (f_mgr s) t); reflexivity. Qed.
Lemma f_c_retrier_set_status s t st : f_c (retrier_set_status s t st) = f_c s.
Proof. unfold retrier_set_status. destruct (aget (f_mgr s) t); reflexivity. Qed.
Lemma f_c_retrier_clear s t : f_c (retrier_clear s t) = f_c s.
Proof. unfold retrier_clear. destruct (aget (f_mgr s) t); reflexivity. Qed.

Lemma task_step_keeps s t r more :
  Inv (f_c s) -> (match r with RunAbort _ => False | _ => True end -> poisoned s = false) ->
  keeps (c_db (f_c s)) (c_db (f_c (fst (task_step s t r more)))).
Proof.
  intros HI Hnp. unfold task_step. destruct r as [|e|site|]; cbn [fst].
  - cbn [f_c end_task set_tasks]. rewrite f_c_retrier_set_status. cbn [f_c set_c c_db with_retriers]. rewrite DbInv_set_status. apply keeps_refl.
  - destruct (negb (is_permanent e) && more); [apply keeps_refl|].
    set (s1 := if is_permanent e then retrier_set_status s t RFailed else s).
    assert (Ec1 : f_c s1 = f_c s) by (unfold s1; destruct (is_permanent e); [apply f_c_retrier_set_status|reflexivity]).
    destruct e as [[|]| |l| |]; cbn [fst f_c end_task set_tasks set_c].
    + rewrite DbInv_set_status, Ec1. apply keeps_refl.
    + rewrite f_c_retrier_clear, f_c_retrier_set_status. cbn [f_c set_c]. rewrite DbInv_set_status. cbn [c_db with_retriers]. rewrite Ec1. apply keeps_refl.
    + rewrite f_c_retrier_clear, f_c_retrier_set_status. cbn [f_c set_c]. rewrite DbInv_set_status. cbn [c_db with_retriers]. rewrite Ec1. apply keeps_refl.
    + rewrite Ec1. destruct (wt_flag_misbehaving_tower (f_c s) t l START_BLOCK USER_SIG SIG_OTHER (other_id t)) as [c2 r2] eqn:E2.
      destruct (prim_flag _ _ _ _ _ _ _ _ _ HI (Hnp I) E2) as [_ [_ [_ Heff]]].
      assert (Hk : keeps (c_db (f_c s)) (c_db c2)).
      { destruct Heff as [[Ed _]|[_ [_ [_ [_ [_ [_ [ER Hfr]]]]]]]]; [rewrite Ed; apply keeps_refl|].
        intros k x [H|[H|H]].
        - left. apply ER. left. exact H.
        - right. left. apply (Prow_ext _ _ k x (Hfr T_pending_appointments ltac:(discriminate) ltac:(discriminate))), H.
        - right. right. apply (Irow_ext _ _ k x (Hfr T_invalid_appointments ltac:(discriminate) ltac:(discriminate))), H. }
      destruct (lift_site r2); cbn [fst f_c end_task set_tasks set_c wr_c]; exact Hk.
    + rewrite Ec1. apply keeps_refl.
    + rewrite Ec1. apply keeps_refl.
  - apply keeps_refl.
  - apply keeps_refl.
Qed.

Lemma retrier_run_keeps t : forall atts s, FInv s -> keeps (c_db (f_c s)) (c_db (f_c (fst (f_retrier_run s t atts)))).
Proof.
  induction atts as [|a atts IH]; intros s HF; cbn [f_retrier_run]; [apply keeps_refl|].
  destruct (memN t (f_tasks s)) eqn:Em; cbn [negb]; [|apply keeps_refl].
  assert (Hrun : rstat s t = Some RRunning) by (apply HF, memN_In, Em).
  destruct (run_attempt s t a) as [s1 r] eqn:E1.
  destruct (FInv_run_attempt s t a s1 r HF Hrun E1) as [HF1 [Hnp [_ [K1 _]]]].
  assert (Hrun1 : rstat s1 t = Some RRunning).
  { pose proof (run_attempt_same s t a) as [_ Hs]. rewrite E1 in Hs. cbn [fst] in Hs. rewrite Hs. exact Hrun. }
  pose proof (FInv_task_step s1 t r (at_more a) HF1 Hrun1 Hnp) as HF2.
  pose proof (task_step_keeps s1 t r (at_more a) (proj1 HF1) Hnp) as K2.
  destruct (task_step s1 t r (at_more a)) as [s2 o]. cbn [fst] in HF2, K2.
  assert (K : keeps (c_db (f_c s)) (c_db (f_c s2))) by (eapply keeps_trans; eassumption).
  destruct o; try exact K. destruct atts; [exact K|]. eapply keeps_trans; [exact K|apply IH, HF2].
Qed.

(* a retrier run never loses a record: every (tower, locator) that had a receipt, a pending row or an invalid
   row before still has one of the three after — from every state of EVERY operation sequence, for every
   reply sequence given to the retrier *)
Theorem no_record_lost_by_retry ops t atts :
  let s := frun f_init ops in
  forall k x, recorded (c_db (f_c s)) k x -> recorded (c_db (f_c (fst (fstep s (FRetrierRun t atts))))) k x.
Proof.
  intros s k x H. pose proof (FInv_frun ops f_init FInv_init) as HF. fold s in HF.
  cbn [fstep]. pose proof (retrier_run_keeps t atts s HF) as K. destruct (f_retrier_run s t atts) as [s' o]. cbn [fst] in *. apply K, H.
Qed.

(* ====================================================================== *)
(* abort freedom of the store primitives (in states of the invariant)      *)
(* ====================================================================== *)
Lemma db_insert_succeeds d tb r :
  (tb < length d)%nat -> length r = ts_arity (tsch CS tb) -> has_pk CS d tb (proj r (ts_pk (tsch CS tb))) = false ->
  forallb (parent_present d r) (ts_fks (tsch CS tb)) = true -> exists d', db_insert CS d tb r = DbOk d'.
Proof.
  intros H1 H2 H3 H4. unfold db_insert. apply Nat.ltb_lt in H1. apply Nat.eqb_eq in H2. rewrite H1, H2, H3, H4. cbn. eexists. reflexivity.
Qed.

Lemma tower_parent d t r cols :
  Trow d t -> proj r cols = [t] -> parent_present d r (mk_fkey cols T_towers [C_towers_tower_id] true) = true.
Proof.
  intros [tr [A B]] Hp. apply parent_present_iff. exists tr. cbn [fk_parent fk_pcols fk_cols]. split; [exact A|].
  rewrite Hp, proj1_col, B. reflexivity.
Qed.

Lemma DbInv_len d : DbInv d -> length d = 8%nat.
Proof. intros [_ [_ [L _]]]. exact L. Qed.

Lemma store_receipt_succeeds d t l slots sb u g :
  DbInv d -> Trow d t -> ~ Rrow d t l -> exists d', dbm_store_appointment_receipt d t l slots sb u g = DbOk d'.
Proof.
  intros HD HT HR. unfold dbm_store_appointment_receipt. rewrite receipt_row_eq.
  destruct (db_insert_succeeds d T_appointment_receipts [l; t; sb; u; g]) as [d1 E1].
  - rewrite (DbInv_len d HD). unfold T_appointment_receipts. lia.
  - reflexivity.
  - destruct (has_pk CS d T_appointment_receipts (proj [l; t; sb; u; g] (ts_pk (tsch CS T_appointment_receipts)))) eqn:E; [|reflexivity].
    exfalso. apply HR. apply has_receipt_row_iff. exact E.
  - cbn [ts_fks tsch CS client_schema nth T_appointment_receipts forallb]. rewrite andb_true_r.
    apply (tower_parent d t). exact HT. reflexivity.
  - rewrite E1. unfold db_update. cbn. eexists. reflexivity.
Qed.

Lemma exec_ignore_body d l b dl : DbInv d ->
  let d1 := exec_ignore CS d (SInsert T_appointments (body_row l b dl)) in
  (exists row, In row (tbl d1 T_appointments) /\ col row C_appointments_locator = l) /\ length d1 = 8%nat /\
  (forall c, c <> T_appointments -> tbl d1 c = tbl d c).
Proof.
  intros HD. cbn zeta. destruct (exec_ignore_insert_frame d T_appointments (body_row l b dl)) as [F L]. rewrite L, (DbInv_len d HD).
  split; [|split; [reflexivity|exact F]].
  unfold exec_ignore. cbn [exec]. rewrite body_row_eq. destruct (db_insert CS d T_appointments [l; b; dl]) as [d1|e] eqn:E.
  - apply tbl_insert in E. destruct E as [T _]. exists [l; b; dl]. split; [rewrite T; apply in_or_app; right; left; reflexivity|reflexivity].
  - (* the insert failed: only because the body is already there *)
    unfold db_insert in E. rewrite (DbInv_len d HD) in E.
    replace (negb (T_appointments <? 8)%nat || negb (length [l; b; dl] =? ts_arity (tsch CS T_appointments))%nat) with false in E by reflexivity.
    destruct (has_pk CS d T_appointments (proj [l; b; dl] (ts_pk (tsch CS T_appointments)))) eqn:Eh.
    + apply has_pk_true in Eh. destruct Eh as [row [A B]]. exists row. split; [exact A|]. cbn in B. inversion B. reflexivity.
    + cbn in E. discriminate.
Qed.

Lemma body_parent d l r cols :
  (exists row, In row (tbl d T_appointments) /\ col row C_appointments_locator = l) -> proj r cols = [l] ->
  parent_present d r (mk_fkey cols T_appointments [C_appointments_locator] true) = true.
Proof.
  intros [row [A B]] Hp. apply parent_present_iff. exists row. cbn [fk_parent fk_pcols fk_cols]. split; [exact A|].
  rewrite Hp, proj1_col, B. reflexivity.
Qed.

Lemma store_pending_succeeds d t l b dl :
  DbInv d -> Trow d t -> ~ Prow d t l -> exists d', dbm_store_pending_appointment d t l b dl = DbOk d'.
Proof.
  intros HD HT HP. unfold dbm_store_pending_appointment. rewrite mkrow_pending.
  destruct (exec_ignore_body d l b dl HD) as [Hb [L F]]. set (d1 := exec_ignore CS d (SInsert T_appointments (body_row l b dl))) in *.
  apply db_insert_succeeds.
  - rewrite L. unfold T_pending_appointments, T_invalid_appointments. lia.
  - reflexivity.
  - destruct (has_pk CS d1 T_pending_appointments (proj [l; t] (ts_pk (tsch CS T_pending_appointments)))) eqn:E; [|reflexivity].
    exfalso. apply HP. apply has_pending_row_iff. unfold has_pending_row, has_pk in *. rewrite <- (F T_pending_appointments) by discriminate. exact E.
  - cbn [ts_fks tsch CS client_schema nth T_pending_appointments forallb]. rewrite andb_true_r. apply andb_true_iff. split.
    + apply (body_parent d1 l). exact Hb. reflexivity.
    + apply (tower_parent d1 t); [|reflexivity]. destruct HT as [tr [A B]]. exists tr. split; [rewrite F by discriminate; exact A|exact B].
Qed.

Lemma store_invalid_succeeds d t l b dl :
  DbInv d -> Trow d t -> ~ Irow d t l -> exists d', dbm_store_invalid_appointment d t l b dl = DbOk d'.
Proof.
  intros HD HT HP. unfold dbm_store_invalid_appointment. rewrite mkrow_invalid.
  destruct (exec_ignore_body d l b dl HD) as [Hb [L F]]. set (d1 := exec_ignore CS d (SInsert T_appointments (body_row l b dl))) in *.
  apply db_insert_succeeds.
  - rewrite L. unfold T_pending_appointments, T_invalid_appointments. lia.
  - reflexivity.
  - destruct (has_pk CS d1 T_invalid_appointments (proj [l; t] (ts_pk (tsch CS T_invalid_appointments)))) eqn:E; [|reflexivity].
    exfalso. apply HP. apply has_invalid_row_iff. unfold has_invalid_row, has_pk in *. rewrite <- (F T_invalid_appointments) by discriminate. exact E.
  - cbn [ts_fks tsch CS client_schema nth T_invalid_appointments forallb]. rewrite andb_true_r. apply andb_true_iff. split.
    + apply (body_parent d1 l). exact Hb. reflexivity.
    + apply (tower_parent d1 t); [|reflexivity]. destruct HT as [tr [A B]]. exists tr. split; [rewrite F by discriminate; exact A|exact B].
Qed.

Lemma store_proof_succeeds d t l sb u g rc :
  DbInv d -> Trow d t -> ~ Rrow d t l -> ~ Mrow d t -> exists d', dbm_store_misbehaving_proof d t l sb u g rc = DbOk d'.
Proof.
  intros HD HT HR HM. unfold dbm_store_misbehaving_proof, proof_row. rewrite receipt_row_eq, mkrow_proof.
  destruct (db_insert_succeeds d T_appointment_receipts [l; t; sb; u; g]) as [d1 E1].
  - rewrite (DbInv_len d HD). unfold T_appointment_receipts. lia.
  - reflexivity.
  - destruct (has_pk CS d T_appointment_receipts (proj [l; t; sb; u; g] (ts_pk (tsch CS T_appointment_receipts)))) eqn:E; [|reflexivity].
    exfalso. apply HR. apply has_receipt_row_iff. exact E.
  - cbn [ts_fks tsch CS client_schema nth T_appointment_receipts forallb]. rewrite andb_true_r. apply (tower_parent d t). exact HT. reflexivity.
  - rewrite E1. pose proof (tbl_insert CS d _ _ d1 E1) as [T1 [O1 L1]].
    apply db_insert_succeeds.
    + rewrite L1, (DbInv_len d HD). unfold T_misbehaving_proofs. lia.
    + reflexivity.
    + destruct (has_pk CS d1 T_misbehaving_proofs (proj [t; l; rc] (ts_pk (tsch CS T_misbehaving_proofs)))) eqn:E; [|reflexivity].
      exfalso. apply HM. apply proof_iff. unfold exists_misbehaving_proof, has_pk in *. rewrite <- (O1 T_misbehaving_proofs) by discriminate. exact E.
    + cbn [ts_fks tsch CS client_schema nth T_misbehaving_proofs forallb]. rewrite andb_true_r.
      apply parent_present_iff. exists [l; t; sb; u; g]. cbn [fk_parent fk_pcols fk_cols]. unfold T_appointment_receipts in T1. split; [rewrite T1; apply in_or_app; right; left; reflexivity|reflexivity].
Qed.

Lemma add_receipt_ok c t l slots sb u g : Inv c -> c_poisoned c = false -> knownc c t ->
  snd (wt_add_appointment_receipt c t l slots sb u g) = ROk.
Proof.
  intros HI Hp Hk. pose proof (proj1 (known_iff_Trow c t HI Hp) Hk) as HT. unfold wt_add_appointment_receipt.
  unfold knownc, amem in Hk. destruct (aget (c_towers c) t); [|discriminate].
  destruct (dbm_load_appointment_receipt (c_db c) t l) eqn:El; [reflexivity|].
  destruct (store_receipt_succeeds (c_db c) t l slots sb u g (proj1 HI) HT) as [d' ->]; [|reflexivity].
  intros HR. apply has_receipt_row_iff in HR. unfold has_receipt_row in HR. rewrite has_pk_find in HR.
  unfold dbm_load_appointment_receipt in El. rewrite El in HR. discriminate.
Qed.

Lemma add_pending_ok c t l b dl : Inv c -> c_poisoned c = false -> knownc c t ->
  snd (wt_add_pending_appointment c t l b dl) = ROk.
Proof.
  intros HI Hp Hk. pose proof (proj1 (known_iff_Trow c t HI Hp) Hk) as HT. unfold wt_add_pending_appointment.
  unfold knownc, amem in Hk. destruct (aget (c_towers c) t) as [su|] eqn:Et; [|discriminate].
  destruct (memN l (su_pending su)) eqn:Em; [reflexivity|].
  destruct (store_pending_succeeds (c_db c) t l b dl (proj1 HI) HT) as [d' ->]; [|reflexivity].
  intros HP. destruct HI as [HD HM]. destruct (proj1 (HM Hp) t su Et) as [tr [rr [_ [_ [_ [_ [_ [_ [C5 _]]]]]]]]].
  assert (In l (su_pending su)); [|apply memN_In in H; congruence].
  apply C5, In_pending_locators. destruct HP as [row [A [B C]]]. exists row. auto.
Qed.

Lemma add_invalid_ok c t l b dl : Inv c -> c_poisoned c = false -> knownc c t ->
  snd (wt_add_invalid_appointment c t l b dl) = ROk.
Proof.
  intros HI Hp Hk. pose proof (proj1 (known_iff_Trow c t HI Hp) Hk) as HT. unfold wt_add_invalid_appointment.
  unfold knownc, amem in Hk. destruct (aget (c_towers c) t) as [su|] eqn:Et; [|discriminate].
  destruct (memN l (su_invalid su)) eqn:Em; [reflexivity|].
  destruct (store_invalid_succeeds (c_db c) t l b dl (proj1 HI) HT) as [d' ->]; [|reflexivity].
  intros HP. destruct HI as [HD HM]. destruct (proj1 (HM Hp) t su Et) as [tr [rr [_ [_ [_ [_ [_ [_ [_ C6]]]]]]]]].
  assert (In l (su_invalid su)); [|apply memN_In in H; congruence].
  apply C6, In_invalid_locators. destruct HP as [row [A [B C]]]. exists row. auto.
Qed.

(* store_misbehaving_proof_over_receipt (fix d35e2bc): the receipt of (tower, locator) is there, no proof yet *)
Lemma store_proof_over_receipt_succeeds d t l sb u g rc :
  DbInv d -> Rrow d t l -> ~ Mrow d t -> exists d', dbm_store_misbehaving_proof_over_receipt d t l sb u g rc = DbOk d'.
Proof.
  intros HD HR HM. unfold dbm_store_misbehaving_proof_over_receipt, proof_row. rewrite mkrow_proof.
  destruct (db_update CS d T_appointment_receipts [l; t]
              [(C_appointment_receipts_start_block, sb); (C_appointment_receipts_user_signature, u); (C_appointment_receipts_tower_signature, g)] false) as [d1|e] eqn:E1.
  2:{ unfold db_update in E1. cbn in E1. discriminate. }
  pose proof (tbl_update CS _ _ _ _ _ d1 E1) as [O1 [L1 T1]].
  apply db_insert_succeeds.
  - rewrite L1, (DbInv_len d HD). unfold T_misbehaving_proofs. lia.
  - reflexivity.
  - destruct (has_pk CS d1 T_misbehaving_proofs (proj [t; l; rc] (ts_pk (tsch CS T_misbehaving_proofs)))) eqn:E; [|reflexivity].
    exfalso. apply HM. apply proof_iff. unfold exists_misbehaving_proof, has_pk in *. rewrite <- (O1 T_misbehaving_proofs) by discriminate. exact E.
  - cbn [ts_fks tsch CS client_schema nth T_misbehaving_proofs forallb]. rewrite andb_true_r.
    apply parent_present_iff. cbn [fk_parent fk_pcols fk_cols]. destruct HR as [row [A [B C]]].
    exists (upd_receipt t l sb u g row). split.
    + change 5%nat with T_appointment_receipts. rewrite T1 by (rewrite (DbInv_len d HD); unfold T_appointment_receipts; lia).
      apply in_map_iff. exists row. split; [reflexivity|exact A].
    + destruct (upd_receipt_key t l sb u g row) as [K1 K2].
      change (proj (upd_receipt t l sb u g row) [0%nat; 1%nat]) with
        [col (upd_receipt t l sb u g row) C_appointment_receipts_locator; col (upd_receipt t l sb u g row) C_appointment_receipts_tower_id].
      rewrite K1, K2, B, C. reflexivity.
Qed.

Lemma flag_store_succeeds d t l sb u g rc : DbInv d -> Trow d t -> exists d', flag_store d t l sb u g rc = DbOk d'.
Proof.
  intros HD HT. unfold flag_store. destruct (exists_misbehaving_proof d t) eqn:Em; [eexists; reflexivity|].
  assert (HM : ~ Mrow d t) by (intros H; apply proof_iff in H; congruence).
  destruct (dbm_load_appointment_receipt d t l) as [rc0|] eqn:El.
  - apply store_proof_over_receipt_succeeds; [exact HD| |exact HM].
    unfold dbm_load_appointment_receipt in El. apply find_pk_Some in El. destruct El as [A B].
    cbn in B. exists rc0. split; [exact A|]. inversion B. split; reflexivity.
  - apply store_proof_succeeds; [exact HD|exact HT| |exact HM].
    intros HR. apply has_receipt_row_iff in HR. unfold has_receipt_row in HR. rewrite has_pk_find in HR.
    unfold dbm_load_appointment_receipt in El. rewrite El in HR. discriminate.
Qed.

(* flag_misbehaving_tower never aborts (fix d35e2bc): whatever is already stored for the tower *)
Lemma flag_ok c t l sb u g rc : Inv c -> c_poisoned c = false -> knownc c t ->
  snd (wt_flag_misbehaving_tower c t l sb u g rc) = ROk.
Proof.
  intros HI Hp Hk. pose proof (proj1 (known_iff_Trow c t HI Hp) Hk) as HT. unfold wt_flag_misbehaving_tower.
  unfold knownc, amem in Hk. destruct (aget (c_towers c) t); [|discriminate].
  destruct (flag_store_succeeds (c_db c) t l sb u g rc (proj1 HI) HT) as [d' ->]. reflexivity.
Qed.

(* ====================================================================== *)
(* C14 no_reply_aborts                                                    *)
(* ====================================================================== *)
Lemma rev_pend_no_abort s0 l t send : Inv (f_c s0) -> poisoned s0 = false -> knownc (f_c s0) t -> snd (rev_pend s0 l t send) = None.
Proof.
  intros HI Hp Hk. unfold rev_pend. pose proof (add_pending_ok (f_c s0) t l BLOB DELAY HI Hp Hk) as H.
  destruct (wt_add_pending_appointment (f_c s0) t l BLOB DELAY) as [c2 r]. cbn [snd] in H. subst r. reflexivity.
Qed.

(* the notification path: whatever the tower replies, the handler does not panic *)
Lemma rev_tower_no_abort s l t st rp :
  FInv s -> poisoned s = false -> knownc (f_c s) t -> snd (rev_tower s l t st rp) = None.
Proof.
  intros HF Hp Hk. pose proof HF as [HI _]. unfold rev_tower. rewrite Hp.
  destruct (wt_has_appointment (f_c s) t l) eqn:Eha; [reflexivity|].
  set (s1 := log_req s (ReqAdd t l)).
  assert (Hst : forall st', Inv (f_c (set_c s1 (wt_set_tower_status (f_c s1) t st'))) /\ poisoned (set_c s1 (wt_set_tower_status (f_c s1) t st')) = false /\
                            knownc (f_c (set_c s1 (wt_set_tower_status (f_c s1) t st'))) t).
  { intros st'. cbn [f_c set_c]. split; [apply Inv_set_status, HI|]. split; [unfold poisoned; cbn [f_c set_c]; rewrite poisoned_set_status; exact Hp|].
    apply knownc_set_status. exact Hk. }
  destruct (is_reachable st).
  - destruct rp as [slots| | | | | | |].
    + pose proof (add_receipt_ok (f_c s1) t l slots START_BLOCK USER_SIG SIG_TOWER HI Hp Hk) as H.
      destruct (wt_add_appointment_receipt (f_c s1) t l slots START_BLOCK USER_SIG SIG_TOWER) as [c2 r]. cbn [snd] in *. subst r. reflexivity.
    + pose proof (flag_ok (f_c s1) t l START_BLOCK USER_SIG SIG_OTHER (other_id t) HI Hp Hk) as H.
      destruct (wt_flag_misbehaving_tower (f_c s1) t l START_BLOCK USER_SIG SIG_OTHER (other_id t)) as [c2 r]. cbn [snd] in *. subst r. reflexivity.
    + destruct (Hst TemporaryUnreachable) as [A [B C]]. apply rev_pend_no_abort; assumption.
    + destruct (Hst TemporaryUnreachable) as [A [B C]]. apply rev_pend_no_abort; assumption.
    + destruct (Hst TemporaryUnreachable) as [A [B C]]. apply rev_pend_no_abort; assumption.
    + destruct (Hst TemporaryUnreachable) as [A [B C]]. apply rev_pend_no_abort; assumption.
    + destruct (Hst SubscriptionError) as [A [B C]]. apply rev_pend_no_abort; assumption.
    + pose proof (add_invalid_ok (f_c s1) t l BLOB DELAY HI Hp Hk) as H.
      destruct (wt_add_invalid_appointment (f_c s1) t l BLOB DELAY) as [c2 r]. cbn [snd] in *. subst r. reflexivity.
  - destruct (is_misbehaving st); [reflexivity|]. apply rev_pend_no_abort; assumption.
Qed.

Lemma rev_loop_no_abort l replies : forall snap s,
  FInv s -> poisoned s = false ->
  (forall t st, In (t, st) snap -> knownc (f_c s) t /\ (st = Misbehaving -> Mrow (c_db (f_c s)) t)) ->
  snd (rev_loop s l snap replies) = None.
Proof.
  induction snap as [|[t st] snap IH]; intros s HF Hp Hsn; cbn [rev_loop]; [reflexivity|].
  destruct (Hsn t st (or_introl eq_refl)) as [Hk Hm].
  pose proof (rev_tower_no_abort s l t st (reply_for replies t) HF Hp Hk) as Hna.
  destruct (rev_tower s l t st (reply_for replies t)) as [s1 o1] eqn:E1. cbn [snd] in Hna. subst o1.
  destruct (FInv_rev_tower s l t st _ s1 None HF Hk Hm E1) as [HF1 [_ [Hg1 [Hkn1 Hok1]]]].
  destruct (Hok1 eq_refl) as [Hp1 _]. apply IH; [exact HF1|exact Hp1|].
  intros t0 st0 Hin. destruct (Hsn t0 st0 (or_intror Hin)) as [A B]. split; [apply Hkn1, A|]. intros H. apply Hg1, B, H.
Qed.

Lemma revocation_no_abort s l order replies :
  FInv s -> poisoned s = false -> snd (f_revocation s l order replies) = OOk.
Proof.
  intros HF Hp. unfold f_revocation. rewrite Hp.
  set (snap := reorder_towers order (towers_snapshot (f_c s))).
  assert (Hsn : forall t st, In (t, st) snap -> knownc (f_c s) t /\ (st = Misbehaving -> Mrow (c_db (f_c s)) t)).
  { intros t st Hin. apply reorder_towers_In, towers_snapshot_In in Hin. destruct HF as [_ [_ [HV _]]]. destruct (HV Hp) as [V1 _].
    split; [|intros ->; apply V1, Hin]. unfold knownc, amem. unfold stat in Hin. destruct (aget (c_towers (f_c s)) t); [reflexivity|discriminate]. }
  pose proof (rev_loop_no_abort l replies snap s HF Hp Hsn) as H.
  destruct (rev_loop s l snap replies) as [s1 o]. cbn [snd] in H. subst o. reflexivity.
Qed.

(* ---- the retry path ---- *)
Lemma run_for_cons t l locs s adds :
  run_for s t (l :: locs) adds =
  match run_for s t [l] adds with
  | (s1, adds1, None) => run_for s1 t locs adds1
  | (s1, adds1, Some r) => (s1, adds1, Some r)
  end.
Proof.
  cbn [run_for]. destruct (poisoned s); [reflexivity|]. destruct (load_pending (f_c s) t l); [|reflexivity].
  destruct (next_reply adds) as [rp adds1]. destruct rp; try reflexivity.
  - destruct (wt_add_appointment_receipt _ _ _ _ _ _ _) as [c2 r2]. destruct (lift_site r2); [reflexivity|].
    destruct (wt_remove_pending_appointment c2 t l) as [c3 r3]. destruct (lift_site r3); reflexivity.
  - destruct (wt_add_invalid_appointment _ _ _ _ _) as [c2 r2]. destruct (lift_site r2); [reflexivity|].
    destruct (wt_remove_pending_appointment c2 t l) as [c3 r3]. destruct (lift_site r3); reflexivity.
Qed.

Lemma pending_body d t l : DbInv d -> Prow d t l -> exists b, dbm_load_appointment d l = Some b.
Proof.
  intros [[Hfk Hpk] _] [row [A [B C]]]. destruct (fk_pending_body d row Hfk A) as [b [Hb Eb]].
  exists b. unfold dbm_load_appointment. apply (find_pk_unique d T_appointments [l] b Hpk Hb). cbn. f_equal. rewrite <- B, <- Eb. reflexivity.
Qed.

Lemma run_for_one_no_abort t l s adds :
  RunPre s t -> no_abort (snd (run_for s t [l] adds)).
Proof.
  intros [HF [Hp [Hk Hrun]]]. pose proof HF as [HI [HD [HV HT]]].
  pose proof (load_pending_spec (f_c s) t l HI Hp) as Hlp.
  cbn [run_for]. rewrite Hp. destruct (load_pending (f_c s) t l) as [body|]; [|exact I]. destruct Hlp as [_ HPl].
  set (s1 := log_req s (ReqAdd t l)).
  assert (HF1 : FInv s1) by (apply (FInv_core s); auto).
  destruct (next_reply adds) as [rp adds1]. destruct rp; cbn [snd no_abort]; try exact I.
  - rewrite f_c_retrier_drop.
    pose proof (add_receipt_ok (f_c s1) t l slots START_BLOCK USER_SIG SIG_TOWER HI Hp Hk) as Hok.
    destruct (wt_add_appointment_receipt (f_c s1) t l slots START_BLOCK USER_SIG SIG_TOWER) as [c2 r2] eqn:E2. cbn [snd] in Hok. subst r2.
    destruct (add_receipt_spec_for_move _ _ _ _ _ _ HI Hp Hk E2) as [S1 [S2 [S3 [S4 [S5 [S6 S7]]]]]].
    pose proof (FInv_move_generic s1 t l 0 c2 ROk HF1 Hp Hk HPl (or_introl eq_refl) S1 S2 S3 S4 S5 S6 S7) as Hmove.
    cbn [lift_site] in *. destruct (wt_remove_pending_appointment c2 t l) as [c3 r3]. cbn [fst snd] in Hmove. destruct Hmove as [M1 _]. rewrite M1. exact I.
  - rewrite f_c_retrier_drop.
    pose proof (add_invalid_ok (f_c s1) t l (col body C_appointments_encrypted_blob) (col body C_appointments_to_self_delay) HI Hp Hk) as Hok.
    destruct (wt_add_invalid_appointment (f_c s1) t l (col body C_appointments_encrypted_blob) (col body C_appointments_to_self_delay)) as [c2 r2] eqn:E2.
    cbn [snd] in Hok. subst r2.
    destruct (add_invalid_spec_for_move _ _ _ _ _ _ _ HI Hp Hk E2) as [S1 [S2 [S3 [S4 [S5 [S6 S7]]]]]].
    pose proof (FInv_move_generic s1 t l 2 c2 ROk HF1 Hp Hk HPl (or_intror eq_refl) S1 S2 S3 S4 S5 S6 S7) as Hmove.
    cbn [lift_site] in *. destruct (wt_remove_pending_appointment c2 t l) as [c3 r3]. cbn [fst snd] in Hmove. destruct Hmove as [M1 _]. rewrite M1. exact I.
Qed.

(* Retrier::run has no panic site left (fix 8108569): whatever the retrier's set holds *)
Lemma run_for_no_abort t : forall locs s adds,
  RunPre s t -> NoDup locs -> (forall l, In l locs -> In l (retrier_pending s t)) -> no_abort (snd (run_for s t locs adds)).
Proof.
  induction locs as [|l locs IH]; intros s adds Hpre Hnd Hsub; [exact I|].
  rewrite run_for_cons. inversion Hnd as [|? ? Hnl Hnd']. subst.
  pose proof (run_for_one_no_abort t l s adds Hpre) as H1.
  destruct (run_for s t [l] adds) as [[s1 adds1] r1] eqn:E1. cbn [snd] in H1.
  destruct r1 as [r|]; [exact H1|].
  assert (Hnd1 : NoDup [l]) by (constructor; [intros []|constructor]).
  destruct (FInv_run_for t [l] s adds s1 adds1 None Hpre Hnd1) as [A [B [C [D _]]]]; [intros x [<-|[]]; apply Hsub; left; reflexivity|exact E1|].
  destruct (B I) as [Hp1 Hk1]. destruct Hpre as [HF [Hp [Hk Hrun]]].
  apply IH; [|exact Hnd'|].
  - split; [exact A|]. split; [exact Hp1|]. split; [apply Hk1, Hk|].
    pose proof (run_for_same t [l] s adds) as [_ Hs]. rewrite E1 in Hs. cbn [fst] in Hs. rewrite Hs. exact Hrun.
  - (* the remaining locators are still in the retrier's set: the set only lost l *)
    intros x Hx.
    clear - E1 Hx Hsub Hnl Hp. cbn [run_for] in E1. unfold poisoned in Hp. unfold poisoned in E1. rewrite Hp in E1.
    assert (Hdrop : forall sx, retrier_pending sx t = set_remove l (retrier_pending s t) -> In x (retrier_pending sx t)).
    { intros sx HX. rewrite HX. apply In_set_remove. split; [apply (Hsub x); right; exact Hx|]. intros ->. contradiction. }
    destruct (load_pending (f_c s) t l); [|inversion E1; subst; apply Hdrop; rewrite retrier_pending_drop, N.eqb_refl; reflexivity].
    destruct (next_reply adds) as [rp a1]. destruct rp; try discriminate.
    + destruct (wt_add_appointment_receipt _ _ _ _ _ _ _) as [c2 r2]. destruct (lift_site r2); [discriminate|].
      destruct (wt_remove_pending_appointment c2 t l) as [c3 r3]. destruct (lift_site r3); [discriminate|]. inversion E1. subst.
      apply Hdrop.
      change (retrier_pending (wr_c (wr_c (retrier_drop (log_req s (ReqAdd t l)) t l) c2) c3) t) with (retrier_pending (retrier_drop (log_req s (ReqAdd t l)) t l) t).
      rewrite retrier_pending_drop, N.eqb_refl. reflexivity.
    + destruct (wt_add_invalid_appointment _ _ _ _ _) as [c2 r2]. destruct (lift_site r2); [discriminate|].
      destruct (wt_remove_pending_appointment c2 t l) as [c3 r3]. destruct (lift_site r3); [discriminate|]. inversion E1. subst.
      apply Hdrop.
      change (retrier_pending (wr_c (wr_c (retrier_drop (log_req s (ReqAdd t l)) t l) c2) c3) t) with (retrier_pending (retrier_drop (log_req s (ReqAdd t l)) t l) t).
      rewrite retrier_pending_drop, N.eqb_refl. reflexivity.
Qed.

(* registration / renewal never aborts in a state of the invariant *)
Lemma store_tower_succeeds c t addr slots start expiry sg :
  Inv c -> c_poisoned c = false ->
  (forall su, aget (c_towers c) t = Some su -> (su_expiry su < expiry)%N) ->
  exists d', dbm_store_tower_record (c_db c) t addr slots start expiry sg = DbOk d'.
Proof.
  intros [HD HM] Hp Hexp. destruct (HM Hp) as [M1 M2]. unfold dbm_store_tower_record. rewrite mkrow_rr, mkrow_towers.
  pose proof (DbInv_len _ HD) as L.
  assert (Hnorr : has_pk CS (c_db c) T_registration_receipts [t; expiry] = false).
  { destruct (has_pk CS (c_db c) T_registration_receipts [t; expiry]) eqn:E; [|reflexivity]. exfalso.
    apply has_pk_true in E. destruct E as [row [A B]]. cbn in B. inversion B as [[B1 B2]].
    destruct HD as [[Hfk _] _]. destruct (fk_rr_tower _ row Hfk A) as [tr [Htr Etr]].
    destruct (aget (c_towers c) t) as [su|] eqn:Et.
    - destruct (M1 t su Et) as [tr0 [rr [_ [Hmax [_ [_ [_ [Eexp _]]]]]]]]. specialize (Hexp su eq_refl).
      rewrite max_receipt_fold in Hmax. pose proof (fold_rr_spec t (tbl (c_db c) T_registration_receipts) None) as Hs.
      rewrite Hmax in Hs. destruct Hs as [_ [_ [_ Hle]]]; [intros b Hb; discriminate|].
      assert (Hr1 : col row C_registration_receipts_tower_id = t) by exact B1.
      assert (Hr2 : col row C_registration_receipts_subscription_expiry = expiry) by exact B2.
      specialize (Hle row A Hr1). rewrite Hr2 in Hle. rewrite Eexp in Hexp. lia.
    - apply M2 in Et. apply (proj1 (find_pk_None (c_db c) T_towers [t]) Et tr Htr). cbn.
      assert (Hr1 : col row C_registration_receipts_tower_id = t) by exact B1. f_equal. change (nth 0 tr 0) with (col tr C_towers_tower_id). congruence. }
  destruct (has_pk CS (c_db c) T_towers [t]) eqn:Eh.
  - destruct (db_update CS (c_db c) T_towers [t] [(C_towers_net_addr, addr); (C_towers_available_slots, slots)] false) as [d1|e] eqn:E1.
    2:{ unfold db_update in E1. cbn in E1. discriminate. }
    pose proof (tbl_update CS _ _ _ _ _ d1 E1) as [O1 [L1 T1]].
    apply db_insert_succeeds.
    + rewrite L1, L. unfold T_registration_receipts. lia.
    + reflexivity.
    + unfold has_pk. rewrite O1 by discriminate. exact Hnorr.
    + cbn [ts_fks tsch CS client_schema nth T_registration_receipts forallb]. rewrite andb_true_r.
      apply parent_present_iff. cbn [fk_parent fk_pcols fk_cols].
      apply has_pk_true in Eh. destruct Eh as [tr [A B]].
      exists (upd_tower t addr slots tr). split.
      * change 0%nat with T_towers. rewrite T1 by (rewrite L; unfold T_towers; lia). apply in_map_iff. exists tr. split; [reflexivity|exact A].
      * cbn in B. inversion B as [B1].
        change (proj (upd_tower (nth 0 tr 0) addr slots tr) [0%nat]) with [col (upd_tower (nth 0 tr 0) addr slots tr) C_towers_tower_id].
        rewrite upd_tower_key. reflexivity.
  - destruct (db_insert_succeeds (c_db c) T_towers [t; addr; slots]) as [d1 E1].
    + rewrite L. unfold T_towers. lia.
    + reflexivity.
    + exact Eh.
    + reflexivity.
    + rewrite E1. pose proof (tbl_insert CS _ _ _ d1 E1) as [T1 [O1 L1]]. apply db_insert_succeeds.
      * rewrite L1, L. unfold T_registration_receipts. lia.
      * reflexivity.
      * unfold has_pk. rewrite O1 by discriminate. exact Hnorr.
      * cbn [ts_fks tsch CS client_schema nth T_registration_receipts forallb]. rewrite andb_true_r.
        apply parent_present_iff. cbn [fk_parent fk_pcols fk_cols]. exists [t; addr; slots]. split; [|reflexivity].
        unfold T_towers in T1. rewrite T1. apply in_or_app. right. left. reflexivity.
Qed.

Lemma load_tower_record_known c t su : Inv c -> c_poisoned c = false -> aget (c_towers c) t = Some su ->
  exists info, load_tower_record (c_db c) t = LSome info.
Proof.
  intros [HD HM] Hp Et. destruct (proj1 (HM Hp) t su Et) as [tr [rr [A [B _]]]]. unfold load_tower_record. rewrite A, B.
  destruct (find_pk CS (c_db c) T_misbehaving_proofs [t]) as [prow|] eqn:Ep; [|eexists; reflexivity].
  apply find_pk_Some in Ep. destruct Ep as [Hin Hkey]. destruct HD as [[Hfk Hpk] _].
  destruct (fk_proof_receipt _ prow Hfk Hin) as [rc [Hrc [E1 E2]]].
  assert (Ht : col prow C_misbehaving_proofs_tower_id = t) by (cbn in Hkey; inversion Hkey; reflexivity).
  assert (Hf : find_pk CS (c_db c) T_appointment_receipts [col prow C_misbehaving_proofs_locator; t] = Some rc).
  { apply (find_pk_unique _ T_appointment_receipts _ rc Hpk Hrc).
    change (proj rc (ts_pk (tsch CS T_appointment_receipts))) with [col rc C_appointment_receipts_locator; col rc C_appointment_receipts_tower_id].
    rewrite E1, E2, Ht. reflexivity. }
  rewrite Hf. eexists. reflexivity.
Qed.

Lemma add_update_tower_ok c t addr slots start expiry sg : Inv c -> c_poisoned c = false ->
  is_abort (snd (wt_add_update_tower c t addr slots start expiry sg)) = false.
Proof.
  intros HI Hp. unfold wt_add_update_tower.
  assert (Hstore : (forall su, aget (c_towers c) t = Some su -> (su_expiry su < expiry)%N) ->
    is_abort (snd (match dbm_store_tower_record (c_db c) t addr slots start expiry sg with
                   | DbOk d' => (with_towers (with_db c d') (aset (c_towers c) t
                        match aget (c_towers c) t with
                        | Some s => {| su_addr := addr; su_slots := slots; su_start := start; su_expiry := expiry; su_status := su_status s; su_pending := su_pending s; su_invalid := su_invalid s |}
                        | None => {| su_addr := addr; su_slots := slots; su_start := start; su_expiry := expiry; su_status := Reachable; su_pending := []; su_invalid := [] |}
                        end), ROk)
                   | DbErr _ => (poison c, RAbort Site_store_tower_record_unwrap)
                   end)) = false).
  { intros Hexp. destruct (store_tower_succeeds c t addr slots start expiry sg HI Hp Hexp) as [d' ->]. reflexivity. }
  destruct (aget (c_towers c) t) as [su|] eqn:Et.
  - destruct (N.leb expiry (su_expiry su)) eqn:El; [reflexivity|]. apply N.leb_gt in El.
    destruct (load_tower_record_known c t su HI Hp Et) as [info ->].
    destruct (N.leb slots (ti_slots info)); [reflexivity|]. apply Hstore. intros su0 H. inversion H. subst. exact El.
  - apply Hstore. intros su0 H. discriminate.
Qed.


Lemma run_while_no_abort t hint : forall fuel picked s adds,
  RunPre s t -> match snd (run_while fuel picked s t hint adds) with RunAbort _ => False | _ => True end.
Proof.
  induction fuel as [|f IH]; intros picked s adds Hpre; cbn [run_while]; [exact I|].
  destruct (retrier_pending s t) as [|x p] eqn:Ep.
  { destruct picked; [exact I|]. pose proof Hpre as [_ [Hp0 _]]. rewrite Hp0.
    destruct (retrier_pending (pick_up s t) t); [exact I|]. apply IH, RunPre_pick_up, Hpre. }
  pose proof Hpre as [HF [Hp [Hk Hrun]]].
  assert (Hnd : NoDup (x :: p)).
  { destruct HF as [_ [_ [HV _]]]. destruct (HV Hp) as [_ [_ [V4 _]]]. unfold retrier_pending in Ep.
    destruct (aget (f_mgr s) t) as [r|] eqn:Er; [|discriminate]. rewrite <- Ep. eapply V4, Er. }
  pose proof (NoDup_reorder hint _ Hnd) as Hndr.
  assert (Hsub : forall l, In l (reorder hint (x :: p)) -> In l (retrier_pending s t)) by (intros l Hl; rewrite Ep; apply In_reorder in Hl; exact Hl).
  pose proof (run_for_no_abort t _ s adds Hpre Hndr Hsub) as Hna.
  destruct (run_for s t (reorder hint (x :: p)) adds) as [[s1 adds1] r1] eqn:E1. cbn [snd] in Hna.
  destruct (FInv_run_for t _ s adds s1 adds1 r1 Hpre Hndr Hsub E1) as [A [B _]].
  destruct r1 as [r|]; cbn [fst snd].
  - destruct r; auto.
  - destruct (B I) as [Hp1 Hk1]. apply IH. split; [exact A|]. split; [exact Hp1|]. split; [apply Hk1, Hk|].
    pose proof (run_for_same t (reorder hint (x :: p)) s adds) as [_ Hs]. rewrite E1 in Hs. cbn [fst] in Hs. rewrite Hs. exact Hrun.
Qed.

Lemma run_attempt_no_abort s t a :
  FInv s -> poisoned s = false -> rstat s t = Some RRunning ->
  match snd (run_attempt s t a) with RunAbort _ => False | _ => True end.
Proof.
  intros HF Hp Hrun. unfold run_attempt. rewrite Hp.
  destruct (aget (c_towers (f_c s)) t) as [su|] eqn:Et; [|exact I].
  assert (Hk : knownc (f_c s) t) by (unfold knownc, amem; rewrite Et; reflexivity).
  destruct (is_misbehaving (su_status su)); [exact I|].
  destruct (is_subscription_error (su_status su)).
  2:{ apply run_while_no_abort. exact (conj HF (conj Hp (conj Hk Hrun))). }
  set (s1 := log_req s (ReqRegister t)).
  assert (HF1 : FInv s1) by (apply (FInv_core s); auto).
  destruct (at_reg a) as [slots start expiry sig_ok| | | |]; cbn [fst snd]; try exact I.
  destruct (negb sig_ok); cbn [fst snd]; [exact I|].
  pose proof (add_update_tower_ok (f_c s1) t (su_addr su) slots start expiry REG_SIG (proj1 HF) Hp) as Hok.
  destruct (wt_add_update_tower (f_c s1) t (su_addr su) slots start expiry REG_SIG) as [c' r] eqn:Eu. cbn [snd] in Hok.
  destruct (FInv_renew s1 t _ _ _ _ _ c' r HF1 Hp Hk Eu) as [HF2 Hok2]. destruct (Hok2 Hok) as [Hp2 Hkn2].
  destruct r; cbn [fst snd]; try exact I; [|discriminate Hok].
  apply run_while_no_abort. split; [exact HF2|]. split; [exact Hp2|]. split; [apply Hkn2, Hk|exact Hrun].
Qed.

(* the arms after retry_notify never panic (flag_misbehaving_tower does not abort any more: fix d35e2bc) *)
Lemma task_step_no_abort s t r more site :
  Inv (f_c s) -> poisoned s = false ->
  (match r with RunAbort _ => False | _ => True end) ->
  snd (task_step s t r more) <> OutAbort site.
Proof.
  intros HI Hp Hna. unfold task_step. destruct r as [|e|st|]; cbn [snd]; try discriminate; [|contradiction].
  destruct (negb (is_permanent e) && more); [discriminate|].
  set (s1 := if is_permanent e then retrier_set_status s t RFailed else s).
  assert (Ec1 : f_c s1 = f_c s) by (unfold s1; destruct (is_permanent e); [apply f_c_retrier_set_status|reflexivity]).
  destruct e as [[|]| |l| |]; cbn [snd]; try discriminate.
  rewrite Ec1. destruct (wt_flag_misbehaving_tower (f_c s) t l START_BLOCK USER_SIG SIG_OTHER (other_id t)) as [c2 r2] eqn:E2.
  destruct r2; cbn [lift_site snd]; try discriminate. exfalso.
  destruct (amem (c_towers (f_c s)) t) eqn:Ek.
  - pose proof (flag_ok (f_c s) t l START_BLOCK USER_SIG SIG_OTHER (other_id t) HI Hp Ek) as Hok. rewrite E2 in Hok. discriminate.
  - unfold wt_flag_misbehaving_tower, amem in *. destruct (aget (c_towers (f_c s)) t); [discriminate|inversion E2].
Qed.

Lemma task_step_not_running s t r more :
  TaskInv s -> In t (f_tasks s) ->
  match snd (task_step s t r more) with
  | OutDelivered | OutIdle _ | OutFailed _ => rstat (fst (task_step s t r more)) t <> Some RRunning /\ ~ In t (f_tasks (fst (task_step s t r more)))
  | _ => True
  end.
Proof.
  intros [Hnd HT] Hin. pose proof (HT t Hin) as Hrun. unfold rstat in Hrun. destruct (aget (f_mgr s) t) as [r0|] eqn:Er; [|discriminate].
  assert (Hnot : forall x, f_tasks x = f_tasks s -> ~ In t (f_tasks (end_task x t))).
  { intros x Hx. cbn. rewrite Hx. apply (remove_one_NoDup t _ Hnd). }
  unfold task_step. destruct r as [|e|site|]; cbn [fst snd]; try exact I.
  - split; [|apply Hnot; rewrite retrier_set_status_tasks; reflexivity].
    change (rstat (end_task (retrier_set_status (set_c s (with_retriers (wt_set_tower_status (f_c s) t Reachable) (aremove (c_retriers (wt_set_tower_status (f_c s) t Reachable)) t))) t RStopped) t) t)
      with (rstat (retrier_set_status (set_c s (with_retriers (wt_set_tower_status (f_c s) t Reachable) (aremove (c_retriers (wt_set_tower_status (f_c s) t Reachable)) t))) t RStopped) t).
    rewrite rstat_retrier_set_status, N.eqb_refl. unfold rstat. cbn [f_mgr set_c]. rewrite Er. cbn. discriminate.
  - destruct (negb (is_permanent e) && more); [exact I|].
    set (s1 := if is_permanent e then retrier_set_status s t RFailed else s).
    assert (Hs1 : f_tasks s1 = f_tasks s /\ (is_permanent e = true -> rstat s1 t = Some RFailed)).
    { unfold s1. destruct (is_permanent e); [|split; [reflexivity|discriminate]]. split; [apply retrier_set_status_tasks|].
      intros _. rewrite rstat_retrier_set_status, N.eqb_refl. unfold rstat. rewrite Er. reflexivity. }
    destruct Hs1 as [Ht1 Hf1].
    destruct e as [[|]| |l| |]; cbn [fst snd].
    + split; [|apply Hnot; exact Ht1]. change (rstat (end_task (set_c s1 (wt_set_tower_status (f_c s1) t SubscriptionError)) t) t) with (rstat s1 t).
      rewrite (Hf1 eq_refl). discriminate.
    + split; [|apply Hnot; rewrite retrier_clear_tasks, retrier_set_status_tasks; exact Ht1].
      match goal with |- rstat (end_task ?x t) t <> _ => change (rstat (end_task x t) t) with (rstat x t) end.
      rewrite rstat_retrier_clear, rstat_retrier_set_status, N.eqb_refl.
      match goal with |- option_map _ (rstat ?x t) <> _ => change (rstat x t) with (rstat s1 t) end.
      unfold s1. cbn [is_permanent]. unfold rstat. rewrite Er. cbn. discriminate.
    + split; [|apply Hnot; rewrite retrier_clear_tasks, retrier_set_status_tasks; exact Ht1].
      match goal with |- rstat (end_task ?x t) t <> _ => change (rstat (end_task x t) t) with (rstat x t) end.
      rewrite rstat_retrier_clear, rstat_retrier_set_status, N.eqb_refl.
      match goal with |- option_map _ (rstat ?x t) <> _ => change (rstat x t) with (rstat s1 t) end.
      unfold s1. cbn [is_permanent]. unfold rstat. rewrite Er. cbn. discriminate.
    + destruct (wt_flag_misbehaving_tower (f_c s1) t l START_BLOCK USER_SIG SIG_OTHER (other_id t)) as [c2 r2].
      destruct (lift_site r2); cbn [fst snd]; [exact I|]. split; [|apply Hnot; exact Ht1].
      change (rstat (end_task (wr_c s1 c2) t) t) with (rstat s1 t). rewrite (Hf1 eq_refl). discriminate.
    + split; [|apply Hnot; exact Ht1]. change (rstat (end_task s1 t) t) with (rstat s1 t). rewrite (Hf1 eq_refl). discriminate.
    + split; [|apply Hnot; exact Ht1]. change (rstat (end_task s1 t) t) with (rstat s1 t). rewrite (Hf1 eq_refl). discriminate.
Qed.

Lemma register_no_abort s t rp : Inv (f_c s) -> poisoned s = false -> forall site, snd (f_register s t t rp) <> OPanic site.
Proof.
  intros HI Hp site. unfold f_register. rewrite Hp. destruct rp as [slots start expiry sig_ok| | | |]; cbn [snd]; try discriminate.
  destruct (negb sig_ok); [discriminate|].
  pose proof (add_update_tower_ok (f_c (log_req s (ReqRegister t))) t t slots start expiry REG_SIG HI Hp) as Hok.
  destruct (wt_add_update_tower (f_c (log_req s (ReqRegister t))) t t slots start expiry REG_SIG) as [c' r]. cbn [snd] in Hok.
  destruct r; cbn [snd]; try discriminate.
Qed.

(* the manager: Retrier::start has no panic site left, so a sweep never stops early *)
Lemma sweep_never_aborts elapsed : forall keys s started woke, snd (sweep s keys elapsed started woke) = None.
Proof.
  induction keys as [|t keys IH]; intros s started woke; cbn [sweep]; [reflexivity|].
  destruct (aget (f_mgr s) t) as [r|]; [|apply IH].
  destruct (should_start r).
  - pose proof (retrier_start_no_abort s t r) as H. destruct (retrier_start s t r) as [s1 o]. cbn [snd] in H. subst o. apply IH.
  - destruct (is_idle (r_status r) && memN t elapsed); apply IH.
Qed.

Lemma manager_tick_no_abort s elapsed site : poisoned s = false -> snd (f_manager_tick s elapsed) <> OPanic site.
Proof.
  intros Hp. unfold f_manager_tick. destruct (f_mgr_dead s); [discriminate|].
  destruct (f_chan s) as [|[t data] rest].
  - unfold mgr_sweep. rewrite Hp. cbn [andb]. cbv zeta.
    change (poisoned (retain_state s)) with (poisoned s). rewrite Hp. cbn [andb].
    pose proof (sweep_never_aborts elapsed (map fst (f_mgr (retain_state s))) (retain_state s) [] []) as H.
    destruct (sweep (retain_state s) (map fst (f_mgr (retain_state s))) elapsed [] []) as [[[s2 st] wk] o]. cbn [snd] in H. subst o. discriminate.
  - unfold mgr_receive. change (poisoned (set_chan s rest)) with (poisoned s). rewrite Hp.
    destruct (negb (amem (c_towers (f_c (set_chan s rest))) t)); [discriminate|].
    destruct (aget (f_mgr (set_chan s rest)) t) as [r|]; [destruct (is_idle (r_status r)); [destruct (rdata_is_none data)|]|]; discriminate.
Qed.

(* C14 no_reply_aborts, FULL statement: in every state of EVERY operation sequence, whatever a tower replies to
   register / add_appointment, on the notification path and on the retry path, nothing panics and the model's fuel is
   never exhausted; the retry manager never panics either *)
Theorem no_reply_aborts ops :
  let s := frun f_init ops in poisoned s = false ->
  (forall t rp site, snd (fstep s (FRegister t rp)) <> OPanic site) /\
  (forall l order replies, snd (fstep s (FRevocation l order replies)) = OOk) /\
  (forall elapsed site, snd (fstep s (FManagerTick elapsed)) <> OPanic site) /\
  (forall t a, In t (f_tasks s) ->
     let s1 := fst (run_attempt s t a) in let r := snd (run_attempt s t a) in
     (match r with RunAbort _ | RunFuel => False | _ => True end) /\
     (forall site, snd (task_step s1 t r (at_more a)) <> OutAbort site) /\
     (match snd (task_step s1 t r (at_more a)) with
      | OutDelivered | OutIdle _ | OutFailed _ =>
        rstat (fst (task_step s1 t r (at_more a))) t <> Some RRunning /\ ~ In t (f_tasks (fst (task_step s1 t r (at_more a))))
      | _ => True end)).
Proof.
  intros s Hp. pose proof (FInv_frun ops f_init FInv_init) as HF. fold s in HF.
  split; [intros t rp site; cbn [fstep]; apply register_no_abort; [apply HF|exact Hp]|].
  split; [intros l order replies; cbn [fstep]; apply revocation_no_abort; assumption|].
  split; [intros elapsed site; cbn [fstep]; apply manager_tick_no_abort; exact Hp|].
  intros t a Hin s1 r.
  assert (Hrun : rstat s t = Some RRunning) by (apply HF, Hin).
  pose proof (run_attempt_no_abort s t a HF Hp Hrun) as Hna. fold r in Hna.
  destruct (run_attempt s t a) as [sx rx] eqn:E1. cbn [fst snd] in s1, r. subst s1 r.
  destruct (FInv_run_attempt s t a sx rx HF Hrun E1) as [HF1 [Hnp _]].
  assert (Hnf : rx <> RunFuel).
  { pose proof (run_bounded ops t a Hin) as [_ [Hb _]]. fold s in Hb. rewrite E1 in Hb. exact Hb. }
  split; [destruct rx; auto|]. split.
  - intros site. apply (task_step_no_abort sx t rx (at_more a) site (proj1 HF1) (Hnp Hna) Hna).
  - apply task_step_not_running; [apply HF1|].
    pose proof (run_attempt_same s t a) as [Ht _]. rewrite E1 in Ht. cbn [fst] in Ht. rewrite Ht. exact Hin.
Qed.

(* ====================================================================== *)
(* C14 misbehaviour_flagged: the flagging itself                           *)
(* ====================================================================== *)
(* notification path: a reachable tower without a record of l answers with a signature of another key: a proof is
   stored (the one already there is kept), the tower is misbehaving in memory, nothing panics — whatever is already
   stored for the tower (fix d35e2bc) *)
Lemma flagged_on_notification s l t st :
  FInv s -> poisoned s = false -> knownc (f_c s) t -> is_reachable st = true ->
  wt_has_appointment (f_c s) t l = false ->
  let s' := fst (rev_tower s l t st AWrongKey) in
  snd (rev_tower s l t st AWrongKey) = None /\ Mrow (c_db (f_c s')) t /\ stat (f_c s') t = Some Misbehaving /\
  (~ Mrow (c_db (f_c s)) t -> Rrow (c_db (f_c s')) t l) /\ In (ReqAdd t l) (f_log s') /\ poisoned s' = false.
Proof.
  intros HF Hp Hk Hr Hha. pose proof HF as [HI _]. unfold rev_tower. rewrite Hp, Hha, Hr. cbn zeta.
  pose proof (flag_ok (f_c s) t l START_BLOCK USER_SIG SIG_OTHER (other_id t) HI Hp Hk) as Hok.
  change (f_c (log_req s (ReqAdd t l))) with (f_c s).
  destruct (wt_flag_misbehaving_tower (f_c s) t l START_BLOCK USER_SIG SIG_OTHER (other_id t)) as [c2 r] eqn:E. cbn [snd] in Hok. subst r.
  destruct (prim_flag _ _ _ _ _ _ _ _ _ HI Hp E) as [_ [_ [_ [[_ [_ Hne]]|[_ [Hp2 [_ [Hst [M1 [_ [ER _]]]]]]]]]]]; [contradiction Hne; reflexivity|].
  cbn [fst snd lift_site f_c wr_c f_log log_req]. split; [reflexivity|]. split; [exact M1|].
  split; [rewrite Hst, N.eqb_refl; reflexivity|]. split; [intros Hm; apply ER; right; auto|].
  split; [apply in_or_app; right; left; reflexivity|exact Hp2].
Qed.

(* retry path: the task's Err arm for a wrong-key reply *)
Lemma flagged_on_retry s t l more :
  FInv s -> poisoned s = false -> knownc (f_c s) t ->
  let s' := fst (task_step s t (RunErr (EMisbehaving l)) more) in
  snd (task_step s t (RunErr (EMisbehaving l)) more) = OutFailed (EMisbehaving l) /\
  Mrow (c_db (f_c s')) t /\ stat (f_c s') t = Some Misbehaving /\ poisoned s' = false.
Proof.
  intros HF Hp Hk. pose proof HF as [HI _].
  unfold task_step. cbn [is_permanent negb andb]. rewrite f_c_retrier_set_status.
  pose proof (flag_ok (f_c s) t l START_BLOCK USER_SIG SIG_OTHER (other_id t) HI Hp Hk) as Hok.
  destruct (wt_flag_misbehaving_tower (f_c s) t l START_BLOCK USER_SIG SIG_OTHER (other_id t)) as [c2 r] eqn:E. cbn [snd] in Hok. subst r.
  destruct (prim_flag _ _ _ _ _ _ _ _ _ HI Hp E) as [_ [_ [_ [[_ [_ Hne]]|[_ [Hp2 [_ [Hst [M1 _]]]]]]]]]; [contradiction Hne; reflexivity|].
  cbn [lift_site fst snd f_c end_task set_tasks wr_c]. split; [reflexivity|]. split; [exact M1|].
  split; [rewrite Hst, N.eqb_refl; reflexivity|exact Hp2].
Qed.

(* ====================================================================== *)
(* C14 misbehaviour_flagged, FULL strength: no appointment is sent to a tower whose proof is stored *)
(* ====================================================================== *)
(* what an operation appends to the request log *)
Definition log_ext (s s' : fstate) (P : req -> Prop) : Prop := exists new, f_log s' = f_log s ++ new /\ Forall P new.
Lemma log_ext_refl s P : log_ext s s P.
Proof. exists []. rewrite app_nil_r. split; [reflexivity|constructor]. Qed.
Lemma log_ext_same s s' P : f_log s' = f_log s -> log_ext s s' P.
Proof. intros H. exists []. rewrite app_nil_r. split; [exact H|constructor]. Qed.
Lemma log_ext_trans a b c P : log_ext a b P -> log_ext b c P -> log_ext a c P.
Proof.
  intros [n1 [E1 F1]] [n2 [E2 F2]]. exists (n1 ++ n2). split; [rewrite E2, E1, app_assoc; reflexivity|]. apply Forall_app. split; assumption.
Qed.
Lemma log_ext_one s s' r (P : req -> Prop) : f_log s' = f_log s ++ [r] -> P r -> log_ext s s' P.
Proof. intros H Hr. exists [r]. split; [exact H|]. constructor; [exact Hr|constructor]. Qed.

Definition not_add_to (t : N) (r : req) : Prop := is_add_to t r = false.

Lemma f_log_send_to_retrier s t l : f_log (send_to_retrier s t l) = f_log s.
Proof. unfold send_to_retrier. destruct (aget (c_retriers (f_c s)) t) as [st|]; [destruct (is_running st)|]; reflexivity. Qed.
Lemma f_log_rev_pend s l t send : f_log (fst (rev_pend s l t send)) = f_log s.
Proof.
  unfold rev_pend. destruct (wt_add_pending_appointment (f_c s) t l BLOB DELAY) as [c2 r]. destruct r; cbn [fst]; try reflexivity;
    destruct send; try reflexivity; rewrite f_log_send_to_retrier; reflexivity.
Qed.

(* the notification path logs a request to tower k only when the status it cloned for k is reachable *)
Lemma rev_tower_log s l k st rp t :
  (k = t -> is_reachable st = false) -> log_ext s (fst (rev_tower s l k st rp)) (not_add_to t).
Proof.
  intros Hnr. unfold rev_tower. destruct (poisoned s); [apply log_ext_refl|].
  destruct (wt_has_appointment (f_c s) k l); [apply log_ext_refl|].
  destruct (is_reachable st) eqn:Er.
  - assert (Hkt : k <> t) by (intros ->; specialize (Hnr eq_refl); discriminate).
    assert (Hone : forall sx, f_log sx = f_log s ++ [ReqAdd k l] -> log_ext s sx (not_add_to t)).
    { intros sx Hx. apply (log_ext_one s sx (ReqAdd k l)); [exact Hx|]. unfold not_add_to. cbn. apply N.eqb_neq. exact Hkt. }
    destruct rp.
    + destruct (wt_add_appointment_receipt _ _ _ _ _ _ _) as [c2 r]. apply Hone. reflexivity.
    + destruct (wt_flag_misbehaving_tower _ _ _ _ _ _ _) as [c2 r]. apply Hone. reflexivity.
    + apply Hone. rewrite f_log_rev_pend. reflexivity.
    + apply Hone. rewrite f_log_rev_pend. reflexivity.
    + apply Hone. rewrite f_log_rev_pend. reflexivity.
    + apply Hone. rewrite f_log_rev_pend. reflexivity.
    + apply Hone. rewrite f_log_rev_pend. reflexivity.
    + destruct (wt_add_invalid_appointment _ _ _ _ _) as [c2 r]. apply Hone. reflexivity.
  - destruct (is_misbehaving st); [apply log_ext_refl|]. apply log_ext_same, f_log_rev_pend.
Qed.

Lemma rev_loop_log l replies t : forall snap s,
  (forall st, In (t, st) snap -> is_reachable st = false) -> log_ext s (fst (rev_loop s l snap replies)) (not_add_to t).
Proof.
  induction snap as [|[k st] snap IH]; intros s Hsn; cbn [rev_loop]; [apply log_ext_refl|].
  pose proof (rev_tower_log s l k st (reply_for replies k) t) as H1.
  destruct (rev_tower s l k st (reply_for replies k)) as [s1 o1]. cbn [fst] in H1.
  assert (H1' : log_ext s s1 (not_add_to t)) by (apply H1; intros ->; apply Hsn; left; reflexivity).
  destruct o1; cbn [fst]; [exact H1'|]. eapply log_ext_trans; [exact H1'|]. apply IH. intros st0 Hin. apply Hsn. right. exact Hin.
Qed.

(* the manager never sends anything *)
Lemma f_log_wake s t r : f_log (wake s t r) = f_log s.  Proof. reflexivity. Qed.
Lemma f_log_add_pending s t locs : f_log (add_pending_appointments s t locs) = f_log s.
Proof. unfold add_pending_appointments. destruct (aget (f_mgr s) t); reflexivity. Qed.
Lemma f_log_retrier_start s t r : f_log (fst (retrier_start s t r)) = f_log s.
Proof. unfold retrier_start. destruct (aget (c_towers (f_c s)) t) as [su|]; [destruct (is_misbehaving (su_status su))|]; reflexivity. Qed.
Lemma f_log_sweep elapsed : forall keys s started woke, f_log (fst (fst (fst (sweep s keys elapsed started woke)))) = f_log s.
Proof.
  induction keys as [|t keys IH]; intros s started woke; cbn [sweep]; [reflexivity|].
  destruct (aget (f_mgr s) t) as [r|]; [|apply IH].
  destruct (should_start r).
  - pose proof (f_log_retrier_start s t r) as H. destruct (retrier_start s t r) as [s1 [site|]]; cbn [fst] in *; [exact H|]. rewrite IH. exact H.
  - destruct (is_idle (r_status r) && memN t elapsed); rewrite IH; reflexivity.
Qed.
Lemma f_log_manager_tick s elapsed : f_log (fst (f_manager_tick s elapsed)) = f_log s.
Proof.
  unfold f_manager_tick. destruct (f_mgr_dead s); [reflexivity|]. destruct (f_chan s) as [|[t data] rest].
  - unfold mgr_sweep. match goal with |- context [if ?b then _ else _] => destruct b end; [reflexivity|]. cbv zeta.
    match goal with |- context [if ?b then _ else _] => destruct b end; [reflexivity|].
    pose proof (f_log_sweep elapsed (map fst (f_mgr (retain_state s))) (retain_state s) [] []) as H.
    destruct (sweep (retain_state s) (map fst (f_mgr (retain_state s))) elapsed [] []) as [[[s2 st] wk] [site|]]; exact H.
  - unfold mgr_receive. destruct (poisoned (set_chan s rest)); [reflexivity|].
    destruct (negb (amem (c_towers (f_c (set_chan s rest))) t)); [reflexivity|].
    destruct (aget (f_mgr (set_chan s rest)) t) as [r|]; [destruct (is_idle (r_status r)); [destruct (rdata_is_none data)|]|]; cbn [fst];
      try reflexivity; rewrite f_log_add_pending; reflexivity.
Qed.

(* a retry task only talks to its own tower *)
Definition to_tower (k : N) (r : req) : Prop := match r with ReqRegister k' => k' = k | ReqAdd k' _ => k' = k end.
Lemma run_while_log t hint : forall fuel picked s adds, log_ext s (fst (run_while fuel picked s t hint adds)) (to_tower t).
Proof.
  induction fuel as [|f IH]; intros picked s adds; cbn [run_while]; [apply log_ext_refl|].
  destruct (retrier_pending s t) as [|x p].
  { destruct picked; [apply log_ext_refl|]. destruct (poisoned s); [apply log_ext_refl|].
    destruct (retrier_pending (pick_up s t) t); cbn [fst]; [apply log_ext_same, f_log_pick_up|].
    eapply log_ext_trans; [apply log_ext_same, f_log_pick_up|apply IH]. }
  destruct (run_for s t (reorder hint (x :: p)) adds) as [[s1 adds1] r1] eqn:E1.
  destruct (run_for_log t _ s adds s1 adds1 r1 E1) as [sent [Hlog _]].
  assert (H1 : log_ext s s1 (to_tower t)).
  { exists (map (ReqAdd t) sent). split; [exact Hlog|]. apply Forall_forall. intros r Hr. apply in_map_iff in Hr. destruct Hr as [x0 [<- _]]. reflexivity. }
  destruct r1; cbn [fst]; [exact H1|]. eapply log_ext_trans; [exact H1|apply IH].
Qed.
Lemma run_attempt_log s t a : log_ext s (fst (run_attempt s t a)) (to_tower t).
Proof.
  unfold run_attempt. destruct (poisoned s); [apply log_ext_refl|].
  destruct (aget (c_towers (f_c s)) t) as [su|]; [|apply log_ext_refl].
  destruct (is_misbehaving (su_status su)); [apply log_ext_refl|].
  destruct (is_subscription_error (su_status su)); [|apply run_while_log].
  assert (H1 : forall sx, f_log sx = f_log s ++ [ReqRegister t] -> log_ext s sx (to_tower t)).
  { intros sx Hx. apply (log_ext_one s sx (ReqRegister t)); [exact Hx|reflexivity]. }
  destruct (at_reg a) as [slots start expiry sig_ok| | | |]; cbn [fst]; try (apply H1; reflexivity).
  destruct (negb sig_ok); cbn [fst]; [apply H1; reflexivity|].
  destruct (wt_add_update_tower _ _ _ _ _ _ _) as [c' r]. destruct r; cbn [fst]; try (apply H1; reflexivity).
  eapply log_ext_trans; [apply (H1 (wr_c (log_req s (ReqRegister t)) c')); reflexivity|apply run_while_log].
Qed.
Lemma f_log_retrier_set_status s t st : f_log (retrier_set_status s t st) = f_log s.
Proof. unfold retrier_set_status. destruct (aget (f_mgr s) t); reflexivity. Qed.
Lemma f_log_retrier_clear s t : f_log (retrier_clear s t) = f_log s.
Proof. unfold retrier_clear. destruct (aget (f_mgr s) t); reflexivity. Qed.
Lemma f_log_task_step s t r more : f_log (fst (task_step s t r more)) = f_log s.
Proof.
  unfold task_step. destruct r as [|e|site|]; cbn [fst]; try reflexivity.
  - cbn [f_log end_task set_tasks]. rewrite f_log_retrier_set_status. reflexivity.
  - destruct (negb (is_permanent e) && more); [reflexivity|].
    set (s1 := if is_permanent e then retrier_set_status s t RFailed else s).
    assert (E1 : f_log s1 = f_log s) by (unfold s1; destruct (is_permanent e); [apply f_log_retrier_set_status|reflexivity]).
    destruct e as [[|]| |l| |]; cbn [fst f_log end_task set_tasks set_c]; try exact E1.
    + rewrite f_log_retrier_clear, f_log_retrier_set_status. exact E1.
    + rewrite f_log_retrier_clear, f_log_retrier_set_status. exact E1.
    + destruct (wt_flag_misbehaving_tower _ _ _ _ _ _ _) as [c2 r2]. destruct (lift_site r2); cbn [fst f_log end_task set_tasks set_c wr_c]; exact E1.
Qed.
Lemma retrier_run_log t : forall atts s, log_ext s (fst (f_retrier_run s t atts)) (to_tower t).
Proof.
  induction atts as [|a atts IH]; intros s; cbn [f_retrier_run]; [apply log_ext_refl|].
  destruct (negb (memN t (f_tasks s))); [apply log_ext_refl|].
  pose proof (run_attempt_log s t a) as H1. destruct (run_attempt s t a) as [s1 r]. cbn [fst] in H1.
  pose proof (f_log_task_step s1 t r (at_more a)) as H2. destruct (task_step s1 t r (at_more a)) as [s2 o]. cbn [fst] in H2.
  assert (H12 : log_ext s s2 (to_tower t)) by (eapply log_ext_trans; [exact H1|apply log_ext_same, H2]).
  destruct o; try exact H12. destruct atts; [exact H12|]. eapply log_ext_trans; [exact H12|apply IH].
Qed.

(* the retry task of a flagged tower sends nothing (fix 9d6311c) *)
Lemma retrier_run_flagged t : forall atts s,
  FInv s -> Mrow (c_db (f_c s)) t -> f_log (fst (f_retrier_run s t atts)) = f_log s.
Proof.
  destruct atts as [|a atts]; intros s HF Hm; cbn [f_retrier_run]; [reflexivity|].
  destruct (negb (memN t (f_tasks s))); [reflexivity|].
  assert (Hra : exists r, run_attempt s t a = (s, r) /\ match r with RunOk | RunFuel => False | RunErr e => is_permanent e = true | RunAbort _ => True end).
  { unfold run_attempt. destruct (poisoned s) eqn:Hp; [eexists; split; [reflexivity|exact I]|].
    destruct (aget (c_towers (f_c s)) t) as [su|] eqn:Et; [|eexists; split; [reflexivity|reflexivity]].
    destruct HF as [_ [_ [HV _]]]. destruct (HV Hp) as [_ [V2 _]].
    assert (Hk : knownc (f_c s) t) by (unfold knownc, amem; rewrite Et; reflexivity).
    specialize (V2 t Hk Hm). unfold stat in V2. rewrite Et in V2. cbn in V2. inversion V2 as [Hs]. rewrite Hs. cbn.
    eexists. split; [reflexivity|reflexivity]. }
  destruct Hra as [r [-> Hr]].
  pose proof (f_log_task_step s t r (at_more a)) as H2.
  assert (Ho : match snd (task_step s t r (at_more a)) with OutBackoff _ => False | _ => True end).
  { unfold task_step. destruct r as [|e|site|]; try contradiction; [|exact I]. rewrite Hr. cbn [negb andb].
    destruct e as [[|]| |l| |]; try discriminate Hr; cbn [snd]; try exact I.
    destruct (wt_flag_misbehaving_tower _ _ _ _ _ _ _) as [c2 r2]. destruct (lift_site r2); exact I. }
  destruct (task_step s t r (at_more a)) as [s2 o]. cbn [fst snd] in *. destruct o; try exact H2. contradiction.
Qed.

(* FULL statement: from every reachable state in which a misbehaviour proof of tower t is stored, NO operation
   (notification, manager iteration, retry attempt, user command, restart) sends an appointment to t *)
Theorem misbehaviour_flagged ops o t :
  let s := frun f_init ops in
  exists_misbehaving_proof (c_db (f_c s)) t = true ->
  exists new, f_log (fst (fstep s o)) = f_log s ++ new /\ existsb (is_add_to t) new = false.
Proof.
  intros s Hm. apply proof_iff in Hm. pose proof (FInv_frun ops f_init FInv_init) as HF. fold s in HF.
  assert (Hfin : log_ext s (fst (fstep s o)) (not_add_to t) ->
                 exists new, f_log (fst (fstep s o)) = f_log s ++ new /\ existsb (is_add_to t) new = false).
  { intros [new [E F]]. exists new. split; [exact E|]. apply not_true_is_false. intros Hx. apply existsb_exists in Hx.
    destruct Hx as [r [Hin Hr]]. rewrite Forall_forall in F. specialize (F r Hin). unfold not_add_to in F. congruence. }
  apply Hfin. destruct o; cbn [fstep].
  - (* registertower: one register request *)
    unfold f_register. destruct (poisoned s); [apply log_ext_refl|].
    assert (H1 : forall sx, f_log sx = f_log s ++ [ReqRegister t0] -> log_ext s sx (not_add_to t)).
    { intros sx Hx. apply (log_ext_one s sx (ReqRegister t0)); [exact Hx|reflexivity]. }
    destruct rp as [slots start expiry sig_ok| | | |]; cbn [fst]; try (apply H1; reflexivity).
    + destruct (negb sig_ok); [apply H1; reflexivity|]. destruct (wt_add_update_tower _ _ _ _ _ _ _) as [c' r]. destruct r; apply H1; reflexivity.
    + destruct (amem _ _); [|apply H1; reflexivity]. apply H1. unfold flag_unreachable.
      destruct (aget _ _) as [su|]; [destruct (_ && _)|]; reflexivity.
  - (* commitment_revocation: the status cloned for t is misbehaving *)
    unfold f_revocation. destruct (poisoned s) eqn:Hp; [apply log_ext_refl|].
    set (snap := reorder_towers order (towers_snapshot (f_c s))).
    pose proof (rev_loop_log l replies t snap s) as H. destruct (rev_loop s l snap replies) as [s1 o1]. cbn [fst] in H.
    assert (H' : log_ext s s1 (not_add_to t)).
    { apply H. intros st Hin. apply reorder_towers_In, towers_snapshot_In in Hin.
      destruct HF as [_ [_ [HV _]]]. destruct (HV Hp) as [_ [V2 _]].
      assert (Hk : knownc (f_c s) t) by (unfold knownc, amem; unfold stat in Hin; destruct (aget (c_towers (f_c s)) t); [reflexivity|discriminate]).
      rewrite (V2 t Hk Hm) in Hin. inversion Hin. reflexivity. }
    destruct o1; exact H'.
  - apply log_ext_same, f_log_manager_tick.
  - (* a retry attempt: of another tower, or of t itself, which is skipped *)
    destruct (N.eq_dec t0 t) as [->|Hn].
    + pose proof (retrier_run_flagged t atts s HF Hm) as H. destruct (f_retrier_run s t atts) as [s' o']. apply log_ext_same, H.
    + pose proof (retrier_run_log t0 atts s) as [new [E F]]. destruct (f_retrier_run s t0 atts) as [s' o']. cbn [fst] in *.
      exists new. split; [exact E|]. rewrite Forall_forall in *. intros r Hr. specialize (F r Hr). unfold not_add_to.
      destruct r as [k|k x]; cbn in *; [reflexivity|]. apply N.eqb_neq. congruence.
  - destruct (f_manual_retry s t0) as [s' o'] eqn:E. apply log_ext_same. unfold f_manual_retry in E.
    destruct (poisoned s); [inversion E; reflexivity|]. destruct (aget (c_towers (f_c s)) t0) as [su|]; [|inversion E; reflexivity].
    destruct (aget (c_retriers (f_c s)) t0) as [st|]; [destruct (is_idle st)|destruct (is_retryable (su_status su))]; inversion E; reflexivity.
  - destruct (f_abandon s t0) as [s' o'] eqn:E. apply log_ext_same. unfold f_abandon in E.
    destruct (poisoned s); [inversion E; reflexivity|]. destruct (amem (c_towers (f_c s)) t0); [|inversion E; reflexivity].
    destruct (db_delete CS (c_db (f_c s)) T_towers [C_towers_tower_id] [t0] true); cbn [f_c note_db] in E;
      destruct (wt_remove_tower (f_c s) t0) as [c' r]; destruct r; inversion E; reflexivity.
  - apply log_ext_same. reflexivity.
Qed.

(* ... hence over any continuation along which the proof stays stored (it is deleted only by abandontower: C18) *)
Fixpoint flagged_along (t : N) (s : fstate) (ops : list fop) : bool :=
  match ops with
  | [] => true
  | o :: rest => exists_misbehaving_proof (c_db (f_c s)) t && flagged_along t (fst (fstep s o)) rest
  end.

Lemma frun_snoc : forall a s o, frun s (a ++ [o]) = fst (fstep (frun s a) o).
Proof. induction a as [|x a IH]; intros s o; cbn; [reflexivity|apply IH]. Qed.
Lemma skipn_app_exact {A} (a b : list A) : skipn (length a) (a ++ b) = b.
Proof. induction a as [|x a IH]; cbn; [reflexivity|exact IH]. Qed.

Lemma misbehaviour_flagged_along_ext t : forall ops2 ops1,
  flagged_along t (frun f_init ops1) ops2 = true ->
  exists new, f_log (frun (frun f_init ops1) ops2) = f_log (frun f_init ops1) ++ new /\ existsb (is_add_to t) new = false.
Proof.
  induction ops2 as [|o ops2 IH]; intros ops1 Hf; cbn [frun].
  - exists []. rewrite app_nil_r. split; reflexivity.
  - cbn [flagged_along] in Hf. apply andb_true_iff in Hf. destruct Hf as [Hm Hf].
    destruct (misbehaviour_flagged ops1 o t Hm) as [new1 [E1 Hn1]].
    specialize (IH (ops1 ++ [o])). rewrite frun_snoc in IH. destruct (IH Hf) as [new2 [E2 Hn2]].
    exists (new1 ++ new2). split; [rewrite E2, E1, app_assoc; reflexivity|]. rewrite existsb_app, Hn1, Hn2. reflexivity.
Qed.

Theorem misbehaviour_flagged_along ops1 ops2 t :
  let s1 := frun f_init ops1 in let s2 := frun s1 ops2 in
  flagged_along t s1 ops2 = true ->
  existsb (is_add_to t) (skipn (length (f_log s1)) (f_log s2)) = false.
Proof.
  intros s1 s2 Hf. destruct (misbehaviour_flagged_along_ext t ops2 ops1 Hf) as [new [E Hn]].
  unfold s2, s1. rewrite E, skipn_app_exact. exact Hn.
Qed.

(* ====================================================================== *)
(* C13 delivers_on_recovery / gives_up_truthfully: the retry task          *)
(* ====================================================================== *)
Definition accept_all (sl : list N) : list areply := map AAccept sl.

(* with an accepting tower the for loop runs to its end (or panics, which the invariant excludes) *)
Lemma run_for_accept t : forall locs s sl rest,
  (length locs <= length sl)%nat ->
  match snd (run_for s t locs (accept_all sl ++ rest)) with
  | None | Some (RunAbort _) => True
  | _ => False
  end.
Proof.
  induction locs as [|l locs IH]; intros s sl rest Hlen; cbn [run_for]; [exact I|].
  destruct (poisoned s); [exact I|]. destruct (load_pending (f_c s) t l); [|apply IH; cbn in Hlen; lia].
  destruct sl as [|n sl]; [cbn in Hlen; lia|]. cbn [accept_all map app next_reply].
  destruct (wt_add_appointment_receipt _ _ _ _ _ _ _) as [c2 r2]. destruct (lift_site r2); [exact I|].
  destruct (wt_remove_pending_appointment c2 t l) as [c3 r3]. destruct (lift_site r3); [exact I|].
  apply IH. cbn in Hlen. lia.
Qed.

Lemma length_reorder hint p : NoDup p -> length (reorder hint p) = length p.
Proof.
  intros Hp. apply Nat.le_antisymm.
  - apply NoDup_incl_length; [apply NoDup_reorder, Hp|]. intros x Hx. apply In_reorder in Hx. exact Hx.
  - apply NoDup_incl_length; [exact Hp|]. intros x Hx. apply In_reorder. exact Hx.
Qed.

(* an attempt of run never makes a tower misbehaving in memory (only the arms after retry_notify flag): pure memory fact *)
Definition mis_back (c c' : client) : Prop := forall k, stat c' k = Some Misbehaving -> stat c k = Some Misbehaving.
Lemma mis_back_refl c : mis_back c c.  Proof. intros k H. exact H. Qed.
Lemma mis_back_trans a b c : mis_back a b -> mis_back b c -> mis_back a c.
Proof. intros H1 H2 k H. apply H1, H2, H. Qed.
Lemma mis_back_stat c c' : (forall k, stat c' k = stat c k) -> mis_back c c'.
Proof. intros H k Hk. rewrite <- H. exact Hk. Qed.

Lemma stat_aset_keep c t su su' k : aget (c_towers c) t = Some su -> su_status su' = su_status su ->
  option_map su_status (aget (aset (c_towers c) t su') k) = stat c k.
Proof. apply stat_aset_same_status. Qed.

Lemma stat_add_receipt c t l slots sb u g k : stat (fst (wt_add_appointment_receipt c t l slots sb u g)) k = stat c k.
Proof.
  unfold wt_add_appointment_receipt. destruct (aget (c_towers c) t) as [su|] eqn:Et; [|reflexivity].
  destruct (dbm_load_appointment_receipt (c_db c) t l); [reflexivity|].
  destruct (dbm_store_appointment_receipt (c_db c) t l slots sb u g); cbn [fst]; unfold stat; cbn [c_towers with_db with_towers poison];
    (eapply stat_aset_same_status; [exact Et|reflexivity]).
Qed.
Lemma stat_add_invalid c t l b dl k : stat (fst (wt_add_invalid_appointment c t l b dl)) k = stat c k.
Proof.
  unfold wt_add_invalid_appointment. destruct (aget (c_towers c) t) as [su|] eqn:Et; [|reflexivity].
  destruct (memN l (su_invalid su)); [reflexivity|].
  destruct (dbm_store_invalid_appointment (c_db c) t l b dl); cbn [fst]; unfold stat; cbn [c_towers with_db with_towers poison];
    (eapply stat_aset_same_status; [exact Et|reflexivity]).
Qed.
Lemma stat_remove_pending c t l k : stat (fst (wt_remove_pending_appointment c t l)) k = stat c k.
Proof.
  unfold wt_remove_pending_appointment. destruct (aget (c_towers c) t) as [su|] eqn:Et; [|reflexivity].
  destruct (dbm_delete_pending_appointment (c_db c) t l); cbn [fst]; unfold stat; cbn [c_towers with_db with_towers poison];
    (eapply stat_aset_same_status; [exact Et|reflexivity]).
Qed.
Lemma stat_set_status c t st k :
  stat (wt_set_tower_status c t st) k = if N.eqb k t then option_map (fun old => sticky old st) (stat c t) else stat c k.
Proof.
  unfold stat, wt_set_tower_status. destruct (aget (c_towers c) t) as [su|] eqn:E.
  - destruct (is_misbehaving (su_status su) && negb (is_misbehaving st)) eqn:Eb.
    + destruct (N.eqb k t) eqn:Ek; [|reflexivity]. apply N.eqb_eq in Ek. subst. rewrite E. cbn. unfold sticky. rewrite Eb. reflexivity.
    + cbn [c_towers with_towers]. rewrite aget_aset. destruct (N.eqb k t) eqn:Ek; [|reflexivity]. cbn. unfold sticky. rewrite Eb. reflexivity.
  - destruct (N.eqb k t) eqn:Ek; [|reflexivity]. apply N.eqb_eq in Ek. subst. rewrite E. reflexivity.
Qed.
Lemma mis_back_set_status c t st : st <> Misbehaving -> mis_back c (wt_set_tower_status c t st).
Proof.
  intros Hst k Hk. rewrite stat_set_status in Hk. destruct (N.eqb k t) eqn:Ek; [|exact Hk]. apply N.eqb_eq in Ek. subst k.
  destruct (stat c t) as [old|]; cbn in Hk; [|discriminate]. injection Hk as Hk. apply sticky_misbehaving in Hk. destruct Hk as [->|Hk]; [reflexivity|contradiction].
Qed.
Lemma mis_back_add_update_tower c t addr slots start expiry sg : knownc c t -> mis_back c (fst (wt_add_update_tower c t addr slots start expiry sg)).
Proof.
  intros Hk. unfold knownc, amem in Hk. unfold wt_add_update_tower. destruct (aget (c_towers c) t) as [su|] eqn:Et; [|discriminate].
  destruct (N.leb expiry (su_expiry su)); [apply mis_back_refl|].
  destruct (load_tower_record (c_db c) t) as [|info|st]; [intros k H; exact H| |intros k H; exact H].
  destruct (N.leb slots (ti_slots info)); [apply mis_back_refl|].
  destruct (dbm_store_tower_record (c_db c) t addr slots start expiry sg); cbn [fst]; [|intros k H; exact H].
  apply mis_back_stat. intros k. unfold stat. cbn [c_towers with_db with_towers]. eapply stat_aset_same_status; [exact Et|reflexivity].
Qed.

Lemma run_for_mis_back t : forall locs s adds, mis_back (f_c s) (f_c (fst (fst (run_for s t locs adds)))).
Proof.
  induction locs as [|l locs IH]; intros s adds; cbn [run_for]; [apply mis_back_refl|].
  destruct (poisoned s); [apply mis_back_refl|].
  destruct (load_pending (f_c s) t l) as [body|].
  2:{ eapply mis_back_trans; [|apply IH]. rewrite f_c_retrier_drop. apply mis_back_refl. }
  destruct (next_reply adds) as [rp adds1].
  destruct rp; cbn [fst f_c log_req set_c]; try apply mis_back_refl.
  - rewrite f_c_retrier_drop. pose proof (stat_add_receipt (f_c (log_req s (ReqAdd t l))) t l slots START_BLOCK USER_SIG SIG_TOWER) as H2.
    destruct (wt_add_appointment_receipt _ _ _ _ _ _ _) as [c2 r2]. cbn [fst] in H2.
    destruct (lift_site r2); cbn [fst f_c wr_c]; [apply mis_back_stat, H2|].
    pose proof (stat_remove_pending c2 t l) as H3. destruct (wt_remove_pending_appointment c2 t l) as [c3 r3]. cbn [fst] in H3.
    assert (H23 : mis_back (f_c s) c3) by (apply mis_back_stat; intros k; rewrite H3; apply H2).
    destruct (lift_site r3); cbn [fst f_c wr_c]; [exact H23|]. eapply mis_back_trans; [exact H23|apply (IH (wr_c (wr_c (retrier_drop (log_req s (ReqAdd t l)) t l) c2) c3))].
  - apply mis_back_set_status. discriminate.
  - rewrite f_c_retrier_drop. pose proof (stat_add_invalid (f_c (log_req s (ReqAdd t l))) t l (col body C_appointments_encrypted_blob) (col body C_appointments_to_self_delay)) as H2.
    destruct (wt_add_invalid_appointment _ _ _ _ _) as [c2 r2]. cbn [fst] in H2.
    destruct (lift_site r2); cbn [fst f_c wr_c]; [apply mis_back_stat, H2|].
    pose proof (stat_remove_pending c2 t l) as H3. destruct (wt_remove_pending_appointment c2 t l) as [c3 r3]. cbn [fst] in H3.
    assert (H23 : mis_back (f_c s) c3) by (apply mis_back_stat; intros k; rewrite H3; apply H2).
    destruct (lift_site r3); cbn [fst f_c wr_c]; [exact H23|]. eapply mis_back_trans; [exact H23|apply (IH (wr_c (wr_c (retrier_drop (log_req s (ReqAdd t l)) t l) c2) c3))].
Qed.
Lemma run_while_mis_back t hint : forall fuel picked s adds, mis_back (f_c s) (f_c (fst (run_while fuel picked s t hint adds))).
Proof.
  induction fuel as [|f IH]; intros picked s adds; cbn [run_while]; [apply mis_back_refl|].
  destruct (retrier_pending s t) as [|x p].
  { destruct picked; [apply mis_back_refl|]. destruct (poisoned s); [apply mis_back_refl|].
    destruct (retrier_pending (pick_up s t) t); cbn [fst]; [rewrite f_c_pick_up; apply mis_back_refl|].
    pose proof (IH true (pick_up s t) adds) as H. rewrite f_c_pick_up in H. exact H. }
  pose proof (run_for_mis_back t (reorder hint (x :: p)) s adds) as H1.
  destruct (run_for s t (reorder hint (x :: p)) adds) as [[s1 adds1] [r|]]; cbn [fst] in *; [exact H1|]. eapply mis_back_trans; [exact H1|apply IH].
Qed.
Lemma run_attempt_mis_back s t a : mis_back (f_c s) (f_c (fst (run_attempt s t a))).
Proof.
  unfold run_attempt. destruct (poisoned s); [apply mis_back_refl|].
  destruct (aget (c_towers (f_c s)) t) as [su|] eqn:Et; [|apply mis_back_refl].
  destruct (is_misbehaving (su_status su)); [apply mis_back_refl|].
  destruct (is_subscription_error (su_status su)); [|apply run_while_mis_back].
  destruct (at_reg a) as [slots start expiry sig_ok| | | |]; cbn [fst]; try apply mis_back_refl.
  destruct (negb sig_ok); cbn [fst]; [apply mis_back_refl|].
  assert (Hk : knownc (f_c (log_req s (ReqRegister t))) t) by (unfold knownc, amem; cbn [f_c log_req]; rewrite Et; reflexivity).
  pose proof (mis_back_add_update_tower (f_c (log_req s (ReqRegister t))) t (su_addr su) slots start expiry REG_SIG Hk) as H1.
  destruct (wt_add_update_tower _ _ _ _ _ _ _) as [c' r]. cbn [fst] in H1. destruct r; cbn [fst f_c set_c]; try exact H1.
  eapply mis_back_trans; [exact H1|apply (run_while_mis_back t (at_order a) _ false (wr_c (log_req s (ReqRegister t)) c'))].
Qed.

(* ... and consumes at most one reply per locator *)
Lemma run_for_accept2 t : forall locs s sl rest,
  (length locs <= length sl)%nat ->
  exists k, (k <= length locs)%nat /\ (snd (run_for s t locs (accept_all sl ++ rest)) = None -> snd (fst (run_for s t locs (accept_all sl ++ rest))) = accept_all (skipn k sl) ++ rest).
Proof.
  induction locs as [|l locs IH]; intros s sl rest Hlen; cbn [run_for]; [exists 0%nat; split; [lia|reflexivity]|].
  destruct (poisoned s); [exists 0%nat; split; [lia|discriminate]|].
  destruct (load_pending (f_c s) t l).
  2:{ destruct (IH (retrier_drop s t l) sl rest) as [k [A B]]; [cbn in Hlen; lia|]. exists k. split; [cbn; lia|exact B]. }
  destruct sl as [|n sl]; [cbn in Hlen; lia|]. cbn [accept_all map app next_reply].
  destruct (wt_add_appointment_receipt _ _ _ _ _ _ _) as [c2 r2]. destruct (lift_site r2); [exists 0%nat; split; [lia|discriminate]|].
  destruct (wt_remove_pending_appointment c2 t l) as [c3 r3]. destruct (lift_site r3); [exists 0%nat; split; [lia|discriminate]|].
  destruct (IH (wr_c (wr_c (retrier_drop (log_req s (ReqAdd t l)) t l) c2) c3) sl rest) as [k [A B]]; [cbn in Hlen; lia|].
  exists (S k). split; [cbn; lia|]. exact B.
Qed.

(* one attempt against a tower that accepts everything (and, after a subscription error, renews the subscription
   with an extending receipt first): run returns Ok *)
Lemma run_attempt_accept s t a sl rest :
  FInv s -> poisoned s = false -> rstat s t = Some RRunning -> knownc (f_c s) t -> stat (f_c s) t <> Some Misbehaving ->
  at_adds a = accept_all sl ++ rest ->
  (length (retrier_pending s t) + length (pending_locators (c_db (f_c s)) t) <= length sl)%nat ->
  (stat (f_c s) t = Some SubscriptionError ->
     exists slots start expiry, at_reg a = RReceipt slots start expiry true /\ reg_extends (f_c s) t slots expiry = true) ->
  snd (run_attempt s t a) = RunOk.
Proof.
  intros HF Hp Hrun Hk Hnm Hadds Hlen Hreg.
  (* a round over the whole set with enough acceptances left ends with the set empty *)
  assert (Hround : forall s0 sl0 x p, RunPre s0 t -> retrier_pending s0 t = x :: p -> (length (x :: p) <= length sl0)%nat ->
            exists s1 k, run_for s0 t (reorder (at_order a) (x :: p)) (accept_all sl0 ++ rest) = (s1, accept_all (skipn k sl0) ++ rest, None) /\
                         (k <= length (x :: p))%nat /\ RunPre s1 t /\ retrier_pending s1 t = [] /\
                         (forall l, Prow (c_db (f_c s1)) t l -> Prow (c_db (f_c s0)) t l)).
  { intros s0 sl0 x p Hpre Ep Hl0. pose proof Hpre as [H0 [Hp0 _]].
    assert (Hnd : NoDup (x :: p)).
    { destruct H0 as [_ [_ [HV _]]]. destruct (HV Hp0) as [_ [_ [V4 _]]]. unfold retrier_pending in Ep.
      destruct (aget (f_mgr s0) t) as [r|] eqn:Er; [|discriminate]. rewrite <- Ep. eapply V4, Er. }
    pose proof (NoDup_reorder (at_order a) _ Hnd) as Hndr.
    assert (Hsub : forall l, In l (reorder (at_order a) (x :: p)) -> In l (retrier_pending s0 t)) by (intros l Hl; rewrite Ep; apply In_reorder in Hl; exact Hl).
    pose proof (run_for_no_abort t _ s0 (accept_all sl0 ++ rest) Hpre Hndr Hsub) as Hna.
    assert (Hlen0 : (length (reorder (at_order a) (x :: p)) <= length sl0)%nat) by (rewrite (length_reorder _ _ Hnd); exact Hl0).
    pose proof (run_for_accept t (reorder (at_order a) (x :: p)) s0 sl0 rest Hlen0) as Hacc.
    destruct (run_for_accept2 t (reorder (at_order a) (x :: p)) s0 sl0 rest Hlen0) as [k [Hk1 Hk2]].
    destruct (run_for s0 t (reorder (at_order a) (x :: p)) (accept_all sl0 ++ rest)) as [[s1 adds1] r1] eqn:E1. cbn [fst snd] in *.
    destruct r1 as [r|]; [exfalso; destruct r; contradiction|].
    destruct (run_round t (at_order a) s0 _ x p s1 adds1 None Hpre Ep E1) as [_ [_ Hnone]]. destruct (Hnone eq_refl) as [Hpre1 [Hempty [_ Hback]]].
    exists s1, k. rewrite (Hk2 eq_refl). split; [reflexivity|]. split; [rewrite (length_reorder _ _ Hnd) in Hk1; exact Hk1|]. split; [exact Hpre1|]. split; [exact Hempty|exact Hback]. }
  assert (Hgo : forall s0, FInv s0 -> poisoned s0 = false -> knownc (f_c s0) t -> rstat s0 t = Some RRunning ->
            retrier_pending s0 t = retrier_pending s t -> (forall l, Prow (c_db (f_c s0)) t l -> Prow (c_db (f_c s)) t l) ->
            snd (run_while (run_fuel s0 t) false s0 t (at_order a) (at_adds a)) = RunOk).
  { intros s0 H0 Hp0 Hk0 Hr0 Hpe HP0. pose proof (conj H0 (conj Hp0 (conj Hk0 Hr0))) as Hpre.
    unfold run_fuel. remember (length (retrier_pending s0 t)) as fuel eqn:Efuel. rewrite Hadds.
    (* the pick-up and the last round, from a state with an empty set *)
    assert (Hempty : forall sE slE f, RunPre sE t -> retrier_pending sE t = [] -> (forall l, Prow (c_db (f_c sE)) t l -> Prow (c_db (f_c s)) t l) ->
              (length (pending_locators (c_db (f_c s)) t) <= length slE)%nat ->
              snd (run_while (S (S (S f))) false sE t (at_order a) (accept_all slE ++ rest)) = RunOk).
    { intros sE slE f0 HpreE EpE HPE HlE. rewrite run_while_S, EpE. pose proof HpreE as [HFE [HpE _]]. rewrite HpE. cbv zeta.
      pose proof (RunPre_pick_up sE t HpreE) as Hpre1.
      destruct (retrier_pending (pick_up sE t) t) as [|y q] eqn:Ep1; [reflexivity|].
      assert (Hl2 : (length (y :: q) <= length slE)%nat).
      { eapply Nat.le_trans; [|exact HlE]. apply NoDup_incl_length.
        - pose proof Hpre1 as [[_ [_ [HV1 _]]] [Hp1 _]]. destruct (HV1 Hp1) as [_ [_ [V4 _]]]. unfold retrier_pending in Ep1.
          destruct (aget (f_mgr (pick_up sE t)) t) as [r|] eqn:Er; [|discriminate]. rewrite <- Ep1. eapply V4, Er.
        - intros l Hl. apply In_pending_locators. rewrite <- Ep1 in Hl. apply (pick_up_sound sE t l HpreE EpE) in Hl. apply HPE in Hl.
          destruct Hl as [row [A [B C]]]. exists row. auto. }
      destruct (Hround (pick_up sE t) slE y q Hpre1 Ep1 Hl2) as [s2 [k [E2 [_ [_ [Hempty2 _]]]]]].
      rewrite run_while_S, Ep1, E2, run_while_S, Hempty2. reflexivity. }
    destruct (retrier_pending s0 t) as [|x p] eqn:Ep.
    { subst fuel. apply (Hempty s0 sl 1%nat Hpre Ep HP0). lia. }
    assert (Hl1 : (length (x :: p) <= length sl)%nat) by (rewrite Hpe; lia).
    destruct (Hround s0 sl x p Hpre Ep Hl1) as [s1 [k [E1 [Hk1 [Hpre1 [Hempty1 Hback]]]]]].
    rewrite run_while_S, Ep, E1. subst fuel. cbn [length]. apply (Hempty s1 (skipn k sl) _ Hpre1 Hempty1).
    - intros l Hl. apply HP0, Hback, Hl.
    - rewrite skipn_length. rewrite Hpe in Hk1. lia. }
  unfold run_attempt. rewrite Hp. unfold knownc, amem in Hk. destruct (aget (c_towers (f_c s)) t) as [su|] eqn:Et; [|discriminate].
  destruct (is_misbehaving (su_status su)) eqn:Emis.
  { exfalso. apply Hnm. unfold stat. rewrite Et. cbn. destruct (su_status su); try discriminate. reflexivity. }
  destruct (is_subscription_error (su_status su)) eqn:Esub.
  2:{ apply Hgo; auto. unfold knownc, amem. rewrite Et. reflexivity. }
  destruct Hreg as [slots [start [expiry [Hr Hext]]]].
  { unfold stat. rewrite Et. cbn. destruct (su_status su); try discriminate. reflexivity. }
  rewrite Hr. cbn [negb].
  set (s1 := log_req s (ReqRegister t)).
  assert (HF1 : FInv s1) by (apply (FInv_core s); auto).
  assert (Hk1 : knownc (f_c s1) t) by (unfold knownc, amem; cbn [f_c s1 log_req]; rewrite Et; reflexivity).
  pose proof (add_update_tower_cases (f_c s1) t (su_addr su) slots start expiry REG_SIG) as Hc.
  pose proof (add_update_tower_ok (f_c s1) t (su_addr su) slots start expiry REG_SIG (proj1 HF) Hp) as Hok.
  destruct (wt_add_update_tower (f_c s1) t (su_addr su) slots start expiry REG_SIG) as [c' r] eqn:Eu. cbn [fst snd] in Hc, Hok.
  destruct Hc as [[-> _]|[Hne [_ Hab]]].
  - destruct (FInv_renew s1 t _ _ _ _ _ c' ROk HF1 Hp Hk1 Eu) as [HF2 Hok2]. destruct (Hok2 eq_refl) as [Hp2 Hkn2].
    apply (Hgo (wr_c s1 c')); [exact HF2|exact Hp2|apply Hkn2, Hk1|exact Hrun|reflexivity|].
    pose proof HF as [HI _]. destruct (prim_add_update_tower _ _ _ _ _ _ _ _ _ HI Hp Eu) as [_ [_ [_ [[Ed _]|[_ [_ [_ [_ [_ Hfr]]]]]]]]].
    + cbn [f_c wr_c]. rewrite Ed. auto.
    + intros l. cbn [f_c wr_c]. apply (Prow_ext _ _ t l (Hfr T_pending_appointments ltac:(discriminate) ltac:(discriminate))).
  - exfalso. destruct (Hab Hext) as [st ->]. discriminate Hok.
Qed.

(* DELIVERY: a live retry task of a known tower (not flagged) that now accepts: ONE attempt delivers everything that is
   pending for the tower - the retrier's set and, since the repair of D7, whatever else is pending for it; the task ends,
   the tower is reachable, its retrier stopped with an empty set, NO pending row of the tower is left and every row that
   was pending has a record (locators of the set that were not pending any more were stale and are dropped) *)
Theorem delivers_attempt ops t a sl rest :
  let s := frun f_init ops in poisoned s = false ->
  In t (f_tasks s) -> knownc (f_c s) t -> stat (f_c s) t <> Some Misbehaving ->
  at_adds a = accept_all sl ++ rest ->
  (length (retrier_pending s t) + length (pending_locators (c_db (f_c s)) t) <= length sl)%nat ->
  (stat (f_c s) t = Some SubscriptionError ->
     exists slots start expiry, at_reg a = RReceipt slots start expiry true /\ reg_extends (f_c s) t slots expiry = true) ->
  let s' := fst (fstep s (FRetrierRun t [a])) in
  snd (fstep s (FRetrierRun t [a])) = ORun OutDelivered /\
  stat (f_c s') t = Some Reachable /\ rstat s' t = Some RStopped /\ retrier_pending s' t = [] /\
  ~ In t (f_tasks s') /\ aget (c_retriers (f_c s')) t = None /\
  (forall l, ~ Prow (c_db (f_c s')) t l) /\ (forall l, Prow (c_db (f_c s)) t l -> recorded (c_db (f_c s')) t l) /\
  (forall k x, Prow (c_db (f_c s')) k x -> Prow (c_db (f_c s)) k x).
Proof.
  intros s Hp Hin Hk Hnm Hadds Hlen Hreg. pose proof (FInv_frun ops f_init FInv_init) as HF. fold s in HF.
  assert (Hrun : rstat s t = Some RRunning) by (apply HF, Hin).
  pose proof (run_attempt_accept s t a sl rest HF Hp Hrun Hk Hnm Hadds Hlen Hreg) as Hok.
  cbn [fstep f_retrier_run]. apply (proj2 (memN_In t (f_tasks s))) in Hin. rewrite Hin. cbn [negb].
  destruct (run_attempt s t a) as [s1 r] eqn:E1. cbn [snd] in Hok. subst r.
  destruct (FInv_run_attempt s t a s1 RunOk HF Hrun E1) as [HF1 [Hnp [Hset [K [PA PN]]]]].
  destruct (Hset eq_refl) as [Hempty Hk1].
  assert (Hnm1 : stat (f_c s1) t <> Some Misbehaving).
  { intros H. apply Hnm. pose proof (run_attempt_mis_back s t a) as Hb. rewrite E1 in Hb. cbn [fst] in Hb. apply Hb, H. }
  assert (Hrun1 : rstat s1 t = Some RRunning).
  { pose proof (run_attempt_same s t a) as [_ Hs]. rewrite E1 in Hs. cbn [fst] in Hs. rewrite Hs. exact Hrun. }
  assert (Htasks1 : In t (f_tasks s1)).
  { pose proof (run_attempt_same s t a) as [Ht _]. rewrite E1 in Ht. cbn [fst] in Ht. rewrite Ht. apply memN_In, Hin. }
  unfold rstat in Hrun1. destruct (aget (f_mgr s1) t) as [r1|] eqn:Er1; [|discriminate].
  pose proof (task_step_not_running s1 t RunOk (at_more a) (proj2 (proj2 (proj2 HF1))) Htasks1) as Hnr.
  cbn [task_step fst snd] in *. split; [reflexivity|].
  set (c2 := with_retriers (wt_set_tower_status (f_c s1) t Reachable) (aremove (c_retriers (wt_set_tower_status (f_c s1) t Reachable)) t)) in *.
  set (s2 := end_task (retrier_set_status (set_c s1 c2) t RStopped) t) in *.
  assert (Ec : f_c s2 = c2) by (unfold s2; cbn [f_c end_task set_tasks]; rewrite f_c_retrier_set_status; reflexivity).
  rewrite Ec. split.
  { destruct (prim_set_status (f_c s1) t Reachable (proj1 HF1)) as [_ [_ [_ [_ [Hs _]]]]]. unfold stat in *. unfold c2. cbn [c_towers with_retriers].
    rewrite (Hs t), N.eqb_refl. unfold knownc, amem in Hk1. unfold stat in Hnm1.
    destruct (aget (c_towers (f_c s1)) t) as [su1|]; [|discriminate]. cbn in *. f_equal. apply sticky_other. congruence. }
  split.
  { unfold s2. change (rstat (end_task (retrier_set_status (set_c s1 c2) t RStopped) t) t) with (rstat (retrier_set_status (set_c s1 c2) t RStopped) t).
    rewrite rstat_retrier_set_status, N.eqb_refl. unfold rstat. cbn [f_mgr set_c]. rewrite Er1. reflexivity. }
  split.
  { unfold s2. change (retrier_pending (end_task (retrier_set_status (set_c s1 c2) t RStopped) t) t) with (retrier_pending (retrier_set_status (set_c s1 c2) t RStopped) t).
    rewrite (retrier_set_status_eq (set_c s1 c2) t RStopped r1 Er1), retrier_pending_put, N.eqb_refl. cbn [r_pending].
    unfold retrier_pending in Hempty. rewrite Er1 in Hempty. exact Hempty. }
  split; [apply Hnr|].
  split.
  { unfold c2. cbn [c_retriers with_retriers]. rewrite aget_aremove, N.eqb_refl. reflexivity. }
  split; [intros l; unfold c2; cbn [c_db with_retriers]; rewrite DbInv_set_status; apply (PN eq_refl l)|].
  split; [|intros k x; unfold c2; cbn [c_db with_retriers]; rewrite DbInv_set_status; apply PA].
  intros l HPl. unfold c2. cbn [c_db with_retriers]. rewrite DbInv_set_status. apply K. right. left. exact HPl.
Qed.

(* ---- a tower that keeps failing ---- *)
Definition fails (a : attempt) : bool :=
  match at_reg a with RReceipt _ _ _ _ => false | _ => true end &&
  match at_adds a with [] => true | x :: _ => is_request_error x end.

(* what an attempt that fails leaves of the state: everything but the request log, and the locators of the retrier's
   set that are NOT pending rows of the tower any more (they are dropped on the way: fix 8108569) *)
Definition dropped_only (t : N) (s s' : fstate) : Prop :=
  f_c s' = f_c s /\ f_chan s' = f_chan s /\ f_tasks s' = f_tasks s /\ f_due s' = f_due s /\ f_mgr_dead s' = f_mgr_dead s /\
  (forall k, k <> t -> aget (f_mgr s') k = aget (f_mgr s) k) /\ rstat s' t = rstat s t /\
  (forall x, In x (retrier_pending s' t) -> In x (retrier_pending s t)) /\
  (forall x, In x (retrier_pending s t) -> Prow (c_db (f_c s)) t x -> In x (retrier_pending s' t)).
Lemma dropped_only_refl t s : dropped_only t s s.
Proof. repeat split; auto. Qed.
Lemma dropped_only_trans t a b c : dropped_only t a b -> dropped_only t b c -> dropped_only t a c.
Proof.
  intros [A1 [A2 [A3 [A4 [A5 [A6 [A7 [A8 A9]]]]]]]] [B1 [B2 [B3 [B4 [B5 [B6 [B7 [B8 B9]]]]]]]].
  split; [congruence|]. split; [congruence|]. split; [congruence|]. split; [congruence|]. split; [congruence|].
  split; [intros k Hk; rewrite B6, A6; auto|]. split; [congruence|]. split; [intros x Hx; apply A8, B8, Hx|].
  intros x Hx HP. apply B9; [apply A9; assumption|rewrite A1; exact HP].
Qed.
Lemma dropped_only_log t s r : dropped_only t s (log_req s r).
Proof. repeat split; auto. Qed.
Lemma dropped_only_drop t s l : ~ Prow (c_db (f_c s)) t l -> dropped_only t s (retrier_drop s t l).
Proof.
  intros Hn. unfold retrier_drop. destruct (aget (f_mgr s) t) as [r|] eqn:Er; [|apply dropped_only_refl].
  split; [reflexivity|]. split; [reflexivity|]. split; [reflexivity|]. split; [reflexivity|]. split; [reflexivity|].
  split; [intros k Hk; cbn [f_mgr put_retrier set_mgr]; apply aget_aset_other; exact Hk|].
  split; [rewrite rstat_put, N.eqb_refl; unfold rstat; rewrite Er; reflexivity|].
  split.
  - intros x Hx. rewrite retrier_pending_put, N.eqb_refl in Hx. cbn [r_pending] in Hx. apply In_set_remove in Hx. unfold retrier_pending. rewrite Er. tauto.
  - intros x Hx HP. rewrite retrier_pending_put, N.eqb_refl. cbn [r_pending]. apply In_set_remove. unfold retrier_pending in Hx. rewrite Er in Hx.
    split; [exact Hx|]. intros ->. contradiction.
Qed.

(* the for loop against a tower whose next reply is a request error: it drops what is not pending any more, and stops
   at the first locator that is; it finishes only if nothing of its list is a pending row *)
Lemma run_for_fails t : forall locs s adds,
  Inv (f_c s) -> poisoned s = false -> (match adds with [] => true | x :: _ => is_request_error x end) = true ->
  dropped_only t s (fst (fst (run_for s t locs adds))) /\
  (snd (run_for s t locs adds) = Some (RunErr EUnreachable) \/
   (snd (run_for s t locs adds) = None /\ forall l, In l locs -> ~ Prow (c_db (f_c s)) t l)).
Proof.
  induction locs as [|l locs IH]; intros s adds HI Hp Hf; cbn [run_for].
  { split; [apply dropped_only_refl|]. right. split; [reflexivity|intros l []]. }
  unfold poisoned in *. rewrite Hp. pose proof (load_pending_spec (f_c s) t l HI Hp) as Hlp.
  destruct (load_pending (f_c s) t l) as [body|].
  - destruct adds as [|rp adds']; cbn [next_reply]; [cbn [fst snd]; split; [apply dropped_only_log|left; reflexivity]|].
    destruct rp; try discriminate Hf; cbn [fst snd]; (split; [apply dropped_only_log|left; reflexivity]).
  - assert (HI2 : Inv (f_c (retrier_drop s t l))) by (rewrite f_c_retrier_drop; exact HI).
    assert (Hp2 : c_poisoned (f_c (retrier_drop s t l)) = false) by (rewrite f_c_retrier_drop; exact Hp).
    destruct (IH (retrier_drop s t l) adds HI2 Hp2 Hf) as [A B].
    split; [eapply dropped_only_trans; [apply dropped_only_drop, Hlp|exact A]|].
    destruct B as [B|[B1 B2]]; [left; exact B|right]. split; [exact B1|]. intros x [<-|Hx]; [exact Hlp|].
    specialize (B2 x Hx). rewrite f_c_retrier_drop in B2. exact B2.
Qed.

Lemma run_attempt_fails s t a l0 :
  FInv s -> poisoned s = false -> knownc (f_c s) t -> stat (f_c s) t <> Some Misbehaving ->
  In l0 (retrier_pending s t) -> Prow (c_db (f_c s)) t l0 -> fails a = true ->
  dropped_only t s (fst (run_attempt s t a)) /\
  (snd (run_attempt s t a) = RunErr EUnreachable \/ snd (run_attempt s t a) = RunErr (ESubscription false)).
Proof.
  intros HF Hp Hk Hnm Hl0 HP0 Hf. unfold fails in Hf. apply andb_true_iff in Hf. destruct Hf as [Hfr Hfa].
  unfold run_attempt. rewrite Hp. unfold knownc, amem in Hk. destruct (aget (c_towers (f_c s)) t) as [su|] eqn:Et; [|discriminate].
  destruct (is_misbehaving (su_status su)) eqn:Emis.
  { exfalso. apply Hnm. unfold stat. rewrite Et. cbn. destruct (su_status su); try discriminate. reflexivity. }
  destruct (is_subscription_error (su_status su)).
  { destruct (at_reg a); try discriminate; cbn [fst snd]; (split; [apply dropped_only_log|right; reflexivity]). }
  unfold run_fuel. cbn [run_while]. destruct (retrier_pending s t) as [|x p] eqn:Ep; [contradiction|].
  destruct (run_for_fails t (reorder (at_order a) (x :: p)) s (at_adds a) (proj1 HF) Hp Hfa) as [A B].
  destruct (run_for s t (reorder (at_order a) (x :: p)) (at_adds a)) as [[s1 adds1] r1]. cbn [fst snd] in *.
  destruct B as [->|[-> B2]]; [split; [exact A|left; reflexivity]|].
  exfalso. apply (B2 l0); [apply In_reorder; exact Hl0|exact HP0].
Qed.

(* the task gives up (the back-off is exhausted) on a transient error: idle, unreachable, rows untouched *)
Lemma idle_arm s t e :
  is_permanent e = false -> (e = EUnreachable \/ e = ESubscription false) -> knownc (f_c s) t -> stat (f_c s) t <> Some Misbehaving ->
  forall r0, aget (f_mgr s) t = Some r0 ->
  let s' := fst (task_step s t (RunErr e) false) in
  snd (task_step s t (RunErr e) false) = OutIdle e /\
  stat (f_c s') t = Some Unreachable /\ rstat s' t = Some RIdle /\ retrier_pending s' t = [] /\
  aget (c_retriers (f_c s')) t = Some RIdle /\ c_db (f_c s') = c_db (f_c s) /\ f_tasks s' = remove_one t (f_tasks s) /\
  f_chan s' = f_chan s /\ f_mgr_dead s' = f_mgr_dead s /\ poisoned s' = poisoned s.
Proof.
  intros Hperm He Hk Hnm r0 Er. unfold task_step. rewrite Hperm. cbn [negb andb].
  set (c1 := with_retriers (f_c s) (aset (c_retriers (f_c s)) t RIdle)).
  set (c2 := wt_set_tower_status c1 t Unreachable).
  set (s' := end_task (retrier_clear (retrier_set_status (set_c s c2) t RIdle) t) t).
  assert (Hmain : stat (f_c s') t = Some Unreachable /\ rstat s' t = Some RIdle /\ retrier_pending s' t = [] /\
     aget (c_retriers (f_c s')) t = Some RIdle /\ c_db (f_c s') = c_db (f_c s) /\ f_tasks s' = remove_one t (f_tasks s) /\
     f_chan s' = f_chan s /\ f_mgr_dead s' = f_mgr_dead s /\ poisoned s' = poisoned s).
  { assert (Ec : f_c s' = c2) by (unfold s'; cbn [f_c end_task set_tasks]; rewrite f_c_retrier_clear, f_c_retrier_set_status; reflexivity).
    assert (Er2 : aget (f_mgr (retrier_set_status (set_c s c2) t RIdle)) t = Some {| r_status := RIdle; r_pending := r_pending r0 |}).
    { rewrite (retrier_set_status_eq (set_c s c2) t RIdle r0 Er). unfold put_retrier, set_mgr. cbn [f_mgr]. apply aget_aset_same. }
    rewrite Ec. split.
    { unfold c2. rewrite stat_set_status, N.eqb_refl. unfold stat, c1 in *. cbn [c_towers with_retriers]. unfold knownc, amem in Hk.
      destruct (aget (c_towers (f_c s)) t) as [su0|]; [|discriminate]. cbn in *. f_equal. apply sticky_other. congruence. }
    split.
    { unfold s'. change (rstat (end_task (retrier_clear (retrier_set_status (set_c s c2) t RIdle) t) t) t) with (rstat (retrier_clear (retrier_set_status (set_c s c2) t RIdle) t) t).
      rewrite rstat_retrier_clear. unfold rstat. rewrite Er2. reflexivity. }
    split.
    { unfold s'. change (retrier_pending (end_task (retrier_clear (retrier_set_status (set_c s c2) t RIdle) t) t) t) with (retrier_pending (retrier_clear (retrier_set_status (set_c s c2) t RIdle) t) t).
      rewrite (retrier_clear_eq _ t _ Er2), retrier_pending_put, N.eqb_refl. reflexivity. }
    split; [unfold c2; rewrite retriers_set_status; unfold c1; cbn [c_retriers with_retriers]; apply aget_aset_same|].
    split; [unfold c2; rewrite DbInv_set_status; reflexivity|].
    split; [unfold s'; cbn [f_tasks end_task set_tasks]; rewrite retrier_clear_tasks, retrier_set_status_tasks; reflexivity|].
    split; [unfold s', retrier_clear, retrier_set_status; cbn [f_mgr set_c]; rewrite Er; cbn [f_mgr put_retrier set_mgr]; rewrite aget_aset_same; reflexivity|].
    split; [unfold s', retrier_clear, retrier_set_status; cbn [f_mgr set_c]; rewrite Er; cbn [f_mgr put_retrier set_mgr]; rewrite aget_aset_same; reflexivity|].
    unfold poisoned. rewrite Ec. unfold c2. rewrite poisoned_set_status. reflexivity. }
  destruct He as [-> | ->]; cbn [fst snd]; (split; [reflexivity|exact Hmain]).
Qed.

Lemma gives_up_one s t a l0 :
  FInv s -> poisoned s = false -> In t (f_tasks s) -> knownc (f_c s) t -> stat (f_c s) t <> Some Misbehaving ->
  In l0 (retrier_pending s t) -> Prow (c_db (f_c s)) t l0 -> fails a = true ->
  let s' := fst (f_retrier_run s t [a]) in
  (at_more a = true -> dropped_only t s s' /\ exists e, snd (f_retrier_run s t [a]) = OutBackoff e) /\
  (at_more a = false ->
     (exists e, snd (f_retrier_run s t [a]) = OutIdle e) /\
     stat (f_c s') t = Some Unreachable /\ rstat s' t = Some RIdle /\ retrier_pending s' t = [] /\
     aget (c_retriers (f_c s')) t = Some RIdle /\ c_db (f_c s') = c_db (f_c s) /\ ~ In t (f_tasks s') /\
     f_chan s' = f_chan s /\ f_mgr_dead s' = f_mgr_dead s /\ poisoned s' = false).
Proof.
  intros HF Hp Hin Hk Hnm Hl0 HP0 Hf. cbn [f_retrier_run]. apply (proj2 (memN_In t (f_tasks s))) in Hin as Hm. rewrite Hm. cbn [negb].
  destruct (run_attempt_fails s t a l0 HF Hp Hk Hnm Hl0 HP0 Hf) as [Hsame Hres].
  destruct (run_attempt s t a) as [s1 r]. cbn [fst snd] in Hsame, Hres.
  pose proof Hsame as [E1 [E3 [E4 [E5 [E6 [E2 [Ers _]]]]]]].
  assert (He : exists e, r = RunErr e /\ is_permanent e = false /\ (e = EUnreachable \/ e = ESubscription false)).
  { destruct Hres as [->| ->]; eexists; split; try reflexivity; split; try reflexivity; auto. }
  destruct He as [e [-> [Hperm Hcase]]].
  assert (Hrun : rstat s t = Some RRunning) by (apply HF, Hin).
  assert (Hrun1 : rstat s1 t = Some RRunning) by (rewrite Ers; exact Hrun).
  unfold rstat in Hrun1. destruct (aget (f_mgr s1) t) as [r1|] eqn:Er1; [|discriminate].
  split.
  - intros Hmore. unfold task_step. rewrite Hperm, Hmore. cbn [negb andb fst snd]. split; [exact Hsame|eexists; reflexivity].
  - intros Hmore. rewrite Hmore.
    assert (Hk1 : knownc (f_c s1) t) by (rewrite E1; exact Hk).
    assert (Hnm1 : stat (f_c s1) t <> Some Misbehaving) by (rewrite E1; exact Hnm).
    destruct (idle_arm s1 t e Hperm Hcase Hk1 Hnm1 r1 Er1) as [A [B [C [D [F [G [H [I0 [J K]]]]]]]]].
    destruct (task_step s1 t (RunErr e) false) as [s2 o]. cbn [fst snd] in *. subst o. cbn [fst snd].
    split; [exists e; reflexivity|]. split; [exact B|]. split; [exact C|]. split; [exact D|]. split; [exact F|].
    split; [rewrite G, E1; reflexivity|]. split.
    + rewrite H, E4. apply (remove_one_NoDup t (f_tasks s)). apply HF.
    + split; [congruence|]. split; [congruence|]. rewrite K. unfold poisoned. rewrite E1. exact Hp.
Qed.

(* C13 gives_up_truthfully, the retry task: against a tower that keeps failing (connection refused, garbage, reset,
   undecodable signature; a failing re-registration after a subscription error), with something really pending for it,
   every attempt leaves the state untouched while the back-off goes on (but for the stale locators it drops from its
   set), and when the back-off is exhausted the tower is shown unreachable, its retrier idle (also in
   WTClient::retriers, so retrytower is accepted), the in-memory set cleared and the database - every pending row -
   untouched *)
Theorem gives_up_truthfully ops t a l0 :
  let s := frun f_init ops in poisoned s = false ->
  In t (f_tasks s) -> knownc (f_c s) t -> stat (f_c s) t <> Some Misbehaving ->
  In l0 (retrier_pending s t) -> Prow (c_db (f_c s)) t l0 -> fails a = true ->
  let s' := fst (fstep s (FRetrierRun t [a])) in
  (at_more a = true -> dropped_only t s s' /\ exists e, snd (fstep s (FRetrierRun t [a])) = ORun (OutBackoff e)) /\
  (at_more a = false ->
     (exists e, snd (fstep s (FRetrierRun t [a])) = ORun (OutIdle e)) /\
     stat (f_c s') t = Some Unreachable /\ rstat s' t = Some RIdle /\ retrier_pending s' t = [] /\
     aget (c_retriers (f_c s')) t = Some RIdle /\ c_db (f_c s') = c_db (f_c s) /\ ~ In t (f_tasks s') /\
     retry_allowed s' t = true).
Proof.
  intros s Hp Hin Hk Hnm Hl0 HP0 Hf. pose proof (FInv_frun ops f_init FInv_init) as HF. fold s in HF.
  destruct (gives_up_one s t a l0 HF Hp Hin Hk Hnm Hl0 HP0 Hf) as [A B]. cbn [fstep].
  destruct (f_retrier_run s t [a]) as [s2 o]. cbn [fst snd] in *. split.
  - intros Hm. destruct (A Hm) as [X [e ->]]. split; [exact X|exists e; reflexivity].
  - intros Hm. destruct (B Hm) as [[e ->] [B1 [B2 [B3 [B4 [B5 [B6 [B7 [B8 B9]]]]]]]]].
    split; [exists e; reflexivity|]. repeat (split; [assumption|]).
    unfold retry_allowed. rewrite B9. cbn [negb andb]. unfold stat in B1. destruct (aget (c_towers (f_c s2)) t); [|discriminate]. rewrite B4. reflexivity.
Qed.

(* ---- the manager side of recovery: wake-up after the auto-retry delay, start ---- *)
Lemma retriers_set_status_aget c k st t : aget (c_retriers (wt_set_tower_status c k st)) t = aget (c_retriers c) t.
Proof. rewrite retriers_set_status. reflexivity. Qed.

Definition tsame (t : N) (s s' : fstate) : Prop :=
  aget (f_mgr s') t = aget (f_mgr s) t /\ aget (c_retriers (f_c s')) t = aget (c_retriers (f_c s)) t /\
  stat (f_c s') t = stat (f_c s) t /\ c_db (f_c s') = c_db (f_c s) /\ f_chan s' = f_chan s /\
  (In t (f_tasks s') <-> In t (f_tasks s)) /\ f_mgr_dead s' = f_mgr_dead s /\ poisoned s' = poisoned s.
Lemma tsame_refl t s : tsame t s s.  Proof. repeat split; auto. Qed.
Lemma tsame_trans t a b c : tsame t a b -> tsame t b c -> tsame t a c.
Proof.
  intros [A1 [A2 [A3 [A4 [A5 [A6 [A7 A8]]]]]]] [B1 [B2 [B3 [B4 [B5 [B6 [B7 B8]]]]]]]. repeat split; try congruence.
  - intros H. apply A6, B6, H.
  - intros H. apply B6, A6, H.
Qed.

Lemma wake_tsame t s k r : k <> t -> tsame t s (wake s k r).
Proof.
  intros Hn. unfold wake, tsame, poisoned. cbn [f_mgr f_c f_chan f_tasks f_mgr_dead put_retrier set_mgr set_c c_retriers c_db c_poisoned with_retriers].
  rewrite aget_aset_other by congruence. rewrite aget_aremove. assert (E : N.eqb t k = false) by (apply N.eqb_neq; congruence). rewrite E.
  repeat split; auto.
Qed.

Lemma put_tsame t s k r : k <> t -> tsame t s (put_retrier s k r).
Proof.
  intros Hn. unfold tsame, poisoned. cbn [f_mgr f_c f_chan f_tasks f_mgr_dead put_retrier set_mgr].
  rewrite aget_aset_other by congruence. repeat split; auto.
Qed.

Lemma start_tsame t s k r s' : k <> t -> retrier_start s k r = (s', None) -> tsame t s s'.
Proof.
  intros Hn. unfold retrier_start. destruct (aget (c_towers (f_c s)) k) as [su|]; [|intros E; inversion E; apply put_tsame, Hn].
  destruct (is_misbehaving (su_status su)); [intros E; inversion E; apply put_tsame, Hn|].
  intros E. inversion E. subst s'. clear E.
  unfold tsame. cbn [f_mgr f_c f_chan f_tasks f_mgr_dead set_tasks put_retrier set_mgr set_c c_retriers c_db with_retriers].
  assert (Et : N.eqb t k = false) by (apply N.eqb_neq; congruence).
  rewrite aget_aset_other by congruence. rewrite aget_aset, Et.
  split; [reflexivity|]. split.
  { destruct (is_subscription_error (su_status su)); [reflexivity|apply retriers_set_status_aget]. }
  split.
  { unfold stat. cbn [c_towers with_retriers]. destruct (is_subscription_error (su_status su)); [reflexivity|].
    change (option_map su_status (aget (c_towers (wt_set_tower_status (f_c s) k TemporaryUnreachable)) t)) with (stat (wt_set_tower_status (f_c s) k TemporaryUnreachable) t).
    rewrite stat_set_status, Et. reflexivity. }
  split; [destruct (is_subscription_error (su_status su)); [reflexivity|apply DbInv_set_status]|].
  split; [reflexivity|]. split; [|split; [reflexivity|]].
  - rewrite in_app_iff. cbn. split; [intros [H|[H|[]]]; [exact H|congruence]|tauto].
  - unfold poisoned. cbn [f_c set_tasks put_retrier set_mgr set_c c_poisoned with_retriers].
    destruct (is_subscription_error (su_status su)); [reflexivity|apply poisoned_set_status].
Qed.

(* the manager's map has one retrier per tower *)
Definition MgrKeys (s : fstate) : Prop := NoDup (map fst (f_mgr s)).

Lemma NoDup_keys_aretain {V} (p : N -> bool) (m : amap V) : NoDup (map fst m) -> NoDup (map fst (aretain p m)).
Proof.
  unfold aretain. induction m as [|[k v] m IH]; cbn; intros H; [constructor|]. inversion H as [|? ? Hk Hm]. subst.
  destruct (p k); cbn; [constructor; [|apply IH, Hm]|apply IH, Hm].
  intros Hin. apply Hk. apply in_map_iff in Hin. destruct Hin as [[k' v'] [E Hin]]. cbn in E. subst. apply filter_In in Hin.
  apply in_map_iff. exists (k, v'). split; [reflexivity|tauto].
Qed.
Lemma keys_aremove_notin {V} (m : amap V) k : ~ In k (map fst (aremove m k)).
Proof.
  unfold aremove, aretain. intros H. apply in_map_iff in H. destruct H as [[k' v'] [E Hin]]. cbn in E. subst. apply filter_In in Hin.
  destruct Hin as [_ Hin]. cbn in Hin. rewrite N.eqb_refl in Hin. discriminate.
Qed.
Lemma NoDup_keys_aset {V} (m : amap V) k v : NoDup (map fst m) -> NoDup (map fst (aset m k v)).
Proof. intros H. unfold aset. cbn. constructor; [apply keys_aremove_notin|apply NoDup_keys_aretain, H]. Qed.

Lemma MgrKeys_put s t r : MgrKeys s -> MgrKeys (put_retrier s t r).
Proof. unfold MgrKeys, put_retrier, set_mgr. cbn [f_mgr]. apply NoDup_keys_aset. Qed.
Lemma MgrKeys_same s s' : f_mgr s' = f_mgr s -> MgrKeys s -> MgrKeys s'.
Proof. unfold MgrKeys. intros ->. auto. Qed.

Lemma MgrKeys_drop s t l : MgrKeys s -> MgrKeys (retrier_drop s t l).
Proof. intros H. unfold retrier_drop. destruct (aget (f_mgr s) t); [apply MgrKeys_put|]; exact H. Qed.

Lemma MgrKeys_run_for t : forall locs s adds, MgrKeys s -> MgrKeys (fst (fst (run_for s t locs adds))).
Proof.
  induction locs as [|l locs IH]; intros s adds H; cbn [run_for]; [exact H|].
  destruct (poisoned s); [exact H|]. destruct (load_pending (f_c s) t l); [|apply IH, MgrKeys_drop, H].
  destruct (next_reply adds) as [rp a1]. destruct rp; cbn [fst]; try exact H.
  - destruct (wt_add_appointment_receipt _ _ _ _ _ _ _) as [c2 r2]. destruct (lift_site r2); cbn [fst]; [apply (MgrKeys_drop (log_req s _)), H|].
    destruct (wt_remove_pending_appointment c2 t l) as [c3 r3]. destruct (lift_site r3); cbn [fst]; [apply (MgrKeys_drop (log_req s _)), H|].
    apply IH. apply (MgrKeys_drop (log_req s _)), H.
  - destruct (wt_add_invalid_appointment _ _ _ _ _) as [c2 r2]. destruct (lift_site r2); cbn [fst]; [apply (MgrKeys_drop (log_req s _)), H|].
    destruct (wt_remove_pending_appointment c2 t l) as [c3 r3]. destruct (lift_site r3); cbn [fst]; [apply (MgrKeys_drop (log_req s _)), H|].
    apply IH. apply (MgrKeys_drop (log_req s _)), H.
Qed.

Lemma MgrKeys_pick_up s t : MgrKeys s -> MgrKeys (pick_up s t).
Proof. intros H. unfold pick_up. destruct (aget (f_mgr s) t); [apply MgrKeys_put|]; exact H. Qed.
Lemma MgrKeys_run_while t hint : forall fuel picked s adds, MgrKeys s -> MgrKeys (fst (run_while fuel picked s t hint adds)).
Proof.
  induction fuel as [|f IH]; intros picked s adds H; cbn [run_while]; [exact H|]. destruct (retrier_pending s t) as [|x p].
  { destruct picked; [exact H|]. destruct (poisoned s); [exact H|].
    destruct (retrier_pending (pick_up s t) t); cbn [fst]; [apply MgrKeys_pick_up, H|apply IH, MgrKeys_pick_up, H]. }
  pose proof (MgrKeys_run_for t (reorder hint (x :: p)) s adds H) as H1.
  destruct (run_for s t (reorder hint (x :: p)) adds) as [[s1 a1] [r|]]; cbn [fst] in *; [exact H1|apply IH, H1].
Qed.

Lemma MgrKeys_run_attempt s t a : MgrKeys s -> MgrKeys (fst (run_attempt s t a)).
Proof.
  intros H. unfold run_attempt. destruct (poisoned s); [exact H|]. destruct (aget (c_towers (f_c s)) t) as [su|]; [|exact H].
  destruct (is_misbehaving (su_status su)); [exact H|].
  destruct (is_subscription_error (su_status su)); [|apply MgrKeys_run_while, H].
  destruct (at_reg a); try exact H. destruct (negb sig_ok); [exact H|].
  destruct (wt_add_update_tower _ _ _ _ _ _ _) as [c' r]. destruct r; try exact H. apply MgrKeys_run_while. exact H.
Qed.

Lemma MgrKeys_set_status s t st : MgrKeys s -> MgrKeys (retrier_set_status s t st).
Proof. intros H. unfold retrier_set_status. destruct (aget (f_mgr s) t); [apply MgrKeys_put|]; exact H. Qed.
Lemma MgrKeys_clear s t : MgrKeys s -> MgrKeys (retrier_clear s t).
Proof. intros H. unfold retrier_clear. destruct (aget (f_mgr s) t); [apply MgrKeys_put|]; exact H. Qed.

Lemma MgrKeys_task_step s t r more : MgrKeys s -> MgrKeys (fst (task_step s t r more)).
Proof.
  intros H. unfold task_step. destruct r as [|e|site|]; cbn [fst]; try exact H.
  - apply (MgrKeys_set_status (set_c s _)). exact H.
  - destruct (negb (is_permanent e) && more); [exact H|].
    assert (H1 : MgrKeys (if is_permanent e then retrier_set_status s t RFailed else s)) by (destruct (is_permanent e); [apply MgrKeys_set_status|]; exact H).
    destruct e as [[|]| |l| |]; cbn [fst]; try exact H1.
    + apply MgrKeys_clear. apply (MgrKeys_set_status (set_c _ _)). exact H1.
    + apply MgrKeys_clear. apply (MgrKeys_set_status (set_c _ _)). exact H1.
    + destruct (wt_flag_misbehaving_tower _ _ _ _ _ _ _) as [c2 r2]. destruct (lift_site r2); exact H1.
Qed.

Lemma MgrKeys_retrier_run t : forall atts s, MgrKeys s -> MgrKeys (fst (f_retrier_run s t atts)).
Proof.
  induction atts as [|a atts IH]; intros s H; cbn [f_retrier_run]; [exact H|]. destruct (negb (memN t (f_tasks s))); [exact H|].
  pose proof (MgrKeys_run_attempt s t a H) as H1. destruct (run_attempt s t a) as [s1 r]. cbn [fst] in H1.
  pose proof (MgrKeys_task_step s1 t r (at_more a) H1) as H2. destruct (task_step s1 t r (at_more a)) as [s2 o]. cbn [fst] in H2.
  destruct o; try exact H2. destruct atts; [exact H2|apply IH, H2].
Qed.

Lemma MgrKeys_wake s t r : MgrKeys s -> MgrKeys (wake s t r).
Proof. intros H. unfold wake. apply MgrKeys_put. exact H. Qed.

Lemma MgrKeys_sweep elapsed : forall keys s st wk, MgrKeys s -> MgrKeys (fst (fst (fst (sweep s keys elapsed st wk)))).
Proof.
  induction keys as [|k keys IH]; intros s st wk H; cbn [sweep]; [exact H|].
  destruct (aget (f_mgr s) k) as [r|]; [|apply IH, H]. destruct (should_start r).
  - assert (H1 : MgrKeys (fst (retrier_start s k r))).
    { unfold retrier_start. destruct (aget (c_towers (f_c s)) k) as [su|]; [destruct (is_misbehaving (su_status su))|]; cbn [fst];
        first [apply MgrKeys_put; exact H|apply (MgrKeys_put (set_c s _)); exact H]. }
    destruct (retrier_start s k r) as [s1 [site|]]; cbn [fst] in *; [exact H1|apply IH, H1].
  - destruct (is_idle (r_status r) && memN k elapsed); apply IH; [apply MgrKeys_wake|]; exact H.
Qed.

Lemma MgrKeys_fstep s o : MgrKeys s -> MgrKeys (fst (fstep s o)).
Proof.
  intros H. destruct o; cbn [fstep].
  - apply (MgrKeys_same s); [apply f_register_mgr|exact H].
  - apply (MgrKeys_same s); [apply f_revocation_mgr|exact H].
  - unfold f_manager_tick. destruct (f_mgr_dead s); [exact H|]. destruct (f_chan s) as [|[t d] rest].
    + unfold mgr_sweep. match goal with |- context [if ?b then _ else _] => destruct b end; [exact H|]. cbv zeta.
      assert (H1 : MgrKeys (retain_state s)) by (unfold MgrKeys, retain_state, set_mgr; cbn [f_mgr]; apply NoDup_keys_aretain, H).
      match goal with |- context [if ?b then _ else _] => destruct b end; [exact H1|].
      pose proof (MgrKeys_sweep elapsed (map fst (f_mgr (retain_state s))) (retain_state s) [] [] H1) as H2.
      destruct (sweep (retain_state s) (map fst (f_mgr (retain_state s))) elapsed [] []) as [[[s2 a] b] [site|]]; exact H2.
    + unfold mgr_receive. match goal with |- context [if ?b then _ else _] => destruct b end; [exact H|].
      match goal with |- context [if ?b then _ else _] => destruct b end; [exact H|].
      cbn [f_mgr set_chan]. destruct (aget (f_mgr s) t) as [r|] eqn:E.
      * destruct (is_idle (r_status r)); [destruct (rdata_is_none d); [apply MgrKeys_wake|]; exact H|].
        cbn [fst]. unfold add_pending_appointments. cbn [f_mgr set_chan]. rewrite E. apply MgrKeys_put. exact H.
      * cbn [fst]. unfold add_pending_appointments. cbn [f_mgr set_chan]. rewrite E. apply MgrKeys_put. exact H.
  - pose proof (MgrKeys_retrier_run t atts s H) as H1. destruct (f_retrier_run s t atts). exact H1.
  - apply (MgrKeys_same s); [apply f_manual_retry_mgr|exact H].
  - apply (MgrKeys_same s); [apply f_abandon_mgr|exact H].
  - constructor.
Qed.

Lemma MgrKeys_frun ops : forall s, MgrKeys s -> MgrKeys (frun s ops).
Proof. induction ops as [|o ops IH]; intros s H; cbn; [exact H|apply IH, MgrKeys_fstep, H]. Qed.

Lemma sweep_app elapsed : forall a b s st wk,
  sweep s (a ++ b) elapsed st wk =
  match sweep s a elapsed st wk with
  | (s1, st1, wk1, Some site) => (s1, st1, wk1, Some site)
  | (s1, st1, wk1, None) => sweep s1 b elapsed st1 wk1
  end.
Proof.
  induction a as [|k a IH]; intros b s st wk; cbn [app sweep]; [reflexivity|].
  destruct (aget (f_mgr s) k) as [r|]; [|apply IH]. destruct (should_start r).
  - destruct (retrier_start s k r) as [s1 [site|]]; [reflexivity|apply IH].
  - destruct (is_idle (r_status r) && memN k elapsed); apply IH.
Qed.

(* the sweep leaves the retrier of t alone while it works on other towers (as long as it does not panic) *)
Lemma sweep_frame t elapsed : forall keys s st wk,
  ~ In t keys ->
  snd (sweep s keys elapsed st wk) = None -> tsame t s (fst (fst (fst (sweep s keys elapsed st wk)))).
Proof.
  induction keys as [|k keys IH]; intros s st wk Hn Ho; cbn [sweep] in *; [apply tsame_refl|].
  assert (Hk : k <> t) by (intros ->; apply Hn; left; reflexivity).
  assert (Hn' : ~ In t keys) by (intros H; apply Hn; right; exact H).
  destruct (aget (f_mgr s) k) as [r|]; [|apply IH; assumption]. destruct (should_start r).
  - destruct (retrier_start s k r) as [s1 [site|]] eqn:E; [discriminate Ho|].
    eapply tsame_trans; [eapply start_tsame; eassumption|apply IH; assumption].
  - destruct (is_idle (r_status r) && memN k elapsed); [|apply IH; assumption].
    eapply tsame_trans; [apply wake_tsame; exact Hk|apply IH; assumption].
Qed.

Lemma NoDup_split_at (t : N) keys : NoDup keys -> In t keys -> exists pre post, keys = pre ++ t :: post /\ ~ In t pre /\ ~ In t post.
Proof.
  intros Hnd Hin. apply in_split in Hin. destruct Hin as [pre [post ->]]. exists pre, post. split; [reflexivity|].
  apply NoDup_remove_2 in Hnd. split; intros H; apply Hnd; apply in_or_app; [left|right]; exact H.
Qed.

(* what one sweep does to the retrier of t, whatever else is in the manager's map *)
Lemma sweep_at_t t elapsed sR r :
  NoDup (map fst (f_mgr sR)) -> aget (f_mgr sR) t = Some r ->
  snd (sweep sR (map fst (f_mgr sR)) elapsed [] []) = None ->
  exists sA, tsame t sR sA /\
    tsame t (if should_start r then fst (retrier_start sA t r)
             else if is_idle (r_status r) && memN t elapsed then wake sA t r else sA)
          (fst (fst (fst (sweep sR (map fst (f_mgr sR)) elapsed [] [])))) /\
    (should_start r = true -> snd (retrier_start sA t r) = None).
Proof.
  intros Hnd Hr Hwhole. set (keys := map fst (f_mgr sR)) in *.
  assert (Hin : In t keys) by (unfold keys; apply in_map_iff; exists (t, r); split; [reflexivity|apply aget_In, Hr]).
  destruct (NoDup_split_at t keys Hnd Hin) as [pre [post [Ek [Hpre Hpost]]]].
  rewrite Ek in *. rewrite sweep_app in *.
  pose proof (sweep_frame t elapsed pre sR [] [] Hpre) as Hfr.
  destruct (sweep sR pre elapsed [] []) as [[[sA stA] wkA] oA] eqn:EA. cbn [fst snd] in Hfr.
  destruct oA as [site|]; [cbn [snd] in Hwhole; discriminate|]. specialize (Hfr eq_refl).
  exists sA. split; [exact Hfr|].
  assert (HrA : aget (f_mgr sA) t = Some r) by (destruct Hfr as [A _]; rewrite A; exact Hr).
  cbn [sweep] in *. rewrite HrA in *. destruct (should_start r) eqn:Ess.
  - destruct (retrier_start sA t r) as [s1 o1] eqn:E1. destruct o1 as [site|]; [cbn [snd] in Hwhole; discriminate|].
    cbn [fst snd]. split; [|reflexivity]. apply (sweep_frame t elapsed post s1 _ _ Hpost Hwhole).
  - split; [|discriminate]. destruct (is_idle (r_status r) && memN t elapsed); apply (sweep_frame t elapsed post _ _ _ Hpost Hwhole).
Qed.

(* C13 gives_up_truthfully / delivers_on_recovery, the manager: an idle retrier whose auto-retry delay has elapsed is
   woken by the next tick of a drained manager: stopped, its set = every pending row of the tower, out of
   WTClient::retriers; nothing else about the tower changes *)
Theorem manager_wakes s t r0 elapsed :
  FInv s -> MgrKeys s -> poisoned s = false -> f_mgr_dead s = false -> f_chan s = [] ->
  aget (f_mgr s) t = Some r0 -> r_status r0 = RIdle -> memN t elapsed = true ->
  let s1 := fst (f_manager_tick s elapsed) in
  aget (f_mgr s1) t = Some {| r_status := RStopped; r_pending := set_union (r_pending r0) (pending_locators (c_db (f_c s)) t) |} /\
  aget (c_retriers (f_c s1)) t = None /\ stat (f_c s1) t = stat (f_c s) t /\ c_db (f_c s1) = c_db (f_c s) /\
  f_chan s1 = [] /\ f_mgr_dead s1 = false /\ (In t (f_tasks s1) <-> In t (f_tasks s)) /\ poisoned s1 = false.
Proof.
  intros HF HK Hp Hd Ec Hr Hidle Hel. unfold f_manager_tick. rewrite Hd, Ec. unfold mgr_sweep. rewrite Hp. cbn [andb]. cbv zeta.
  change (poisoned (retain_state s)) with (poisoned s). rewrite Hp. cbn [andb].
  set (sR := retain_state s).
  assert (HrR : aget (f_mgr sR) t = Some r0).
  { unfold sR, retain_state, set_mgr. cbn [f_mgr]. rewrite aget_aretain. unfold retrier_kept. rewrite Hr. unfold keep_retrier. rewrite Hidle. cbn. rewrite orb_true_r. reflexivity. }
  assert (HndR : NoDup (map fst (f_mgr sR))) by (unfold sR, retain_state, set_mgr; cbn [f_mgr]; apply NoDup_keys_aretain, HK).
  assert (Hwhole : snd (sweep sR (map fst (f_mgr sR)) elapsed [] []) = None).
  { apply sweep_never_aborts. }
  destruct (sweep_at_t t elapsed sR r0 HndR HrR Hwhole) as [sA [HA [HB _]]].
  assert (Hss : should_start r0 = false) by (unfold should_start; rewrite Hidle; reflexivity).
  rewrite Hss, Hidle, Hel in HB. cbn [is_idle andb] in HB.
  destruct (sweep sR (map fst (f_mgr sR)) elapsed [] []) as [[[sF st] wk] o] eqn:ES. cbn [snd] in Hwhole. subst o. cbn [fst] in *.
  destruct HA as [A1 [A2 [A3 [A4 [A5 [A6 [A7 A8]]]]]]]. destruct HB as [B1 [B2 [B3 [B4 [B5 [B6 [B7 B8]]]]]]].
  assert (R2 : aget (c_retriers (f_c sR)) t = aget (c_retriers (f_c s)) t \/ True) by (right; exact I).
  split.
  { rewrite B1. unfold wake, put_retrier, set_mgr. cbn [f_mgr set_c]. rewrite aget_aset_same. rewrite A4. reflexivity. }
  split.
  { rewrite B2. unfold wake. cbn [f_c put_retrier set_mgr set_c c_retriers with_retriers]. rewrite aget_aremove, N.eqb_refl. reflexivity. }
  split; [rewrite B3; unfold wake; cbn [f_c put_retrier set_mgr set_c]; unfold stat; cbn [c_towers with_retriers]; exact A3|].
  split; [rewrite B4; unfold wake; cbn [f_c put_retrier set_mgr set_c c_db with_retriers]; exact A4|].
  split; [rewrite B5; unfold wake; cbn [f_chan put_retrier set_mgr set_c]; rewrite A5; exact Ec|].
  split; [rewrite B7; unfold wake; cbn [f_mgr_dead put_retrier set_mgr set_c]; rewrite A7; exact Hd|].
  split; [rewrite B6; unfold wake; cbn [f_tasks put_retrier set_mgr set_c]; exact A6|].
  rewrite B8. unfold wake, poisoned. cbn [f_c put_retrier set_mgr set_c c_poisoned with_retriers]. unfold poisoned in A8. rewrite A8. exact Hp.
Qed.

(* ... and a stopped retrier holding data is started by the next tick: Running (also in WTClient::retriers), one
   live task, the tower shown temporary unreachable (or still subscription error: the renewal comes first) *)
Theorem manager_starts s t r0 elapsed :
  FInv s -> MgrKeys s -> poisoned s = false -> f_mgr_dead s = false -> f_chan s = [] ->
  aget (f_mgr s) t = Some r0 -> should_start r0 = true -> knownc (f_c s) t -> stat (f_c s) t <> Some Misbehaving ->
  let s1 := fst (f_manager_tick s elapsed) in
  aget (f_mgr s1) t = Some {| r_status := RRunning; r_pending := r_pending r0 |} /\
  aget (c_retriers (f_c s1)) t = Some RRunning /\ In t (f_tasks s1) /\
  stat (f_c s1) t = (if match stat (f_c s) t with Some SubscriptionError => true | _ => false end then stat (f_c s) t else Some TemporaryUnreachable) /\
  c_db (f_c s1) = c_db (f_c s) /\ f_chan s1 = [] /\ f_mgr_dead s1 = false /\ poisoned s1 = false.
Proof.
  intros HF HK Hp Hd Ec Hr Hss Hk Hnm. unfold f_manager_tick. rewrite Hd, Ec. unfold mgr_sweep. rewrite Hp. cbn [andb]. cbv zeta.
  change (poisoned (retain_state s)) with (poisoned s). rewrite Hp. cbn [andb].
  set (sR := retain_state s).
  assert (HrR : aget (f_mgr sR) t = Some r0).
  { unfold sR, retain_state, set_mgr. cbn [f_mgr]. rewrite aget_aretain. unfold retrier_kept. rewrite Hr. unfold keep_retrier. rewrite Hss. reflexivity. }
  assert (HndR : NoDup (map fst (f_mgr sR))) by (unfold sR, retain_state, set_mgr; cbn [f_mgr]; apply NoDup_keys_aretain, HK).
  assert (Hwhole : snd (sweep sR (map fst (f_mgr sR)) elapsed [] []) = None).
  { apply sweep_never_aborts. }
  destruct (sweep_at_t t elapsed sR r0 HndR HrR Hwhole) as [sA [HA [HB HC]]]. rewrite Hss in HB. specialize (HC Hss).
  destruct (sweep sR (map fst (f_mgr sR)) elapsed [] []) as [[[sF st] wk] o] eqn:ES. cbn [snd] in Hwhole. subst o. cbn [fst] in *.
  destruct HA as [A1 [A2 [A3 [A4 [A5 [A6 [A7 A8]]]]]]].
  destruct (retrier_start sA t r0) as [sB oB] eqn:EB. cbn [fst snd] in HB, HC. subst oB.
  destruct HB as [B1 [B2 [B3 [B4 [B5 [B6 [B7 B8]]]]]]].
  change (stat (f_c sR) t) with (stat (f_c s) t) in A3.
  unfold retrier_start in EB. destruct (aget (c_towers (f_c sA)) t) as [su|] eqn:Et.
  2:{ exfalso. unfold knownc, amem in Hk. unfold stat in A3. rewrite Et in A3. destruct (aget (c_towers (f_c s)) t); discriminate. }
  assert (Hst : stat (f_c s) t = Some (su_status su)).
  { rewrite <- A3. unfold stat. rewrite Et. reflexivity. }
  destruct (is_misbehaving (su_status su)) eqn:Emis.
  { exfalso. apply Hnm. rewrite Hst. destruct (su_status su); try discriminate. reflexivity. }
  inversion EB. subst sB. clear EB.
  cbn [f_mgr f_c f_chan f_tasks f_mgr_dead set_tasks put_retrier set_mgr set_c c_retriers c_db with_retriers] in *.
  split; [rewrite B1; apply aget_aset_same|].
  split; [rewrite B2; apply aget_aset_same|].
  split; [apply B6; apply in_or_app; right; left; reflexivity|].
  split.
  { rewrite B3, Hst. unfold stat. cbn [c_towers with_retriers]. destruct (su_status su) eqn:Es; cbn [is_subscription_error];
      try (change (option_map su_status (aget (c_towers (wt_set_tower_status (f_c sA) t TemporaryUnreachable)) t)) with (stat (wt_set_tower_status (f_c sA) t TemporaryUnreachable) t);
           rewrite stat_set_status, N.eqb_refl; unfold stat; rewrite Et; cbn; rewrite Es; reflexivity).
    - rewrite Et. cbn. rewrite Es. reflexivity.
    - discriminate Emis. }
  split.
  { rewrite B4. destruct (is_subscription_error (su_status su)); [exact A4|rewrite DbInv_set_status; exact A4]. }
  split; [rewrite B5, A5; exact Ec|]. split; [rewrite B7, A7; exact Hd|].
  rewrite B8. unfold poisoned in *. cbn [f_c set_tasks put_retrier set_mgr set_c c_poisoned with_retriers].
  destruct (is_subscription_error (su_status su)); [rewrite A8; exact Hp|rewrite poisoned_set_status, A8; exact Hp].
Qed.

Lemma knownc_of_stat c c' t : stat c' t = stat c t -> (knownc c' t <-> knownc c t).
Proof. unfold knownc, amem, stat. destruct (aget (c_towers c') t), (aget (c_towers c) t); cbn; intros H; try discriminate; tauto. Qed.

Lemma aget_of_In {V} (m : amap V) k v : In (k, v) m -> aget m k <> None.
Proof.
  induction m as [|[a b] m IH]; cbn; [contradiction|]. intros Hin. destruct (N.eqb k a) eqn:E; [discriminate|].
  destruct Hin as [Hin|Hin]; [inversion Hin; subst; rewrite N.eqb_refl in E; discriminate|apply IH, Hin].
Qed.

Lemma frun_app : forall a b s, frun s (a ++ b) = frun (frun s a) b.
Proof. induction a as [|o a IH]; intros b s; cbn; [reflexivity|apply IH]. Qed.

(* C13 delivers_on_recovery (the bound: THREE steps from an idle retrier with a drained manager — wake-up tick once
   the auto-retry delay has elapsed, start tick, one attempt; ONE step from a running retrier: delivers_attempt; one
   extra tick per message still queued).  The tower accepts from now on: every pending row of the tower is delivered,
   the tower is shown reachable, its retrier stopped and empty (the next tick drops it), no retry task left. *)
Theorem delivers_on_recovery ops t r0 a sl rest :
  let s := frun f_init ops in
  poisoned s = false -> f_mgr_dead s = false -> f_chan s = [] ->
  aget (f_mgr s) t = Some r0 -> r_status r0 = RIdle -> knownc (f_c s) t ->
  stat (f_c s) t <> Some SubscriptionError -> stat (f_c s) t <> Some Misbehaving ->
  set_union (r_pending r0) (pending_locators (c_db (f_c s)) t) <> [] ->
  at_adds a = accept_all sl ++ rest ->
  (length (set_union (r_pending r0) (pending_locators (c_db (f_c s)) t)) + length (pending_locators (c_db (f_c s)) t) <= length sl)%nat ->
  let s3 := frun s [FManagerTick [t]; FManagerTick []; FRetrierRun t [a]] in
  pending_locators (c_db (f_c s3)) t = [] /\ stat (f_c s3) t = Some Reachable /\ rstat s3 t = Some RStopped /\
  retrier_pending s3 t = [] /\ ~ In t (f_tasks s3) /\ aget (c_retriers (f_c s3)) t = None.
Proof.
  intros s Hp Hd Ec Hr Hidle Hk Hnsub Hnm Hne Hadds Hlen.
  pose proof (FInv_frun ops f_init FInv_init) as HF. fold s in HF.
  assert (HK : MgrKeys s) by (apply MgrKeys_frun; constructor).
  cbn [frun].
  (* tick 1: wake *)
  destruct (manager_wakes s t r0 [t] HF HK Hp Hd Ec Hr Hidle) as [W1 [W2 [W3 [W4 [W5 [W6 [W7 W8]]]]]]]; [cbn; rewrite N.eqb_refl; reflexivity|].
  assert (HF1 : FInv (fst (fstep s (FManagerTick [t])))) by (apply FInv_fstep; exact HF).
  assert (HK1 : MgrKeys (fst (fstep s (FManagerTick [t])))) by (apply MgrKeys_fstep, HK).
  cbn [fstep] in *. set (s1 := fst (f_manager_tick s [t])) in *.
  set (P := set_union (r_pending r0) (pending_locators (c_db (f_c s)) t)) in *.
  assert (Hss : should_start {| r_status := RStopped; r_pending := P |} = true) by (unfold should_start; cbn; destruct P; [contradiction|reflexivity]).
  assert (Hk1 : knownc (f_c s1) t) by (apply (knownc_of_stat (f_c s) (f_c s1) t W3), Hk).
  assert (Hnm1 : stat (f_c s1) t <> Some Misbehaving) by (rewrite W3; exact Hnm).
  (* tick 2: start *)
  destruct (manager_starts s1 t _ [] HF1 HK1 W8 W6 W5 W1 Hss Hk1 Hnm1) as [S1 [S2 [S3 [S4 [S5 [S6 [S7 S8]]]]]]].
  cbn [r_pending] in S1.
  set (s2 := fst (f_manager_tick s1 [])) in *.
  (* the attempt *)
  assert (E2 : frun f_init (ops ++ [FManagerTick [t]; FManagerTick []]) = s2).
  { rewrite frun_app. reflexivity. }
  assert (Hk2 : knownc (f_c s2) t).
  { unfold knownc, amem. unfold stat in S4. destruct (aget (c_towers (f_c s2)) t); [reflexivity|].
    destruct (match option_map su_status (aget (c_towers (f_c s1)) t) with Some SubscriptionError => true | _ => false end); [|discriminate S4].
    cbn in S4. fold (stat (f_c s1) t) in S4. rewrite W3 in S4. unfold knownc, amem in Hk. unfold stat in S4. destruct (aget (c_towers (f_c s)) t); [discriminate S4|discriminate Hk]. }
  assert (Hpend2 : retrier_pending s2 t = P) by (unfold retrier_pending; rewrite S1; reflexivity).
  assert (Hst2 : stat (f_c s2) t <> Some SubscriptionError).
  { rewrite S4, W3. destruct (stat (f_c s) t) as [[]|]; try discriminate; try (intros H; apply Hnsub; exact H). }
  assert (Hnm2 : stat (f_c s2) t <> Some Misbehaving).
  { rewrite S4, W3. destruct (stat (f_c s) t) as [[]|]; try discriminate; try (intros H; apply Hnm; exact H). }
  pose proof (delivers_attempt (ops ++ [FManagerTick [t]; FManagerTick []]) t a sl rest) as D. cbv zeta in D. rewrite E2 in D.
  destruct D as [D1 [D2 [D3 [D4 [D5 [D6 [D7 [D7b D8]]]]]]]]; [exact S8|exact S3|exact Hk2|exact Hnm2|exact Hadds|rewrite Hpend2, S5, W4; exact Hlen|intros H; contradiction|].
  cbn [fstep] in *. destruct (f_retrier_run s2 t [a]) as [s3 o]. cbn [fst snd] in *.
  split; [|repeat (split; [assumption|]); assumption].
  (* no pending row of t is left *)
  destruct (pending_locators (c_db (f_c s3)) t) as [|x q] eqn:Eq; [reflexivity|]. exfalso.
  assert (Hx : In x (pending_locators (c_db (f_c s3)) t)) by (rewrite Eq; left; reflexivity).
  apply In_pending_locators in Hx. destruct Hx as [row [A [B C]]].
  apply (D7 x). exists row. auto.
Qed.

(* ====================================================================== *)
(* C05: at every durable state a SIGKILL can leave behind, at least one    *)
(* ====================================================================== *)
Definition AtLeast (d : db) (due : list (N * N)) : Prop :=
  forall t l, In (t, l) due -> Trow d t -> ~ Mrow d t -> recorded d t l.
Definition DbsOk (due : list (N * N)) (s : fstate) : Prop := forall d, In d (f_dbs s) -> AtLeast d due.

Lemma AtLeast_DurInv d due : DurInv d due -> AtLeast d due.
Proof. intros [_ [_ E]] t l Hin _ Hm. destruct (E t l Hin) as [_ H]. exact (H Hm). Qed.

Lemma DbsOk_wr due s c : DbsOk due s -> AtLeast (c_db c) due -> DbsOk due (wr_c s c).
Proof. intros H Hc d Hd. cbn [f_dbs wr_c] in Hd. apply in_app_or in Hd. destruct Hd as [Hd|[<-|[]]]; [apply H, Hd|exact Hc]. Qed.
Lemma DbsOk_same due s s' : f_dbs s' = f_dbs s -> DbsOk due s -> DbsOk due s'.
Proof. unfold DbsOk. intros ->. auto. Qed.

Lemma f_dbs_retrier_drop s t l : f_dbs (retrier_drop s t l) = f_dbs s.
Proof. unfold retrier_drop. destruct (aget (f_mgr s) t); reflexivity. Qed.
Lemma f_due_retrier_drop s t l : f_due (retrier_drop s t l) = f_due s.
Proof. unfold retrier_drop. destruct (aget (f_mgr s) t); reflexivity. Qed.

(* a primitive that only adds a receipt / invalid row keeps `at least one` *)
Lemma AtLeast_grow d d' due :
  (forall k x, Rrow d k x -> Rrow d' k x) -> (forall k x, Prow d k x -> Prow d' k x) -> (forall k x, Irow d k x -> Irow d' k x) ->
  (forall k, Mrow d k -> Mrow d' k) -> (forall k, Trow d' k -> Trow d k) ->
  AtLeast d due -> AtLeast d' due.
Proof.
  intros HR HP HI HM HT H t l Hin Ht Hm. assert (Hm0 : ~ Mrow d t) by (intros X; apply Hm, HM, X).
  destruct (H t l Hin (HT t Ht) Hm0) as [X|[X|X]]; [left; apply HR, X|right; left; apply HP, X|right; right; apply HI, X].
Qed.

(* one locator of the for loop: the durable states it writes *)
Lemma run_for_one_dbs t l s adds s1 adds1 res :
  RunPre s t -> In l (retrier_pending s t) -> run_for s t [l] adds = (s1, adds1, res) ->
  DbsOk (f_due s) s -> DbsOk (f_due s) s1 /\ f_due s1 = f_due s.
Proof.
  intros Hpre Hl E Hok. pose proof Hpre as [HF [Hp [Hk Hrun]]]. pose proof HF as [HI [HD [HV HT]]].
  assert (Hnd1 : NoDup [l]) by (constructor; [intros []|constructor]).
  destruct (FInv_run_for t [l] s adds s1 adds1 res Hpre Hnd1) as [A _]; [intros x [<-|[]]; exact Hl|exact E|].
  cbn [run_for] in E. unfold poisoned in Hp. unfold poisoned in E. rewrite Hp in E.
  destruct (load_pending (f_c s) t l) as [body|].
  2:{ inversion E; subst. split; [apply (DbsOk_same _ s); [apply f_dbs_retrier_drop|exact Hok]|apply f_due_retrier_drop]. }
  set (s0 := log_req s (ReqAdd t l)) in *.
  destruct (next_reply adds) as [rp a1]. destruct rp; try (inversion E; subst; split; [exact Hok|reflexivity]).
  - rewrite f_c_retrier_drop in E.
    destruct (wt_add_appointment_receipt (f_c s0) t l slots START_BLOCK USER_SIG SIG_TOWER) as [c2 r2] eqn:E2.
    destruct (add_receipt_spec_for_move _ _ _ _ _ _ HI Hp Hk E2) as [S1 [S2 [S3 [S4 [S5 [S6 S7]]]]]].
    assert (Hmid : AtLeast (c_db c2) (f_due s)).
    { destruct S5 as [->|[st ->]]; [|rewrite (S6 eq_refl); apply AtLeast_DurInv, HD].
      destruct (S7 eq_refl) as [ER [EI [EPt [EM ET]]]].
      apply (AtLeast_grow (c_db (f_c s))); try (apply AtLeast_DurInv, HD).
      - intros k x H. apply ER. left. exact H.
      - intros k x H. apply (Prow_ext _ _ k x EPt). exact H.
      - intros k x H. apply EI. left. exact H.
      - intros k H. apply EM, H.
      - intros k H. apply ET, H. }
    destruct (lift_site r2).
    + inversion E. subst. split; [|cbn [f_due wr_c]; rewrite f_due_retrier_drop; reflexivity].
      apply DbsOk_wr; [apply (DbsOk_same _ s); [rewrite f_dbs_retrier_drop; reflexivity|exact Hok]|exact Hmid].
    + destruct (wt_remove_pending_appointment c2 t l) as [c3 r3]. destruct (lift_site r3); inversion E; subst;
        (split; [|cbn [f_due wr_c]; rewrite f_due_retrier_drop; reflexivity]);
        (apply DbsOk_wr; [apply DbsOk_wr; [apply (DbsOk_same _ s); [rewrite f_dbs_retrier_drop; reflexivity|exact Hok]|exact Hmid]|]);
        (pose proof A as [_ [HD3 _]]; cbn [f_c f_due wr_c] in HD3; rewrite f_due_retrier_drop in HD3; apply AtLeast_DurInv; exact HD3).
  - rewrite f_c_retrier_drop in E.
    destruct (wt_add_invalid_appointment (f_c s0) t l (col body C_appointments_encrypted_blob) (col body C_appointments_to_self_delay)) as [c2 r2] eqn:E2.
    destruct (add_invalid_spec_for_move _ _ _ _ _ _ _ HI Hp Hk E2) as [S1 [S2 [S3 [S4 [S5 [S6 S7]]]]]].
    assert (Hmid : AtLeast (c_db c2) (f_due s)).
    { destruct S5 as [->|[st ->]]; [|rewrite (S6 eq_refl); apply AtLeast_DurInv, HD].
      destruct (S7 eq_refl) as [ER [EI [EPt [EM ET]]]].
      apply (AtLeast_grow (c_db (f_c s))); try (apply AtLeast_DurInv, HD).
      - intros k x H. apply ER. left. exact H.
      - intros k x H. apply (Prow_ext _ _ k x EPt). exact H.
      - intros k x H. apply EI. left. exact H.
      - intros k H. apply EM, H.
      - intros k H. apply ET, H. }
    destruct (lift_site r2).
    + inversion E. subst. split; [|cbn [f_due wr_c]; rewrite f_due_retrier_drop; reflexivity].
      apply DbsOk_wr; [apply (DbsOk_same _ s); [rewrite f_dbs_retrier_drop; reflexivity|exact Hok]|exact Hmid].
    + destruct (wt_remove_pending_appointment c2 t l) as [c3 r3]. destruct (lift_site r3); inversion E; subst;
        (split; [|cbn [f_due wr_c]; rewrite f_due_retrier_drop; reflexivity]);
        (apply DbsOk_wr; [apply DbsOk_wr; [apply (DbsOk_same _ s); [rewrite f_dbs_retrier_drop; reflexivity|exact Hok]|exact Hmid]|]);
        (pose proof A as [_ [HD3 _]]; cbn [f_c f_due wr_c] in HD3; rewrite f_due_retrier_drop in HD3; apply AtLeast_DurInv; exact HD3).
Qed.

Lemma run_for_dbs t : forall locs s adds,
  RunPre s t -> NoDup locs -> (forall l, In l locs -> In l (retrier_pending s t)) ->
  DbsOk (f_due s) s -> DbsOk (f_due s) (fst (fst (run_for s t locs adds))) /\ f_due (fst (fst (run_for s t locs adds))) = f_due s.
Proof.
  induction locs as [|l locs IH]; intros s adds Hpre Hnd Hsub Hok; [split; [exact Hok|reflexivity]|].
  rewrite run_for_cons. inversion Hnd as [|? ? Hnl Hnd']. subst.
  destruct (run_for s t [l] adds) as [[s1 adds1] r1] eqn:E1.
  destruct (run_for_one_dbs t l s adds s1 adds1 r1 Hpre (Hsub l (or_introl eq_refl)) E1 Hok) as [Hok1 Hd1].
  destruct r1 as [r|]; [cbn [fst]; split; assumption|].
  assert (Hnd1 : NoDup [l]) by (constructor; [intros []|constructor]).
  destruct (FInv_run_for t [l] s adds s1 adds1 None Hpre Hnd1) as [A [B _]]; [intros x [<-|[]]; apply Hsub; left; reflexivity|exact E1|].
  destruct (B I) as [Hp1 Hk1]. destruct Hpre as [HF [Hp [Hk Hrun]]].
  assert (Hpre1 : RunPre s1 t).
  { split; [exact A|]. split; [exact Hp1|]. split; [apply Hk1, Hk|].
    pose proof (run_for_same t [l] s adds) as [_ Hs]. rewrite E1 in Hs. cbn [fst] in Hs. rewrite Hs. exact Hrun. }
  assert (Hsub1 : forall x, In x locs -> In x (retrier_pending s1 t)).
  { intros x Hx. clear - E1 Hx Hsub Hnl Hp. cbn [run_for] in E1. unfold poisoned in Hp. unfold poisoned in E1. rewrite Hp in E1.
    assert (Hdrop : forall sx, retrier_pending sx t = set_remove l (retrier_pending s t) -> In x (retrier_pending sx t)).
    { intros sx HX. rewrite HX. apply In_set_remove. split; [apply (Hsub x); right; exact Hx|]. intros ->. contradiction. }
    destruct (load_pending (f_c s) t l); [|inversion E1; subst; apply Hdrop; rewrite retrier_pending_drop, N.eqb_refl; reflexivity].
    destruct (next_reply adds) as [rp a1]. destruct rp; try discriminate.
    + destruct (wt_add_appointment_receipt _ _ _ _ _ _ _) as [c2 r2]. destruct (lift_site r2); [discriminate|].
      destruct (wt_remove_pending_appointment c2 t l) as [c3 r3]. destruct (lift_site r3); [discriminate|]. inversion E1. subst.
      apply Hdrop.
      change (retrier_pending (wr_c (wr_c (retrier_drop (log_req s (ReqAdd t l)) t l) c2) c3) t) with (retrier_pending (retrier_drop (log_req s (ReqAdd t l)) t l) t).
      rewrite retrier_pending_drop, N.eqb_refl. reflexivity.
    + destruct (wt_add_invalid_appointment _ _ _ _ _) as [c2 r2]. destruct (lift_site r2); [discriminate|].
      destruct (wt_remove_pending_appointment c2 t l) as [c3 r3]. destruct (lift_site r3); [discriminate|]. inversion E1. subst.
      apply Hdrop.
      change (retrier_pending (wr_c (wr_c (retrier_drop (log_req s (ReqAdd t l)) t l) c2) c3) t) with (retrier_pending (retrier_drop (log_req s (ReqAdd t l)) t l) t).
      rewrite retrier_pending_drop, N.eqb_refl. reflexivity. }
  rewrite <- Hd1 in Hok1. destruct (IH s1 adds1 Hpre1 Hnd' Hsub1 Hok1) as [X Y]. rewrite Hd1 in X. split; [exact X|congruence].
Qed.

Lemma run_while_dbs t hint : forall fuel picked s adds,
  RunPre s t -> DbsOk (f_due s) s ->
  DbsOk (f_due s) (fst (run_while fuel picked s t hint adds)) /\ f_due (fst (run_while fuel picked s t hint adds)) = f_due s.
Proof.
  induction fuel as [|f IH]; intros picked s adds Hpre Hok; cbn [run_while]; [split; [exact Hok|reflexivity]|].
  destruct (retrier_pending s t) as [|x p] eqn:Ep.
  { destruct picked; [split; [exact Hok|reflexivity]|]. destruct (poisoned s); [split; [exact Hok|reflexivity]|].
    assert (Hok1 : DbsOk (f_due (pick_up s t)) (pick_up s t)) by (rewrite f_due_pick_up; apply (DbsOk_same _ s); [apply f_dbs_pick_up|exact Hok]).
    destruct (retrier_pending (pick_up s t) t); cbn [fst].
    - split; [apply (DbsOk_same _ s); [apply f_dbs_pick_up|exact Hok]|apply f_due_pick_up].
    - destruct (IH true (pick_up s t) adds (RunPre_pick_up s t Hpre) Hok1) as [X Y]. rewrite f_due_pick_up in X, Y. split; assumption. }
  pose proof Hpre as [HF [Hp [Hk Hrun]]].
  assert (Hnd : NoDup (x :: p)).
  { destruct HF as [_ [_ [HV _]]]. destruct (HV Hp) as [_ [_ [V4 _]]]. unfold retrier_pending in Ep.
    destruct (aget (f_mgr s) t) as [r|] eqn:Er; [|discriminate]. rewrite <- Ep. eapply V4, Er. }
  pose proof (NoDup_reorder hint _ Hnd) as Hndr.
  assert (Hsub : forall l, In l (reorder hint (x :: p)) -> In l (retrier_pending s t)) by (intros l Hl; rewrite Ep; apply In_reorder in Hl; exact Hl).
  destruct (run_for_dbs t _ s adds Hpre Hndr Hsub Hok) as [D1 D2].
  destruct (run_for s t (reorder hint (x :: p)) adds) as [[s1 adds1] r1] eqn:E1. cbn [fst] in D1, D2.
  destruct r1 as [r|]; cbn [fst]; [split; assumption|].
  destruct (FInv_run_for t _ s adds s1 adds1 None Hpre Hndr Hsub E1) as [A [B _]]. destruct (B I) as [Hp1 Hk1].
  assert (Hpre1 : RunPre s1 t).
  { split; [exact A|]. split; [exact Hp1|]. split; [apply Hk1, Hk|].
    pose proof (run_for_same t (reorder hint (x :: p)) s adds) as [_ Hs]. rewrite E1 in Hs. cbn [fst] in Hs. rewrite Hs. exact Hrun. }
  rewrite <- D2 in D1. destruct (IH picked s1 adds1 Hpre1 D1) as [X Y]. rewrite D2 in X. split; [exact X|congruence].
Qed.

Lemma run_attempt_dbs s t a :
  FInv s -> rstat s t = Some RRunning -> DbsOk (f_due s) s ->
  DbsOk (f_due s) (fst (run_attempt s t a)) /\ f_due (fst (run_attempt s t a)) = f_due s.
Proof.
  intros HF Hrun Hok. unfold run_attempt. destruct (poisoned s) eqn:Hp; [split; [exact Hok|reflexivity]|].
  destruct (aget (c_towers (f_c s)) t) as [su|] eqn:Et; [|split; [exact Hok|reflexivity]].
  assert (Hk : knownc (f_c s) t) by (unfold knownc, amem; rewrite Et; reflexivity).
  destruct (is_misbehaving (su_status su)); [split; [exact Hok|reflexivity]|].
  destruct (is_subscription_error (su_status su)); [|apply run_while_dbs; [exact (conj HF (conj Hp (conj Hk Hrun)))|exact Hok]].
  set (s1 := log_req s (ReqRegister t)).
  assert (HF1 : FInv s1) by (apply (FInv_core s); auto).
  destruct (at_reg a) as [slots start expiry sig_ok| | | |]; cbn [fst]; try (split; [exact Hok|reflexivity]).
  destruct (negb sig_ok); cbn [fst]; [split; [exact Hok|reflexivity]|].
  destruct (wt_add_update_tower (f_c s1) t (su_addr su) slots start expiry REG_SIG) as [c' r] eqn:Eu.
  destruct (FInv_renew s1 t _ _ _ _ _ c' r HF1 Hp Hk Eu) as [HF2 Hok2].
  destruct r; cbn [fst]; try (split; [exact Hok|reflexivity]).
  destruct (Hok2 eq_refl) as [Hp2 Hkn2].
  assert (Hok' : DbsOk (f_due (wr_c s1 c')) (wr_c s1 c')).
  { apply DbsOk_wr; [exact Hok|]. apply AtLeast_DurInv. apply HF2. }
  destruct (run_while_dbs t (at_order a) (run_fuel (wr_c s1 c') t) false (wr_c s1 c') (at_adds a)) as [X Y]; [|exact Hok'|split; [exact X|exact Y]].
  split; [exact HF2|]. split; [exact Hp2|]. split; [apply Hkn2, Hk|exact Hrun].
Qed.

Lemma f_dbs_retrier_set_status s t st : f_dbs (retrier_set_status s t st) = f_dbs s.
Proof. unfold retrier_set_status. destruct (aget (f_mgr s) t); reflexivity. Qed.
Lemma f_dbs_retrier_clear s t : f_dbs (retrier_clear s t) = f_dbs s.
Proof. unfold retrier_clear. destruct (aget (f_mgr s) t); reflexivity. Qed.
Lemma f_due_retrier_set_status s t st : f_due (retrier_set_status s t st) = f_due s.
Proof. unfold retrier_set_status. destruct (aget (f_mgr s) t); reflexivity. Qed.
Lemma f_due_retrier_clear s t : f_due (retrier_clear s t) = f_due s.
Proof. unfold retrier_clear. destruct (aget (f_mgr s) t); reflexivity. Qed.

Lemma task_step_dbs s t r more :
  FInv s -> rstat s t = Some RRunning -> (match r with RunAbort _ => False | _ => True end -> poisoned s = false) ->
  DbsOk (f_due s) s -> DbsOk (f_due s) (fst (task_step s t r more)) /\ f_due (fst (task_step s t r more)) = f_due s.
Proof.
  intros HF Hrun Hnp Hok. pose proof (FInv_task_step s t r more HF Hrun Hnp) as HF'.
  unfold task_step in *. destruct r as [|e|site|]; cbn [fst] in *.
  - split; [|cbn [f_due end_task set_tasks]; rewrite f_due_retrier_set_status; reflexivity].
    apply (DbsOk_same _ s); [cbn [f_dbs end_task set_tasks]; rewrite f_dbs_retrier_set_status; reflexivity|exact Hok].
  - destruct (negb (is_permanent e) && more); [split; [exact Hok|reflexivity]|].
    set (s1 := if is_permanent e then retrier_set_status s t RFailed else s) in *.
    assert (H1 : f_dbs s1 = f_dbs s /\ f_due s1 = f_due s) by (unfold s1; destruct (is_permanent e); [split; [apply f_dbs_retrier_set_status|apply f_due_retrier_set_status]|split; reflexivity]).
    destruct H1 as [H1 H2].
    destruct e as [[|]| |l| |]; cbn [fst] in *.
    + split; [apply (DbsOk_same _ s); [exact H1|exact Hok]|exact H2].
    + split; [|cbn [f_due end_task set_tasks]; rewrite f_due_retrier_clear, f_due_retrier_set_status; exact H2].
      apply (DbsOk_same _ s); [cbn [f_dbs end_task set_tasks]; rewrite f_dbs_retrier_clear, f_dbs_retrier_set_status; exact H1|exact Hok].
    + split; [|cbn [f_due end_task set_tasks]; rewrite f_due_retrier_clear, f_due_retrier_set_status; exact H2].
      apply (DbsOk_same _ s); [cbn [f_dbs end_task set_tasks]; rewrite f_dbs_retrier_clear, f_dbs_retrier_set_status; exact H1|exact Hok].
    + destruct (wt_flag_misbehaving_tower (f_c s1) t l START_BLOCK USER_SIG SIG_OTHER (other_id t)) as [c2 r2].
      destruct (lift_site r2); cbn [fst] in *.
      * split; [apply (DbsOk_same _ s); [exact H1|exact Hok]|exact H2].
      * split; [|exact H2]. intros d Hd. cbn [f_dbs end_task set_tasks wr_c] in Hd. apply in_app_or in Hd. destruct Hd as [Hd|[<-|[]]].
        -- apply Hok. rewrite <- H1. exact Hd.
        -- pose proof HF' as [_ [HD' _]]. cbn [f_c f_due end_task set_tasks wr_c] in HD'. rewrite H2 in HD'. apply AtLeast_DurInv, HD'.
    + split; [apply (DbsOk_same _ s); [exact H1|exact Hok]|exact H2].
    + split; [apply (DbsOk_same _ s); [exact H1|exact Hok]|exact H2].
  - split; [exact Hok|reflexivity].
  - split; [exact Hok|reflexivity].
Qed.

Lemma retrier_run_dbs t : forall atts s,
  FInv s -> DbsOk (f_due s) s -> DbsOk (f_due s) (fst (f_retrier_run s t atts)) /\ f_due (fst (f_retrier_run s t atts)) = f_due s.
Proof.
  induction atts as [|a atts IH]; intros s HF Hok; cbn [f_retrier_run]; [split; [exact Hok|reflexivity]|].
  destruct (memN t (f_tasks s)) eqn:Em; cbn [negb]; [|split; [exact Hok|reflexivity]].
  assert (Hrun : rstat s t = Some RRunning) by (apply HF, memN_In, Em).
  destruct (run_attempt_dbs s t a HF Hrun Hok) as [D1 D2].
  destruct (run_attempt s t a) as [s1 r] eqn:E1. cbn [fst] in D1, D2.
  destruct (FInv_run_attempt s t a s1 r HF Hrun E1) as [HF1 [Hnp _]].
  assert (Hrun1 : rstat s1 t = Some RRunning).
  { pose proof (run_attempt_same s t a) as [_ Hs]. rewrite E1 in Hs. cbn [fst] in Hs. rewrite Hs. exact Hrun. }
  rewrite <- D2 in D1. destruct (task_step_dbs s1 t r (at_more a) HF1 Hrun1 Hnp D1) as [T1 T2].
  pose proof (FInv_task_step s1 t r (at_more a) HF1 Hrun1 Hnp) as HF2.
  destruct (task_step s1 t r (at_more a)) as [s2 o]. cbn [fst] in T1, T2, HF2.
  assert (Hfin : DbsOk (f_due s) s2 /\ f_due s2 = f_due s) by (rewrite D2 in T1; split; [exact T1|congruence]).
  destruct o; try exact Hfin. destruct atts; [exact Hfin|].
  destruct Hfin as [X Y]. rewrite <- Y in X. destruct (IH s2 HF2 X) as [Z W]. rewrite Y in Z. split; [exact Z|congruence].
Qed.

(* the other writing operations *)
Lemma register_dbs s t rp : FInv s -> DbsOk (f_due s) s ->
  DbsOk (f_due s) (fst (f_register s t t rp)).
Proof.
  intros HF Hok. pose proof (FInv_register s t rp HF) as HF'. unfold f_register in *.
  destruct (poisoned s); [exact Hok|]. destruct rp as [slots start expiry sig_ok| | | |]; cbn [fst] in *; try exact Hok.
  - destruct (negb sig_ok); [exact Hok|]. destruct (wt_add_update_tower _ _ _ _ _ _ _) as [c' r]. destruct r; cbn [fst] in *; try exact Hok.
    apply DbsOk_wr; [exact Hok|]. apply AtLeast_DurInv. apply HF'.
  - destruct (amem _ _); [|exact Hok]. apply (DbsOk_same _ s); [|exact Hok]. unfold flag_unreachable.
    destruct (aget _ _) as [su|]; [destruct (_ && _)|]; reflexivity.
Qed.

Lemma rev_pend_dbs s l t send s' o : FInv s' -> f_due s' = f_due s -> rev_pend s l t send = (s', o) -> DbsOk (f_due s) s -> DbsOk (f_due s) s'.
Proof.
  intros HF' Hd E Hok. unfold rev_pend in E. destruct (wt_add_pending_appointment (f_c s) t l BLOB DELAY) as [c2 r].
  assert (Hat : AtLeast (c_db (f_c s')) (f_due s)) by (rewrite <- Hd; apply AtLeast_DurInv, HF').
  assert (Hgo : forall x, f_dbs x = f_dbs s ++ [c_db c2] -> c_db (f_c x) = c_db c2 -> x = s' -> DbsOk (f_due s) s').
  { intros x Hx Hc <-. intros d Hd'. rewrite Hx in Hd'. apply in_app_or in Hd'. destruct Hd' as [Hd'|[<-|[]]]; [apply Hok, Hd'|]. rewrite <- Hc. exact Hat. }
  destruct r; inversion E; subst; clear E;
    try (eapply Hgo; [| |reflexivity]; destruct send; try (unfold send_to_retrier; dmatch); reflexivity).
Qed.

Lemma rev_tower_dbs s l t st rp s' o : FInv s' -> f_due s' = f_due s -> rev_tower s l t st rp = (s', o) -> DbsOk (f_due s) s -> DbsOk (f_due s) s'.
Proof.
  intros HF' Hd E Hok. unfold rev_tower in E.
  assert (Hat : AtLeast (c_db (f_c s')) (f_due s)) by (rewrite <- Hd; apply AtLeast_DurInv, HF').
  destruct (poisoned s); [inversion E; subst; exact Hok|]. destruct (wt_has_appointment (f_c s) t l); [inversion E; subst; exact Hok|].
  assert (Hwr : forall c2 o', (wr_c (log_req s (ReqAdd t l)) c2, o') = (s', o) -> DbsOk (f_due s) s').
  { intros c2 o' H. inversion H. subst. apply DbsOk_wr; [exact Hok|exact Hat]. }
  destruct (is_reachable st).
  - destruct rp.
    + destruct (wt_add_appointment_receipt _ _ _ _ _ _ _) as [c2 r]. eapply Hwr, E.
    + destruct (wt_flag_misbehaving_tower _ _ _ _ _ _ _) as [c2 r]. eapply Hwr, E.
    + eapply (rev_pend_dbs (set_c (log_req s (ReqAdd t l)) _)); [exact HF'|exact Hd|exact E|exact Hok].
    + eapply (rev_pend_dbs (set_c (log_req s (ReqAdd t l)) _)); [exact HF'|exact Hd|exact E|exact Hok].
    + eapply (rev_pend_dbs (set_c (log_req s (ReqAdd t l)) _)); [exact HF'|exact Hd|exact E|exact Hok].
    + eapply (rev_pend_dbs (set_c (log_req s (ReqAdd t l)) _)); [exact HF'|exact Hd|exact E|exact Hok].
    + eapply (rev_pend_dbs (set_c (log_req s (ReqAdd t l)) _)); [exact HF'|exact Hd|exact E|exact Hok].
    + destruct (wt_add_invalid_appointment _ _ _ _ _) as [c2 r]. eapply Hwr, E.
  - destruct (is_misbehaving st); [inversion E; subst; exact Hok|]. eapply rev_pend_dbs; eassumption.
Qed.

Lemma rev_loop_dbs l replies : forall snap s,
  FInv s -> (forall t st, In (t, st) snap -> knownc (f_c s) t /\ (st = Misbehaving -> Mrow (c_db (f_c s)) t)) ->
  DbsOk (f_due s) s -> DbsOk (f_due s) (fst (rev_loop s l snap replies)).
Proof.
  induction snap as [|[t st] snap IH]; intros s HF Hsn Hok; cbn [rev_loop]; [exact Hok|].
  destruct (Hsn t st (or_introl eq_refl)) as [Hk Hm].
  destruct (rev_tower s l t st (reply_for replies t)) as [s1 o1] eqn:E1.
  destruct (FInv_rev_tower s l t st _ s1 o1 HF Hk Hm E1) as [HF1 [Hd1 [Hg1 [Hkn1 _]]]].
  pose proof (rev_tower_dbs s l t st _ s1 o1 HF1 Hd1 E1 Hok) as Hok1.
  destruct o1 as [site|]; cbn [fst]; [exact Hok1|].
  rewrite <- Hd1 in Hok1. rewrite <- Hd1. apply IH; [exact HF1| |exact Hok1].
  intros t0 st0 Hin. destruct (Hsn t0 st0 (or_intror Hin)) as [A B]. split; [apply Hkn1, A|]. intros H. apply Hg1, B, H.
Qed.

Lemma f_dbs_sweep elapsed : forall keys s st wk, f_dbs (fst (fst (fst (sweep s keys elapsed st wk)))) = f_dbs s.
Proof.
  induction keys as [|k keys IH]; intros s st wk; cbn [sweep]; [reflexivity|].
  destruct (aget (f_mgr s) k) as [r|]; [|apply IH]. destruct (should_start r).
  - assert (H1 : f_dbs (fst (retrier_start s k r)) = f_dbs s).
    { unfold retrier_start. destruct (aget (c_towers (f_c s)) k) as [su|]; [destruct (is_misbehaving (su_status su))|]; reflexivity. }
    destruct (retrier_start s k r) as [s1 [site|]]; cbn [fst] in *; [exact H1|]. rewrite IH. exact H1.
  - destruct (is_idle (r_status r) && memN k elapsed); rewrite IH; reflexivity.
Qed.

Lemma f_dbs_manager_tick s elapsed : f_dbs (fst (f_manager_tick s elapsed)) = f_dbs s.
Proof.
  unfold f_manager_tick. destruct (f_mgr_dead s); [reflexivity|]. destruct (f_chan s) as [|[t d] rest].
  - unfold mgr_sweep. match goal with |- context [if ?b then _ else _] => destruct b end; [reflexivity|]. cbv zeta.
    match goal with |- context [if ?b then _ else _] => destruct b end; [reflexivity|].
    pose proof (f_dbs_sweep elapsed (map fst (f_mgr (retain_state s))) (retain_state s) [] []) as H.
    destruct (sweep (retain_state s) (map fst (f_mgr (retain_state s))) elapsed [] []) as [[[s2 a] b] [site|]]; exact H.
  - unfold mgr_receive, add_pending_appointments, wake. dmatch; reflexivity.
Qed.

(* C05, crash points: every durable state an operation writes (what a SIGKILL at any moment inside it leaves on disk)
   still holds AT LEAST ONE record for every (tower, locator) owed before the operation, as long as the tower row and
   no misbehaviour proof are in that state *)
Theorem recorded_at_least_one_at_crash ops o :
  let s := frun f_init ops in
  forall d, In d (crash_states o s) ->
  forall t l, In (t, l) (f_due s) -> tower_row d t = true -> exists_misbehaving_proof d t = false ->
  (1 <= record_count d t l)%nat.
Proof.
  intros s d Hd t l Hin Ht Hm.
  pose proof (FInv_frun ops f_init FInv_init) as HF. fold s in HF.
  assert (HF0 : FInv (clear_dbs s)) by (apply (FInv_core s); auto).
  assert (Hok0 : DbsOk (f_due s) (clear_dbs s)) by (intros x []).
  assert (Hall : AtLeast d (f_due s)).
  { unfold crash_states in Hd. destruct Hd as [<-|Hd]; [apply AtLeast_DurInv, HF|].
    assert (Hdbs : DbsOk (f_due s) (fst (fstep (clear_dbs s) o))); [|apply Hdbs, Hd].
    destruct o; cbn [fstep].
    - apply (register_dbs (clear_dbs s)); [exact HF0|exact Hok0].
    - unfold f_revocation. change (poisoned (clear_dbs s)) with (poisoned s). destruct (poisoned s) eqn:Hp; [exact Hok0|].
      set (snap := reorder_towers order (towers_snapshot (f_c (clear_dbs s)))).
      assert (Hsn : forall t0 st, In (t0, st) snap -> knownc (f_c (clear_dbs s)) t0 /\ (st = Misbehaving -> Mrow (c_db (f_c (clear_dbs s))) t0)).
      { intros t0 st Hin0. apply reorder_towers_In, towers_snapshot_In in Hin0. destruct HF as [_ [_ [HV _]]]. destruct (HV Hp) as [V1 _].
        split; [|intros ->; apply V1, Hin0]. unfold knownc, amem. unfold stat in Hin0. cbn [f_c clear_dbs] in *. destruct (aget (c_towers (f_c s)) t0); [reflexivity|discriminate]. }
      pose proof (rev_loop_dbs l0 replies snap (clear_dbs s) HF0 Hsn Hok0) as H.
      destruct (rev_loop (clear_dbs s) l0 snap replies) as [s1 o1]. cbn [fst] in H. destruct o1; cbn [fst]; exact H.
    - unfold DbsOk. rewrite f_dbs_manager_tick. intros x [].
    - pose proof (retrier_run_dbs t0 atts (clear_dbs s) HF0 Hok0) as [H _]. destruct (f_retrier_run (clear_dbs s) t0 atts). exact H.
    - unfold f_manual_retry. dmatch; intros x [].
    - (* abandon: the state between the two DELETE statements has no row of the tower at all *)
      unfold f_abandon. change (poisoned (clear_dbs s)) with (poisoned s). destruct (poisoned s) eqn:Hp; [exact Hok0|].
      change (f_c (clear_dbs s)) with (f_c s). destruct (amem (c_towers (f_c s)) t0) eqn:Ek; [|exact Hok0].
      pose proof HF as [HI [HD _]].
      destruct (wt_remove_tower (f_c s) t0) as [c' r] eqn:E.
      destruct (prim_remove_tower _ _ _ _ HI Hp Ek E) as [HI' [_ [-> [_ [_ Hfr]]]]].
      assert (Hfin : AtLeast (c_db c') (f_due s)).
      { intros k x Hkx HT HM. destruct (N.eq_dec k t0) as [->|Hn]; [exfalso; apply (Trow_filter _ _ t0 t0 (Hfr T_towers ltac:(discriminate))) in HT; tauto|].
        destruct HD as [_ [_ E0]]. destruct (E0 k x Hkx) as [_ B].
        assert (HM0 : ~ Mrow (c_db (f_c s)) k) by (intros X; apply HM, (Mrow_filter _ _ t0 k (Hfr T_misbehaving_proofs ltac:(discriminate))); tauto).
        destruct (B HM0) as [X|[X|X]]; [left; apply (Rrow_filter _ _ t0 k x (Hfr T_appointment_receipts ltac:(discriminate)))
          |right; left; apply (Prow_filter _ _ t0 k x (Hfr T_pending_appointments ltac:(discriminate)))
          |right; right; apply (Irow_filter _ _ t0 k x (Hfr T_invalid_appointments ltac:(discriminate)))]; tauto. }
      change (c_db (f_c (clear_dbs s))) with (c_db (f_c s)).
      destruct (db_delete CS (c_db (f_c s)) T_towers [C_towers_tower_id] [t0] true) as [d1|e] eqn:Ed.
      + change (f_c (note_db (clear_dbs s) d1)) with (f_c s). rewrite E. cbn [fst].
        intros x Hx. cbn [f_dbs set_due wr_c note_db clear_dbs] in Hx. cbn in Hx. destruct Hx as [<-|[<-|[]]]; [|exact Hfin].
        apply db_delete_inv in Ed. destruct Ed as [Ed _]. pose proof (abandon_delete_spec (c_db (f_c s)) t0 d1 (proj1 (proj1 (proj1 HI))) Ed) as S1.
        intros k x Hkx HT HM. destruct (N.eq_dec k t0) as [->|Hn]; [exfalso; apply (Trow_filter _ _ t0 t0 (S1 T_towers)) in HT; tauto|].
        destruct HD as [_ [_ E0]]. destruct (E0 k x Hkx) as [_ B].
        assert (HM0 : ~ Mrow (c_db (f_c s)) k) by (intros X; apply HM, (Mrow_filter _ _ t0 k (S1 T_misbehaving_proofs)); tauto).
        destruct (B HM0) as [X|[X|X]]; [left; apply (Rrow_filter _ _ t0 k x (S1 T_appointment_receipts))
          |right; left; apply (Prow_filter _ _ t0 k x (S1 T_pending_appointments))
          |right; right; apply (Irow_filter _ _ t0 k x (S1 T_invalid_appointments))]; tauto.
      + change (f_c (clear_dbs s)) with (f_c s). rewrite E. cbn [fst].
        intros x Hx. cbn [f_dbs set_due wr_c clear_dbs] in Hx. cbn in Hx. destruct Hx as [<-|[]]. exact Hfin.
    - intros x []. }
  apply tower_row_iff in Ht. assert (Hm' : ~ Mrow d t) by (intros X; apply proof_iff in X; congruence).
  destruct (Hall t l Hin Ht Hm') as [X|[X|X]]; unfold record_count;
    [apply has_receipt_row_iff in X|apply has_pending_row_iff in X|apply has_invalid_row_iff in X]; rewrite X; cbn; lia.
Qed.

(* the notification path sends nothing to a tower whose (cloned) status is misbehaving, and retrytower refuses it *)
Lemma rev_tower_skips_misbehaving s l t rp : rev_tower s l t Misbehaving rp = (s, None) \/ rev_tower s l t Misbehaving rp = (s, Some (SClient Site_poisoned)).
Proof. unfold rev_tower. destruct (poisoned s); [right; reflexivity|]. destruct (wt_has_appointment (f_c s) t l); left; reflexivity. Qed.

Lemma manual_retry_refuses_misbehaving s t su :
  aget (c_towers (f_c s)) t = Some su -> su_status su = Misbehaving -> aget (c_retriers (f_c s)) t = None ->
  f_manual_retry s t = (s, OErr E_not_retryable) \/ f_manual_retry s t = (s, OPanic (SClient Site_poisoned)).
Proof. intros H1 H2 H3. unfold f_manual_retry. destruct (poisoned s); [right; reflexivity|]. rewrite H1, H3, H2. left. reflexivity. Qed.

(* ====================================================================== *)
(* the repaired status handling (fixes 70d4134, b2b8ee7)                   *)
(* ====================================================================== *)
(* misbehaving is never left: in every reachable state a known tower whose proof is stored is misbehaving in memory *)
Theorem misbehaving_is_kept ops t :
  let s := frun f_init ops in poisoned s = false ->
  exists_misbehaving_proof (c_db (f_c s)) t = true -> knownc (f_c s) t -> stat (f_c s) t = Some Misbehaving.
Proof.
  intros s Hp Hm Hk. pose proof (FInv_frun ops f_init FInv_init) as [_ [_ [HV _]]]. fold s in HV.
  destruct (HV Hp) as [_ [V2 _]]. apply V2; [exact Hk|apply proof_iff, Hm].
Qed.

(* registertower that cannot connect: the status of the tower changes only from reachable to temporary unreachable,
   only when something is pending for it, and then together with a message that makes the retry manager take the tower *)
Theorem register_conn_error_hands_over s t :
  let s' := fst (f_register s t t RConnErr) in
  snd (f_register s t t RConnErr) = OErr E_connection \/ snd (f_register s t t RConnErr) = OPanic (SClient Site_poisoned) ->
  (forall k, stat (f_c s') k = stat (f_c s) k) /\ f_chan s' = f_chan s \/
  (exists su, aget (c_towers (f_c s)) t = Some su /\ su_status su = Reachable /\ su_pending su <> [] /\
     stat (f_c s') t = Some TemporaryUnreachable /\ (forall k, k <> t -> stat (f_c s') k = stat (f_c s) k) /\
     f_chan s' = f_chan s ++ [(t, DStale (su_pending su))]).
Proof.
  intros s' _. unfold s', f_register. destruct (poisoned s); [left; split; reflexivity|]. cbn [fst].
  change (c_towers (f_c (log_req s (ReqRegister t)))) with (c_towers (f_c s)).
  destruct (amem (c_towers (f_c s)) t); [|left; split; reflexivity].
  unfold flag_unreachable. change (f_c (log_req s (ReqRegister t))) with (f_c s).
  destruct (aget (c_towers (f_c s)) t) as [su|] eqn:Et; [|left; split; reflexivity].
  destruct (is_reachable (su_status su)) eqn:Er; cbn [andb]; [|left; split; reflexivity].
  destruct (su_pending su) as [|x p] eqn:Epe; [left; split; reflexivity|].
  right. exists su. split; [reflexivity|]. split; [destruct (su_status su); try discriminate; reflexivity|]. split; [rewrite Epe; discriminate|].
  cbn [f_c f_chan push_chan set_chan set_c log_req]. split; [|split; [|rewrite Epe; reflexivity]].
  - rewrite stat_set_status, N.eqb_refl. unfold stat. rewrite Et. cbn. f_equal. apply sticky_other. destruct (su_status su); discriminate.
  - intros k Hk. rewrite stat_set_status. apply N.eqb_neq in Hk. rewrite Hk. reflexivity.
Qed.

(* ====================================================================== *)
(* D7 repaired: a successful run leaves nothing pending for the tower      *)
(* ====================================================================== *)
(* whatever the retrier's in-memory set was: when an attempt of a live retry task returns Ok - the only way the task sets
   the tower `reachable` - no pending row of the tower is left, every row that was pending has a record, and the Ok arm
   shows the tower reachable (unless it is flagged) with an empty, stopped retrier *)
Theorem success_leaves_nothing_pending ops t a :
  let s := frun f_init ops in
  In t (f_tasks s) -> snd (run_attempt s t a) = RunOk ->
  let s1 := fst (run_attempt s t a) in
  let s' := fst (task_step s1 t RunOk (at_more a)) in
  (forall l, ~ Prow (c_db (f_c s')) t l) /\ pending_locators (c_db (f_c s')) t = [] /\
  (forall k x, recorded (c_db (f_c s)) k x -> recorded (c_db (f_c s')) k x) /\
  snd (task_step s1 t RunOk (at_more a)) = OutDelivered /\ retrier_pending s' t = [] /\
  (stat (f_c s) t <> Some Misbehaving -> stat (f_c s') t = Some Reachable).
Proof.
  intros s Hin Hok s1 s'. pose proof (FInv_frun ops f_init FInv_init) as HF. fold s in HF.
  assert (Hrun : rstat s t = Some RRunning) by (apply HF, Hin).
  destruct (run_attempt s t a) as [sx r] eqn:E1. cbn [fst snd] in *. subst r. subst s1.
  destruct (FInv_run_attempt s t a sx RunOk HF Hrun E1) as [HF1 [Hnp [Hset [K [PA PN]]]]].
  destruct (Hset eq_refl) as [Hempty Hk1].
  assert (Edb : c_db (f_c s') = c_db (f_c sx)).
  { unfold s', task_step. cbn [fst f_c end_task set_tasks]. rewrite f_c_retrier_set_status. cbn [f_c set_c c_db with_retriers]. apply DbInv_set_status. }
  split; [intros l; rewrite Edb; apply (PN eq_refl l)|]. split.
  { destruct (pending_locators (c_db (f_c s')) t) as [|x q] eqn:Eq; [reflexivity|]. exfalso.
    assert (Hx : In x (pending_locators (c_db (f_c s')) t)) by (rewrite Eq; left; reflexivity).
    apply In_pending_locators in Hx. destruct Hx as [row [A [B C]]]. rewrite Edb in A. apply (PN eq_refl x). exists row. auto. }
  split; [intros k x H; rewrite Edb; apply K, H|]. split; [reflexivity|]. split.
  - unfold s', task_step. cbn [fst].
    change (retrier_pending (end_task (retrier_set_status (set_c sx (with_retriers (wt_set_tower_status (f_c sx) t Reachable) (aremove (c_retriers (wt_set_tower_status (f_c sx) t Reachable)) t))) t RStopped) t) t)
      with (retrier_pending (retrier_set_status (set_c sx (with_retriers (wt_set_tower_status (f_c sx) t Reachable) (aremove (c_retriers (wt_set_tower_status (f_c sx) t Reachable)) t))) t RStopped) t).
    unfold retrier_set_status. cbn [f_mgr set_c]. unfold retrier_pending in Hempty.
    destruct (aget (f_mgr sx) t) as [r1|] eqn:Er1; [rewrite retrier_pending_put, N.eqb_refl; exact Hempty|unfold retrier_pending; cbn [f_mgr set_c]; rewrite Er1; reflexivity].
  - intros Hnm. assert (Hnm1 : stat (f_c sx) t <> Some Misbehaving).
    { intros H. apply Hnm. pose proof (run_attempt_mis_back s t a) as Hb. rewrite E1 in Hb. cbn [fst] in Hb. apply Hb, H. }
    unfold s', task_step. cbn [fst f_c end_task set_tasks]. rewrite f_c_retrier_set_status. cbn [f_c set_c].
    unfold stat at 1. cbn [c_towers with_retriers]. change (option_map su_status (aget (c_towers (wt_set_tower_status (f_c sx) t Reachable)) t)) with (stat (wt_set_tower_status (f_c sx) t Reachable) t).
    rewrite stat_set_status, N.eqb_refl. unfold knownc, amem in Hk1. unfold stat in *. destruct (aget (c_towers (f_c sx)) t) as [su1|]; [|discriminate].
    cbn in *. f_equal. apply sticky_other. congruence.
Qed.
