(* ClientFlowProofs.v — proofs about ClientFlow.v (C05, C14, C13). *)
From TeosModel Require Import Base ListAux Db DbProofs Client ClientProofs ClientFlow.

(* ---------- witnesses (vm_compute) ---------- *)
Definition w_good (g : N) : rreply := RReceipt (100 + 10 * g) 10 (1000 + 100 * g) true.
Definition w_att (adds : list areply) (more : bool) : attempt :=
  {| at_reg := w_good 9; at_adds := adds; at_order := []; at_more := more |}.

(* two towers down; revocation 5 pending for both, both retriers running; abandon tower 0, register with it again;
   its retrier (stale set {5}) delivers 5: tower 1 loses its pending row *)
Definition w_c05_ops : list fop :=
  [FRegister 0 (w_good 1); FRegister 1 (w_good 1); FRevocation 5 [] [(0, AConnErr); (1, AConnErr)];
   FManagerTick []; FManagerTick []; FManagerTick [];
   FRetrierRun 0 [w_att [] true]; FAbandon 0; FRegister 0 (w_good 1); FRetrierRun 0 [w_att [AAccept 110] true]].

Lemma recorded_exactly_one_refuted :
  exists ops t l, let s := frun f_init ops in
    poisoned s = false /\ owed s t l = true /\ record_count (c_db (f_c s)) t l = 0%nat.
Proof. exists w_c05_ops, 1, 5. vm_compute. repeat split; reflexivity. Qed.

(* C14: a tower proven misbehaving is sent appointments again after `registertower` against it failed to connect
   (status overwritten with temporary unreachable); a second wrong-key reply then aborts on the duplicate proof *)
Definition w_c14_ops : list fop :=
  [FRegister 0 (w_good 1); FRevocation 0 [] [(0, AWrongKey)]; FRegister 0 RConnErr; FRevocation 1 [] [];
   FManagerTick []; FManagerTick []; FRetrierRun 0 [w_att [AAccept 110] true]].

Definition is_add_to (t : N) (r : req) : bool := match r with ReqAdd t' _ => N.eqb t' t | _ => false end.

Lemma misbehaviour_flagged_refuted :
  exists ops1 ops2 t, let s1 := frun f_init ops1 in let s2 := frun s1 ops2 in
    exists_misbehaving_proof (c_db (f_c s1)) t = true /\
    existsb (is_add_to t) (skipn (length (f_log s1)) (f_log s2)) = true.
Proof. exists (firstn 2 w_c14_ops), (skipn 2 w_c14_ops), 0. vm_compute. split; reflexivity. Qed.

Lemma no_reply_aborts_refuted :
  exists ops l, snd (fstep (frun f_init ops) (FRevocation l [] [(0, AWrongKey)])) = OPanic (SClient Site_store_misbehaving_proof_unwrap).
Proof. exists w_c14_ops, 2. vm_compute. reflexivity. Qed.

(* ====================================================================== *)
(* generic helpers                                                        *)
(* ====================================================================== *)
Ltac dmatch :=
  repeat match goal with
         | |- context [match ?x with _ => _ end] => destruct x eqn:?
         | |- context [if ?x then _ else _] => destruct x eqn:?
         end.

Lemma aget_aset_same {V} (m : amap V) t v : aget (aset m t v) t = Some v.
Proof. rewrite aget_aset, N.eqb_refl. reflexivity. Qed.
Lemma aget_aset_other {V} (m : amap V) t v k : k <> t -> aget (aset m t v) k = aget m k.
Proof. intros H. rewrite aget_aset. apply N.eqb_neq in H. rewrite H. reflexivity. Qed.

Lemma remove_one_In x y l : In y (remove_one x l) -> In y l.
Proof.
  induction l as [|z l IH]; cbn; [tauto|]. destruct (N.eqb z x); [tauto|]. cbn. intros [->|H]; [tauto|]. right. apply IH, H.
Qed.
Lemma remove_one_NoDup x l : NoDup l -> NoDup (remove_one x l) /\ ~ In x (remove_one x l).
Proof.
  induction 1 as [|z l Hz Hl IH]; cbn; [split; [constructor|tauto]|].
  destruct (N.eqb z x) eqn:E.
  - apply N.eqb_eq in E. subst. split; assumption.
  - apply N.eqb_neq in E. destruct IH as [A B]. split.
    + constructor; [|exact A]. intros H. apply Hz. eapply remove_one_In, H.
    + intros [H|H]; [congruence|tauto].
Qed.

(* the status of every retrier of the manager *)
Definition rstat (s : fstate) (t : N) : option rstatus := option_map r_status (aget (f_mgr s) t).

(* ====================================================================== *)
(* C13 single_retrier: one retry loop per tower                           *)
(* ====================================================================== *)
Definition TaskInv (s : fstate) : Prop :=
  NoDup (f_tasks s) /\ forall t, In t (f_tasks s) -> rstat s t = Some RRunning.

Lemma TaskInv_same s s' : f_tasks s' = f_tasks s -> (forall t, rstat s' t = rstat s t) -> TaskInv s -> TaskInv s'.
Proof. intros E1 E2 [A B]. split; [rewrite E1; exact A|]. intros t Ht. rewrite E2. apply B. rewrite <- E1. exact Ht. Qed.

(* ---- operations that do not touch the manager's retriers nor the tasks ---- *)
Lemma f_register_mgr s t a rp : f_tasks (fst (f_register s t a rp)) = f_tasks s /\ f_mgr (fst (f_register s t a rp)) = f_mgr s.
Proof. unfold f_register. dmatch; cbn; split; reflexivity. Qed.

Lemma send_to_retrier_mgr s t l : f_tasks (send_to_retrier s t l) = f_tasks s /\ f_mgr (send_to_retrier s t l) = f_mgr s.
Proof. unfold send_to_retrier. dmatch; cbn; split; reflexivity. Qed.

Lemma rev_tower_mgr s l t st rp : f_tasks (fst (rev_tower s l t st rp)) = f_tasks s /\ f_mgr (fst (rev_tower s l t st rp)) = f_mgr s.
Proof.
  unfold rev_tower. dmatch; cbn [fst]; try (split; reflexivity);
    try (match goal with |- context [send_to_retrier ?x ?y ?z] => destruct (send_to_retrier_mgr x y z) as [-> ->] end; split; reflexivity).
Qed.

Lemma rev_loop_mgr l replies snap : forall s, f_tasks (fst (rev_loop s l snap replies)) = f_tasks s /\ f_mgr (fst (rev_loop s l snap replies)) = f_mgr s.
Proof.
  induction snap as [|[t st] snap IH]; intros s; cbn; [split; reflexivity|].
  destruct (rev_tower s l t st (reply_for replies t)) as [s1 o] eqn:E.
  pose proof (rev_tower_mgr s l t st (reply_for replies t)) as H. rewrite E in H. cbn in H. destruct H as [H1 H2].
  destruct o; cbn; [split; assumption|]. destruct (IH s1) as [A B]. split; congruence.
Qed.

Lemma f_revocation_mgr s l order replies :
  f_tasks (fst (f_revocation s l order replies)) = f_tasks s /\ f_mgr (fst (f_revocation s l order replies)) = f_mgr s.
Proof.
  unfold f_revocation. destruct (poisoned s); [split; reflexivity|].
  match goal with |- context [rev_loop s l ?sn replies] => pose proof (rev_loop_mgr l replies sn s) as H; destruct (rev_loop s l sn replies) as [s1 o] end.
  cbn in H. destruct o; cbn; exact H.
Qed.

Lemma f_manual_retry_mgr s t : f_tasks (fst (f_manual_retry s t)) = f_tasks s /\ f_mgr (fst (f_manual_retry s t)) = f_mgr s.
Proof. unfold f_manual_retry. dmatch; cbn; split; reflexivity. Qed.

Lemma f_abandon_mgr s t : f_tasks (fst (f_abandon s t)) = f_tasks s /\ f_mgr (fst (f_abandon s t)) = f_mgr s.
Proof. unfold f_abandon. dmatch; cbn; split; reflexivity. Qed.

(* ---- the manager ---- *)
Lemma rstat_put s t r k : rstat (put_retrier s t r) k = if N.eqb k t then Some (r_status r) else rstat s k.
Proof. unfold rstat, put_retrier, set_mgr. cbn [f_mgr]. rewrite aget_aset. destruct (N.eqb k t); reflexivity. Qed.

Lemma rstat_set_c s c k : rstat (set_c s c) k = rstat s k.  Proof. reflexivity. Qed.
Lemma rstat_wr_c s c k : rstat (wr_c s c) k = rstat s k.  Proof. reflexivity. Qed.

Lemma TaskInv_put_not_task s t r :
  TaskInv s -> ~ In t (f_tasks s) -> TaskInv (put_retrier s t r).
Proof.
  intros [A B] Hn. split; [exact A|]. intros k Hk. cbn in Hk. rewrite rstat_put.
  destruct (N.eqb k t) eqn:E; [apply N.eqb_eq in E; subst; contradiction|]. apply B, Hk.
Qed.

Lemma TaskInv_put_same_status s t r r0 :
  TaskInv s -> aget (f_mgr s) t = Some r0 -> r_status r = r_status r0 -> TaskInv (put_retrier s t r).
Proof.
  intros [A B] H0 Hs. split; [exact A|]. intros k Hk. cbn in Hk. rewrite rstat_put.
  destruct (N.eqb k t) eqn:E; [|apply B, Hk]. apply N.eqb_eq in E. subst. rewrite Hs. specialize (B t Hk).
  unfold rstat in B. rewrite H0 in B. exact B.
Qed.

Lemma not_task_if_not_running s t r :
  TaskInv s -> aget (f_mgr s) t = Some r -> r_status r <> RRunning -> ~ In t (f_tasks s).
Proof. intros [_ B] H Hn Hin. specialize (B t Hin). unfold rstat in B. rewrite H in B. cbn in B. congruence. Qed.

Lemma not_task_if_absent s t : TaskInv s -> aget (f_mgr s) t = None -> ~ In t (f_tasks s).
Proof. intros [_ B] H Hin. specialize (B t Hin). unfold rstat in B. rewrite H in B. discriminate. Qed.

Lemma TaskInv_wake s t r : TaskInv s -> aget (f_mgr s) t = Some r -> r_status r = RIdle -> TaskInv (wake s t r).
Proof.
  intros HT H Hi. unfold wake. apply TaskInv_put_not_task.
  - apply (TaskInv_same s); [reflexivity|reflexivity|exact HT].
  - cbn. eapply not_task_if_not_running; eauto. congruence.
Qed.

Lemma TaskInv_add_pending s t locs : TaskInv s -> TaskInv (add_pending_appointments s t locs).
Proof.
  intros HT. unfold add_pending_appointments. destruct (aget (f_mgr s) t) as [r|] eqn:E.
  - eapply TaskInv_put_same_status; eauto.
  - apply TaskInv_put_not_task; [exact HT|]. apply not_task_if_absent; assumption.
Qed.

Lemma TaskInv_start s t r s' :
  TaskInv s -> aget (f_mgr s) t = Some r -> r_status r = RStopped -> retrier_start s t r = (s', None) -> TaskInv s'.
Proof.
  intros HT H Hs. unfold retrier_start. destruct (aget (c_towers (f_c s)) t) as [su|]; [|discriminate].
  intros E. inversion E. subst s'. clear E.
  assert (Hn : ~ In t (f_tasks s)) by (eapply not_task_if_not_running; eauto; congruence).
  destruct HT as [A B]. split.
  - cbn. apply NoDup_app_iff. split; [exact A|]. split; [constructor; [tauto|constructor]|].
    intros x Hx [<-|[]]. contradiction.
  - intros k Hk. cbn in Hk. unfold rstat. cbn [f_mgr set_tasks put_retrier set_mgr]. rewrite aget_aset.
    destruct (N.eqb k t) eqn:Ek; [reflexivity|]. apply in_app_or in Hk. destruct Hk as [Hk|[<-|[]]].
    + apply (B k Hk).
    + rewrite N.eqb_refl in Ek. discriminate.
Qed.

Lemma retrier_start_abort_tasks s t r s' site : retrier_start s t r = (s', Some site) -> f_tasks s' = f_tasks s /\ f_mgr s' = f_mgr s.
Proof. unfold retrier_start. destruct (aget (c_towers (f_c s)) t); [discriminate|]. intros E. inversion E. split; reflexivity. Qed.

Lemma TaskInv_sweep elapsed : forall keys s started woke, TaskInv s -> TaskInv (fst (fst (fst (sweep s keys elapsed started woke)))).
Proof.
  induction keys as [|t keys IH]; intros s started woke HT; cbn; [exact HT|].
  destruct (aget (f_mgr s) t) as [r|] eqn:E; [|apply IH, HT].
  destruct (should_start r) eqn:Ess.
  - destruct (retrier_start s t r) as [s1 [site|]] eqn:Es.
    + cbn. destruct (retrier_start_abort_tasks _ _ _ _ _ Es) as [E1 E2].
      apply (TaskInv_same s); [exact E1| |exact HT]. intros k. unfold rstat. rewrite E2. reflexivity.
    + apply IH. eapply TaskInv_start; eauto. unfold should_start in Ess. apply andb_true_iff in Ess.
      destruct Ess as [Ess _]. destruct (r_status r); try discriminate. reflexivity.
  - destruct (is_idle (r_status r) && memN t elapsed) eqn:Ei; [|apply IH, HT].
    apply IH. apply TaskInv_wake; [exact HT|exact E|]. apply andb_true_iff in Ei. destruct Ei as [Ei _].
    destruct (r_status r); try discriminate. reflexivity.
Qed.

Lemma aget_filter_keep {V} (p : N * V -> bool) (m : amap V) t v :
  aget m t = Some v -> p (t, v) = true -> aget (filter p m) t = Some v.
Proof.
  induction m as [|[k w] m IH]; cbn; [discriminate|]. intros H Hp.
  destruct (N.eqb t k) eqn:E.
  - apply N.eqb_eq in E. subst. inversion H. subst. rewrite Hp. cbn. rewrite N.eqb_refl. reflexivity.
  - destruct (p (k, w)); [cbn; rewrite E|]; apply IH; assumption.
Qed.

Lemma aget_filter_Some {V} (p : N * V -> bool) (m : amap V) t v : aget (filter p m) t = Some v -> In (t, v) m /\ p (t, v) = true.
Proof.
  induction m as [|[k w] m IH]; cbn; [discriminate|]. destruct (p (k, w)) eqn:Ep.
  - cbn. destruct (N.eqb t k) eqn:E.
    + apply N.eqb_eq in E. subst. intros H. inversion H. subst. split; [left; reflexivity|exact Ep].
    + intros H. destruct (IH H). split; [right|]; assumption.
  - intros H. destruct (IH H). split; [right|]; assumption.
Qed.

Lemma TaskInv_retain s : TaskInv s -> TaskInv (retain_state s).
Proof.
  intros [A B]. split; [exact A|]. intros k Hk. cbn in Hk. specialize (B k Hk). unfold rstat in *. cbn.
  destruct (aget (f_mgr s) k) as [r|] eqn:E; [|discriminate]. cbn in B. inversion B as [Br].
  erewrite aget_filter_keep; [cbn; rewrite Br; reflexivity|exact E|].
  unfold keep_retrier. cbn. rewrite Br. cbn. rewrite orb_true_r. reflexivity.
Qed.

Lemma TaskInv_mgr_sweep s elapsed : TaskInv s -> TaskInv (fst (mgr_sweep s elapsed)).
Proof.
  intros HT. unfold mgr_sweep.
  match goal with |- context [if ?b then _ else _] => destruct b end; [exact HT|]. cbv zeta.
  pose proof (TaskInv_retain s HT) as HT1.
  match goal with |- context [if ?b then _ else _] => destruct b end; [exact HT1|].
  pose proof (TaskInv_sweep elapsed (map fst (f_mgr (retain_state s))) (retain_state s) [] [] HT1) as H.
  destruct (sweep (retain_state s) (map fst (f_mgr (retain_state s))) elapsed [] []) as [[[s2 st] wk] [site|]]; exact H.
Qed.

Lemma TaskInv_mgr_receive s t data : TaskInv s -> TaskInv (fst (mgr_receive s t data)).
Proof.
  intros HT. unfold mgr_receive.
  match goal with |- context [if ?b then _ else _] => destruct b end; [exact HT|].
  match goal with |- context [if ?b then _ else _] => destruct b end; [exact HT|].
  destruct (aget (f_mgr s) t) as [r|] eqn:E.
  - destruct (is_idle (r_status r)) eqn:Ei.
    + destruct (rdata_is_none data); cbn [fst]; [|exact HT].
      apply TaskInv_wake; [exact HT|exact E|]. destruct (r_status r); try discriminate. reflexivity.
    + cbn [fst]. apply TaskInv_add_pending. exact HT.
  - cbn [fst]. apply TaskInv_add_pending. exact HT.
Qed.

Lemma TaskInv_manager_tick s elapsed : TaskInv s -> TaskInv (fst (f_manager_tick s elapsed)).
Proof.
  intros HT. unfold f_manager_tick. destruct (f_mgr_dead s); [exact HT|].
  destruct (f_chan s) as [|[t data] rest] eqn:Ec.
  - apply TaskInv_mgr_sweep, HT.
  - apply TaskInv_mgr_receive. exact HT.
Qed.

(* ---- the retry task ---- *)
Lemma retrier_drop_rstat s t l k : rstat (retrier_drop s t l) k = rstat s k.
Proof.
  unfold retrier_drop. destruct (aget (f_mgr s) t) as [r|] eqn:E; [|reflexivity].
  rewrite rstat_put. destruct (N.eqb k t) eqn:Ek; [|reflexivity]. apply N.eqb_eq in Ek. subst. unfold rstat. rewrite E. reflexivity.
Qed.
Lemma retrier_drop_tasks s t l : f_tasks (retrier_drop s t l) = f_tasks s.
Proof. unfold retrier_drop. destruct (aget (f_mgr s) t); reflexivity. Qed.

Definition same_tasks (s s' : fstate) : Prop := f_tasks s' = f_tasks s /\ forall k, rstat s' k = rstat s k.
Lemma same_tasks_refl s : same_tasks s s.  Proof. split; reflexivity. Qed.
Lemma same_tasks_trans a b c : same_tasks a b -> same_tasks b c -> same_tasks a c.
Proof. intros [A1 A2] [B1 B2]. split; [congruence|]. intros k. rewrite B2. apply A2. Qed.
Lemma same_tasks_drop s t l : same_tasks s (retrier_drop s t l).
Proof. split; [apply retrier_drop_tasks|apply retrier_drop_rstat]. Qed.

Lemma st_drop a s t l : same_tasks a s -> same_tasks a (retrier_drop s t l).
Proof. intros H. eapply same_tasks_trans; [exact H|apply same_tasks_drop]. Qed.
Lemma st_wr a s c : same_tasks a s -> same_tasks a (wr_c s c).  Proof. intros H. exact H. Qed.
Lemma st_setc a s c : same_tasks a s -> same_tasks a (set_c s c).  Proof. intros H. exact H. Qed.
Lemma st_log a s r : same_tasks a s -> same_tasks a (log_req s r).  Proof. intros H. exact H. Qed.
Ltac st := repeat first [ apply same_tasks_refl | apply st_wr | apply st_setc | apply st_log | apply st_drop ].

Lemma run_for_same' t : forall locs a s adds, same_tasks a s -> same_tasks a (fst (fst (run_for s t locs adds))).
Proof.
  induction locs as [|l locs IH]; intros a s adds Ha; cbn [run_for]; [exact Ha|].
  destruct (poisoned s); [exact Ha|].
  destruct (dbm_load_appointment (c_db (f_c s)) l) as [body|]; [|exact Ha].
  destruct (next_reply adds) as [rp adds'].
  destruct rp; cbn [fst]; try exact Ha.
  - destruct (wt_add_appointment_receipt _ _ _ _ _ _ _) as [c2 r2].
    destruct (lift_site r2); cbn [fst]; [apply st_wr, st_drop, st_log, Ha|].
    destruct (wt_remove_pending_appointment c2 t l) as [c3 r3].
    destruct (lift_site r3); cbn [fst]; [apply st_wr, st_wr, st_drop, st_log, Ha|].
    apply IH. apply st_wr, st_wr, st_drop, st_log, Ha.
  - destruct (wt_add_invalid_appointment _ _ _ _ _) as [c2 r2].
    destruct (lift_site r2); cbn [fst]; [apply st_wr, st_drop, st_log, Ha|].
    destruct (wt_remove_pending_appointment c2 t l) as [c3 r3].
    destruct (lift_site r3); cbn [fst]; [apply st_wr, st_wr, st_drop, st_log, Ha|].
    apply IH. apply st_wr, st_wr, st_drop, st_log, Ha.
Qed.
Lemma run_for_same t locs s adds : same_tasks s (fst (fst (run_for s t locs adds))).
Proof. apply run_for_same', same_tasks_refl. Qed.

Lemma run_while_same t hint : forall fuel s adds, same_tasks s (fst (run_while fuel s t hint adds)).
Proof.
  induction fuel as [|f IH]; intros s adds; cbn [run_while]; [apply same_tasks_refl|].
  destruct (retrier_pending s t) as [|x p]; [apply same_tasks_refl|].
  pose proof (run_for_same t (reorder hint (x :: p)) s adds) as H.
  destruct (run_for s t (reorder hint (x :: p)) adds) as [[s1 adds1] [r|]]; cbn [fst] in *; [exact H|].
  eapply same_tasks_trans; [exact H|apply IH].
Qed.

Lemma run_attempt_same s t a : same_tasks s (fst (run_attempt s t a)).
Proof.
  unfold run_attempt. destruct (poisoned s); [apply same_tasks_refl|].
  destruct (aget (c_towers (f_c s)) t) as [su|]; [|apply same_tasks_refl].
  destruct (is_subscription_error (su_status su)); [|apply run_while_same].
  destruct (at_reg a); try (split; reflexivity).
  destruct (negb sig_ok); [split; reflexivity|].
  destruct (wt_add_update_tower _ _ _ _ _ _ _) as [c' r]. destruct r; try (split; reflexivity).
  eapply same_tasks_trans; [|apply run_while_same]. split; reflexivity.
Qed.

Lemma TaskInv_same_tasks s s' : same_tasks s s' -> TaskInv s -> TaskInv s'.
Proof. intros [A B]. apply TaskInv_same; assumption. Qed.

Lemma rstat_retrier_set_status s t st k :
  rstat (retrier_set_status s t st) k = if N.eqb k t then option_map (fun _ => st) (rstat s t) else rstat s k.
Proof.
  unfold retrier_set_status. destruct (aget (f_mgr s) t) as [r|] eqn:E.
  - rewrite rstat_put. destruct (N.eqb k t); [|reflexivity]. unfold rstat. rewrite E. reflexivity.
  - destruct (N.eqb k t) eqn:Ek; [|reflexivity]. apply N.eqb_eq in Ek. subst. unfold rstat. rewrite E. reflexivity.
Qed.
Lemma rstat_retrier_clear s t k : rstat (retrier_clear s t) k = rstat s k.
Proof.
  unfold retrier_clear. destruct (aget (f_mgr s) t) as [r|] eqn:E; [|reflexivity].
  rewrite rstat_put. destruct (N.eqb k t) eqn:Ek; [|reflexivity]. apply N.eqb_eq in Ek. subst. unfold rstat. rewrite E. reflexivity.
Qed.

Lemma retrier_set_status_tasks s t st : f_tasks (retrier_set_status s t st) = f_tasks s.
Proof. unfold retrier_set_status. destruct (aget (f_mgr s) t); reflexivity. Qed.
Lemma retrier_clear_tasks s t : f_tasks (retrier_clear s t) = f_tasks s.
Proof. unfold retrier_clear. destruct (aget (f_mgr s) t); reflexivity. Qed.

(* ending the task of t: whatever the new status of t's retrier *)
Lemma TaskInv_end_task s s' t :
  TaskInv s -> f_tasks s' = f_tasks s -> (forall k, k <> t -> rstat s' k = rstat s k) -> TaskInv (end_task s' t).
Proof.
  intros [A B] E1 E2. destruct (remove_one_NoDup t (f_tasks s) A) as [N1 N2]. split.
  - cbn. rewrite E1. exact N1.
  - intros k Hk. cbn in Hk. rewrite E1 in Hk.
    assert (k <> t) by (intros ->; contradiction).
    change (rstat (end_task s' t) k) with (rstat s' k). rewrite E2 by assumption. apply B. eapply remove_one_In, Hk.
Qed.

Lemma TaskInv_task_step s t r more : TaskInv s -> TaskInv (fst (task_step s t r more)).
Proof.
  intros HT. unfold task_step. destruct r as [|e|site|].
  - cbn [fst]. apply (TaskInv_end_task s); [exact HT|rewrite retrier_set_status_tasks; reflexivity|].
    intros k Hk. rewrite rstat_retrier_set_status. apply N.eqb_neq in Hk. rewrite Hk. reflexivity.
  - destruct (negb (is_permanent e) && more); [exact HT|].
    set (s1 := if is_permanent e then retrier_set_status s t RFailed else s).
    assert (H1 : f_tasks s1 = f_tasks s /\ forall k, k <> t -> rstat s1 k = rstat s k).
    { unfold s1. destruct (is_permanent e); [|split; reflexivity]. split.
      - apply retrier_set_status_tasks.
      - intros k Hk. rewrite rstat_retrier_set_status. apply N.eqb_neq in Hk. rewrite Hk. reflexivity. }
    destruct H1 as [H1 H2].
    destruct e as [[|]| |l|]; cbn [fst].
    + apply (TaskInv_end_task s); [exact HT|exact H1|exact H2].
    + apply (TaskInv_end_task s); [exact HT| |].
      * rewrite retrier_clear_tasks, retrier_set_status_tasks. exact H1.
      * intros k Hk. rewrite rstat_retrier_clear, rstat_retrier_set_status. apply N.eqb_neq in Hk. rewrite Hk.
        apply N.eqb_neq in Hk. apply (H2 k Hk).
    + apply (TaskInv_end_task s); [exact HT| |].
      * rewrite retrier_clear_tasks, retrier_set_status_tasks. exact H1.
      * intros k Hk. rewrite rstat_retrier_clear, rstat_retrier_set_status. apply N.eqb_neq in Hk. rewrite Hk.
        apply N.eqb_neq in Hk. apply (H2 k Hk).
    + destruct (wt_flag_misbehaving_tower _ _ _ _ _ _ _) as [c2 r2]. destruct (lift_site r2); cbn [fst];
        (apply (TaskInv_end_task s); [exact HT|exact H1|exact H2]).
    + apply (TaskInv_end_task s); [exact HT|exact H1|exact H2].
  - cbn [fst]. apply (TaskInv_end_task s); [exact HT|reflexivity|reflexivity].
  - exact HT.
Qed.

Lemma TaskInv_retrier_run t : forall atts s, TaskInv s -> TaskInv (fst (f_retrier_run s t atts)).
Proof.
  induction atts as [|a atts IH]; intros s HT; cbn [f_retrier_run]; [exact HT|].
  destruct (negb (memN t (f_tasks s))); [exact HT|].
  pose proof (run_attempt_same s t a) as Hs. destruct (run_attempt s t a) as [s1 r]. cbn [fst] in Hs.
  pose proof (TaskInv_task_step s1 t r (at_more a) (TaskInv_same_tasks _ _ Hs HT)) as H2.
  destruct (task_step s1 t r (at_more a)) as [s2 o]. cbn [fst] in H2.
  destruct o; try exact H2. destruct atts; [exact H2|]. apply IH. exact H2.
Qed.

Lemma TaskInv_restart s d : TaskInv (restart_with s d).
Proof. split; [constructor|]. intros t []. Qed.

Lemma TaskInv_init : TaskInv f_init.
Proof. split; [constructor|]. intros t []. Qed.

Lemma TaskInv_fstep s o : TaskInv s -> TaskInv (fst (fstep s o)).
Proof.
  intros HT. destruct o; cbn [fstep].
  - destruct (f_register_mgr s t t rp) as [A B]. apply (TaskInv_same s); [exact A| |exact HT]. intros k. unfold rstat. rewrite B. reflexivity.
  - destruct (f_revocation_mgr s l order replies) as [A B]. apply (TaskInv_same s); [exact A| |exact HT]. intros k. unfold rstat. rewrite B. reflexivity.
  - apply TaskInv_manager_tick, HT.
  - pose proof (TaskInv_retrier_run t atts s HT) as H. destruct (f_retrier_run s t atts). exact H.
  - destruct (f_manual_retry_mgr s t) as [A B]. apply (TaskInv_same s); [exact A| |exact HT]. intros k. unfold rstat. rewrite B. reflexivity.
  - destruct (f_abandon_mgr s t) as [A B]. apply (TaskInv_same s); [exact A| |exact HT]. intros k. unfold rstat. rewrite B. reflexivity.
  - apply TaskInv_restart.
Qed.

Lemma TaskInv_frun ops : forall s, TaskInv s -> TaskInv (frun s ops).
Proof. induction ops as [|o ops IH]; intros s HT; cbn; [exact HT|]. apply IH, TaskInv_fstep, HT. Qed.

(* C13 single_retrier *)
Theorem single_retrier ops :
  let s := frun f_init ops in
  NoDup (f_tasks s) /\ (forall t, In t (f_tasks s) -> rstat s t = Some RRunning).
Proof. exact (TaskInv_frun ops f_init TaskInv_init). Qed.

(* ... and the manager only ever starts a retrier that is Stopped: every tower `started` by a sweep had a Stopped
   retrier (with data) in the state the sweep ran on, and no live task *)
Lemma sweep_started_stopped elapsed : forall keys s started woke s' started' woke' o,
  sweep s keys elapsed started woke = (s', started', woke', o) ->
  (forall t, In t started -> In t keys -> False) -> NoDup keys ->
  forall t, In t started' -> In t started \/ (In t keys /\ exists r, aget (f_mgr s) t = Some r /\ should_start r = true).
Proof.
  induction keys as [|k keys IH]; intros s started woke s' started' woke' o H Hd Hn t Ht; cbn in H.
  - inversion H. subst. left. exact Ht.
  - inversion Hn as [|? ? Hk Hn']. subst.
    assert (Hother : forall s1 r1, (forall x, x <> k -> aget (f_mgr s1) x = aget (f_mgr s) x) ->
              forall started1 woke1, sweep s1 keys elapsed started1 woke1 = (s', started', woke', o) ->
              (forall x, In x started1 -> In x started \/ (x = k /\ aget (f_mgr s) k = Some r1 /\ should_start r1 = true)) ->
              In t started \/ (In t (k :: keys) /\ exists r, aget (f_mgr s) t = Some r /\ should_start r = true)).
    { intros s1 r1 Hsame started1 woke1 Hsw Hst.
      assert (Hd1 : forall x, In x started1 -> In x keys -> False).
      { intros x Hx Hxk. destruct (Hst x Hx) as [Hx'|[-> _]]; [apply (Hd x Hx'); right; exact Hxk|contradiction]. }
      destruct (IH s1 started1 woke1 s' started' woke' o Hsw Hd1 Hn' t Ht) as [Hin|[Hin [r [Hr Hss]]]].
      - destruct (Hst t Hin) as [Hx|[-> [Hr Hss]]]; [left; exact Hx|]. right. split; [left; reflexivity|]. exists r1. split; assumption.
      - right. split; [right; exact Hin|]. exists r. split; [|exact Hss]. rewrite <- Hsame; [exact Hr|]. intros ->. contradiction. }
    destruct (aget (f_mgr s) k) as [r|] eqn:E.
    + destruct (should_start r) eqn:Ess.
      * destruct (retrier_start s k r) as [s1 [site|]] eqn:Es.
        -- inversion H. subst. left. exact Ht.
        -- eapply (Hother s1 r); [|exact H|].
           ++ intros x Hx. unfold retrier_start in Es. destruct (aget (c_towers (f_c s)) k); [|discriminate].
              inversion Es. cbn. apply aget_aset_other. exact Hx.
           ++ intros x Hx. apply in_app_or in Hx. destruct Hx as [Hx|[<-|[]]]; [left; exact Hx|]. right. repeat split; assumption.
      * destruct (is_idle (r_status r) && memN k elapsed).
        -- eapply (Hother (wake s k r) r); [|exact H|intros x Hx; left; exact Hx].
           intros x Hx. unfold wake. cbn. apply aget_aset_other. exact Hx.
        -- eapply (Hother s r); [reflexivity|exact H|intros x Hx; left; exact Hx].
    + eapply (Hother s (mk_retrier RStopped [])); [reflexivity|exact H|intros x Hx; left; exact Hx].
Qed.
